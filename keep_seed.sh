#!/bin/bash
# usage: keep_seed.sh <src dir> <id> "<caught by / notes>"   — stores a validated seeded change under /verif/seeded/<id>/
set -e
SRC=$1; ID=$2; NOTE=$3
mkdir -p /verif/seeded/$ID
cp $SRC/patch.diff $SRC/*_test.go /verif/seeded/$ID/
python3 - "$SRC/meta.json" "/verif/seeded/$ID/meta.json" "$NOTE" <<'PY'
import json,sys
m=json.load(open(sys.argv[1]))
m['validated']={"by":"validate_seed.sh in a scratch worktree of /repo HEAD","ran":["go build ./...","go test -vet=off -count=1 ./... (with change: all packages ok)","demo without change: ok","demo with change: FAIL","bin/gabilint -prop "+m['property']+" on the changed tree"]}
m['checker_result']=sys.argv[3]
json.dump(m,open(sys.argv[2],'w'),indent=1)
PY
