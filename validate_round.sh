#!/bin/bash
# usage: validate_round.sh <dir with <Cnn>-<n>/ deliveries> <scratch dir for logs> — validates every delivery in parallel and prints one summary line each
OUT=$1; VAL=$2; mkdir -p $VAL
for d in $OUT/C[0-9][0-9]-[0-9]; do [ -f $d/patch.diff ] && [ ! -f $VAL/$(basename $d).txt ] && echo $d; done | xargs -r -P 5 -I{} bash -c 'n=$(basename {}); /verif/validate_seed.sh {} > '$VAL'/$n.txt 2>&1'
for f in $VAL/*.txt; do n=$(basename $f .txt); a=$(grep -A1 "demo WITHOUT" $f | tail -1 | cut -c1-4); b=$(grep -A1 "demo WITH change" $f | tail -1 | cut -c1-4); s=$(sed -n '/suite WITH/,/suite done/p' $f | grep -c FAIL); c=$(grep -c "^VIOLATION" $f); echo "$n without=$a with=$b suitefails=$s violation=$c :: $(grep -E '^\s+(VIOLATED|UNDECIDED)' $f | awk '{print $2}' | head -3 | tr '\n' ' ')"; done
