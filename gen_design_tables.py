#!/usr/bin/env python3
# Rewrites the generated tables of DESIGN.md section 8 from seeded/*/meta.json, seeded/RESULTS.txt and mutants/.
import json,glob,os,re
res={}
if os.path.exists('/verif/seeded/RESULTS.txt'):
    for l in open('/verif/seeded/RESULTS.txt'):
        p=l.split()
        if len(p)>=2:
            rules=l.split('::')[0].split()[2:]
            first=l.split('::')[1].split()[:2] if '::' in l else []
            res[p[1]]=(p[0],rules,first)
rows=["| Seed | Change (summary) | Needs to manifest | Result on HEAD | Reported by |","|---|---|---|---|---|"]
for d in sorted(glob.glob('/verif/seeded/C*-*')):
    sid=os.path.basename(d); m=json.load(open(d+'/meta.json'))
    def cut(t,n): 
        t=' '.join(str(t).split()); t=t.replace('|','/')
        return t if len(t)<=n else t[:n-1]+'…'
    st,rules,first=res.get(sid,('?',[],[]))
    rep=', '.join(rules) if rules else (m.get('checker_result','') if st!='CAUGHT' else 'undecided obligations (fail)')
    if first: rep+=' — e.g. `'+first[0]+'`'
    rows.append(f"| {sid} | {cut(m.get('summary',''),260)} | {cut(m.get('needs_to_manifest',''),160)} | {st.lower()} | {rep} |")
mut=["| Property | Mutants (must be reported) | Controls (must be silent) |","|---|---|---|"]
for d in sorted(glob.glob('/verif/mutants/C*')):
    ms=[];cs=[]
    for k in sorted(glob.glob(d+'/*.kind')):
        n=os.path.basename(k)[:-5]
        (cs if open(k).read().strip()=='control' else ms).append(n)
    mut.append(f"| {os.path.basename(d)} | {len(ms)}: {', '.join(ms)} | {len(cs)}{': '+', '.join(cs) if cs else ''} |")
s=open('/verif/DESIGN.md').read()
def put(name,body):
    global s
    a=f'<!-- BEGIN generated: {name} -->'; b=f'<!-- END generated: {name} -->'
    i=s.index(a)+len(a); j=s.index(b)
    s=s[:i]+'\n'+body+'\n'+s[j:]
put('seeds','\n'.join(rows)); put('mutants','\n'.join(mut))
open('/verif/DESIGN.md','w').write(s)
print(len(rows)-2,'seeds',len(mut)-2,'mutant sets')
