#!/bin/bash
# usage: obldiff.sh <patch.diff> : obligations (rule/construct keys) present on /repo but absent on the patched tree, and vice versa
S=$(mktemp -d /tmp/obl.XXXX); trap 'rm -rf $S' EXIT
rsync -a --exclude .git /repo/ $S/t/; (cd $S/t && patch -p1 -s < $1) || exit 2
mkdir $S/a $S/b
/verif/bin/gabilint -repo /repo -prop all -evidence $S/a >/dev/null 2>&1
/verif/bin/gabilint -repo $S/t -prop all -evidence $S/b >/dev/null 2>&1
python3 - $S <<'P'
import json,sys,glob,os
S=sys.argv[1]
def keys(d):
    out=set()
    for f in glob.glob(d+'/*.json'):
        j=json.load(open(f))
        def walk(x):
            if isinstance(x,dict):
                if 'id' in x and 'status' in x: out.add(x['id'])
                for v in x.values(): walk(v)
            elif isinstance(x,list):
                for v in x: walk(v)
        walk(j)
    return out
a,b=keys(S+'/a'),keys(S+'/b')
print("head",len(a),"patched",len(b))
for k in sorted(a-b): print("  LOST",k)
for k in sorted(b-a): print("  NEW ",k)
P
