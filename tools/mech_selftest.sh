#!/bin/bash
# Self-test of the checker against mechanical behaviour-preserving rewrites (tools/mechrefactor): for every kind of
# rewrite and every site in /repo's non-test sources, one scratch copy with exactly that one rewrite is built and ALL
# rules are run on it. Every rewrite keeps the program's meaning (see mechrefactor/main.go), so every VIOLATED /
# UNDECIDED line is a false alarm. Nothing of /repo is executed. Scratch copies live under /tmp and are removed.
# usage: tools/mech_selftest.sh [kind ...]        (all kinds: ~1000 sites, 30-40 minutes on 8 cores)
cd "$(dirname "$0")/.."; ./build.sh
export PATH=/opt/veriftools/go1.26.8/bin:$PATH GOFLAGS=-mod=mod GOPROXY=off GOSUMDB=off GOTOOLCHAIN=local; unset GOWORK
[ -x bin/mechrefactor ] || (cd tools/mechrefactor && go build -o ../../bin/mechrefactor .)
kinds=${@:-swapelse mirror cmpswap splitor nestand demorgan tailinv namedcond}
one() {
  t=$1; k=$2
  S=$(mktemp -d /tmp/mechsel.XXXX); rsync -a --exclude .git /repo/ $S/
  f=$(/verif/bin/mechrefactor -dir $S -t $t -k $k 2>&1)
  if ! (cd $S && go build ./... 2>/dev/null); then echo "NOBUILD $t#$k $f"; rm -rf $S; return; fi
  out=$(${GABILINT:-/verif/bin/gabilint} -repo $S -prop all -evidence "" 2>&1 | grep -E "^\s+(VIOLATED|UNDECIDED)|load-failure" | cut -c1-240)
  if [ -z "$out" ]; then echo "SILENT $t#$k"; else echo "ALARM $t#$k $f"; echo "$out" | head -4 | sed 's/^/      /'; fi
  rm -rf $S
}
export -f one
for t in $kinds; do
  n=$(bin/mechrefactor -dir /repo -t $t -list)
  for k in $(seq 0 $((n-1))); do echo "$t $k"; done
done | xargs -P 8 -L 1 bash -c 'one "$0" "$1"' > /tmp/mech_selftest.out
echo "rewrites: $(grep -c '^[A-Z]' /tmp/mech_selftest.out) silent: $(grep -c '^SILENT' /tmp/mech_selftest.out) not-compiling(skipped): $(grep -c '^NOBUILD' /tmp/mech_selftest.out) alarms: $(grep -c '^ALARM' /tmp/mech_selftest.out)"
grep -A4 "^ALARM" /tmp/mech_selftest.out
