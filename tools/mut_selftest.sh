#!/bin/bash
# Detection self-test against small behaviour-changing edits (tools/mutgen): for every kind and every site of /repo's
# non-test sources one scratch copy with exactly that edit; those that compile are run through ALL rules.
# CAUGHT = some rule reports; MISSED = silent. What a MISSED edit means is decided by reading it (many sites are outside
# every listed property, many are killed by the test suite): tools/mut_survivors.sh runs the suite on the MISSED ones.
# usage: tools/mut_selftest.sh [kind ...]     output: /tmp/mut_selftest.out
cd "$(dirname "$0")/.."; ./build.sh
export PATH=/opt/veriftools/go1.26.8/bin:$PATH GOFLAGS=-mod=mod GOPROXY=off GOSUMDB=off GOTOOLCHAIN=local; unset GOWORK
[ -x bin/mutgen ] || (cd tools/mutgen && go build -o ../../bin/mutgen .)
kinds=${@:-bound dropcheck andor lastelem}
one() {
  t=$1; k=$2
  S=$(mktemp -d /tmp/mutsel.XXXX); rsync -a --exclude .git /repo/ $S/
  f=$(/verif/bin/mutgen -dir $S -t $t -k $k 2>&1)
  if ! (cd $S && go build ./... 2>/dev/null); then echo "NOBUILD $t#$k $f"; rm -rf $S; return; fi
  out=$(/verif/bin/gabilint -repo $S -prop all -evidence "" 2>&1 | grep -E "^\s+(VIOLATED|UNDECIDED)|load-failure" | cut -c1-160)
  if [ -z "$out" ]; then echo "MISSED $t#$k $f"; else echo "CAUGHT $t#$k $f :: $(echo "$out" | head -1)"; fi
  rm -rf $S
}
export -f one
for t in $kinds; do
  n=$(bin/mutgen -dir /repo -t $t -list)
  for k in $(seq 0 $((n-1))); do echo "$t $k"; done
done | xargs -P ${PAR:-8} -L 1 bash -c 'one "$0" "$1"' > /tmp/mut_selftest.out
echo "edits: $(grep -c '^[A-Z]' /tmp/mut_selftest.out) caught: $(grep -c '^CAUGHT' /tmp/mut_selftest.out) missed: $(grep -c '^MISSED' /tmp/mut_selftest.out) not-compiling: $(grep -c '^NOBUILD' /tmp/mut_selftest.out)"
