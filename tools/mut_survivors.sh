#!/bin/bash
# For the MISSED edits of tools/mut_selftest.sh (in /tmp/mut_selftest.out, optionally filtered by a path regex): does
# /repo's own test suite kill them? SURVIVES = compiles, passes the suite, and no rule reports it - to be read by a
# person: either no listed property covers the site, or it is a hole. Not part of any registered check (it runs tests).
# usage: tools/mut_survivors.sh [path-regex]   output: /tmp/mut_survivors.out
export PATH=/opt/veriftools/go1.26.8/bin:$PATH GOFLAGS=-mod=mod GOPROXY=off GOSUMDB=off GOTOOLCHAIN=local; unset GOWORK
one() { t=${1%%#*}; k=${1##*#}; S=$(mktemp -d /tmp/mutsurv.XXXX); rsync -a --exclude .git /repo/ $S/; f=$(/verif/bin/mutgen -dir $S -t $t -k $k)
  if (cd $S && timeout 1200 go test -vet=off -count=1 ./... >/dev/null 2>&1); then echo "SURVIVES $1 $f"; else echo "KILLED $1 $f"; fi; rm -rf $S; }
export -f one
grep "^MISSED" /tmp/mut_selftest.out | grep -E "${1:-.}" | awk '{print $2}' | xargs -P ${PAR:-4} -L 1 bash -c 'one "$0"' > /tmp/mut_survivors.out
echo "killed: $(grep -c '^KILLED' /tmp/mut_survivors.out) survive: $(grep -c '^SURVIVES' /tmp/mut_survivors.out)"
