// mutgen applies ONE small behaviour-CHANGING edit at ONE site of a Go source tree: a test generator for the
// checker's detection side (tools/mut_selftest.sh). Unlike mechrefactor, nothing here preserves meaning.
//
//	mutgen -dir D -t <kind> -list      number of sites
//	mutgen -dir D -t <kind> -k N       rewrite site N in place, print file:line
//
// kinds: bound      a < b <-> a <= b, a > b <-> a >= b          (boundary of a comparison)
//        dropcheck  if c { return ... }  (no else, no init)     -> statement removed (a validation dropped)
//        andor      a && b <-> a || b in an if condition
//        lastelem   i < len(x) -> i < len(x)-1 in a for condition (the last element is skipped)
//        argswap    f(a, b) -> f(b, a) for every pair of adjacent arguments (the compiler filters pairs of different types)
package main

import (
	"bytes"
	"flag"
	"fmt"
	"go/ast"
	"go/format"
	"go/parser"
	"go/token"
	"os"
	"path/filepath"
	"sort"
	"strings"
)

var bound = map[token.Token]token.Token{token.LSS: token.LEQ, token.LEQ: token.LSS, token.GTR: token.GEQ, token.GEQ: token.GTR}

func main() {
	dir := flag.String("dir", ".", "source tree")
	kind := flag.String("t", "", "mutation kind")
	list := flag.Bool("list", false, "print number of sites")
	k := flag.Int("k", -1, "site to rewrite")
	flag.Parse()
	var files []string
	filepath.Walk(*dir, func(p string, info os.FileInfo, err error) error {
		if err != nil {
			return nil
		}
		if info.IsDir() && (info.Name() == ".git" || info.Name() == "testdata") {
			return filepath.SkipDir
		}
		if strings.HasSuffix(p, ".go") && !strings.HasSuffix(p, "_test.go") {
			files = append(files, p)
		}
		return nil
	})
	sort.Strings(files)
	n := 0
	for _, f := range files {
		fset := token.NewFileSet()
		af, err := parser.ParseFile(fset, f, nil, parser.ParseComments)
		if err != nil {
			continue
		}
		changed := false
		var at token.Pos
		site := func(p token.Pos) bool {
			n++
			if !*list && n-1 == *k {
				at = p
				return true
			}
			return false
		}
		dropIn := func(l []ast.Stmt) []ast.Stmt {
			if *kind != "dropcheck" {
				return l
			}
			var out []ast.Stmt
			for _, s := range l {
				if ifs, ok := s.(*ast.IfStmt); ok && ifs.Else == nil && ifs.Init == nil && len(ifs.Body.List) >= 1 {
					if _, isRet := ifs.Body.List[len(ifs.Body.List)-1].(*ast.ReturnStmt); isRet && site(ifs.Pos()) {
						changed = true
						continue
					}
				}
				out = append(out, s)
			}
			return out
		}
		ast.Inspect(af, func(nd ast.Node) bool {
			switch x := nd.(type) {
			case *ast.BlockStmt:
				x.List = dropIn(x.List)
			case *ast.CaseClause:
				x.Body = dropIn(x.Body)
			case *ast.IfStmt:
				if *kind == "andor" {
					c := x.Cond
					if p, ok := c.(*ast.ParenExpr); ok {
						c = p.X
					}
					if b, ok := c.(*ast.BinaryExpr); ok && (b.Op == token.LAND || b.Op == token.LOR) && site(b.OpPos) {
						if b.Op == token.LAND {
							b.Op = token.LOR
						} else {
							b.Op = token.LAND
						}
						changed = true
					}
				}
			case *ast.ForStmt:
				if *kind == "lastelem" {
					if b, ok := x.Cond.(*ast.BinaryExpr); ok && b.Op == token.LSS {
						if c, isC := b.Y.(*ast.CallExpr); isC {
							if id, isI := c.Fun.(*ast.Ident); isI && id.Name == "len" && site(b.OpPos) {
								b.Y = &ast.BinaryExpr{X: b.Y, Op: token.SUB, Y: &ast.BasicLit{Kind: token.INT, Value: "1"}}
								changed = true
							}
						}
					}
				}
			case *ast.CallExpr:
				if *kind == "argswap" && x.Ellipsis == token.NoPos {
					for i := 0; i+1 < len(x.Args); i++ {
						// (identical texts swap to the same program; literals of different kinds rarely compile - let the compiler filter)
						if fmt.Sprint(x.Args[i]) == fmt.Sprint(x.Args[i+1]) {
							continue
						}
						if site(x.Args[i].Pos()) {
							x.Args[i], x.Args[i+1] = x.Args[i+1], x.Args[i]
							changed = true
						}
					}
				}
			case *ast.BinaryExpr:
				if *kind == "bound" {
					if o, ok := bound[x.Op]; ok && site(x.OpPos) {
						x.Op = o
						changed = true
					}
				}
			}
			return true
		})
		if changed {
			line := fset.Position(at).Line
			var buf bytes.Buffer
			if err := format.Node(&buf, fset, af); err != nil {
				fmt.Fprintln(os.Stderr, "format:", err)
				os.Exit(2)
			}
			if err := os.WriteFile(f, buf.Bytes(), 0644); err != nil {
				fmt.Fprintln(os.Stderr, err)
				os.Exit(2)
			}
			rel, _ := filepath.Rel(*dir, f)
			fmt.Printf("%s:%d\n", rel, line)
			return
		}
	}
	if *list {
		fmt.Println(n)
		return
	}
	fmt.Fprintln(os.Stderr, "no such site")
	os.Exit(1)
}
