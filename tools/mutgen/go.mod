module mutgen

go 1.26.8
