#!/usr/bin/env python3
# loopstart_mut.py <dir> list | <dir> apply <k> : the k-th "loop starts at 1 instead of 0" mutation of the non-test sources
import re,sys,os
d=sys.argv[1]
sites=[]
pats=[(re.compile(r'for (\w+) := 0; '), lambda m: 'for %s := 1; '%m.group(1)),
      (re.compile(r'for (\w+) := range ([^ {]+) \{'), lambda m: 'for %s := 1; %s < len(%s); %s++ {'%(m.group(1),m.group(1),m.group(2),m.group(1))),
      (re.compile(r'for (\w+), (\w+) := range ([^ {]+) \{'), lambda m: 'for %s := 1; %s < len(%s); %s++ { %s := %s[%s]; _ = %s;'%(m.group(1),m.group(1),m.group(3),m.group(1),m.group(2),m.group(3),m.group(1),m.group(2)))]
for root,ds,fs in os.walk(d):
    if '/.git' in root: continue
    for f in sorted(fs):
        if not f.endswith('.go') or f.endswith('_test.go'): continue
        p=os.path.join(root,f)
        for i,l in enumerate(open(p).read().split('\n')):
            for pi,(pat,rep) in enumerate(pats):
                m=pat.search(l)
                if m and m.group(1)!='_': sites.append((p,i,pi)); break
sites.sort()
if sys.argv[2]=='list': print(len(sites)); sys.exit(0)
p,i,pi=sites[int(sys.argv[3])]
ls=open(p).read().split('\n')
pat,rep=pats[pi]
ls[i]=pat.sub(rep,ls[i],1)
open(p,'w').write('\n'.join(ls))
print('%s:%d'%(os.path.relpath(p,d),i+1))
