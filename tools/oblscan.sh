#!/bin/bash
# usage: oblscan.sh <dir of <id>/patch.diff> : for every behaviour-preserving change, the obligations of /repo that
# are absent on the changed tree (a rule that no longer finds its construct passes vacuously).
cd /verif
S=$(mktemp -d /tmp/oblscan.XXXX); trap 'rm -rf $S' EXIT
mkdir $S/head; bin/gabilint -repo /repo -prop all -evidence $S/head >/dev/null 2>&1
rsync -a --exclude .git /repo/ $S/base/
one() { d=$1; S=$2; id=$(basename $d); cp -r $S/base $S/t.$id; if ! (cd $S/t.$id && patch -p1 -s --no-backup-if-mismatch < $d/patch.diff >/dev/null 2>&1); then echo "NOAPPLY $id"; rm -rf $S/t.$id; return; fi
  mkdir $S/e.$id; /verif/bin/gabilint -repo $S/t.$id -prop all -evidence $S/e.$id >/dev/null 2>&1
  python3 - $S/head $S/e.$id $id <<'P'
import json,sys,glob
def keys(d):
    out=set()
    for f in glob.glob(d+'/*.json'):
        for o in json.load(open(f))['coverage'].get('obligation_list',[]): out.add(o['id'])
    return out
a,b=keys(sys.argv[1]),keys(sys.argv[2])
lost=sorted(a-b); new=sorted(b-a)
print(sys.argv[3],"lost",len(lost),"new",len(new))
for k in lost: print("   LOST",k)
for k in new: print("   NEW ",k)
P
  rm -rf $S/t.$id $S/e.$id; }
export -f one
ls -d $1/C[0-9][0-9]-[0-9]* | xargs -P 8 -I{} bash -c "one {} $S"
