#!/bin/bash
# Self-test of the identifier-alias layer (checker/fieldalias.go): renames ONE unexported identifier at a time
# (every unexported function/method, type, struct field and package variable listed in checker/head_*.txt) in a
# scratch copy of /repo with `gofmt -r 'name -> nameRn'` over the identifier's package, rebuilds, and runs ALL rules.
# A pure rename cannot change behaviour, so every VIOLATED/UNDECIDED line is a false alarm of the checker.
# Renames that do not compile (the naive tool also renames same-named locals of other types) are skipped.
# Nothing in /repo is executed. Scratch copies live under /tmp and are removed.
# usage: tools/rename_selftest.sh [funcs|others|all]      (about 10 minutes for all on 8 cores)
cd "$(dirname "$0")/.."; ./build.sh
export PATH=/opt/veriftools/go1.26.8/bin:$PATH GOFLAGS=-mod=mod GOPROXY=off GOSUMDB=off GOTOOLCHAIN=local; unset GOWORK
one() {
  pkg=$1; name=$2; label=$3
  case $pkg in gabi) dir=.;; common) dir=internal/common;; *) dir=$pkg;; esac
  S=$(mktemp -d /tmp/rensel.XXXX); rsync -a --exclude .git /repo/ $S/
  (cd $S/$dir && for f in *.go; do gofmt -r "$name -> ${name}Rn" -w $f 2>/dev/null; done)
  if ! (cd $S && go build ./... 2>/dev/null); then echo "NOBUILD $label $pkg.$name"; rm -rf $S; return; fi
  out=$(${GABILINT:-/verif/bin/gabilint} -repo $S -prop all -evidence "" 2>&1 | grep -E "^\s+(VIOLATED|UNDECIDED)|load-failure" | cut -c1-220)
  if [ -z "$out" ]; then echo "SILENT $label $pkg.$name"; else echo "ALARM $label $pkg.$name"; echo "$out" | head -4 | sed 's/^/      /'; fi
  rm -rf $S
}
export -f one
what=${1:-all}
{
  if [ $what != others ]; then grep -v "^#" checker/head_funcs.txt | cut -f1 | awk '{k=$1; p=k; sub(/\..*/,"",p); n=k; sub(/.*\./,"",n); print p, n, "func"}'; fi
  if [ $what != funcs ]; then
    grep -v "^#" checker/head_types.txt | cut -f1 | sed 's/\./ /' | awk '{print $1, $2, "type"}'
    grep -v "^#" checker/head_globals.txt | cut -f1 | sed 's/\./ /' | awk '{print $1, $2, "global"}'
    grep -v "^#" checker/head_fields.txt | grep -v "^var:" | awk -F'\t' '{split($1,a,"."); print a[1], $2, "field"}' | sort -u
  fi
} | xargs -P 8 -L 1 bash -c 'one "$0" "$1" "$2"' | sort > /tmp/rename_selftest.out
echo "renames: $(grep -c . /tmp/rename_selftest.out) silent: $(grep -c '^SILENT' /tmp/rename_selftest.out) not-compiling(skipped): $(grep -c '^NOBUILD' /tmp/rename_selftest.out) alarms: $(grep -c '^ALARM' /tmp/rename_selftest.out)"
grep -A4 "^ALARM" /tmp/rename_selftest.out
rm -f /tmp/rename_selftest.out
