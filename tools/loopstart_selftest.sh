#!/bin/bash
# Self-test against "the loop starts at the second element" mutations: every counted or range loop of /repo's non-test
# sources is rewritten to start at index 1, one per scratch copy; those that still compile are run through ALL rules.
# Output lists which are reported (CAUGHT) and which are not (MISSED: loops no rule speaks about, or a hole).
cd "$(dirname "$0")/.."; ./build.sh
export PATH=/opt/veriftools/go1.26.8/bin:$PATH GOFLAGS=-mod=mod GOPROXY=off GOSUMDB=off GOTOOLCHAIN=local; unset GOWORK
one() {
  k=$1
  S=$(mktemp -d /tmp/loopsel.XXXX); rsync -a --exclude .git /repo/ $S/
  f=$(python3 /verif/tools/loopstart_mut.py $S apply $k 2>&1)
  if ! (cd $S && go build ./... 2>/dev/null); then echo "NOBUILD #$k $f"; rm -rf $S; return; fi
  out=$(/verif/bin/gabilint -repo $S -prop all -evidence "" 2>&1 | grep -E "^\s+(VIOLATED|UNDECIDED)|load-failure" | cut -c1-160)
  if [ -z "$out" ]; then echo "MISSED #$k $f"; else echo "CAUGHT #$k $f :: $(echo "$out" | head -1)"; fi
  rm -rf $S
}
export -f one
n=$(python3 tools/loopstart_mut.py /repo list)
seq 0 $((n-1)) | xargs -P 8 -L 1 bash -c 'one "$0"' > /tmp/loopstart_selftest.out
echo "loops: $n caught: $(grep -c '^CAUGHT' /tmp/loopstart_selftest.out) missed: $(grep -c '^MISSED' /tmp/loopstart_selftest.out) not-compiling: $(grep -c '^NOBUILD' /tmp/loopstart_selftest.out)"
grep "^MISSED" /tmp/loopstart_selftest.out | sort -t'#' -k2 -n
