module mechrefactor

go 1.26.8
