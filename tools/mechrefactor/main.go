// mechrefactor applies ONE mechanical, behaviour-preserving rewrite at ONE site of a Go source tree.
// It is a test generator for the checker's "no alarm on unchanged behaviour" side: every rewrite below keeps the
// meaning of the program (operands that are swapped or duplicated are free of calls; duplicated statement lists
// end in return/continue/break/panic), so any report of the checker on the rewritten tree is a false alarm.
//
//	mechrefactor -dir D -t <kind> -list          print the number of sites
//	mechrefactor -dir D -t <kind> -k N           rewrite site N in place (file is reformatted)
//
// kinds: swapelse   if c {A} else {B}            -> if !c {B} else {A}
//        mirror     a OP lit/ident               -> lit/ident OP' a          (comparisons)
//        cmpswap    a.Cmp(b) OP 0                -> b.Cmp(a) OP' 0           (a, b without calls)
//        splitor    if a || b {S; return}        -> if a {S; return}; if b {S; return}
//        nestand    if a && b {S}                -> if a { if b {S} }
//        demorgan   if a || b / a && b           -> if !(!a && !b) / !(!a || !b)
//        tailinv    if c {return X}; return Y    -> if !c {return Y}; return X  (last two statements of a block)
//        namedcond  if c {..}                    -> cond := c; if cond {..}   (c a comparison or &&/||, no init)
package main

import (
	"bytes"
	"flag"
	"fmt"
	"go/ast"
	"go/format"
	"go/parser"
	"go/token"
	"os"
	"path/filepath"
	"sort"
	"strings"
)

var flip = map[token.Token]token.Token{token.LSS: token.GTR, token.GTR: token.LSS, token.LEQ: token.GEQ, token.GEQ: token.LEQ, token.EQL: token.EQL, token.NEQ: token.NEQ}
var neg = map[token.Token]token.Token{token.LSS: token.GEQ, token.GEQ: token.LSS, token.GTR: token.LEQ, token.LEQ: token.GTR, token.EQL: token.NEQ, token.NEQ: token.EQL}

func hasCall(e ast.Expr) bool {
	found := false
	ast.Inspect(e, func(n ast.Node) bool {
		switch n.(type) {
		case *ast.CallExpr, *ast.FuncLit, *ast.UnaryExpr:
			if u, ok := n.(*ast.UnaryExpr); ok && u.Op != token.ARROW {
				return true
			}
			found = true
		}
		return true
	})
	return found
}

func negate(e ast.Expr) ast.Expr {
	switch x := e.(type) {
	case *ast.ParenExpr:
		return negate(x.X)
	case *ast.UnaryExpr:
		if x.Op == token.NOT {
			return x.X
		}
	case *ast.BinaryExpr:
		if n, ok := neg[x.Op]; ok {
			return &ast.BinaryExpr{X: x.X, Op: n, Y: x.Y}
		}
		return &ast.UnaryExpr{Op: token.NOT, X: &ast.ParenExpr{X: x}}
	}
	return &ast.UnaryExpr{Op: token.NOT, X: e}
}

func terminating(b *ast.BlockStmt) bool {
	if len(b.List) == 0 {
		return false
	}
	switch s := b.List[len(b.List)-1].(type) {
	case *ast.ReturnStmt:
		return true
	case *ast.BranchStmt:
		return s.Tok == token.CONTINUE || s.Tok == token.BREAK
	case *ast.ExprStmt:
		if c, ok := s.X.(*ast.CallExpr); ok {
			if id, ok := c.Fun.(*ast.Ident); ok && id.Name == "panic" {
				return true
			}
		}
	}
	return false
}

func isBoolOp(e ast.Expr, op token.Token) (*ast.BinaryExpr, bool) {
	if p, ok := e.(*ast.ParenExpr); ok {
		e = p.X
	}
	b, ok := e.(*ast.BinaryExpr)
	return b, ok && b.Op == op
}

func simple(e ast.Expr) bool {
	switch x := e.(type) {
	case *ast.BasicLit, *ast.Ident:
		return true
	case *ast.SelectorExpr:
		return simple(x.X)
	}
	return false
}

// declares: the block declares names (short var decl, var, labels) - duplicating it is still fine, nesting too.
func main() {
	dir := flag.String("dir", ".", "source tree")
	kind := flag.String("t", "", "rewrite kind")
	list := flag.Bool("list", false, "print number of sites")
	k := flag.Int("k", -1, "site to rewrite")
	flag.Parse()
	var files []string
	filepath.Walk(*dir, func(p string, info os.FileInfo, err error) error {
		if err != nil {
			return nil
		}
		if info.IsDir() && (info.Name() == ".git" || info.Name() == "testdata") {
			return filepath.SkipDir
		}
		if strings.HasSuffix(p, ".go") && !strings.HasSuffix(p, "_test.go") {
			files = append(files, p)
		}
		return nil
	})
	sort.Strings(files)
	n := 0
	for _, f := range files {
		fset := token.NewFileSet()
		af, err := parser.ParseFile(fset, f, nil, parser.ParseComments)
		if err != nil {
			continue
		}
		changed := false
		site := func() bool { // returns true if this is the site to rewrite
			n++
			return !*list && n-1 == *k
		}
		var visitBlock func(list []ast.Stmt) []ast.Stmt
		rewriteStmt := func(s ast.Stmt) []ast.Stmt {
			ifs, ok := s.(*ast.IfStmt)
			if !ok {
				return nil
			}
			switch *kind {
			case "swapelse":
				if eb, ok := ifs.Else.(*ast.BlockStmt); ok && site() {
					ifs.Cond, ifs.Body, ifs.Else = negate(ifs.Cond), eb, ifs.Body
					changed = true
				}
			case "splitor":
				if b, ok := isBoolOp(ifs.Cond, token.LOR); ok && ifs.Else == nil && ifs.Init == nil && terminating(ifs.Body) && site() {
					changed = true
					return []ast.Stmt{&ast.IfStmt{Cond: b.X, Body: ifs.Body}, &ast.IfStmt{Cond: b.Y, Body: ifs.Body}}
				}
			case "nestand":
				if b, ok := isBoolOp(ifs.Cond, token.LAND); ok && ifs.Else == nil && site() {
					changed = true
					inner := &ast.IfStmt{Cond: b.Y, Body: ifs.Body}
					ifs.Cond, ifs.Body = b.X, &ast.BlockStmt{List: []ast.Stmt{inner}}
				}
			case "demorgan":
				if b, ok := isBoolOp(ifs.Cond, token.LOR); ok && site() {
					changed = true
					ifs.Cond = &ast.UnaryExpr{Op: token.NOT, X: &ast.ParenExpr{X: &ast.BinaryExpr{X: parenIf(negate(b.X)), Op: token.LAND, Y: parenIf(negate(b.Y))}}}
				} else if b, ok := isBoolOp(ifs.Cond, token.LAND); ok && site() {
					changed = true
					ifs.Cond = &ast.UnaryExpr{Op: token.NOT, X: &ast.ParenExpr{X: &ast.BinaryExpr{X: parenIf(negate(b.X)), Op: token.LOR, Y: parenIf(negate(b.Y))}}}
				}
			case "namedcond":
				if ifs.Init == nil {
					if _, isBin := ifs.Cond.(*ast.BinaryExpr); isBin && site() {
						changed = true
						id := ast.NewIdent("condZz")
						as := &ast.AssignStmt{Lhs: []ast.Expr{id}, Tok: token.DEFINE, Rhs: []ast.Expr{ifs.Cond}}
						ifs.Cond = ast.NewIdent("condZz")
						// scope the name: wrap in a block
						return []ast.Stmt{&ast.BlockStmt{List: []ast.Stmt{as, ifs}}}
					}
				}
			}
			return nil
		}
		visitBlock = func(list []ast.Stmt) []ast.Stmt {
			var out []ast.Stmt
			for i := 0; i < len(list); i++ {
				s := list[i]
				if *kind == "tailinv" && i == len(list)-2 {
					if ifs, ok := s.(*ast.IfStmt); ok && ifs.Else == nil && ifs.Init == nil && len(ifs.Body.List) == 1 {
						r1, ok1 := ifs.Body.List[0].(*ast.ReturnStmt)
						r2, ok2 := list[i+1].(*ast.ReturnStmt)
						if ok1 && ok2 && site() {
							changed = true
							out = append(out, &ast.IfStmt{Cond: negate(ifs.Cond), Body: &ast.BlockStmt{List: []ast.Stmt{r2}}}, r1)
							break
						}
					}
				}
				if rep := rewriteStmt(s); rep != nil {
					out = append(out, rep...)
					continue
				}
				out = append(out, s)
			}
			return out
		}
		ast.Inspect(af, func(nd ast.Node) bool {
			switch x := nd.(type) {
			case *ast.BlockStmt:
				x.List = visitBlock(x.List)
			case *ast.CaseClause:
				x.Body = visitBlock(x.Body)
			case *ast.CommClause:
				x.Body = visitBlock(x.Body)
			case *ast.BinaryExpr:
				switch *kind {
				case "mirror":
					if fl, ok := flip[x.Op]; ok && simple(x.Y) && !simple(x.X) && site() {
						x.X, x.Y, x.Op = x.Y, x.X, fl
						changed = true
					}
				case "cmpswap":
					if fl, ok := flip[x.Op]; ok {
						if c, isC := x.X.(*ast.CallExpr); isC && len(c.Args) == 1 {
							if sel, isS := c.Fun.(*ast.SelectorExpr); isS && sel.Sel.Name == "Cmp" && !hasCall(sel.X) && !hasCall(c.Args[0]) {
								if lit, isL := x.Y.(*ast.BasicLit); isL && lit.Value == "0" && site() {
									sel.X, c.Args[0] = c.Args[0], sel.X
									x.Op = fl
									changed = true
								}
							}
						}
					}
				}
			}
			return true
		})
		if changed {
			var buf bytes.Buffer
			if err := format.Node(&buf, fset, af); err != nil {
				fmt.Fprintln(os.Stderr, "format:", err)
				os.Exit(2)
			}
			if err := os.WriteFile(f, buf.Bytes(), 0644); err != nil {
				fmt.Fprintln(os.Stderr, err)
				os.Exit(2)
			}
			rel, _ := filepath.Rel(*dir, f)
			fmt.Println("rewrote", rel)
			return
		}
	}
	if *list {
		fmt.Println(n)
		return
	}
	fmt.Fprintln(os.Stderr, "no such site")
	os.Exit(1)
}

func parenIf(e ast.Expr) ast.Expr {
	if b, ok := e.(*ast.BinaryExpr); ok && (b.Op == token.LAND || b.Op == token.LOR) {
		return &ast.ParenExpr{X: e}
	}
	return e
}
