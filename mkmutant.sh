#!/bin/bash
# usage: mkmutant.sh <Cnn> <name> <file> <sed-expr> <expected obligation id prefixes, comma separated> [kind]
# creates mutants/<Cnn>/<name>.patch (+ .expect) from a sed edit of /repo's current tree; checks it compiles
# and that the checker reports the expected obligation. kind=control: behaviour-preserving edit, expect silence.
set -e
export PATH=/opt/veriftools/go1.26.8/bin:$PATH GOFLAGS=-mod=mod GOPROXY=off GOSUMDB=off GOTOOLCHAIN=local GOWORK=off
PROP=$1; NAME=$2; FILE=$3; SED=$4; EXPECT=$5; KIND=${6:-mutant}
S=$(mktemp -d /tmp/gabimut.XXXXXX); trap 'rm -rf $S' EXIT
rsync -a --exclude .git /repo/ $S/a/; rsync -a --exclude .git /repo/ $S/b/
if [ -f "$SED" ]; then python3 "$SED" $S/b/$FILE; else sed -i -E "$SED" $S/b/$FILE; fi
if diff -q $S/a/$FILE $S/b/$FILE >/dev/null; then echo "NO CHANGE for $NAME"; exit 1; fi
(cd $S/b && go build ./... ) || { echo "DOES NOT COMPILE: $NAME"; exit 1; }
mkdir -p mutants/$PROP
(cd $S && diff -u a/$FILE b/$FILE | sed "s#^--- a/#--- a/#; s#^+++ b/#+++ b/#" > /verif/mutants/$PROP/$NAME.patch) || true
echo "$EXPECT" > mutants/$PROP/$NAME.expect
echo "$KIND" > mutants/$PROP/$NAME.kind
if [ "$KIND" = control ]; then
  if bin/gabilint -repo $S/b -prop $PROP -evidence "" -findings /verif/known_findings.json >$S/out 2>&1; then echo "OK control $PROP/$NAME silent"; else echo "FALSE ALARM on control $PROP/$NAME"; grep -E "VIOLATED|UNDECIDED" $S/out | cut -c1-220; exit 1; fi
else
  if bin/gabilint -repo $S/b -prop $PROP -evidence "" -findings /verif/known_findings.json -expect "$EXPECT" >$S/out 2>&1; then echo "OK mutant $PROP/$NAME caught: $EXPECT"; else echo "MISSED $PROP/$NAME"; grep -E "VIOLATED|UNDECIDED|SELFTEST" $S/out | cut -c1-220; exit 1; fi
fi
