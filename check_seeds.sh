#!/bin/bash
# Applies every stored seeded change (seeded/<id>/patch.diff) to its own scratch copy of /repo's current tree and
# runs the property's check on it. Prints one line per seed: CAUGHT <id> <obligations> | MISSED <id> | NOAPPLY <id>.
cd "$(dirname "$0")"
./build.sh >/dev/null
S=$(mktemp -d /tmp/gabiseeds.XXXXXX); trap 'rm -rf "$S"' EXIT
rsync -a --exclude .git /repo/ $S/base/
one() {
  d=$1; S=$2; id=$(basename $d)
  prop=$(python3 -c "import json;print(json.load(open('$d/meta.json'))['property'])")
  cp -r $S/base $S/$id
  if ! (cd $S/$id && patch -p1 -s --no-backup-if-mismatch < /verif/$d/patch.diff >/dev/null 2>&1); then echo "NOAPPLY $id"; rm -rf $S/$id; return; fi
  /verif/bin/gabilint -repo $S/$id -prop $prop -evidence "" -findings /verif/known_findings.json > $S/$id.out 2>&1
  if grep -q "^VIOLATION" $S/$id.out; then
    echo "CAUGHT $id $(grep -E '^\s+(VIOLATED|UNDECIDED)' $S/$id.out | awk '{print $2}' | cut -d/ -f1 | sort -u | tr '\n' ' ') :: $(grep -E '^\s+VIOLATED' $S/$id.out | head -3 | awk '{print $2}' | tr '\n' ' ')"
  else echo "MISSED $id"; fi
  rm -rf $S/$id $S/$id.out
}
export -f one
ls -d seeded/*/ | sed 's#/$##' | xargs -P 8 -I{} bash -c "one {} $S" | sort -k2
