#!/usr/bin/env python3
# Regenerates MANIFEST.json from the table below (claimed checks) and properties.jsonl (everything else -> not_applicable).
import json
CLAIMED = {
 "C01": "Static decision, for all inputs and all paths, of the structural necessary conditions C01.a-g: challenge comparison on every accepting path, response range checks with exactly the specified bounds on every element, data dependence of the reconstructed Z on every proof field and key element, oversized-attribute hashing agreement at all sites, disjoint disclosed/hidden index sets. Soundness of the proof system itself is not decided.",
 "C02": "Static decision of C02.a-g: exact hashed sequence of createChallenge and HashCommit (marker iff signature session, count, values in order, whole digest), ProofList.Verify length checks and one expected challenge verified against every proof, in-order error-checked concatenation of contributions, every Proof implementation compares its own C, argument roles at all createChallenge call sites, no map-ordered accumulation on challenge-feeding paths. Collision resistance of SHA-256/DER is assumed.",
 "C03": "Static decision of C03.a-d: every loop iteration of ProofList.Verify records-or-compares the secret-key response under the proof's label (label = keyshareServers[i] or the empty label), SecretKeyResponse() returns the exponent of R[0] in each implementation, key 0 can have no second response (ProofU.MUserResponses / ProofD.ADisclosed, disjoint index sets), both builders use the shared secretkey randomiser and the response is randomiser + challenge*secret as a symbolic term. That equal responses imply equal secrets (knowledge soundness) is not decided.",
 "C04": "Static decision of C04.a-d: taint of raw attribute values to every sink in CreateProof / TimestampRequestContributions / Commit (raw only under the same disclosed index, otherwise only as randomiser + challenge*value or into the range-proof committer), every hidden index gets a response and every disclosed index its unmodified value, every hidden index gets its own fresh randomiser, the complement helper appends exactly the non-members, and the ProofD literal's fields come from their tabled sources (symbolic terms). That the produced proof verifies, and statistical hiding, are not decided.",
 "C05": "Static decision of C05.a-f: CLSignature.Verify tests E against exactly [2^(Le-1), 2^(Le-1)+2^(LePrime-1)] and ProbablyPrime(k>=20) on every accepting path, compares pk.Z with a value depending on A, E, V, S, N, the caller's message block in the key's bases and KeyshareP iff present; the signer draws e from the same interval (RandomPrimeInRange's returned value is 2^start+offset as a symbolic term and primality-tested), v and A have their specified symbolic terms with checked inverses; Randomize has terms A*S^r mod N, V-E*r, copy of E, fresh r of LRA bits; RepresentToBases hashes oversized messages like the other sites. Unforgeability and completeness are not decided.",
 "C06": "Static decision of C06.a-h: ConstructCredential returns a credential only after ProofS.Verify with the builder's own pk/context/nonce2, signature verification over [secret, attributes...], witness verification and binding (NonrevIndex) when a witness is present; assembled signature and credential fields and V = msg.V + vPrime as symbolic terms; blind-attribute sums with bounds/nil checks on every share; ProofS.Verify and Issuer.proveSignature hash the same five roles with the specified terms; ProofU response range, C comparison and contribution dependences; blind index convention on both sides; the e-interval/primality test of the signature check. That honest runs succeed for every configuration is not decided.",
 "C07": "Static decision of the randomness-hygiene discipline C07.a-g: every tabled randomiser is the direct result of its own approved generator call of the specified length, drawn in the constructor (inside the loop for per-element randomisers); the three allowed writes to attrRandomizers; randomiser-holding objects never stored in long-lived state, NewProofCommit does not write through the shared witness; consume-once typestate of the prepared non-revocation commitment (owners, one send site, capacity 1, flows of the received builder); CPRNG counter touched by exactly one atomic.AddUint64 per Read with the block index derived from it and advanced once per iteration; per-object memoisation; distinct generator calls and limits (symbolic terms) in the revocation commitment. The consequence (no extractor succeeds over any pair of proofs and any schedule) and the quality of crypto/rand are not decided.",
 "C08": "Static decision of nil/bounds safety as a validated-before-use typestate (C08.a/b): every dereference or indexing of a nullable value loaded from ProofD, ProofU, revocation.Proof, rangeproof.Proof or SignedAccumulator in the call tree of ProofList.Verify, ProofD/ProofU.Verify and the exported VerifyWithChallenge/ChallengeContribution methods is preceded on every path from an entry point by a nil/bounds test on the same access path, a successful validator call (validators computed by must-pass analysis, including for-all-elements loops) or an assignment of a trusted value; contributions are computed from sub-proofs only after their structure check; name sets of lookups (C08.c); reachable explicit panics are tabled (C08.d); ProofList.UnmarshalJSON yields only non-nil proofs (C08.e). Access paths are type-rooted (instance-insensitive); panics inside the standard library on exotic values and resource exhaustion are not decided.",
 "C09": "Static decision of C09.a-f for Witness.Update and its helpers: commit-last (no store through the receiver can be followed by an error return), U replaced only after update verification, gcd test (ErrorRevoked on a common factor) and the final relation check on the stored value, with the Bezout update as a symbolic term; forward-only replacement (greater index, or same index and later time); window checks and product taken from our index+1; memo-key completeness of Update.Product(from) incl. Prepend; symbolic terms of Accumulator.Remove/newWitness/verify. The algebra itself and the abstract set-of-revoked-values model over histories are not decided.",
}
NA = {
 "C19": "every clause is a numerical result over unbounded integers (inverse, Legendre, CRT, square roots, four squares, modular reduction, primes in an interval); no sound static argument within this technique decides it (DESIGN.md section 4)",
}
PENDING = "not claimed yet: its static check is under construction (see DESIGN.md section 3 for the planned clauses)"
props=[json.loads(l)['id'] for l in open('/verif/properties.jsonl')]
checks=[]
for pid in props:
    if pid in CLAIMED:
        checks.append({
          "property_id": pid,
          "quick_cmd": f"./run_check.sh {pid} quick",
          "thorough_cmd": f"./run_check.sh {pid} thorough",
          "evidence_file": f"/verif/evidence/{pid}.json",
          "replay_cmd_template": f"./run_check.sh {pid} quick --only {{path}}",
          "engine": "gabilint",
          "level_claimed": {"category": "other", "text": CLAIMED[pid], "design_ref": f"DESIGN.md section 3, {pid}"},
          "level_note": "Trusted: go/types, go/ssa, the VTA call graph as an over-approximation of module-internal dynamic calls, documented behaviour of the standard library, and the oracle tables in /verif/checker (derived from the specification as implemented in gabikeys/sysparams.go; listed in DESIGN.md).",
          "technique": "static analysis: SSA must-pass-through path search, symbolic big.Int bound terms, abstract slice/sequence evaluation, interprocedural backward data dependence",
        })
na=[{"property_id":p,"reason":NA.get(p,PENDING)} for p in props if p not in CLAIMED]
m={
 "version":1,
 "setup_cmd":"./build.sh",
 "hooks":{"guard":"verif","enable":"none needed: the checks are static analyses of /repo's source; nothing in /repo is instrumented or executed","baseline_off_cmd":"cd /repo && PATH=/opt/veriftools/go1.26.8/bin:$PATH GOFLAGS=-mod=mod GOPROXY=off GOSUMDB=off GOTOOLCHAIN=local go test -vet=off -count=1 -timeout 25m ./...","source_commits":[],"add_only":True},
 "engines":[{"name":"gabilint","path":"checker","serves_properties":sorted(CLAIMED),"kind_free_text":"repository-specific static analyser over go/types + go/ssa + VTA call graph: must-pass-through path search, symbolic big.Int bound terms, sequence evaluation, interprocedural data dependence, typestate/ownership rules"}],
 "checks":checks,
 "not_applicable":na,
 "notes":"All checks decide properties from /repo's current source without executing it. Genuine defects found are repaired by 'fix:' commits in /repo or listed in known_findings.json."
}
json.dump(m,open('/verif/MANIFEST.json','w'),indent=1)
print("claimed",len(checks),"n/a",len(na))
