package main

import (
	"fmt"
	"go/types"
	"sort"
	"strings"

	"golang.org/x/tools/go/ssa"
)

// phiLeaves collects the non-phi leaves of a value through phi nodes.
// phiLeavesNN: as phiLeaves, with results of unexported helpers named by the (non-nil) value they return.
func phiLeavesNN(v ssa.Value) map[string]bool { return phiLeavesWith(v, descNN) }

func phiLeaves(v ssa.Value) map[string]bool { return phiLeavesWith(v, desc) }

func phiLeavesWith(v ssa.Value, desc func(ssa.Value) string) map[string]bool {
	out := map[string]bool{}
	seen := map[ssa.Value]bool{}
	var walk func(x ssa.Value)
	walk = func(x ssa.Value) {
		if seen[x] {
			return
		}
		seen[x] = true
		if p, ok := x.(*ssa.Phi); ok {
			for _, e := range p.Edges {
				walk(e)
			}
			return
		}
		out[desc(x)] = true
	}
	walk(v)
	return out
}

const skrDesc = "call:invoke:gabi.Proof.SecretKeyResponse(arg#0[#i])"

func init() {
	register("C03",
		Rule{ID: "C03.a", Explain: "ProofList.Verify: on every path through the loop body each proof's SecretKeyResponse() is either recorded under its label when the label was not seen before, or compared with the recorded one (unequal => reject); label = keyshareServers[i] when labels are given, the empty label otherwise.",
			Run: func(P *Program, R *Report) { secretKeyLinkRule(P, R) }},
		Rule{ID: "C03.b", Explain: "SecretKeyResponse() of every Proof implementation returns exactly the response that the implementation's reconstruction uses as exponent of the secret-key base R[0].",
			Run: func(P *Program, R *Report) { secretKeyResponseFieldRule(P, R) }},
		Rule{ID: "C03.c", Explain: "no second response for base 0: ProofU accept => key 0 not in MUserResponses; ProofD accept => key 0 not in ADisclosed (plus C01.g: disclosed/hidden disjoint).",
			Run: func(P *Program, R *Report) {
				noKeyZero(P, R, "C03.c", "gabi.ProofU.MUserResponses", "<gabi.ProofU>.MUserResponses", proofUParts(P, R, "C03.c"))
				noKeyZero(P, R, "C03.c", "gabi.ProofD.ADisclosed", "<gabi.ProofD>.ADisclosed", proofDParts(P, R, "C03.c"))
				ok, seen, details := disjointKeysCheck(P, proofDParts(P, R, "C03.c"))
				o := R.decide("C03.c", "gabi.ProofD:ADisclosed∩AResponses=∅", "accept => attribute 0 (and any other) cannot be split into a disclosed and a hidden part", ok, details, "")
				o.Analysed = seen
			}},
		Rule{ID: "C03.d", Explain: "both builders take the secret-key randomiser from randomizers[\"secretkey\"] in Commit, and the secret's response is exactly that randomiser + challenge*secret (symbolic term).",
			Run: func(P *Program, R *Report) { sharedRandomizerRule(P, R) }},
		Rule{ID: "C03.e", Explain: "the linked proofs that ProofList.Verify compares are proofs whose own structure was validated: every proof's ChallengeContribution error is tested and leads to rejection, and the challenge is computed from those contributions (the obligations of C02.c on the contributions, same rule) - a shadowed error lets a proof with an invalid structure take part in the secret-key comparison.",
			Run: func(P *Program, R *Report) {
				sharedRule(P, R, "C02", "C02.c", "C03.e", func(c string) bool {
					return strings.Contains(c, "error") || strings.Contains(c, "contributions")
				})
			}},
		Rule{ID: "C03.f", Explain: "every proof of a distributed session carries its own keyshare server's part: BuildDistributedProofList merges proof i with proofPs[i] (the obligations of C14.f, same rule) - merging another server's ProofP makes honest lists with two keyshare servers disagree on the secret-key response.",
			Run: func(P *Program, R *Report) { sharedRule(P, R, "C14", "C14.f", "C03.f", nil) }},
		Rule{ID: "C03.g", Explain: "the linked proofs answer one challenge, compared exactly: every Proof implementation compares its own C with the challenge it is given as integers (the obligations of C02.d, same rule) - a comparison of truncated encodings lets two proofs of one list answer challenges that differ by a multiple of 2^256, and with them responses for different secrets coincide.",
			Run: func(P *Program, R *Report) { sharedRule(P, R, "C02", "C02.d", "C03.g", nil) }},
		Rule{ID: "C03.h", Explain: "the secret-key response is bounded by the verifying key's own limit: every hidden response, the one for base 0 included, is tested against 2^(LmCommit+1) of that key (the obligations of C01.c on AResponses, same rule) - with a wider bound for base 0 a credential mauled to A*R_0^-1 links to a commitment to another secret.",
			Run: func(P *Program, R *Report) {
				sharedRule(P, R, "C01", "C01.c", "C03.h", func(c string) bool { return strings.Contains(c, "AResponses") })
			}},
	)
}

func secretKeyLinkRule(P *Program, R *Report) {
	rule := "C03.a"
	fn := mustFunc(P, R, rule, kListVerify)
	if fn == nil {
		return
	}
	// (descriptor based, so that the bookkeeping may live in a helper that receives the table, the label and
	// the response as parameters)
	keysUsed := map[string]bool{}
	mapsUsed := map[string]bool{}
	isTable := func(v ssa.Value) bool { return desc(v) == "makemap" }
	isStore := func(f *ssa.Function, i ssa.Instruction) bool {
		mu, ok := i.(*ssa.MapUpdate)
		if !ok || desc(mu.Value) != skrDesc || !isTable(mu.Map) {
			return false
		}
		keysUsed[desc(mu.Key)] = true
		mapsUsed[desc(mu.Map)] = true
		return true
	}
	isCompare := func(a Atom) bool {
		x, y, ok := parseEq(a)
		if !ok {
			return false
		}
		for _, pr := range [][2]ssa.Value{{x, y}, {y, x}} {
			if desc(pr[1]) != skrDesc {
				continue
			}
			lk := lookupOf(pr[0])
			if lk == nil || !isTable(lk.X) {
				continue
			}
			keysUsed[desc(lk.Index)] = true
			mapsUsed[desc(lk.X)] = true
			return true
		}
		return false
	}
	isUnseen := func(a Atom) bool {
		var lk *ssa.Lookup
		if ex, ok := a.V.(*ssa.Extract); ok && ex.Index == 1 && a.Want == False {
			lk, _ = ex.Tuple.(*ssa.Lookup)
		} else if a.Want == Nil {
			lk = lookupOf(a.V)
		}
		if lk == nil || !isTable(lk.X) {
			return false
		}
		keysUsed[desc(lk.Index)] = true
		mapsUsed[desc(lk.X)] = true
		return true
	}
	for _, part := range []struct {
		name, what string
		q           func() *MustPass
	}{
		{"record-or-compare", "every iteration records the secret-key response under its label or compares it with the recorded one", func() *MustPass {
			return &MustPass{Match: isCompare, Instr: isStore}
		}},
		{"record-only-if-unseen", "a response is recorded (not compared) only when its label has not been seen", func() *MustPass {
			return &MustPass{Match: anyOf(isCompare, isUnseen)}
		}},
	} {
		part := part
		fa := &ForAll{P: P, Spec: ForAllSpec{Coll: is("arg#0"), Body: func(f *ssa.Function, l *Loop) *MustPass { return part.q() }}}
		m := fa.inFn(fn, AcceptTrue(0))
		R.decide(rule, kListVerify+":"+part.name, part.what, m.holds, m.detail, P.Pos(fn.Pos()))
	}
	// the label
	var ks []string
	okLabel := len(keysUsed) > 0
	for k := range keysUsed {
		lv := leavesOfDesc(k)
		ks = append(ks, strings.Join(sortedKeys(lv), "|"))
		if !lv["arg#5[#i]"] {
			okLabel = false
		}
		for d := range lv {
			if d != "arg#5[#i]" && d != `""` {
				okLabel = false
			}
		}
	}
	sort.Strings(ks)
	R.decide(rule, kListVerify+":label", "the label of proof i is keyshareServers[i] when labels are given, else the empty label", okLabel && len(keysUsed) == 1,
		fmt.Sprintf("label values used: %v (%d distinct descriptors)", ks, len(keysUsed)), P.Pos(fn.Pos()))
	nMaps := 0
	allInstrs(fn, func(i ssa.Instruction) {
		if mm, ok := i.(*ssa.MakeMap); ok {
			if mt, ok := mm.Type().Underlying().(*types.Map); ok && isBigIntPtr(mt.Elem()) {
				nMaps++
			}
		}
	})
	R.decide(rule, kListVerify+":one-table", "one table of recorded responses, created in this call", len(mapsUsed) == 1 && nMaps == 1, fmt.Sprintf("%d tables used, %d created", len(mapsUsed), nMaps), P.Pos(fn.Pos()))
}

// leavesOfDesc: the alternatives of a phi descriptor `phi(a|b|...)` (the descriptor itself otherwise).
func leavesOfDesc(d string) map[string]bool {
	out := map[string]bool{}
	if strings.HasPrefix(d, "phi(") && strings.HasSuffix(d, ")") {
		depth := 0
		cur := ""
		for _, ch := range d[4 : len(d)-1] {
			switch {
			case ch == '(' || ch == '[':
				depth++
			case ch == ')' || ch == ']':
				depth--
			}
			if ch == '|' && depth == 0 {
				for k := range leavesOfDesc(cur) {
					out[k] = true
				}
				cur = ""
				continue
			}
			cur += string(ch)
		}
		for k := range leavesOfDesc(cur) {
			out[k] = true
		}
		return out
	}
	out[d] = true
	return out
}

func lookupOf(v ssa.Value) *ssa.Lookup {
	switch x := v.(type) {
	case *ssa.Lookup:
		return x
	case *ssa.Extract:
		if lk, ok := x.Tuple.(*ssa.Lookup); ok && x.Index == 0 {
			return lk
		}
	}
	return nil
}

func secretKeyResponseFieldRule(P *Program, R *Report) { secretKeyResponseFieldRuleFor(P, R, "C03.b") }

func secretKeyResponseFieldRuleFor(P *Program, R *Report, rule string) {
	impls := implementationsOf(P, "gabi", "Proof")
	R.decide(rule, "gabi.Proof:implementations", "at least the 2 known implementations", len(impls) >= 2, fmt.Sprintf("%d", len(impls)), "")
	for _, t := range impls {
		skr := mustFunc(P, R, rule, methodKey(t, "SecretKeyResponse"))
		cc := mustFunc(P, R, rule, methodKey(t, "ChallengeContribution"))
		if skr == nil || cc == nil {
			continue
		}
		var rets []string
		retSet := map[string]bool{}
		for _, r := range returnsOf(skr) {
			// a returned nil ("no such response") is not a field; a value returned through a comma-ok
			// lookup or a phi is described by its non-nil leaves
			for d := range phiLeaves(retValue(r, 0)) {
				if d != "nil" && !retSet[d] {
					retSet[d] = true
					rets = append(rets, d)
				}
			}
		}
		if len(rets) != 1 {
			R.und(rule, FuncKey(skr)+":field", "SecretKeyResponse returns one field", fmt.Sprint(rets), P.Pos(skr.Pos()))
			continue
		}
		field := rets[0]
		// find the exponentiation of R[0] on the reconstruction path
		found := false
		var seenExps []string
		scan := func(f *ssa.Function) {
			for _, c := range callsIn(f) {
				call, ok := c.(*ssa.Call)
				if !ok {
					continue
				}
				var base, exp ssa.Value
				if calleeIs(call, "common.ModPow") {
					base, exp = callArgs(call)[0], callArgs(call)[1]
				} else if bigMethod(call) == "Exp" {
					base, exp = callArgs(call)[1], callArgs(call)[2]
				} else {
					continue
				}
				bd, ed := desc(base), desc(exp)
				if bd == "<gabikeys.PublicKey>.R[0]" {
					seenExps = append(seenExps, ed)
					if ed == field {
						found = true
					}
				}
				// key-indexed loop: R[rangekey(X)] ^ X[*] covers X[0]
				if strings.HasPrefix(bd, "<gabikeys.PublicKey>.R[rangekey(") && strings.HasSuffix(field, "[0]") {
					coll := strings.TrimSuffix(field, "[0]")
					if bd == "<gabikeys.PublicKey>.R[rangekey("+coll+")]" {
						seenExps = append(seenExps, ed)
						if ed == coll+"[*]" {
							found = true
						}
					}
				}
			}
		}
		// (a power taken inside a local closure or helper is examined with its parameters bound to the call's arguments)
		for _, f := range P.reachableFuncs(cc) {
			deepVisit(P, f, 1, scan)
		}
		R.decide(rule, FuncKey(skr)+":field", "SecretKeyResponse() returns the response used as exponent of R[0] when reconstructing the commitment", found,
			fmt.Sprintf("returns %s; exponents of R[0] on the reconstruction path: %v", field, seenExps), P.Pos(skr.Pos()))
	}
}

// noKeyZero: accept => key 0 is not present in the map (lookup idiom, or per-key test inside a loop over the map).
func noKeyZero(P *Program, R *Report, rule, construct, mapDesc string, parts []fnAcc) {
	direct := func() *MustPass {
		return &MustPass{Match: func(a Atom) bool {
			d := desc(a.V)
			if d == "has("+mapDesc+"[0])" && a.Want == False {
				return true
			}
			return d == mapDesc+"[0]" && a.Want == Nil
		}}
	}
	var details []string
	for _, p := range parts {
		if p.fn == nil {
			continue
		}
		q := direct()
		q.P = P
		if r := q.Check(p.fn, p.acc); r.Holds && r.NAcc > 0 {
			R.ok(rule, construct+":no-key-0", "accept => index 0 (the secret key) has no entry in "+mapDesc).Detail = "lookup test in " + FuncKey(p.fn)
			return
		}
	}
	fa := &ForAll{P: P, Spec: ForAllSpec{Coll: is(mapDesc), Body: func(f *ssa.Function, l *Loop) *MustPass {
		return &MustPass{Match: func(a Atom) bool {
			g, ok := parseGuard(a, nil)
			if !ok || g.Kind != "int" {
				return false
			}
			key := "rangekey(" + mapDesc + ")"
			if g.Subject == key {
				switch {
				case g.Rel == "!=" && g.BoundA.String() == "0", g.Rel == ">" && g.BoundA.String() == "0", g.Rel == ">=" && g.BoundA.String() == "1":
					return true
				}
			}
			if g.BoundA.String() == key && g.Subject == "0" && (g.Rel == "!=" || g.Rel == "<") {
				return true
			}
			return false
		}}
	}}}
	for _, p := range parts {
		if p.fn == nil {
			continue
		}
		r := fa.OnAccept(p.fn, p.acc)
		if r.Holds && r.NAcc > 0 {
			o := R.ok(rule, construct+":no-key-0", "accept => index 0 (the secret key) has no entry in "+mapDesc)
			o.Detail = r.Path
			o.Analysed = fa.Seen()
			return
		}
		details = append(details, r.Path)
	}
	R.bad(rule, construct+":no-key-0", "accept => index 0 (the secret key) has no entry in "+mapDesc,
		"neither a lookup of key 0 nor a per-key test in a loop over the map leads to rejection:\n"+strings.Join(details, "\n"), "")
}

func sharedRandomizerRule(P *Program, R *Report) {
	rule := "C03.d"
	const skey = `arg#1["secretkey"]`
	skSlot := ""
	// DisclosureProofBuilder.Commit
	if fn := mustFunc(P, R, rule, "gabi.(*DisclosureProofBuilder).Commit"); fn != nil {
		mp(P, R, rule, FuncKey(fn)+":takes-shared", "every successful Commit installs randomizers[\"secretkey\"] as the randomiser of attribute 0", fn, AcceptNilErr(1),
			&MustPass{Instr: func(f *ssa.Function, i ssa.Instruction) bool {
				mu, ok := i.(*ssa.MapUpdate)
				return ok && desc(mu.Map) == "<gabi.DisclosureProofBuilder>.attrRandomizers" && desc(mu.Key) == "0" && desc(mu.Value) == skey
			}})
	}
	if fn := mustFunc(P, R, rule, "gabi.(*CredentialBuilder).Commit"); fn != nil {
		// the slot is whichever field (path) of the builder Commit files the shared randomiser in: discovered, not named
		allInstrs(fn, func(i ssa.Instruction) {
			if st, ok := i.(*ssa.Store); ok && desc(st.Val) == skey && strings.HasPrefix(desc(st.Addr), "<gabi.CredentialBuilder>.") {
				if skSlot == "" {
					skSlot = desc(st.Addr)
				}
			}
		})
		mp(P, R, rule, FuncKey(fn)+":takes-shared", "every successful Commit installs randomizers[\"secretkey\"] as the secret's randomiser", fn, AcceptNilErr(1),
			&MustPass{Instr: func(f *ssa.Function, i ssa.Instruction) bool {
				st, ok := i.(*ssa.Store)
				return ok && skSlot != "" && desc(st.Addr) == skSlot && desc(st.Val) == skey
			}})
		// the commitment uses it as exponent of R[0]
		usesIt := false
		for _, c := range callsIn(fn) {
			if call, ok := c.(*ssa.Call); ok && bigMethod(call) == "Exp" {
				if desc(callArgs(call)[1]) == "<gabikeys.PublicKey>.R[0]" || strings.HasSuffix(desc(callArgs(call)[1]), ".pk.R[0]") {
					d := desc(callArgs(call)[2])
					if (skSlot != "" && d == skSlot) || d == skey {
						usesIt = true
					}
				}
			}
		}
		R.decide(rule, FuncKey(fn)+":commits-with-it", "the commitment raises R[0] to that randomiser", usesIt, "", P.Pos(fn.Pos()))
	}
	// responses
	if fn := mustFunc(P, R, rule, "gabi.(*CredentialBuilder).CreateProof"); fn != nil {
		be := P.bigEval(fn)
		want := tsum(tsym(skSlot), tmul(tsym("arg#1"), tsym("<gabi.CredentialBuilder>.secret")))
		found, got := false, ""
		allInstrs(fn, func(i ssa.Instruction) {
			if st, ok := i.(*ssa.Store); ok && strings.HasSuffix(desc(st.Addr), "gabi.ProofU.SResponse") {
				t := be.Use[st][st.Val]
				got = t.String()
				found = t.equal(want)
			}
		})
		R.decide(rule, FuncKey(fn)+":SResponse", "SResponse = skRandomizer + challenge*secret", found, "got "+got+" want "+want.String(), P.Pos(fn.Pos()))
	}
	if fn := mustFunc(P, R, rule, "gabi.(*DisclosureProofBuilder).CreateProof"); fn != nil {
		be := P.bigEval(fn)
		idx := "<gabi.DisclosureProofBuilder>.undisclosedAttributes[#i]"
		rnd := "<gabi.DisclosureProofBuilder>.attrRandomizers[" + idx + "]"
		found, got := false, ""
		allInstrs(fn, func(i ssa.Instruction) {
			mu, ok := i.(*ssa.MapUpdate)
			if !ok || desc(mu.Key) != idx {
				return
			}
			if _, isMake := origin(mu.Map).(*ssa.MakeMap); !isMake {
				return
			}
			t := be.Use[mu][mu.Value]
			got = t.String()
			// randomiser + challenge * (attribute or its hash)
			syms := t.symbols()
			if !syms[rnd] || !syms["arg#1"] || len(t.M) != 2 {
				return
			}
			rest := t.add(tsym(rnd), -1)
			if len(rest.M) != 1 {
				return
			}
			for _, m := range rest.M {
				if m.coef.Cmp(bigOneM) == 0 && m.syms["arg#1"] == 1 && len(m.syms) == 2 {
					for s := range m.syms {
						if s != "arg#1" && strings.Contains(s, "<gabi.DisclosureProofBuilder>.attributes["+idx+"]") {
							found = true
						}
					}
				}
			}
		})
		R.decide(rule, FuncKey(fn)+":AResponses", "every hidden attribute's response (incl. the secret, index 0) = its own randomiser + challenge*value", found, "got "+got, P.Pos(fn.Pos()))
	}
}
