package main

import (
	"fmt"
	"go/token"
	"sort"
	"strings"

	"golang.org/x/tools/go/ssa"
)

const (
	kDPBCreateProof = "gabi.(*DisclosureProofBuilder).CreateProof"
	kDPBCommit      = "gabi.(*DisclosureProofBuilder).Commit"
	kDPBTimestamp   = "gabi.(*DisclosureProofBuilder).TimestampRequestContributions"
	kCredBuilder    = "gabi.(*Credential).CreateDisclosureProofBuilder"
	dpb             = "<gabi.DisclosureProofBuilder>"
)

// forwardTaint propagates from source values through big.Int arithmetic, hashing helpers, phis and
// conversions and returns the sink instructions (stores, map updates, returns, other calls) reached.
func forwardTaint(fn *ssa.Function, isSource func(v ssa.Value) bool) (tainted map[ssa.Value]bool, sinks []ssa.Instruction) {
	tainted = map[ssa.Value]bool{}
	var work []ssa.Value
	allInstrs(fn, func(i ssa.Instruction) {
		if v, ok := i.(ssa.Value); ok && isSource(v) {
			tainted[v] = true
			work = append(work, v)
		}
	})
	sinkSet := map[ssa.Instruction]bool{}
	for len(work) > 0 {
		v := work[len(work)-1]
		work = work[:len(work)-1]
		for _, r := range referrersOf(v) {
			switch u := r.(type) {
			case *ssa.Phi, *ssa.ChangeType, *ssa.MakeInterface, *ssa.Convert, *ssa.ChangeInterface:
				uv := u.(ssa.Value)
				if !tainted[uv] {
					tainted[uv] = true
					work = append(work, uv)
				}
			case *ssa.Call:
				m := bigMethod(u)
				switch {
				case m == "BitLen" || m == "Sign" || m == "Cmp" || m == "CmpAbs" || m == "IsInt64" || m == "ProbablyPrime":
					// observers used in guards: not a sink, result not tainted (a length/sign test)
				case m != "":
					// arithmetic: result/receiver object tainted
					if !tainted[u] {
						tainted[u] = true
						work = append(work, u)
					}
					if bigMutators[m] && len(callArgs(u)) > 0 {
						recv := callArgs(u)[0]
						if !tainted[recv] {
							tainted[recv] = true
							work = append(work, recv)
						}
					}
				case isCallTo(u, "common.IntHashSha256"):
					if !tainted[u] {
						tainted[u] = true
						work = append(work, u)
					}
				case exponentHelperArg(u) >= 0 && callArgs(u)[exponentHelperArg(u)] == v:
					// the value-or-its-digest helper: its result stands for the value like the inline form
					if !tainted[u] {
						tainted[u] = true
						work = append(work, u)
					}
				default:
					sinkSet[u] = true
				}
			case *ssa.Store:
				if u.Val == v {
					sinkSet[u] = true
				}
			case *ssa.MapUpdate:
				if u.Value == v || u.Key == v {
					sinkSet[u] = true
				}
			case *ssa.Return:
				sinkSet[u] = true
			case *ssa.Send:
				sinkSet[u] = true
			case *ssa.BinOp, *ssa.If, *ssa.UnOp:
				// comparisons / loads: not sinks
				if uo, ok := u.(*ssa.UnOp); ok && !tainted[uo] {
					_ = uo
				}
			case *ssa.IndexAddr, *ssa.FieldAddr:
			case *ssa.Slice:
				uv := ssa.Value(u)
				if !tainted[uv] {
					tainted[uv] = true
					work = append(work, uv)
				}
			}
		}
	}
	for s := range sinkSet {
		sinks = append(sinks, s)
	}
	sort.Slice(sinks, func(i, j int) bool { return sinks[i].Pos() < sinks[j].Pos() })
	return
}

func init() {
	register("C04",
		Rule{ID: "C04.k", Explain: "the shared secret-key randomizer fits every key of the session (the rule of C14.k): honest proofs of a session with keys of different sizes verify in whatever order the credentials are listed.",
			Run: func(P *Program, R *Report) { secretKeyRandomizerRule(P, R, "C04.k") }},
		Rule{ID: "C04.j", Explain: "package-level mutable state in the proving and verifying call tree (the rule of C20.l with this property's entry points): honest proofs built or verified at the same time compute on private data only; a hash state, generator or scratch value hoisted to package level and used without a lock makes the exponent a proof is made for differ from the one the issuer signed.",
			Run: func(P *Program, R *Report) {
				packageStateRule(P, R, "C04.j", []string{"gabi.(*Credential).CreateDisclosureProof", "gabi.(*Credential).CreateDisclosureProofBuilder", kListVerify, kProofDVerify, "gabi.(ProofBuilderList).BuildProofList"}, 1)
			}},
		Rule{ID: "C04.a", Explain: "taint: a raw attribute value (a load from the builder's attribute list) reaches an output only (i) unmodified into ADisclosed / the timestamp slice under the SAME index drawn from disclosedAttributes, (ii) through the response form randomiser + challenge*value, or (iii) into the range-proof committer; every other sink is reported as a leak.",
			Run: func(P *Program, R *Report) { attributeFlowRule(P, R) }},
		Rule{ID: "C04.b", Explain: "CreateProof gives every undisclosed index a response and every disclosed index a disclosed value (unconditional map update on every path through the loop bodies); the builder gives every undisclosed index a fresh randomiser and takes the index lists from the caller / the complement helper.",
			Run: func(P *Program, R *Report) { completenessRule(P, R) }},
		Rule{ID: "C04.c", Explain: "getUndisclosedAttributes appends index i exactly when i is not a member of the disclosed list, for i in 0..numAttributes-1 (no other condition controls the append).",
			Run: func(P *Program, R *Report) { complementRule(P, R) }},
		Rule{ID: "C04.e", Explain: "the holder's attribute values are read-only for the prover: in the call tree of the disclosure entry points no element of Credential.Attributes or of the builder's attribute list is overwritten, and no integer loaded from them is the receiver of a mutating big.Int method (a proof must report the true values, and the credential must survive being shown).",
			Run: func(P *Program, R *Report) { attributesReadOnlyRule(P, R) }},
		Rule{ID: "C04.f", Explain: "the holder can produce a proof that verifies: neither the proving call tree (CreateDisclosureProof, builders, BuildProofList) nor the verification call tree (ProofList.Verify, ProofD.Verify, ProofU.Verify and everything below) has a rejecting branch that is not one of the specified reasons (tables 'prove' and 'show' in checker/rejections_table.txt).",
			Run: func(P *Program, R *Report) {
				treeRejectionsRule(P, R, "C04.f", "prove", "the proving call tree")
				treeRejectionsRule(P, R, "C04.f", "show", "the verification call tree")
			}},
		Rule{ID: "C04.g", Explain: "completeness for every attribute value: prover, verifier and the signer's representation replace a value by its SHA-256 digest under exactly the same condition, BitLen(x) > Lm (a value on the boundary that one side hashes and the other does not makes an honest disclosure fail; same rule as C01.f).",
			Run: func(P *Program, R *Report) { oversizedHashRuleAs(P, R, "C04.g") }},
		Rule{ID: "C04.d", Explain: "the ProofD built by CreateProof sets each field from its tabled source (symbolic terms for the e and v responses).",
			Run: func(P *Program, R *Report) { proofDLiteralRule(P, R) }},
		Rule{ID: "C04.h", Explain: "a distributed proof list discloses through the merged proofs only: BuildDistributedProofList merges every proof for which the keyshare server sent a ProofP, decided per proof (proofPs[i] != nil) and for the whole list by proofPs != nil alone (the obligations of C14.f, same rule).",
			Run: func(P *Program, R *Report) { sharedRule(P, R, "C14", "C14.f", "C04.h", nil) }},
		Rule{ID: "C04.i", Explain: "what the verifier decodes is what was sent: ProofList.UnmarshalJSON makes one object per element, appends it only when classified, and returns nil only after the whole list was looked at (the obligations of C08.e, same rule) - one shared object merges the disclosed sets of all proofs of the list.",
			Run: func(P *Program, R *Report) { sharedRule(P, R, "C08", "C08.e", "C04.i", nil) }},
	)
}

// exponentHelperArg recognises a call to a function every one of whose results is one of its parameters x or
// IntHashSha256(x.Bytes()) for the same x (the hash-if-oversized step extracted into a helper); it returns the
// index of x in the call's arguments, -1 otherwise. Under which condition the digest is taken is C01.f/C04.g.
func exponentHelperArg(c *ssa.Call) int {
	fn := staticCallee(c)
	if fn == nil || len(fn.Blocks) == 0 || fn.Signature.Results().Len() != 1 {
		return -1
	}
	idx := -1
	ok := true
	n := 0
	var leaf func(v ssa.Value, seen map[ssa.Value]bool)
	leaf = func(v ssa.Value, seen map[ssa.Value]bool) {
		if seen[v] {
			return
		}
		seen[v] = true
		switch x := v.(type) {
		case *ssa.Phi:
			for _, e := range x.Edges {
				leaf(e, seen)
			}
			return
		case *ssa.Parameter:
			for i, p := range fn.Params {
				if p == x {
					if idx >= 0 && idx != i {
						ok = false
					}
					idx = i
					n++
					return
				}
			}
		case *ssa.Call:
			if isCallTo(x, "common.IntHashSha256") {
				if bc, isC := origin(callArgs(x)[0]).(*ssa.Call); isC && bigMethod(bc) == "Bytes" {
					leaf(callArgs(bc)[0], seen)
					return
				}
			}
		}
		ok = false
	}
	for _, b := range fn.Blocks {
		if r, isR := b.Instrs[len(b.Instrs)-1].(*ssa.Return); isR && retCount(r) == 1 {
			leaf(retValue(r, 0), map[ssa.Value]bool{})
		}
	}
	if !ok || n == 0 || idx < 0 {
		return -1
	}
	return idx
}

// sameContainer: v is the container target, directly or read back from the field of the object under construction
// it was assigned to (origin follows that read).
func sameContainer(v, target ssa.Value) bool {
	return v == target || (target != nil && origin(v) == target)
}

// mapUpdatesOf: the updates of fn that write into the map target (see sameContainer).
func mapUpdatesOf(fn *ssa.Function, target ssa.Value) []*ssa.MapUpdate {
	var out []*ssa.MapUpdate
	allInstrs(fn, func(i ssa.Instruction) {
		if mu, ok := i.(*ssa.MapUpdate); ok && sameContainer(mu.Map, target) {
			out = append(out, mu)
		}
	})
	return out
}

func isAttrLoad(v ssa.Value) bool {
	u, ok := v.(*ssa.UnOp)
	if !ok {
		return false
	}
	ia, ok := u.X.(*ssa.IndexAddr)
	if !ok {
		return false
	}
	d := desc(ia.X)
	return d == dpb+".attributes" || d == "<gabi.Credential>.Attributes"
}

func attrIndexOf(v ssa.Value) string {
	if u, ok := v.(*ssa.UnOp); ok {
		if ia, ok := u.X.(*ssa.IndexAddr); ok {
			return desc(ia.Index)
		}
	}
	return "?"
}

func attributeFlowRule(P *Program, R *Report) {
	rule := "C04.a"
	disclosedIdx := dpb + ".disclosedAttributes[#i]"
	hiddenIdx := dpb + ".undisclosedAttributes[#i]"
	nSinks := 0
	for _, key := range []string{kDPBCreateProof, kDPBTimestamp, kDPBCommit} {
		fn := mustFunc(P, R, rule, key)
		if fn == nil {
			continue
		}
		be := P.bigEval(fn)
		tainted, sinks := forwardTaint(fn, isAttrLoad)
		for _, s := range sinks {
			nSinks++
			ok := false
			why := ""
			c := fmt.Sprintf("%s:sink@%s", key, sinkName(s))
			switch u := s.(type) {
			case *ssa.MapUpdate:
				if !tainted[u.Value] {
					ok, why = true, "attribute used only as key"
					break
				}
				k := desc(u.Key)
				if isAttrLoad(u.Value) {
					// raw value: only under a disclosed index, and the same index
					ok = k == disclosedIdx && attrIndexOf(u.Value) == k
					why = fmt.Sprintf("raw attribute[%s] stored under key %s", attrIndexOf(u.Value), k)
				} else {
					// must be the response form for the same hidden index
					t := be.Use[u][u.Value]
					ok = k == hiddenIdx && isResponseForm(t, dpb+".attrRandomizers["+k+"]", "arg#1", dpb+".attributes["+k+"]")
					why = fmt.Sprintf("derived value %s stored under key %s", t, k)
				}
			case *ssa.Store:
				if isAttrLoad(u.Val) {
					ia, isIA := u.Addr.(*ssa.IndexAddr)
					ok = isIA && desc(ia.Index) == disclosedIdx && attrIndexOf(u.Val) == disclosedIdx
					why = fmt.Sprintf("raw attribute[%s] stored to %s", attrIndexOf(u.Val), desc(u.Addr))
				} else {
					why = "derived attribute value stored to " + desc(u.Addr)
				}
			case *ssa.Return:
				// returning containers is fine; returning a tainted big.Int directly is a leak
				ok = true
				for _, rv := range u.Results {
					if tainted[rv] && isBigIntPtr(rv.Type()) {
						ok = false
						why = "attribute-derived integer returned: " + desc(rv)
					}
				}
			case *ssa.Call:
				n := calleeName(u)
				if n == "rangeproof.(*ProofStructure).CommitmentsFromSecrets" {
					// (pk, m, mRandomizer): m raw attribute at index i with its own randomiser
					a := callArgs(u)
					ok = len(a) == 4 && isAttrLoad(a[2]) && desc(a[3]) == dpb+".attrRandomizers["+attrIndexOf(a[2])+"]"
					why = "range-proof committer gets attribute[" + attrIndexOf(a[2]) + "] with randomiser " + desc(a[3])
				} else if bigMethod(u) == "Bytes" {
					ok = true // feeds IntHashSha256 (followed separately)
					for _, r := range referrersOf(u) {
						if !isCallTo(r, "common.IntHashSha256") {
							ok = false
							why = "attribute bytes flow to " + fmt.Sprint(r)
						}
					}
				} else {
					why = "attribute value passed to " + n
				}
			default:
				why = fmt.Sprintf("unexpected sink %T", s)
			}
			R.decide(rule, c, "attribute value reaches this sink only in an allowed form", ok, why, P.Pos(s.Pos()))
		}
	}
	R.decide(rule, "sinks:count", "attribute flows were found and classified (>= 4 sinks)", nSinks >= 4, fmt.Sprintf("%d sinks", nSinks), "")

	// timestamp contribution: every slot is initialised to the zero constant; only disclosed slots are overwritten
	if fn := P.Func(kDPBTimestamp); fn != nil {
		ok := true
		var notes []string
		n := 0
		allInstrs(fn, func(i ssa.Instruction) {
			st, isSt := i.(*ssa.Store)
			if !isSt {
				return
			}
			ia, isIA := st.Addr.(*ssa.IndexAddr)
			if !isIA {
				return
			}
			switch x := ia.X.(type) {
			case *ssa.MakeSlice:
			case *ssa.Phi:
				// a list that starts empty and is filled by appends in a loop (one slot per attribute): the appended values
				// are the slots' initial contents
				if !startsEmpty(x) {
					return
				}
				seenV := map[ssa.Value]bool{}
				var walk func(v ssa.Value)
				walk = func(v ssa.Value) {
					if seenV[v] {
						return
					}
					seenV[v] = true
					switch y := v.(type) {
					case *ssa.Phi:
						for _, e := range y.Edges {
							walk(e)
						}
					case *ssa.Call:
						if isCallTo(y, "builtin:append") {
							if t, okT := seqTail(callArgs(y)[1], 0, map[ssa.Value]bool{}); okT {
								for _, e := range t {
									if e.D == "call:big.NewInt(0)" {
										n++
									} else {
										ok = false
										notes = append(notes, "slot appended as "+e.D)
									}
								}
							} else {
								ok = false
								notes = append(notes, "append not understood")
							}
							walk(callArgs(y)[0])
						}
					}
				}
				walk(x)
			case *ssa.Call:
				// slices.Repeat([]*big.Int{zero}, n): every slot starts as the zero constant
				if !calleeIs(x, "slices.Repeat") {
					return
				}
				if seq, okS := seqOf(callArgs(x)[0]); okS && len(seq) == 1 && seq[0].D == "call:big.NewInt(0)" {
					n++
				} else {
					ok = false
					notes = append(notes, "slots initialised from "+desc(callArgs(x)[0]))
				}
			default:
				return
			}
			n++
			vd := desc(st.Val)
			switch {
			case vd == "call:big.NewInt(0)":
			case isAttrLoad(st.Val) && desc(ia.Index) == disclosedIdx && attrIndexOf(st.Val) == disclosedIdx:
			default:
				ok = false
				notes = append(notes, fmt.Sprintf("slot %s <- %s", desc(ia.Index), vd))
			}
		})
		R.decide(rule, kDPBTimestamp+":slots", "timestamp contribution slots hold the zero constant or the raw disclosed value of the same index", ok && n >= 2, strings.Join(notes, "; "), P.Pos(fn.Pos()))
	}
}

func sinkName(s ssa.Instruction) string {
	switch u := s.(type) {
	case *ssa.MapUpdate:
		return "mapupdate(" + desc(u.Map) + "[" + desc(u.Key) + "])"
	case *ssa.Store:
		return "store(" + desc(u.Addr) + ")"
	case *ssa.Return:
		return "return"
	case *ssa.Call:
		return "call(" + calleeName(u) + ")"
	}
	return fmt.Sprintf("%T", s)
}

// isResponseForm: t == rand + chall*(value or a function of value only).
func isResponseForm(t Term, rand, chall, value string) bool {
	if t.Top || len(t.M) != 2 {
		return false
	}
	rest := t.add(tsym(rand), -1)
	if len(rest.M) != 1 {
		return false
	}
	for _, m := range rest.M {
		if m.coef.Cmp(bigOneM) != 0 || m.syms[chall] != 1 || len(m.syms) != 2 || !(m.exp.isConst() && m.exp.C == 0) {
			return false
		}
		for s, p := range m.syms {
			if s == chall {
				continue
			}
			if p != 1 || !strings.Contains(s, value) {
				return false
			}
			// the only attribute the secret factor may mention is `value`
			if strings.Count(s, ".attributes[") != strings.Count(s, value) {
				return false
			}
		}
	}
	return true
}

func completenessRule(P *Program, R *Report) {
	rule := "C04.b"
	fn := mustFunc(P, R, rule, kDPBCreateProof)
	if fn != nil {
		// which maps end up in the ProofD fields
		fieldMap := map[string]ssa.Value{}
		allInstrs(fn, func(i ssa.Instruction) {
			if st, ok := i.(*ssa.Store); ok {
				if fa, ok := st.Addr.(*ssa.FieldAddr); ok && desc(fa.X) == "new:gabi.ProofD" {
					fieldMap[faName(fa)] = st.Val
				}
			}
		})
		for _, row := range []struct{ field, list string }{{"AResponses", "undisclosedAttributes"}, {"ADisclosed", "disclosedAttributes"}} {
			row := row
			target := fieldMap[row.field]
			_, isMake := target.(*ssa.MakeMap)
			if !isMake {
				R.bad(rule, kDPBCreateProof+":"+row.field+":container", "ProofD."+row.field+" is a map created in CreateProof", "got "+desc(target), P.Pos(fn.Pos()))
				continue
			}
			fa := &ForAll{P: P, Spec: ForAllSpec{Coll: is(dpb + "." + row.list), Body: func(f *ssa.Function, l *Loop) *MustPass {
				return &MustPass{Instr: func(_ *ssa.Function, i ssa.Instruction) bool {
					mu, ok := i.(*ssa.MapUpdate)
					return ok && sameContainer(mu.Map, target) && desc(mu.Key) == dpb+"."+row.list+"[#i]"
				}}
			}}}
			m := fa.inFn(fn, AcceptAny())
			R.decide(rule, kDPBCreateProof+":"+row.field+":every-index", "every index of "+row.list+" gets an entry in ProofD."+row.field+" on every path", m.holds, m.detail, P.Pos(fn.Pos()))
			if row.field == "ADisclosed" {
				var badv []string
				for _, mu := range mapUpdatesOf(fn, target) {
					{
						if !isAttrLoad(mu.Value) || attrIndexOf(mu.Value) != desc(mu.Key) {
							badv = append(badv, desc(mu.Value)+" under key "+desc(mu.Key)+" at "+P.Pos(mu.Pos()))
						}
					}
				}
				R.decide(rule, kDPBCreateProof+":ADisclosed:raw-value", "each disclosed entry is the builder's own attribute value at that same index, unmodified", len(badv) == 0, strings.Join(badv, "; "), P.Pos(fn.Pos()))
			}
			// and nothing else writes that map
			extra := []string{}
			for _, mu := range mapUpdatesOf(fn, target) {
				if desc(mu.Key) != dpb+"."+row.list+"[#i]" {
					extra = append(extra, "key "+desc(mu.Key)+" at "+P.Pos(mu.Pos()))
				}
			}
			R.decide(rule, kDPBCreateProof+":"+row.field+":only-those", "ProofD."+row.field+" gets entries only for indices of "+row.list, len(extra) == 0, strings.Join(extra, "; "), P.Pos(fn.Pos()))
		}
	}
	// builder
	bf := mustFunc(P, R, rule, kCredBuilder)
	if bf == nil {
		return
	}
	nb := "new:gabi.DisclosureProofBuilder"
	want := map[string]string{
		"disclosedAttributes":   "arg#1",
		"undisclosedAttributes": "call:gabi.getUndisclosedAttributes(arg#1,len(<gabi.Credential>.Attributes))",
		"attributes":            "<gabi.Credential>.Attributes",
		"pk":                    "<gabi.Credential>.Pk",
	}
	got := map[string]string{}
	gotV := map[string]ssa.Value{}
	allInstrs(bf, func(i ssa.Instruction) {
		if st, ok := i.(*ssa.Store); ok {
			if fa, ok := st.Addr.(*ssa.FieldAddr); ok && desc(fa.X) == nb {
				got[faName(fa)] = desc(st.Val)
				gotV[faName(fa)] = st.Val
			}
		}
	})
	for f, w := range want {
		ok := got[f] == w
		if f == "undisclosedAttributes" && !ok {
			// the complement helper in another shape (a method of the credential): same helper, given the disclosed list
			if c, isCall := gotV[f].(*ssa.Call); isCall && staticCallee(c) != nil && staticCallee(c) == P.Func("gabi.getUndisclosedAttributes") {
				for _, a := range callArgs(c) {
					if desc(a) == "arg#1" {
						ok = true
					}
				}
			}
		}
		R.decide(rule, kCredBuilder+":field:"+f, "builder field "+f+" is taken from "+w, ok, "got "+got[f], P.Pos(bf.Pos()))
	}
	// the per-index randomiser: a map update attrRandomizers[undisclosed[i]] = fresh RandomBigInt drawn in the same
	// loop, on every non-failing path through the body of a loop over the undisclosed indices - in the
	// constructor itself or in a helper it calls (whose success the constructor then requires)
	dpbC := "<gabi.DisclosureProofBuilder>"
	m := forAllMemo{detail: "no map update attrRandomizers[undisclosedAttributes[i]] = RandomBigInt(...) found in the constructor or its helpers"}
	for _, sk := range sinksOfDeep(bf) {
		mu, isMU := sk.ins.(*ssa.MapUpdate)
		if !isMU || canonOwner(sk.target) != dpbC+".attrRandomizers" {
			continue
		}
		ck := canonOwner(sk.key)
		if ck != dpbC+".undisclosedAttributes[#i]" && ck != dpbC+".undisclosedAttributes[*]" {
			continue
		}
		if canonOwner(sk.loopColl) != dpbC+".undisclosedAttributes" {
			m.detail = "the update is in a loop over " + sk.loopColl
			continue
		}
		h := mu.Parent()
		l := innermostLoopOf(mu.Block())
		g := genCallOf(mu.Value)
		if l == nil || g == nil || !calleeIs(g, "common.RandomBigInt") || !l.Body[g.Block()] {
			m.detail = "the stored value is not a RandomBigInt drawn inside the loop"
			continue
		}
		hacc, okAcc := accOfFn(h, Nil)
		if !okAcc {
			hacc = AcceptAny()
		}
		q := &MustPass{P: P, Instr: func(_ *ssa.Function, i ssa.Instruction) bool { return i == ssa.Instruction(mu) }}
		r := q.ForAllBody(h, l, hacc, true)
		if !r.Holds {
			m.detail = r.Path
			continue
		}
		if h != bf {
			// the constructor succeeds only if the helper did
			q2 := &MustPass{P: P, Match: func(a Atom) bool {
				c, _ := callAndResult(a.V)
				return c != nil && staticCallee(c) == h && (a.Want == Nil || a.Want == True)
			}}
			if okAcc {
				if r2 := q2.Check(bf, AcceptNilErr(1)); !r2.Holds {
					m.detail = "the helper's failure is not propagated: " + r2.Path
					continue
				}
			}
		}
		m.holds, m.detail = true, "loop at "+P.Pos(loopPos(l))+" in "+FuncKey(h)
		break
	}
	R.decide(rule, kCredBuilder+":randomizer-per-hidden", "every undisclosed index gets its own fresh randomiser (generated inside the loop) on every successful path", m.holds, m.detail, P.Pos(bf.Pos()))
}

func complementRule(P *Program, R *Report) {
	rule := "C04.c"
	const key = "gabi.getUndisclosedAttributes"
	fn := mustFunc(P, R, rule, key)
	if fn == nil {
		return
	}
	// examined on behalf of the builder constructor, so that the disclosed list and the attribute count have the
	// constructor's names whatever the helper's shape (function of (disclosed, n), method of the credential, ...)
	root := P.Func(kCredBuilder)
	ran := false
	if root != nil {
		ran = bindPath(root, fn, 1, func() { complementBody(P, R, rule, key, fn, "arg#1", "len(<gabi.Credential>.Attributes)") })
	}
	if !ran {
		complementBody(P, R, rule, key, fn, "arg#0", "arg#1")
	}
}

func complementBody(P *Program, R *Report, rule, key string, fn *ssa.Function, disc, count string) {
	readsValues := false
	allInstrs(fn, func(i ssa.Instruction) {
		if v, ok := i.(ssa.Value); ok && strings.Contains(desc(v), ".Attributes[") {
			readsValues = true
		}
	})
	R.decide(rule, key+":signature", "the helper decides membership from the disclosed list and the attribute count only", len(fn.Params) == 2 && !readsValues,
		fmt.Sprintf("%d parameters, reads attribute values: %v (extra inputs can make the result depend on attribute values)", len(fn.Params), readsValues), P.Pos(fn.Pos()))
	// appends
	nApp := 0
	allInstrs(fn, func(i ssa.Instruction) {
		c, ok := i.(*ssa.Call)
		if !ok || !isCallTo(c, "builtin:append") {
			return
		}
		nApp++
		tail, okT := seqTail(callArgs(c)[1], 0, map[ssa.Value]bool{})
		elemOK := okT && len(tail) == 1 && tail[0].Kind == "elem" && (tail[0].D == "#i" || tail[0].D == "rangekey(makeslice)")
		R.decide(rule, key+":appends-index", "the appended element is the loop index itself", elemOK, "appends "+seqString(tail), P.Pos(c.Pos()))
		// controlling conditions inside the loop
		var conds []string
		memb := false
		for _, a := range controllingConds(c.Block()) {
			a = normAtom(a)
			d := desc(a.V)
			if strings.HasPrefix(d, "(#i<") || strings.HasPrefix(d, "rangeok(") {
				continue // loop condition
			}
			conds = append(conds, fmt.Sprintf("%s is %s", d, a.Want))
			if a.Want == False && (d == "makeslice[#i]" || d == "call:slices.Contains("+disc+",#i)" || d == "has(makemap[#i])" || d == "makemap[#i]") {
				memb = true
			}
		}
		R.decide(rule, key+":membership-only", "index i is appended exactly when it is not a member of the disclosed list (the only controlling condition)", memb && len(conds) == 1,
			"controlling conditions: "+strings.Join(conds, "; "), P.Pos(c.Pos()))
	})
	R.decide(rule, key+":one-append", "exactly one append builds the result", nApp == 1, fmt.Sprintf("%d appends", nApp), P.Pos(fn.Pos()))
	// flag idiom: flags set for exactly the elements of the disclosed list, size numAttributes
	flagOK, sizeOK := false, false
	usesContains := false
	allInstrs(fn, func(i ssa.Instruction) {
		switch x := i.(type) {
		case *ssa.Store:
			if ia, ok := x.Addr.(*ssa.IndexAddr); ok {
				if _, isMake := ia.X.(*ssa.MakeSlice); isMake && desc(x.Val) == "true" && desc(ia.Index) == disc+"[#i]" {
					extra := 0
					for _, a := range controllingConds(x.Block()) {
						d := desc(normAtom(a).V)
						if !strings.HasPrefix(d, "(#i<") && !strings.HasPrefix(d, "rangeok(") {
							extra++
						}
					}
					flagOK = extra == 0
				}
			}
		case *ssa.MakeSlice:
			if _, isBool := x.Type().Underlying().(interface{ Elem() interface{} }); isBool {
			}
			if l, ok := affineOf(x.Len); ok && l.String() == parseAffine(count).String() {
				sizeOK = true
			}
		case *ssa.Call:
			if isCallTo(x, "slices.Contains") {
				usesContains = true
			}
		}
	})
	if !usesContains {
		R.decide(rule, key+":flags", "membership flags are set for every element of the disclosed list, unconditionally, over 0..numAttributes-1", flagOK && sizeOK,
			fmt.Sprintf("flagStore=%v size=numAttributes:%v", flagOK, sizeOK), P.Pos(fn.Pos()))
	}
	// loop range
	rangeOK := false
	for _, l := range rangeLoopsOver(fn, func(d string) bool { return d == "makeslice" }) {
		_ = l
		rangeOK = true
	}
	allInstrs(fn, func(i ssa.Instruction) {
		if b, ok := i.(*ssa.BinOp); ok && desc(b) == "(#i<"+count+")" {
			rangeOK = true
		}
	})
	// `for i := range numAttributes` (the test sits at the bottom of the loop)
	for _, b := range fn.Blocks {
		if l := findLoop(b); l != nil && len(l.Latch) > 0 {
			if kind, d := loopTrip(l); kind == "count" && d == count {
				rangeOK = true
			}
		}
	}
	R.decide(rule, key+":range", "candidates are all indices 0..numAttributes-1", rangeOK && (sizeOK || usesContains), "", P.Pos(fn.Pos()))
}

func proofDLiteralRule(P *Program, R *Report) {
	rule := "C04.d"
	fn := mustFunc(P, R, rule, kDPBCreateProof)
	if fn == nil {
		return
	}
	be := P.bigEval(fn)
	sig := dpb + ".randomizedSignature"
	wantE := tsum(tsym(dpb+".eCommit"), tmul(tsym("arg#1"), tsub(tsym(sig+".E"), pow2("Le-1"))))
	wantV := tsum(tsym(dpb+".vCommit"), tmul(tsym("arg#1"), tsym(sig+".V")))
	seen := map[string]bool{}
	allInstrs(fn, func(i ssa.Instruction) {
		st, ok := i.(*ssa.Store)
		if !ok {
			return
		}
		fa, ok := st.Addr.(*ssa.FieldAddr)
		if !ok || desc(fa.X) != "new:gabi.ProofD" {
			return
		}
		f := faName(fa)
		seen[f] = true
		c := kDPBCreateProof + ":ProofD." + f
		switch f {
		case "C":
			R.decide(rule, c, "C is the challenge parameter", desc(st.Val) == "arg#1", "got "+desc(st.Val), P.Pos(st.Pos()))
		case "A":
			R.decide(rule, c, "A is the randomised signature's A", desc(st.Val) == sig+".A", "got "+desc(st.Val), P.Pos(st.Pos()))
		case "EResponse":
			t := be.Use[st][st.Val]
			R.decide(rule, c, "EResponse = eCommit + c*(e - 2^(Le-1))", t.equal(wantE), "got "+t.String()+" want "+wantE.String(), P.Pos(st.Pos()))
		case "VResponse":
			t := be.Use[st][st.Val]
			R.decide(rule, c, "VResponse = vCommit + c*v", t.equal(wantV), "got "+t.String()+" want "+wantV.String(), P.Pos(st.Pos()))
		case "AResponses", "ADisclosed":
			_, isMake := st.Val.(*ssa.MakeMap)
			R.decide(rule, c, f+" is a map built in this call (C04.b)", isMake, "got "+desc(st.Val), P.Pos(st.Pos()))
		case "NonRevocationProof":
			lv := phiLeaves(st.Val)
			// (nil by default: in a literal the other phi edge, in a zero-valued object the unassigned field)
			ok := (lv["nil"] || len(lv) == 1) && len(lv) <= 2 && lv["call:gabi.(*NonRevocationProofBuilder).CreateProof("+dpb+".nonrevBuilder,arg#1)"]
			R.decide(rule, c, "the non-revocation part is nil or the nonrev builder's proof for this challenge", ok, "got "+strings.Join(sortedKeys(lv), "|"), P.Pos(st.Pos()))
		case "RangeProofs":
			lv := phiLeaves(st.Val)
			ok := (lv["nil"] || len(lv) == 1) && lv["makemap"] && len(lv) <= 2
			R.decide(rule, c, "range proofs are nil or a map built in this call", ok, "got "+strings.Join(sortedKeys(lv), "|"), P.Pos(st.Pos()))
		default:
			R.bad(rule, c, "only tabled fields of ProofD are set by the prover", "untabled field "+f+" <- "+desc(st.Val), P.Pos(st.Pos()))
		}
	})
	for _, f := range []string{"C", "A", "EResponse", "VResponse", "AResponses", "ADisclosed"} {
		if !seen[f] {
			R.bad(rule, kDPBCreateProof+":ProofD."+f, "field is set", "ProofD."+f+" is never assigned", P.Pos(fn.Pos()))
		}
	}
}

// attributesReadOnlyRule (C04.e).
func attributesReadOnlyRule(P *Program, R *Report) {
	rule := "C04.e"
	attrFields := map[string]bool{"gabi.Credential.Attributes": true, "gabi.DisclosureProofBuilder.attributes": true}
	var roots []*ssa.Function
	for _, k := range []string{"gabi.(*Credential).CreateDisclosureProof", "gabi.(*Credential).CreateDisclosureProofBuilder", "gabi.(*DisclosureProofBuilder).Commit",
		"gabi.(*DisclosureProofBuilder).CreateProof", "gabi.(*DisclosureProofBuilder).TimestampRequestContributions", "gabi.(ProofBuilderList).BuildProofList", "gabi.(ProofBuilderList).BuildDistributedProofList"} {
		if f := mustFunc(P, R, rule, k); f != nil {
			roots = append(roots, f)
		}
	}
	fns := P.reachableFuncs(roots...)
	// the attribute list as a value: a load of one of the two fields (possibly re-sliced)
	var isAttrList func(v ssa.Value, depth int) bool
	isAttrList = func(v ssa.Value, depth int) bool {
		if depth > 6 {
			return false
		}
		switch x := v.(type) {
		case *ssa.UnOp:
			if fa, ok := x.X.(*ssa.FieldAddr); ok && x.Op == token.MUL {
				return attrFields[faType(fa)+"."+faName(fa)]
			}
		case *ssa.Slice:
			return isAttrList(x.X, depth+1)
		case *ssa.Phi:
			for _, e := range x.Edges {
				if isAttrList(e, depth+1) {
					return true
				}
			}
		}
		return false
	}
	attrParams := map[*ssa.Parameter]bool{}
	isAttrElem := func(v ssa.Value) bool {
		seen := map[ssa.Value]bool{}
		var walk func(x ssa.Value) bool
		walk = func(x ssa.Value) bool {
			if seen[x] {
				return false
			}
			seen[x] = true
			switch y := x.(type) {
			case *ssa.UnOp:
				if ia, ok := y.X.(*ssa.IndexAddr); ok && y.Op == token.MUL {
					return isAttrList(ia.X, 0)
				}
			case *ssa.Phi:
				for _, e := range y.Edges {
					if walk(e) {
						return true
					}
				}
			case *ssa.Extract:
				if n, ok := y.Tuple.(*ssa.Next); ok && y.Index == 2 {
					if r, ok := n.Iter.(*ssa.Range); ok {
						return isAttrList(r.X, 0)
					}
				}
			case *ssa.Parameter:
				return attrParams[y]
			}
			return false
		}
		return walk(v)
	}
	// an attribute value handed to a helper of the module is still the attribute value inside the helper
	for round := 0; round < 4; round++ {
		for _, fn := range fns {
			for _, c := range callsIn(fn) {
				g := staticCallee(c)
				if g == nil || len(g.Blocks) == 0 || !inModuleFn(g) {
					continue
				}
				args := callArgs(c)
				off := len(args) - len(g.Params)
				for k, a := range args {
					if k-off >= 0 && k-off < len(g.Params) && isBigIntPtr(a.Type()) && isAttrElem(a) {
						attrParams[paramAt(g, k-off)] = true
					}
				}
			}
		}
	}
	nUses := 0
	bad := map[string]string{}
	for _, fn := range fns {
		allInstrs(fn, func(i ssa.Instruction) {
			switch x := i.(type) {
			case *ssa.Store:
				if ia, ok := x.Addr.(*ssa.IndexAddr); ok && isAttrList(ia.X, 0) {
					bad[FuncKey(fn)+":store(attributes[...])"] = P.Pos(x.Pos()) + ": an element of the attribute list is overwritten"
				}
			case *ssa.Call:
				m := bigMethod(x)
				if m == "" {
					return
				}
				for k, a := range callArgs(x) {
					if isAttrElem(a) {
						nUses++
						if k == 0 && bigMutators[m] {
							bad[FuncKey(fn)+":in-place(attributes[...])"] = fmt.Sprintf("%s: attribute.%s(...) overwrites the attribute value", P.Pos(x.Pos()), m)
						}
					}
				}
			}
		})
	}
	R.decide(rule, "uses:count", "uses of attribute values as big.Int operands in the proving call tree were found (>= 3)", nUses >= 3, fmt.Sprintf("%d in %d functions", nUses, len(fns)), "")
	for _, k := range sortedKeys(boolSet(bad)) {
		R.bad(rule, k, "the prover does not modify the holder's attribute values", bad[k], "")
	}
	if len(bad) == 0 {
		R.ok(rule, "gabi:attributes-read-only", fmt.Sprintf("no store to the attribute lists and none of the %d operand uses is the receiver of a mutating big.Int method", nUses))
	}
}
