package main

import (
	"go/token"
	"fmt"
	"strings"

	"golang.org/x/tools/go/ssa"
)

const (
	kConstruct  = "gabi.(*CredentialBuilder).ConstructCredential"
	kProofSVer  = "gabi.(*ProofS).Verify"
	kProveSig   = "gabi.proveSignature"
	kSignCommit = "gabi.signCommitmentAndAttributes"
	kNewCB      = "gabi.NewCredentialBuilder"
	cbD         = "<gabi.CredentialBuilder>"
	ismD        = "<gabi.IssueSignatureMessage>"
)

func init() {
	register("C06",
		Rule{ID: "C06.p", Explain: "the n'th commitment is the n'th ProofU: in ProofList.GetProofU every counter that changes while the list is walked (other than the walk's own index) changes only for elements that are ProofUs - under the type test - so that disclosure proofs standing before or between the commitments of a combined session are not counted. (The issuer signs the U it finds there; a miscounted U makes the honest holder's credential invalid.)",
			Run: func(P *Program, R *Report) {
				fn := mustFunc(P, R, "C06.p", "gabi.(ProofList).GetProofU")
				if fn == nil {
					return
				}
				n, bad := 0, []string{}
				allInstrs(fn, func(i ssa.Instruction) {
					ph, ok := i.(*ssa.Phi)
					if !ok || ph.Comment == "rangeindex" || !isIntegerType(ph.Type()) {
						return
					}
					for _, e := range ph.Edges {
						b, isB := e.(*ssa.BinOp)
						if !isB || (b.Op != token.ADD && b.Op != token.SUB) || (b.X != ssa.Value(ph) && b.Y != ssa.Value(ph)) {
							continue
						}
						n++
						typed := false
						for _, a := range controllingConds(b.Block()) {
							v := a.V
							if ex, isEx := v.(*ssa.Extract); isEx && ex.Index == 1 {
								v = ex.Tuple
							}
							if ta, isTA := v.(*ssa.TypeAssert); isTA && a.Want == True && typeShort(ta.AssertedType) == "*gabi.ProofU" {
								typed = true
							}
						}
						if !typed {
							bad = append(bad, P.Pos(b.Pos()))
						}
					}
				})
				R.decide("C06.p", "gabi.(ProofList).GetProofU:counts-ProofUs-only", "the counter changes only under the test that the element is a *ProofU", n >= 1 && len(bad) == 0, fmt.Sprintf("%d counter updates; outside the type test: %s", n, strings.Join(bad, ", ")), P.Pos(fn.Pos()))
			}},
		Rule{ID: "C06.a", Explain: "ConstructCredential returns a credential only if ProofS.Verify(pk, msg.Signature, context, nonce2) is true, the assembled signature verifies over [secret, attributes...] under the builder's key, and - when a witness is present - Witness.Verify(pk) returned nil and NonrevIndex() succeeded on the new credential.",
			Run: func(P *Program, R *Report) { constructCredentialRule(P, R) }},
		Rule{ID: "C06.b", Explain: "the assembled signature is (A, E) from the message, V = msg.V + vPrime (symbolic term), KeyshareP from the builder; the credential carries that signature, the builder's key, the verified message block and the message's witness.",
			Run: func(P *Program, R *Report) { assembledSignatureRule(P, R) }},
		Rule{ID: "C06.c", Explain: "random-blind attributes: for every user share the index is bounds-checked, the slot must be nil, the issuer's share is nil-checked, and the slot becomes MIssuer[i] + mUser[i].",
			Run: func(P *Program, R *Report) { blindSumRule(P, R) }},
		Rule{ID: "C06.d", Explain: "ProofS.Verify: accept => C equals HashCommit([context, Q, A, nonce, ACommit], false) with Q = A^e mod N and ACommit = A^(C + EResponse*e) mod N (sequence + symbolic terms).",
			Run: func(P *Program, R *Report) { proofSRule(P, R) }},
		Rule{ID: "C06.e", Explain: "Issuer.proveSignature hashes the same five roles in the same order, with Q = A^e, ACommit = Q^eCommit, response = eCommit - c*e^-1 mod Order, eCommit drawn from the multiplicative group helper.",
			Run: func(P *Program, R *Report) { proveSignatureRule(P, R) }},
		Rule{ID: "C06.f", Explain: "ProofU: accept => own C compared with the challenge and VPrimeResponse in [0, 2^(LvPrimeCommit+1)-1]; its contribution depends on all of its fields and the key (C02.e).",
			Run: func(P *Program, R *Report) {
				fn := mustFunc(P, R, "C06.f", kProofUVWC)
				mp(P, R, "C06.f", kProofUVWC+":C==challenge", "accept => p.C compared equal to the challenge parameter", fn, AcceptTrue(0),
					&MustPass{Match: eqMatcher(is("<gabi.ProofU>.C"), is("arg#2"))})
				guardRangeObl(P, R, "C06.f", "gabi.ProofU.VPrimeResponse", "VPrimeResponse", is("<gabi.ProofU>.VPrimeResponse"), tconst(0), pow2("LvPrimeCommit+1"), proofUParts(P, R, "C06.f"))
				proofUContributionDeps(P, R, "C06.f")
				if v := mustFunc(P, R, "C06.f", kProofUVerify); v != nil {
					mp(P, R, "C06.f", kProofUVerify+":challenge-roles", "accept => VerifyWithChallenge(pk, createChallenge(context, nonce, contrib, false)) with this proof's own contribution", v, AcceptTrue(0),
						&MustPass{Match: func(a Atom) bool {
							c, ok := callAtom(a, True, kProofUVWC)
							if !ok {
								return false
							}
							ch, ok := callArgs(c)[2].(*ssa.Call)
							if !ok || !calleeIs(ch, "gabi.createChallenge") {
								return false
							}
							ar := callArgs(ch)
							return desc(callArgs(c)[0]) == "<gabi.ProofU>" && desc(ar[0]) == "arg#2" && desc(ar[1]) == "arg#3" && desc(ar[3]) == "false" &&
								desc(ar[2]) == "call:"+kProofUCC+"(<gabi.ProofU>,<gabikeys.PublicKey>)#0"
						}})
				}
			}},
		Rule{ID: "C06.g", Explain: "index convention for blind attributes (position i+1, slot must be nil before issuance) agrees between NewCredentialBuilder, Issuer.signCommitmentAndAttributes and ConstructCredential; the commitment U has the specified symbolic form.",
			Run: func(P *Program, R *Report) { blindConventionRule(P, R) }},
		Rule{ID: "C06.i", Explain: "honest issuance succeeds: ConstructCredential, ProofS.Verify and everything below them, and the verification of the commitment proof (tree 'show'), have no rejecting branch besides the specified reasons.",
			Run: func(P *Program, R *Report) {
				treeRejectionsRule(P, R, "C06.i", "issue", "the credential construction call tree")
				treeRejectionsRule(P, R, "C06.i", "show", "the verification call tree")
			}},
		Rule{ID: "C06.j", Explain: "aliasing discipline: issuance messages and the builder state are not modified in place - no function mutates in place a big.Int it reached through gabi.CredentialBuilder / gabi.IssueSignatureMessage / gabi.IssueCommitmentMessage / gabi.Credential (math/big mutators write their receiver), except the tabled merge/refresh functions.",
			Run: func(P *Program, R *Report) { inPlaceDisciplineRule(P, R, "C06.j", "gabi.CredentialBuilder", "gabi.IssueSignatureMessage", "gabi.IssueCommitmentMessage", "gabi.Credential") }},
		Rule{ID: "C06.l", Explain: "a builder can commit again: no field of the credential builder that Commit (or the functions it calls) writes is read there before it was written in the same call - a commitment kept from an earlier call would be hashed while the response uses the new randomiser, and the honest second attempt is refused.",
			Run: func(P *Program, R *Report) {
				noCrossCallStateRuleFor(P, R, "C06.l", map[string]bool{"gabi.CredentialBuilder": true},
					[]string{"gabi.(*CredentialBuilder).Commit", "gabi.(*CredentialBuilder).CommitToSecretAndProve"}, 1, nil)
			}},
		Rule{ID: "C06.k", Explain: "an altered commitment proof is rejected: ProofU accept => key 0 (the secret-key base) has no entry in MUserResponses, so part of the secret-key response cannot be moved into a second response that SecretKeyResponse() does not report (same rule as C03.c).",
			Run: func(P *Program, R *Report) {
				noKeyZero(P, R, "C06.k", "gabi.ProofU.MUserResponses", "<gabi.ProofU>.MUserResponses", proofUParts(P, R, "C06.k"))
				secretKeyResponseFieldRuleFor(P, R, "C06.k")
			}},
		Rule{ID: "C06.h", Explain: "the signature check used by ConstructCredential enforces the e interval and primality (C05.a run under this property).",
			Run: func(P *Program, R *Report) {
				sub := newReport(R.Prop, R.Tier, P)
				for _, r := range registry["C05"] {
					if r.ID == "C05.a" {
						r.Run(P, sub)
					}
				}
				for _, o := range sub.Obls {
					o.Rule = "C06.h"
					R.add(o)
				}
				for f := range sub.funcsSeen {
					R.seen(f)
				}
			}},
		Rule{ID: "C06.m", Explain: "no failure is dropped during issuance (builder.go, issuer.go): a failed generator, commitment, signature or proof step ends the call instead of leaving a nil value in the builder or the message (same rule as C08.g: the error a call returns has a use - a nil test or a return - before it is overwritten, shadowed or left behind).",
			Run: func(P *Program, R *Report) { errorResultsUsedRule(P, R, "C06.m", inFiles(P, "builder.go", "issuer.go"), nil, 10) }},
		Rule{ID: "C06.n", Explain: "the issuer sees every proof of the commitment message: ProofList.UnmarshalJSON (the decoder of IssueCommitmentMessage.Proofs) makes one object per element and returns nil only after the whole list was looked at (the obligations of C08.e, same rule) - a list that stops at the first disclosure proof loses the ProofU and an honest issuance fails.",
			Run: func(P *Program, R *Report) { sharedRule(P, R, "C08", "C08.e", "C06.n", nil) }},
		Rule{ID: "C06.o", Explain: "the witness that comes with an issued credential is checked against an accumulator the issuer signed: the verified-accumulator memo of SignedAccumulator and the other verifier-derived fields cannot be set from the wire (the obligations of C11.h, same rule) - a decodable memo lets the sender of an issuance message supply the accumulator its altered witness fits.",
			Run: func(P *Program, R *Report) { sharedRule(P, R, "C11", "C11.h", "C06.o", nil) }},
	)
}

func constructCredentialRule(P *Program, R *Report) {
	rule := "C06.a"
	fn := mustFunc(P, R, rule, kConstruct)
	if fn == nil {
		return
	}
	acc := AcceptNilErr(1)
	mp(P, R, rule, kConstruct+":ProofS", "credential => msg.Proof.Verify(b.pk, msg.Signature, b.context, b.nonce2) was true", fn, acc, &MustPass{Match: func(a Atom) bool {
		c, ok := callAtom(a, True, kProofSVer)
		if !ok {
			return false
		}
		ar := callArgs(c)
		return desc(ar[0]) == ismD+".Proof" && desc(ar[1]) == cbD+".pk" && desc(ar[2]) == ismD+".Signature" && desc(ar[3]) == cbD+".context" && desc(ar[4]) == cbD+".nonce2"
	}})
	var msVal ssa.Value
	mp(P, R, rule, kConstruct+":signature-verifies", "credential => the assembled signature verified under b.pk", fn, acc, &MustPass{Match: func(a Atom) bool {
		c, ok := callAtom(a, True, kCLVerify)
		if !ok {
			return false
		}
		ar := callArgs(c)
		if desc(ar[0]) == "new:gabi.CLSignature" && desc(ar[1]) == cbD+".pk" {
			msVal = ar[2]
			return true
		}
		return false
	}})
	if msVal != nil {
		seq, ok := seqOf(msVal)
		want := "[" + cbD + ".secret, arg#2...]"
		if !ok {
			R.und(rule, kConstruct+":message-block", "the verified message block is [secret, attributes...]", "unrecognised slice idiom "+desc(msVal), P.Pos(fn.Pos()))
		} else {
			R.decide(rule, kConstruct+":message-block", "the verified message block is [secret, attributes...] (blind slots filled in place)", seqString(seq) == want, "got "+seqString(seq), P.Pos(fn.Pos()))
		}
	}
	noWitness := func(a Atom) bool { return desc(a.V) == ismD+".NonRevocationWitness" && a.Want == Nil }
	mp(P, R, rule, kConstruct+":witness-verified", "credential with a witness => Witness.Verify(b.pk) returned nil", fn, acc, &MustPass{Exempt: noWitness, Match: func(a Atom) bool {
		c, ok := callAtom(a, Nil, "revocation.(*Witness).Verify")
		return ok && desc(callArgs(c)[0]) == ismD+".NonRevocationWitness" && desc(callArgs(c)[1]) == cbD+".pk"
	}})
	mp(P, R, rule, kConstruct+":witness-bound", "credential with a witness => NonrevIndex() of the new credential succeeded (the witness' e is one of the signed attributes)", fn, acc, &MustPass{Exempt: noWitness, Match: func(a Atom) bool {
		c, idx := callAndResult(a.V)
		return c != nil && calleeIs(c, "gabi.(*Credential).NonrevIndex") && idx == 1 && a.Want == Nil && desc(callArgs(c)[0]) == "new:gabi.Credential"
	}})
	// NonrevIndex itself: succeeds only if some attribute equals the witness' E
	if ni := mustFunc(P, R, rule, "gabi.(*Credential).NonrevIndex"); ni != nil {
		mp(P, R, rule, "gabi.(*Credential).NonrevIndex:match", "NonrevIndex succeeds only when an attribute compared equal to NonRevocationWitness.E", ni, AcceptNilErr(1),
			&MustPass{Match: eqMatcher(matches(`^<gabi\.Credential>\.Attributes\[(#i|\*)\]$`), is("<gabi.Credential>.NonRevocationWitness.E"))})
	}
}

func assembledSignatureRule(P *Program, R *Report) {
	rule := "C06.b"
	fn := mustFunc(P, R, rule, kConstruct)
	if fn == nil {
		return
	}
	fs := litFieldStores(fn, "new:gabi.CLSignature")
	sig := ismD + ".Signature"
	for _, row := range []struct{ f, want string }{{"A", sig + ".A"}, {"E", sig + ".E"}, {"KeyshareP", cbD + ".keyshareP"}} {
		got := ""
		if st := fs[row.f]; st != nil {
			got = desc(st.Val)
		}
		R.decide(rule, kConstruct+":sig."+row.f, "signature."+row.f+" = "+row.want, got == row.want, "got "+got, P.Pos(fn.Pos()))
	}
	wantV := tsum(tsym(sig+".V"), tsym(cbD+".vPrime"))
	gotV := termAtStore(P, fn, fs["V"])
	R.decide(rule, kConstruct+":sig.V", "signature.V = msg.Signature.V + vPrime", gotV.equal(wantV), "got "+gotV.String(), P.Pos(fn.Pos()))
	cs := litFieldStores(fn, "new:gabi.Credential")
	var msDesc string
	for _, c := range callsIn(fn) {
		if isCallTo(c, kCLVerify) {
			msDesc = desc(callArgs(c)[2])
		}
	}
	for _, row := range []struct{ f, want string }{{"Pk", cbD + ".pk"}, {"Signature", "new:gabi.CLSignature"}, {"Attributes", msDesc}, {"NonRevocationWitness", ismD + ".NonRevocationWitness"}} {
		got := ""
		if st := cs[row.f]; st != nil {
			got = desc(st.Val)
		}
		R.decide(rule, kConstruct+":cred."+row.f, "credential."+row.f+" = "+row.want, got == row.want && got != "", "got "+got, P.Pos(fn.Pos()))
	}
}

func blindSumRule(P *Program, R *Report) {
	rule := "C06.c"
	fn := mustFunc(P, R, rule, kConstruct)
	if fn == nil {
		return
	}
	key := "rangekey(" + cbD + ".mUser)"
	var msVal ssa.Value
	for _, c := range callsIn(fn) {
		if isCallTo(c, kCLVerify) {
			msVal = callArgs(c)[2]
		}
	}
	if msVal == nil {
		R.bad(rule, kConstruct+":ms", "the message block verified by the signature is identifiable", "no CLSignature.Verify call", P.Pos(fn.Pos()))
		return
	}
	msD := desc(msVal)
	share := ismD + ".MIssuer[" + key + "]"
	checks := []struct {
		name, what string
		m          func(a Atom) bool
	}{
		{"index-in-range", "the blind index is below len(ms)", func(a Atom) bool {
			g, ok := parseGuard(a, nil)
			if !ok {
				return false
			}
			rel, ok := g.intRel(key, "len("+msD+")")
			return ok && rel == "<"
		}},
		{"slot-nil", "the slot is nil before the sum is stored", func(a Atom) bool { return desc(a.V) == msD+"["+key+"]" && a.Want == Nil }},
		{"issuer-share-non-nil", "the issuer's share for this index is present (nil => error, not a panic)", func(a Atom) bool {
			d := desc(a.V)
			return (d == share && a.Want == NonNil) || (d == "has("+share+")" && a.Want == True)
		}},
	}
	for _, ck := range checks {
		ck := ck
		fa := &ForAll{P: P, Spec: ForAllSpec{Coll: is(cbD + ".mUser"), Body: func(f *ssa.Function, l *Loop) *MustPass {
			return &MustPass{Match: ck.m}
		}}}
		m := fa.OnAccept(fn, AcceptNilErr(1))
		R.decide(rule, kConstruct+":blind:"+ck.name, "for every user share: "+ck.what, m.Holds, m.Path, P.Pos(fn.Pos()))
	}
	// the sum (in ConstructCredential or in a helper it hands the message block to)
	okSum, got := false, ""
	deepVisit(P, fn, 2, func(g *ssa.Function) {
		be := P.bigEval(g)
		allInstrs(g, func(i ssa.Instruction) {
			st, ok := i.(*ssa.Store)
			if !ok {
				return
			}
			ia, ok := st.Addr.(*ssa.IndexAddr)
			if !ok || desc(ia.X) != msD || desc(ia.Index) != key {
				return
			}
			t := be.Use[st][st.Val]
			got = t.String()
			okSum = t.equal(tsum(tsym(share), tsym(cbD+".mUser[*]")))
		})
	})
	R.decide(rule, kConstruct+":blind:sum", "ms[i] = MIssuer[i] + mUser[i]", okSum, "got "+got, P.Pos(fn.Pos()))
	// all loop: every user share is processed before the signature is verified
	fa := &ForAll{P: P, Spec: ForAllSpec{Coll: is(cbD + ".mUser"), Body: func(f *ssa.Function, l *Loop) *MustPass {
		return &MustPass{Instr: func(_ *ssa.Function, i ssa.Instruction) bool {
			st, ok := i.(*ssa.Store)
			if !ok {
				return false
			}
			ia, ok := st.Addr.(*ssa.IndexAddr)
			return ok && desc(ia.X) == msD && desc(ia.Index) == key
		}}
	}}}
	m := fa.OnAccept(fn, AcceptNilErr(1))
	R.decide(rule, kConstruct+":blind:every-share", "every user share is combined into its slot on every successful path", m.Holds, m.Path, P.Pos(fn.Pos()))
}

// hashRoles evaluates the 5-element sequence hashed by HashCommit in fn and returns descriptors + terms.
func hashRoles(P *Program, fn *ssa.Function) (call *ssa.Call, elems []SeqElem, terms []Term, issig string, ok bool) {
	for _, c := range callsIn(fn) {
		if isCallTo(c, "common.HashCommit") {
			call = c.(*ssa.Call)
		}
	}
	be := P.bigEval(fn)
	if call == nil {
		// the hash may be taken in an unexported helper that returns it (one helper shared by prover and verifier):
		// its list is evaluated with the helper's parameters standing for this function's arguments
		for _, c := range callsIn(fn) {
			outer, isCall := c.(*ssa.Call)
			g := staticCallee(c)
			if !isCall || g == nil || !inModuleFn(g) || g.Blocks == nil || (g.Object() != nil && g.Object().Exported()) {
				continue
			}
			var hc *ssa.Call
			for _, ic := range callsIn(g) {
				if isCallTo(ic, "common.HashCommit") {
					hc, _ = ic.(*ssa.Call)
				}
			}
			if hc == nil {
				continue
			}
			returnsIt := true
			for _, r := range returnsOf(g) {
				if retCount(r) != 1 || siteOf(retValue(r, 0)) != ssa.Value(hc) {
					returnsIt = false
				}
			}
			if !returnsIt {
				continue
			}
			var inner []SeqElem
			okSeq := false
			bindCall(c, g, func() {
				inner, okSeq = seqOf(callArgs(hc)[0])
				issig = desc(callArgs(hc)[1])
			})
			if !okSeq {
				return outer, nil, nil, "", false
			}
			args := callArgs(c)
			for _, e := range inner {
				t := termTop()
				if p, isP := e.V.(*ssa.Parameter); isP {
					for k, gp := range g.Params {
						if gp == p && k < len(args) {
							e.V = args[k]
							e.D = desc(args[k])
							if at := be.At[outer]; k < len(at) {
								t = at[k]
							}
						}
					}
				}
				elems = append(elems, e)
				terms = append(terms, t)
			}
			return outer, elems, terms, issig, true
		}
		return nil, nil, nil, "", false
	}
	issig = desc(callArgs(call)[1])
	elems, ok = seqOf(callArgs(call)[0])
	if !ok {
		return call, nil, nil, "", false
	}
	for _, e := range elems {
		t := termTop()
		if e.V != nil {
			// term at the store that placed it
			for _, r := range referrersOf(e.V) {
				if st, isSt := r.(*ssa.Store); isSt && st.Val == e.V {
					if tt, has := be.Use[st][e.V]; has {
						t = tt
					}
				}
			}
		}
		terms = append(terms, t)
	}
	return call, elems, terms, issig, true
}

func proofSRule(P *Program, R *Report) {
	rule := "C06.d"
	fn := mustFunc(P, R, rule, kProofSVer)
	if fn == nil {
		return
	}
	call, elems, terms, issig, ok := hashRoles(P, fn)
	if !ok || len(elems) != 5 {
		R.und(rule, kProofSVer+":hash", "the hashed sequence has the five roles", fmt.Sprintf("could not evaluate (call=%v, %d elements)", call != nil, len(elems)), P.Pos(fn.Pos()))
		return
	}
	N := tsym(pkD + ".N")
	A, E := tsym(clsig+".A"), tsym(clsig+".E")
	C, ER := tsym("<gabi.ProofS>.C"), tsym("<gabi.ProofS>.EResponse")
	want := []Term{tsym("arg#3"), termFn("Exp", A, E, N), A, tsym("arg#4"), termFn("Exp", A, tsum(C, tmul(ER, E)), N)}
	names := []string{"context", "Q=A^e", "A", "nonce", "ACommit=A^(C+EResponse*e)"}
	for i := range want {
		R.decide(rule, fmt.Sprintf("%s:role%d:%s", kProofSVer, i, names[i]), "hashed element "+fmt.Sprint(i)+" is "+names[i], terms[i].equal(want[i]), "got "+terms[i].String()+" want "+want[i].String(), P.Pos(call.Pos()))
	}
	R.decide(rule, kProofSVer+":issig", "ProofS is hashed without the signature-session marker", issig == "false", issig, P.Pos(call.Pos()))
	mp(P, R, rule, kProofSVer+":C==hash", "accept => p.C compared equal to that hash", fn, AcceptTrue(0), &MustPass{Match: func(a Atom) bool {
		x, y, ok := parseEq(a)
		if !ok {
			return false
		}
		return (desc(x) == "<gabi.ProofS>.C" && y == ssa.Value(call)) || (desc(y) == "<gabi.ProofS>.C" && x == ssa.Value(call))
	}})
}

func proveSignatureRule(P *Program, R *Report) {
	rule := "C06.e"
	fn := mustFunc(P, R, rule, kProveSig)
	if fn == nil {
		return
	}
	call, elems, terms, issig, ok := hashRoles(P, fn)
	if !ok || len(elems) != 5 {
		R.und(rule, kProveSig+":hash", "the hashed sequence has the five roles", fmt.Sprintf("%d elements", len(elems)), P.Pos(fn.Pos()))
		return
	}
	N := tsym("<gabi.Issuer>.Pk.N")
	A, E := tsym(clsig+".A"), tsym(clsig+".E")
	Q := termFn("Exp", A, E, N)
	eCommit := tsym("call:gabi.randomElementMultiplicativeGroup(<gabi.Issuer>.Sk.Order)#0")
	want := []Term{tsym("<gabi.Issuer>.Context"), Q, A, tsym("arg#2"), termFn("Exp", Q, eCommit, N)}
	names := []string{"context", "Q=A^e", "A", "nonce", "ACommit=Q^eCommit"}
	for i := range want {
		R.decide(rule, fmt.Sprintf("%s:role%d:%s", kProveSig, i, names[i]), "hashed element "+fmt.Sprint(i)+" is "+names[i], terms[i].equal(want[i]), "got "+terms[i].String()+" want "+want[i].String(), P.Pos(call.Pos()))
	}
	R.decide(rule, kProveSig+":issig", "hashed without the signature-session marker", issig == "false", issig, P.Pos(call.Pos()))
	// response
	be := P.bigEval(fn)
	order := tsym("<gabi.Issuer>.Sk.Order")
	d := termFn("ModInverse", E, order)
	wantResp := termFn("Mod", tsub(eCommit, tmul(tsym(desc(call)), d)), order)
	gotResp, gotC := termTop(), ""
	for _, st := range litFieldStores(fn, "new:gabi.ProofS") {
		_ = st
	}
	fs := litFieldStores(fn, "new:gabi.ProofS")
	if st := fs["EResponse"]; st != nil {
		gotResp = be.Use[st][st.Val]
	}
	if st := fs["C"]; st != nil {
		gotC = desc(st.Val)
	}
	R.decide(rule, kProveSig+":response", "EResponse = eCommit - c*e^-1 mod Order", gotResp.equal(wantResp), "got "+gotResp.String()+" want "+wantResp.String(), P.Pos(fn.Pos()))
	R.decide(rule, kProveSig+":C", "the proof carries the hash as C", gotC == desc(call), "got "+gotC, P.Pos(fn.Pos()))
	mp(P, R, rule, kProveSig+":inverse-checked", "a proof is returned only if e is invertible modulo the group order", fn, AcceptNilErr(1), &MustPass{Match: func(a Atom) bool {
		c, _ := callAndResult(a.V)
		return c != nil && bigMethod(c) == "ModInverse" && a.Want == NonNil
	}})
}

func blindConventionRule(P *Program, R *Report) {
	rule := "C06.g"
	if fn := mustFunc(P, R, rule, kNewCB); fn != nil {
		ok := false
		allInstrs(fn, func(i ssa.Instruction) {
			if mu, isMU := i.(*ssa.MapUpdate); isMU && desc(mu.Key) == "(arg#5[#i]+1)" {
				if c, idx := callAndResult(mu.Value); c != nil && idx == 0 && calleeIs(c, "common.RandomBigInt") {
					a, _ := affineOf(callArgs(c)[0])
					ok = a.String() == "Lm-1"
				}
			}
		})
		R.decide(rule, kNewCB+":mUser-index", "the user's share for blind attribute i is stored under index i+1 and has Lm-1 bits", ok, "", P.Pos(fn.Pos()))
		// U = S^vPrime * R0^secret * Π Ri^mi (* keyshareP) mod N
		fs := litFieldStores(fn, "new:gabi.CredentialBuilder")
		got := ""
		if st := fs["u"]; st != nil {
			got = desc(st.Val)
		}
		if P.Func("gabi.userCommitment") != nil {
			R.decide(rule, kNewCB+":U-source", "the builder's commitment is userCommitment(pk, secret, vPrime, mUser)", strings.HasPrefix(got, "call:gabi.userCommitment(<gabikeys.PublicKey>,arg#2,call:common.RandomBigInt("), "got "+got, P.Pos(fn.Pos()))
		} else if st := fs["u"]; st != nil {
			// the commitment is computed in the constructor itself: same dependences, in the constructor's terms
			requireDeps(P, R, rule, kNewCB+":U", fn, []ssa.Value{st.Val}, 1, []depReq{
				{"pk.S", is(pkD + ".S"), "S"}, {"vPrime", matches(`^call:common\.RandomBigInt\(.*\)#0$`), "blinding"}, {"pk.R[0]", is(pkD + ".R[0]"), "secret-key base"}, {"secret", is("arg#2"), "secret"},
				{"pk.R[key]", is(pkD + ".R[rangekey(makemap)]"), "blind bases"}, {"msg[*]", is("makemap[*]"), "blind shares"}, {"pk.N", is(pkD + ".N"), "modulus"},
			})
		} else {
			R.bad(rule, kNewCB+":U-source", "the builder's commitment is computed", "field u is not set", P.Pos(fn.Pos()))
		}
	}
	if uc := P.Func("gabi.userCommitment"); uc != nil {
		roots := []ssa.Value{}
		for _, r := range returnsOf(uc) {
			roots = append(roots, r.Results...)
		}
		requireDeps(P, R, rule, "gabi.userCommitment", uc, roots, 1, []depReq{
			{"pk.S", is(pkD + ".S"), "S"}, {"vPrime", is("arg#2"), "blinding"}, {"pk.R[0]", is(pkD + ".R[0]"), "secret-key base"}, {"secret", is("arg#1"), "secret"},
			{"pk.R[key]", is(pkD + ".R[rangekey(arg#3)]"), "blind bases"}, {"msg[*]", is("arg#3[*]"), "blind shares"}, {"pk.N", is(pkD + ".N"), "modulus"},
		})
	}
	if fn := mustFunc(P, R, rule, kSignCommit); fn != nil {
		okIdx, okNil := false, false
		allInstrs(fn, func(i ssa.Instruction) {
			if mu, isMU := i.(*ssa.MapUpdate); isMU && desc(mu.Key) == "(arg#3[#i]+1)" {
				if c, idx := callAndResult(mu.Value); c != nil && idx == 0 && calleeIs(c, "common.RandomBigInt") {
					a, _ := affineOf(callArgs(c)[0])
					okIdx = a.String() == "Lm-1"
				}
			}
		})
		fa := &ForAll{P: P, Spec: ForAllSpec{Coll: is("arg#3"), Body: func(f *ssa.Function, l *Loop) *MustPass {
			return &MustPass{Match: func(a Atom) bool { return desc(a.V) == "arg#2[arg#3[#i]]" && a.Want == Nil }}
		}}}
		okNil = fa.inFn(fn, AcceptNilErr(2)).holds
		R.decide(rule, kSignCommit+":mIssuer-index", "the issuer's share for blind attribute j is stored under index j+1 and has Lm-1 bits", okIdx, "", P.Pos(fn.Pos()))
		R.decide(rule, kSignCommit+":slot-nil", "the issuer refuses a non-nil attribute at a blind index", okNil, "", P.Pos(fn.Pos()))
		// the signed block has the issuer's share at the same position
		okMs := false
		allInstrs(fn, func(i ssa.Instruction) {
			if st, isSt := i.(*ssa.Store); isSt {
				if ia, isIA := st.Addr.(*ssa.IndexAddr); isIA && desc(ia.Index) == "(arg#3[#i]+1)" {
					if c, idx := callAndResult(st.Val); c != nil && idx == 0 && calleeIs(c, "common.RandomBigInt") {
						okMs = true
					}
				}
			}
		})
		R.decide(rule, kSignCommit+":signed-share", "the signed message block carries the same share at position j+1", okMs, "", P.Pos(fn.Pos()))
	}
}
