package main

import (
	"regexp"
	"go/token"
	_ "embed"
	"fmt"
	"sort"
	"strings"

	"golang.org/x/tools/go/ssa"
)

// ---- "only the specified rejections": the completeness direction -----------------------------------
//
// Must-pass rules decide "accept => every required test passed". They cannot see a verifier that
// refuses MORE than the specification says (an extra size limit, a stricter comparison), which breaks
// the other half of most properties: honest inputs are accepted. For a tabled verifier every branch
// that leads directly into a rejecting exit (return false / return of a non-nil error) is enumerated
// and classified; a branch whose condition is not of a specified kind is reported.

type rejectSpec struct {
	Fn      string
	Err     int      // index of the error result, or -1 for a bool verdict at index Bool
	Bool    int      //
	Guards  []string // allowed size/order tests: "subject-regexp|kind|rels" e.g. "<gabi.ProofD>\\.EResponse|big|<,>"
	Calls   []string // callees whose false/err outcome may reject (substring match on the callee name)
	Conds   []string // other allowed conditions, matched as regexp on the normalised condition text
	MinRej  int
	NilRoot []string // descriptor prefixes whose nil tests may reject
}

func reasonOf(a Atom, be *BigEval) (kind, text string) {
	kind, text = reasonOfRaw(a, be)
	if kind != "call" && kind != "err" {
		text = canonReason(text)
	}
	return kind, text
}

func reasonOfRaw(a Atom, be *BigEval) (kind, text string) {
	a = normAtom(a)
	// `slices.Contains(X, nil)`: some element of X is missing
	if c, _ := callAndResult(a.V); c != nil && a.Want == True && calleeName(c) == "slices.Contains" && len(callArgs(c)) == 2 && isNilConst(callArgs(c)[1]) {
		return "nil", desc(callArgs(c)[0]) + "[#i]"
	}
	// a search over a collection that found nothing is the exhausted loop, whichever way the search is written
	if c, _ := callAndResult(a.V); c != nil && a.Want == False {
		switch calleeName(c) {
		case "slices.ContainsFunc", "slices.Contains":
			return "guard", "#i|int|>=|len(" + desc(callArgs(c)[0]) + ")"
		}
	}
	if g, ok := parseGuard(a, nil); ok && g.Kind == "int" && g.BoundA.isConst() {
		if c, isCall := stripConv(g.SubjV).(*ssa.Call); isCall {
			switch calleeName(c) {
			case "slices.IndexFunc", "slices.Index":
				k := g.BoundA.C
				if (g.Rel == "<" && k <= 0) || (g.Rel == "==" && k == -1) || (g.Rel == "<=" && k < 0) {
					return "guard", "#i|int|>=|len(" + desc(callArgs(c)[0]) + ")"
				}
			}
		}
	}
	if bo, ok := a.V.(*ssa.BinOp); ok && (isNilConst(bo.Y) || isNilConst(bo.X)) {
		x := bo.X
		if isNilConst(x) {
			x = bo.Y
		}
		if isErrorType(x.Type()) {
			if c, _ := callAndResult(x); c != nil {
				return "err", calleeName(c)
			}
			return "err", desc(x)
		}
		return "nil", desc(x)
	}
	// `v, ok := m[k]; if !ok ...`: an absent entry is the missing component `m[k]`
	if d := desc(a.V); strings.HasPrefix(d, "has(") && strings.HasSuffix(d, ")") && a.Want == False {
		return "nil", d[4 : len(d)-1]
	}
	if g, ok := parseGuard(a, be); ok {
		subj, rel := g.Subject, g.Rel
		// both operands equally subject-like (two message fields, two indices): name the guard by the
		// lexicographically smaller operand so that `a < b` and `b > a` are the same reason
		other := ""
		switch g.Kind {
		case "int":
			if !g.BoundA.isConst() {
				other = g.BoundA.String()
			}
		case "big":
			if n := g.Bound.opaqueName(); n != "" {
				other = n
			}
			// an operand obtained from a lookup helper is named by the value the helper returns
			if g.Call != nil && len(callArgs(g.Call)) == 2 {
				for _, op := range callArgs(g.Call) {
					if op == g.SubjV {
						if desc(op) == subj {
							subj = descNN(op)
						}
					} else if desc(op) == other {
						other = descNN(op)
					}
				}
			}
		}
		swapped := false
		if other != "" && guardRank(other) == guardRank(subj) && other < subj {
			subj, rel = other, relFlip[rel]
			swapped = true
		}
		// an integer test also names what it compares with (an off-by-one in a bound is another reason): the relation
		// is first brought to its canonical strictness (x > b is x >= b+1, x <= b is x < b+1)
		if g.Kind == "int" && !swapped {
			b := g.BoundA
			if b.isConst() && (b.C == 9223372036854775807 || b.C == -9223372036854775808) {
				return "guard", fmt.Sprintf("%s|%s|%s|%s", subj, g.Kind, rel, b.String())
			}
			switch rel {
			case ">":
				rel, b = ">=", b.add(affConst(1))
			case "<=":
				rel, b = "<", b.add(affConst(1))
			}
			// a length is not negative: len(x) < 1 is len(x) == 0, len(x) >= 1 is len(x) != 0
			if strings.HasPrefix(subj, "len(") && b.isConst() && b.C == 1 {
				switch rel {
				case "<":
					rel, b = "==", affConst(0)
				case ">=":
					rel, b = "!=", affConst(0)
				}
			}
			return "guard", fmt.Sprintf("%s|%s|%s|%s", subj, g.Kind, rel, b.String())
		}
		// a size test on an integer object in canonical strictness (x > b is x >= b+1, x <= b is x < b+1), so that
		// `x > 2^k - 1` and `x >= 2^k` are one reason; the bound itself is the business of the size rules (C01.c, ...)
		if g.Kind == "big" && !swapped {
			switch rel {
			case ">":
				rel = ">="
			case "<=":
				rel = "<"
			}
		}
		return "guard", fmt.Sprintf("%s|%s|%s", subj, g.Kind, rel)
	}
	if c, _ := callAndResult(a.V); c != nil {
		return "call", fmt.Sprintf("%s is %s", calleeName(c), a.Want)
	}
	return "cond", fmt.Sprintf("%s is %s", desc(a.V), a.Want)
}

// rejectingReturns: returns of fn that reject according to the spec.
func rejectingReturns(fn *ssa.Function, sp rejectSpec) []*ssa.Return {
	var out []*ssa.Return
	for _, r := range returnsOf(fn) {
		if sp.Err >= 0 {
			v := retValue(r, sp.Err)
			if isNilConst(v) {
				continue
			}
			out = append(out, r)
			continue
		}
		if v, isB := boolConst(retValue(r, sp.Bool)); isB && !v {
			out = append(out, r)
		}
	}
	return out
}

// canonReason makes a reason independent of how unexported helpers are named, shaped (method or function) and
// called: the result of an unexported module function is `call:<pkg>.?` whatever its name and arguments. (The
// reason then says "index found by a helper is negative", not which helper.)
var fromSuffix = regexp.MustCompile(`\(from \d+\)`)

func canonReason(d string) string {
	// a walk that starts after the first element rejects on the same condition for fewer elements: the same reason
	d = fromSuffix.ReplaceAllString(d, "")
	// a sorted list of a map's keys is a locally built key list however it is built
	for {
		i := strings.Index(d, "call:slices.Sorted(call:maps.Keys(")
		if i < 0 {
			break
		}
		j := i + len("call:slices.Sorted(call:maps.Keys(")
		depth := 2
		for j < len(d) && depth > 0 {
			if d[j] == '(' {
				depth++
			} else if d[j] == ')' {
				depth--
			}
			j++
		}
		d = d[:i] + "makeslice" + d[j:]
	}
	var sb strings.Builder
	for i := 0; i < len(d); {
		if !strings.HasPrefix(d[i:], "call:") {
			sb.WriteByte(d[i])
			i++
			continue
		}
		j := i + len("call:")
		// package
		k := j
		for k < len(d) && (d[k] == '_' || d[k] >= 'a' && d[k] <= 'z' || d[k] >= 'A' && d[k] <= 'Z' || d[k] >= '0' && d[k] <= '9') {
			k++
		}
		pkg := d[j:k]
		if k >= len(d) || d[k] != '.' || pkg == "" || pkg == "invoke" || pkg == "builtin" {
			sb.WriteString("call:")
			i = j
			continue
		}
		k++
		if k < len(d) && d[k] == '(' { // receiver
			for k < len(d) && d[k] != ')' {
				k++
			}
			k++
			if k >= len(d) || d[k] != '.' {
				sb.WriteString("call:")
				i = j
				continue
			}
			k++
		}
		n0 := k
		for k < len(d) && (d[k] == '_' || d[k] >= 'a' && d[k] <= 'z' || d[k] >= 'A' && d[k] <= 'Z' || d[k] >= '0' && d[k] <= '9') {
			k++
		}
		name := d[n0:k]
		if name == "" || !(name[0] >= 'a' && name[0] <= 'z') || k >= len(d) || d[k] != '(' || !modulePkgShort[pkg] {
			sb.WriteString("call:")
			i = j
			continue
		}
		// skip the balanced argument list and a result selector
		depth := 0
		for k < len(d) {
			if d[k] == '(' {
				depth++
			} else if d[k] == ')' {
				depth--
				if depth == 0 {
					k++
					break
				}
			}
			k++
		}
		if k < len(d) && d[k] == '#' {
			k++
			for k < len(d) && d[k] >= '0' && d[k] <= '9' {
				k++
			}
		}
		sb.WriteString("call:" + pkg + ".?")
		i = k
	}
	return sb.String()
}

// modulePkgShort: short names of the module's packages (as they appear in descriptors).
var modulePkgShort = map[string]bool{"gabi": true, "gabikeys": true, "revocation": true, "rangeproof": true, "keyproof": true, "zkproof": true, "common": true, "signed": true, "safeprime": true, "big": true, "pool": true, "cbor": true}

type rejReason struct {
	kind, text, shown, pos, fn string
}

// collectRejections enumerates the rejecting branches of fn and, through module-internal callees whose
// failure is the reason of a branch, of the whole verification tree below it.
// rejectFoundMode: functions being examined as search helpers (reasons = conditions of returning an index).
// (true: the integer result is the index found; with rejectFoundBool[fn] = k > 0: result k is the boolean "found")
var rejectFoundMode = map[*ssa.Function]bool{}
var rejectFoundBool = map[*ssa.Function]int{}

func collectRejections(P *Program, fn *ssa.Function, depth int, seenFn map[string]bool, out *[]rejReason) int {
	if fn == nil || fn.Blocks == nil || depth > 6 {
		return 0
	}
	sk := fmt.Sprintf("%p", fn) + bindingSig(fn)
	if seenFn[sk] {
		return 0
	}
	seenFn[sk] = true
	sp := rejectSpec{Fn: FuncKey(fn), Err: -1, Bool: -1}
	res := fn.Signature.Results()
	for i := 0; i < res.Len(); i++ {
		if isErrorType(res.At(i).Type()) {
			sp.Err = i
		} else if res.At(i).Type().String() == "bool" && sp.Bool < 0 {
			sp.Bool = i
		}
	}
	foundMode := rejectFoundMode[fn]
	if sp.Err < 0 && sp.Bool < 0 && !foundMode {
		return 0
	}
	be := P.bigEval(fn)
	n := 0
	var record func(a Atom, pos string)
	var intoBlock func(b *ssa.BasicBlock, depth int, seen map[*ssa.BasicBlock]bool)
	descend := func(v ssa.Value) bool {
		c, _ := callAndResult(v)
		if c == nil {
			return false
		}
		cs := P.callees(c)
		if len(cs) == 0 {
			return false
		}
		for _, g := range cs {
			if !inModuleFn(g) || g.Blocks == nil {
				return false
			}
		}
		for _, g := range cs {
			bindCall(c, g, func() { collectRejections(P, g, depth+1, seenFn, out) })
		}
		return true
	}
	record = func(a Atom, pos string) {
		a = normAtom(a)
		// a boolean built from a conjunction/disjunction: expand
		if phi, ok := a.V.(*ssa.Phi); ok && (a.Want == False || a.Want == True) {
			for i, e := range phi.Edges {
				if bc, isB := boolConst(e); isB {
					if bc == (a.Want == True) {
						p := phi.Block().Preds[i]
						if iff, ok := p.Instrs[len(p.Instrs)-1].(*ssa.If); ok {
							want := True
							if p.Succs[1] == phi.Block() {
								want = False
							}
							record(Atom{Fn: fn, V: iff.Cond, Want: want}, P.Pos(condPos(iff)))
						} else {
							intoBlock(p, 0, map[*ssa.BasicBlock]bool{})
						}
					}
					continue
				}
				record(Atom{Fn: fn, V: e, Want: a.Want}, pos)
			}
			return
		}
		// the caller rejects because a search helper found an offender: the helper's own conditions for returning an
		// index are the reasons
		if sc, ok := searchFound(a); ok {
			if g := staticCallee(sc); g != nil {
				rejectFoundMode[g] = true
				bindCall(sc, g, func() { n += collectRejections(P, g, depth+1, seenFn, out) })
				delete(rejectFoundMode, g)
				return
			}
		}
		// `idx, found := firstOffender(x)` with found true: likewise, the helper's conditions for returning found = true
		if ex, isEx := a.V.(*ssa.Extract); isEx && a.Want == True && ex.Index > 0 && isBoolType(ex.Type()) {
			if sc, isCall := ex.Tuple.(*ssa.Call); isCall {
				if g := staticCallee(sc); g != nil && inModuleFn(g) && g.Blocks != nil && g.Object() != nil && !g.Object().Exported() && !rejectFoundMode[g] {
					rejectFoundMode[g], rejectFoundBool[g] = true, ex.Index
					bindCall(sc, g, func() { n += collectRejections(P, g, depth+1, seenFn, out) })
					delete(rejectFoundMode, g)
					delete(rejectFoundBool, g)
					return
				}
			}
		}
		// `slices.Contains(list, nil)` over a list of known elements (the arguments of a variadic presence check): one
		// missing-component reason per element
		if c, _ := callAndResult(a.V); c != nil && a.Want == True && calleeName(c) == "slices.Contains" && len(callArgs(c)) == 2 && isNilConst(callArgs(c)[1]) {
			lst := callArgs(c)[0]
			if p, isP := lst.(*ssa.Parameter); isP {
				if b, ok := paramBindV[p]; ok && b != nil {
					lst = b
				}
			}
			if seq, ok := seqOf(lst); ok && len(seq) > 0 {
				all := true
				for _, e := range seq {
					if e.Kind != "elem" || e.V == nil {
						all = false
					}
				}
				if all {
					for _, e := range seq {
						n++
						*out = append(*out, rejReason{"nil", canonReason(desc(e.V)), "[" + desc(e.V) + " is nil]", pos, FuncKey(fn)})
					}
					return
				}
			}
		}
		n++
		kind, text := reasonOf(a, be)
		// failure of a module-internal callee: its own reasons count instead
		if kind == "call" || kind == "err" {
			var v ssa.Value = a.V
			if bo, ok := a.V.(*ssa.BinOp); ok {
				v = bo.X
				if isNilConst(v) {
					v = bo.Y
				}
			}
			if descend(v) {
				return
			}
		}
		*out = append(*out, rejReason{kind, text, "[" + desc(a.V) + " is " + a.Want.String() + "]", pos, FuncKey(fn)})
	}
	intoBlock = func(b *ssa.BasicBlock, depth int, seen map[*ssa.BasicBlock]bool) {
		if seen[b] || depth > 4 {
			return
		}
		seen[b] = true
		for _, p := range b.Preds {
			iff, ok := p.Instrs[len(p.Instrs)-1].(*ssa.If)
			if !ok {
				if len(p.Succs) == 1 && onlyJumpAndPure(p) {
					intoBlock(p, depth+1, seen)
				}
				continue
			}
			want := True
			if p.Succs[1] == b {
				want = False
			}
			// both sides reject (the test only picks the message): the reason is whatever led here
			if !foundMode && rejectsAtOnce(p.Succs[0], sp) && rejectsAtOnce(p.Succs[1], sp) {
				intoBlock(p, depth+1, seen)
				continue
			}
			record(Atom{Fn: fn, V: iff.Cond, Want: want}, P.Pos(condPos(iff)))
		}
	}
	var verdict func(v ssa.Value, r *ssa.Return, seen map[ssa.Value]bool)
	verdict = func(v ssa.Value, r *ssa.Return, seen map[ssa.Value]bool) {
		if seen[v] {
			return
		}
		seen[v] = true
		if bc, isB := boolConst(v); isB {
			if !bc {
				intoBlock(r.Block(), 0, map[*ssa.BasicBlock]bool{})
			}
			return
		}
		record(Atom{Fn: fn, V: v, Want: False}, P.Pos(r.Pos()))
	}
	if foundMode {
		for _, r := range returnsOf(fn) {
			if k := rejectFoundBool[fn]; k > 0 {
				if k < retCount(r) {
					if bc, isB := boolConst(retValue(r, k)); isB && bc {
						intoBlock(r.Block(), 0, map[*ssa.BasicBlock]bool{})
					} else if !isB {
						record(Atom{Fn: fn, V: retValue(r, k), Want: True}, P.Pos(r.Pos()))
					}
				}
				continue
			}
			if retCount(r) != 1 {
				continue
			}
			if c, ok := constInt(retValue(r, 0)); ok && c < 0 {
				continue
			}
			intoBlock(r.Block(), 0, map[*ssa.BasicBlock]bool{})
			_ = knownNonNegative
		}
		return n
	}
	for _, r := range returnsOf(fn) {
		if sp.Err >= 0 {
			ev := retValue(r, sp.Err)
			if isNilConst(ev) {
				continue
			}
			// `return x, f(...)`: the callee's own reasons
			if c, _ := callAndResult(ev); c != nil {
				if _, isMI := ev.(*ssa.MakeInterface); !isMI && descend(ev) {
					continue
				}
			}
			// `return x, obj.err`: a stored error handed on as it is rejects exactly when it is set
			if u, isLoad := ev.(*ssa.UnOp); isLoad && u.Op == token.MUL {
				if _, isField := u.X.(*ssa.FieldAddr); isField {
					n++
					*out = append(*out, rejReason{"err", desc(ev), "[" + desc(ev) + " returned]", P.Pos(r.Pos()), FuncKey(fn)})
					continue
				}
			}
			// `return x, err` forwarding a callee's error: the branch that tested it is the reason
			intoBlock(r.Block(), 0, map[*ssa.BasicBlock]bool{})
			continue
		}
		verdict(retValue(r, sp.Bool), r, map[ssa.Value]bool{})
	}
	return n
}

// rejectsAtOnce: the block does nothing but return a rejection (a non-nil error that is made here, or false).
func rejectsAtOnce(b *ssa.BasicBlock, sp rejectSpec) bool {
	if len(b.Instrs) == 0 {
		return false
	}
	r, ok := b.Instrs[len(b.Instrs)-1].(*ssa.Return)
	if !ok {
		return false
	}
	if sp.Err >= 0 && sp.Err < len(r.Results) {
		_, made := r.Results[sp.Err].(*ssa.MakeInterface)
		return made
	}
	if sp.Bool >= 0 && sp.Bool < len(r.Results) {
		bc, isB := boolConst(r.Results[sp.Bool])
		return isB && !bc
	}
	return false
}

func rejectionsRule(P *Program, R *Report, rule string, sp rejectSpec) {
	fn := mustFunc(P, R, rule, sp.Fn)
	if fn == nil {
		return
	}
	var reasons []rejReason
	collectRejections(P, fn, 0, map[string]bool{}, &reasons)
	type res struct {
		ok        bool
		text, pos string
	}
	found := map[string]*res{}
	for _, rr := range reasons {
		ok2 := false
		switch rr.kind {
		case "nil":
			for _, pre := range sp.NilRoot {
				if strings.HasPrefix(rr.text, pre) {
					ok2 = true
				}
			}
		case "err", "call":
			for _, c := range sp.Calls {
				if strings.Contains(rr.text, c) {
					ok2 = true
				}
			}
		case "guard":
			parts := strings.Split(rr.text, "|")
			for _, g := range sp.Guards {
				gp := strings.Split(g, "|")
				if len(gp) == 3 && len(parts) == 3 && matches("^(?:"+gp[0]+")$")(parts[0]) && gp[1] == parts[1] {
					for _, rel := range strings.Split(gp[2], ",") {
						if rel == parts[2] {
							ok2 = true
						}
					}
				}
			}
		case "cond":
			for _, c := range sp.Conds {
				if matches(c)(rr.text) {
					ok2 = true
				}
			}
		}
		key := rr.fn + ":" + rr.kind + ":" + rr.text
		if cur, dup := found[key]; dup {
			cur.ok = cur.ok && ok2
		} else {
			found[key] = &res{ok2, rr.shown, rr.pos}
		}
	}
	keys := make([]string, 0, len(found))
	for k := range found {
		keys = append(keys, k)
	}
	sort.Strings(keys)
	for _, k := range keys {
		v := found[k]
		R.decide(rule, sp.Fn+":reject:"+k, "a rejecting branch in this verification tree is one of the specified reasons (anything else refuses inputs the specification accepts)", v.ok, "rejects on "+k+" "+v.text, v.pos)
	}
	R.decide(rule, sp.Fn+":rejections", fmt.Sprintf("the rejecting branches of the tree were enumerated (>= %d)", sp.MinRej), len(reasons) >= sp.MinRej, fmt.Sprintf("%d", len(reasons)), P.Pos(fn.Pos()))
}

// onlyJumpAndPure: the block has no calls or stores (it only forwards control).
func onlyJumpAndPure(b *ssa.BasicBlock) bool {
	for _, i := range b.Instrs {
		switch i.(type) {
		case *ssa.Jump, *ssa.Phi, *ssa.DebugRef:
		default:
			return false
		}
	}
	return true
}

// ---- verification trees and their specified rejection reasons ---------------------------------------

//go:embed rejections_table.txt
var rejectionsTableText string

// rejTrees: name -> roots. The reasons of a tree are the union over its roots and everything below them.
var rejTrees = map[string][]string{
	"show":     {kListVerify, kProofDVerify, kProofUVerify},
	"issue":    {"gabi.(*CredentialBuilder).ConstructCredential", "gabi.(*ProofS).Verify"},
	"witness":  {"revocation.(*Witness).Update", "revocation.(*Witness).Verify"},
	"keyproof": {kVKVerify},
	"keyshare": {"gabi.KeyshareResponse", "gabi.KeyshareUserCommitmentRequest", "gabi.KeyshareUserResponseRequest", "gabi.NewKeyshareCommitments"},
	"prove":    {"gabi.(*Credential).CreateDisclosureProof", "gabi.(*Credential).CreateDisclosureProofBuilder", "gabi.(ProofBuilderList).BuildProofList", "gabi.(ProofBuilderList).BuildDistributedProofList"},
	"loadkeys": {"gabikeys.NewPublicKeyFromBytes", "gabikeys.NewPublicKeyFromXML", "gabikeys.NewPublicKeyFromFile", "gabikeys.NewPublicKey", "gabikeys.NewPrivateKey", "gabikeys.NewPrivateKeyFromXML", "gabikeys.NewPrivateKeyFromFile"},
}

func rejTable(tree string) map[string]bool {
	out := map[string]bool{}
	for _, l := range strings.Split(rejectionsTableText, "\n") {
		l = strings.TrimSpace(l)
		if l == "" || strings.HasPrefix(l, "#") {
			continue
		}
		parts := strings.SplitN(l, "\t", 3)
		if len(parts) == 3 && parts[0] == tree {
			out[parts[1]+":"+parts[2]] = true
		}
	}
	return out
}

func treeReasons(P *Program, tree string) ([]rejReason, []string) {
	var reasons []rejReason
	var missing []string
	seen := map[string]bool{}
	// reasons are named by the object tested, not by the path it was reached through: access paths restart at
	// every pointer to a module struct (`<rangeproof.Statement>.Factor` whether reached as a receiver or as stmts[i][j])
	oldReroot := descReroot
	descReroot = true
	defer func() { descReroot = oldReroot }()
	for _, k := range rejTrees[tree] {
		f := P.Func(k)
		if f == nil {
			missing = append(missing, k)
			continue
		}
		collectRejections(P, f, 0, seen, &reasons)
	}
	return reasons, missing
}

// treeRejectionsRule: every rejecting branch in the tree is one of the tabled reasons.
func treeRejectionsRule(P *Program, R *Report, rule, tree, what string) {
	reasons, missing := treeReasons(P, tree)
	for _, m := range missing {
		R.und(rule, m, "entry point of the tree found", "", "")
	}
	table := rejTable(tree)
	distinct := map[string]rejReason{}
	for _, r := range reasons {
		k := r.kind + ":" + r.text
		if _, dup := distinct[k]; !dup {
			distinct[k] = r
		}
		R.seen(r.fn)
	}
	nKnown := 0
	var unknown []string
	for k := range distinct {
		if table[k] {
			nKnown++
		} else if strings.HasPrefix(k, "nil:") {
			// a test for a missing component can only refuse malformed input: allowed as a class
			nKnown++
		} else {
			unknown = append(unknown, k)
		}
	}
	sort.Strings(unknown)
	for _, k := range unknown {
		r := distinct[k]
		R.bad(rule, tree+":reject:"+k, "every rejecting branch of "+what+" is one of the specified reasons (anything else refuses inputs the specification accepts)", "in "+r.fn+": rejects on "+k+" "+r.shown, r.pos)
	}
	R.decide(rule, tree+":specified-rejections", fmt.Sprintf("the rejecting branches of %s were enumerated and matched against the %d specified reasons (at least 80%% of them are present)", what, len(table)), len(table) > 0 && nKnown*5 >= len(table)*4,
		fmt.Sprintf("%d branches, %d distinct reasons, %d of them specified", len(reasons), len(distinct), nKnown), "")
}
