package main

import (
	"fmt"
	"go/token"
	"go/types"
	"sort"
	"strings"

	"golang.org/x/tools/go/ssa"
)

// Pred is the polarity demanded of a value.
type Pred int

const (
	True Pred = iota
	False
	Nil
	NonNil
)

func (p Pred) String() string { return [...]string{"true", "false", "nil", "non-nil"}[p] }
func (p Pred) neg() Pred {
	switch p {
	case True:
		return False
	case False:
		return True
	case Nil:
		return NonNil
	}
	return Nil
}

// Atom is an irreducible condition with the polarity it has on the path being explored.
type Atom struct {
	Fn   *ssa.Function
	V    ssa.Value
	Want Pred
}

func (a Atom) String() string { return fmt.Sprintf("%s is %s", desc(a.V), a.Want) }

type demand struct {
	v    ssa.Value
	want Pred
}

// Accept describes which returns of a function are "accepting" and under which demand.
type Accept struct {
	Kind   string // "true" (bool result), "nilerr" (error result nil), "nonnil" (result non-nil), "any"
	Result int    // result index
}

func AcceptTrue(i int) Accept   { return Accept{"true", i} }
func AcceptNilErr(i int) Accept { return Accept{"nilerr", i} }
func AcceptNonNil(i int) Accept { return Accept{"nonnil", i} }

// AcceptFalse: the exits on which a boolean result is false (`_, found := firstOffender(xs)` with found false).
func AcceptFalse(i int) Accept { return Accept{"false", i} }
func AcceptAny() Accept         { return Accept{"any", 0} }

// AcceptNegInt: the exits of a search helper on which nothing was found - an integer result that is not a
// non-negative constant (`return -1`; a computed result counts, conservatively).
func AcceptNegInt(i int) Accept { return Accept{"negint", i} }

// knownNonNegative: a non-negative constant, a length, or the index variable of a counting/range loop.
func knownNonNegative(v ssa.Value) bool {
	v = stripConv(v)
	if c, ok := constInt(v); ok {
		return c >= 0
	}
	switch x := v.(type) {
	case *ssa.Call:
		return isCallTo(x, "builtin:len") || isCallTo(x, "builtin:cap")
	case *ssa.Phi:
		if !isInduction(x) {
			return false
		}
		for _, e := range x.Edges {
			if c, ok := constInt(e); ok && c < 0 {
				return false
			}
		}
		return true
	case *ssa.BinOp:
		// range loops count from -1 and use index+1
		if ph, ok := x.X.(*ssa.Phi); ok && x.Op == token.ADD && isInduction(ph) {
			if c, ok := constInt(x.Y); ok && c == 1 {
				for _, e := range ph.Edges {
					if k, isC := constInt(e); isC && k < -1 {
						return false
					}
				}
				return true
			}
		}
	}
	return false
}

// searchMissed: the atom says that a module-internal search helper with an integer result found nothing
// (`firstBad(xs) >= 0` is false, `idx < 0`, `idx == -1`): returns the call.
func searchMissed(a Atom) (*ssa.Call, bool) {
	g, ok := parseGuard(normAtom(a), nil)
	if !ok || g.Kind != "int" || !g.BoundA.isConst() {
		return nil, false
	}
	c, isCall := stripConv(g.SubjV).(*ssa.Call)
	if !isCall || c.Call.Signature().Results().Len() != 1 || !isIntegerType(c.Type()) {
		return nil, false
	}
	f := staticCallee(c)
	if f == nil || !inModuleFn(f) || f.Blocks == nil {
		return nil, false
	}
	k := g.BoundA.C
	if (g.Rel == "<" && k <= 0) || (g.Rel == "<=" && k < 0) || (g.Rel == "==" && k < 0) {
		return c, true
	}
	return nil, false
}

// searchFound: the opposite - the helper returned an index (`firstBad(xs) >= 0`).
func searchFound(a Atom) (*ssa.Call, bool) {
	na := normAtom(a)
	switch na.Want {
	case True:
		na.Want = False
	case False:
		na.Want = True
	default:
		return nil, false
	}
	return searchMissed(na)
}

// MustPass is a query: does every accepting path of Fn pass the obligation?
type MustPass struct {
	P   *Program
	Key string // memo key of the obligation (matcher identity)
	// Match: the atom (with polarity) establishes the obligation.
	Match func(a Atom) bool
	// Instr: executing this instruction establishes the obligation.
	Instr func(fn *ssa.Function, i ssa.Instruction) bool
	// Exempt: crossing this atom makes the path exempt (tabled reason).
	Exempt func(a Atom) bool
	// NoInterproc disables descending into callees.
	NoInterproc bool
	MaxDepth    int

	memo    map[string]bool // fn|accept -> holds
	inprog  map[string]bool
	visited map[string]bool // functions analysed (for evidence)
}

// PathStep / result
type mpPath struct {
	Blocks []string
}

type mpResult struct {
	Holds bool
	Path  string // a shortest uncovered accepting path (when !Holds)
	NAcc  int    // number of accepting exits examined
}

type mpState struct {
	b      *ssa.BasicBlock
	pend   []demand // unresolved phi demands and established atom facts (non-phi values)
	parent *mpState
	note   string
}

func pendKey(b *ssa.BasicBlock, pend []demand) string {
	parts := make([]string, 0, len(pend))
	for _, d := range pend {
		parts = append(parts, fmt.Sprintf("%s=%d", d.v.Name(), d.want))
	}
	sort.Strings(parts)
	return fmt.Sprintf("%d|%s", b.Index, strings.Join(parts, ","))
}

type resKind int

const (
	rPruned resKind = iota
	rDischarged
	rDropped
	rPending
)

var nonNilErrCalls = map[string]bool{
	"github.com/go-errors/errors.New": true, "github.com/go-errors/errors.Errorf": true, "github.com/go-errors/errors.WrapPrefix": true,
	"github.com/go-errors/errors.Wrap": true, "fmt.Errorf": true, "errors.New": true,
}

// Check runs the query on fn.
func (q *MustPass) Check(fn *ssa.Function, acc Accept) mpResult {
	q.init()
	return q.check(fn, acc, 0, nil, nil)
}

func (q *MustPass) init() {
	if q.memo == nil {
		q.memo = map[string]bool{}
		q.inprog = map[string]bool{}
		q.visited = map[string]bool{}
	}
	if q.MaxDepth == 0 {
		q.MaxDepth = 6
	}
}

func (q *MustPass) Visited() []string {
	var out []string
	for k := range q.visited {
		out = append(out, k)
	}
	sort.Strings(out)
	return out
}

// retValue resolves defer-spilled results: `*t0 = v; rundefers; t = *t0; return t` yields v.
func retValue(ret *ssa.Return, i int) ssa.Value {
	v := refRetRaw(ret, i)
	u, ok := v.(*ssa.UnOp)
	if !ok || u.Op != token.MUL {
		return v
	}
	instrs := ret.Block().Instrs
	if al, ok := u.X.(*ssa.Alloc); ok {
		for k := len(instrs) - 1; k >= 0; k-- {
			if st, ok := instrs[k].(*ssa.Store); ok && st.Addr == ssa.Value(al) {
				// the spilled value may itself be a reloaded field: resolve once more
				if uu, ok := st.Val.(*ssa.UnOp); ok && uu.Op == token.MUL {
					return reloadInBlock(uu, instrs, k)
				}
				return st.Val
			}
		}
		return v
	}
	return reloadInBlock(u, instrs, len(instrs))
}

// reloadInBlock: a load of a field that was stored earlier in the same block yields the stored value.
func reloadInBlock(u *ssa.UnOp, instrs []ssa.Instruction, before int) ssa.Value {
	if _, isField := u.X.(*ssa.FieldAddr); !isField {
		return u
	}
	d := desc(u.X)
	pos := before
	for k, ins := range instrs {
		if ins == ssa.Instruction(u) {
			pos = k
		}
	}
	for k := pos - 1; k >= 0; k-- {
		if st, ok := instrs[k].(*ssa.Store); ok && desc(st.Addr) == d {
			return st.Val
		}
	}
	return u
}

// acceptDemands returns (demands, accepting?) for a return.
func acceptDemands(ret *ssa.Return, acc Accept) ([]demand, bool) {
	if fn := ret.Parent(); fn != nil && fn.Recover != nil && fn.Recover == ret.Block() {
		return nil, false // the recover block is not a normal exit
	}
	switch acc.Kind {
	case "errnonnil":
		if acc.Result >= retCount(ret) {
			return nil, false
		}
		return []demand{{retValue(ret, acc.Result), NonNil}}, true
	case "any":
		return nil, true
	case "true":
		if acc.Result >= retCount(ret) {
			return nil, false
		}
		return []demand{{retValue(ret, acc.Result), True}}, true
	case "false":
		if acc.Result >= retCount(ret) {
			return nil, false
		}
		return []demand{{retValue(ret, acc.Result), False}}, true
	case "nilerr":
		if acc.Result >= retCount(ret) {
			return nil, false
		}
		return []demand{{retValue(ret, acc.Result), Nil}}, true
	case "nonnil":
		if acc.Result >= retCount(ret) {
			return nil, false
		}
		return []demand{{retValue(ret, acc.Result), NonNil}}, true
	case "negint":
		if acc.Result >= retCount(ret) {
			return nil, false
		}
		if knownNonNegative(retValue(ret, acc.Result)) {
			return nil, false
		}
		return nil, true
	}
	return nil, false
}

func AcceptErr(i int) Accept { return Accept{"errnonnil", i} }

// MustReach: every path from fn's entry to instruction ins passes the obligation (before ins).
func (q *MustPass) MustReach(fn *ssa.Function, ins ssa.Instruction) mpResult {
	q.init()
	return q.search(fn, AcceptAny(), 0, searchOpts{startAt: []*mpState{{b: ins.Block(), note: "at " + q.P.Pos(ins.Pos())}}, startInstr: ins})
}

// errorReachableFrom: can a return with a non-nil error (result index errIdx) be reached from instruction ins?
func errorReachableFrom(P *Program, fn *ssa.Function, ins ssa.Instruction, errIdx int) string {
	q := &MustPass{P: P}
	q.init()
	return forwardToAccept(q, fn, ins.Block(), nil, AcceptErr(errIdx))
}

// searchOpts tune the backward search.
type searchOpts struct {
	walls     map[*ssa.BasicBlock]bool
	terminal  *ssa.BasicBlock // reaching it (after the first step) is reaching the "entry"
	predOK    func(b, pred *ssa.BasicBlock) bool
	startAt   []*mpState // explicit start states (instead of accepting returns)
	skipFirst bool       // start states are not tested for terminal/instr (loop header start)
	startInstr ssa.Instruction // for explicit start states: only instructions before this one count in the start block
}

// check performs the backward search from the accepting returns of fn.
func (q *MustPass) check(fn *ssa.Function, acc Accept, depth int, walls map[*ssa.BasicBlock]bool, terminal *ssa.BasicBlock) mpResult {
	return q.search(fn, acc, depth, searchOpts{walls: walls, terminal: terminal})
}

func (q *MustPass) search(fn *ssa.Function, acc Accept, depth int, o searchOpts) mpResult {
	if fn == nil || fn.Blocks == nil {
		return mpResult{Holds: false, Path: "no body"}
	}
	q.visited[FuncKey(fn)] = true
	var queue []*mpState
	seen := map[string]bool{}
	nacc := 0
	first := map[*mpState]bool{}
	enqueue := func(s *mpState) {
		k := pendKey(s.b, s.pend)
		if seen[k] {
			return
		}
		seen[k] = true
		queue = append(queue, s)
	}
	if o.startAt != nil {
		for _, s := range o.startAt {
			if o.skipFirst {
				first[s] = true
			}
			queue = append(queue, s)
		}
		nacc = len(o.startAt)
	} else {
		for _, b := range fn.Blocks {
			if len(b.Instrs) == 0 {
				continue
			}
			ret, ok := b.Instrs[len(b.Instrs)-1].(*ssa.Return)
			if !ok {
				continue
			}
			ds, ok := acceptDemands(ret, acc)
			if !ok {
				continue
			}
			var pend []demand
			status := rDropped
			for _, d := range ds {
				k, p := q.resolve(fn, d.v, d.want, depth)
				if k == rPruned {
					status = rPruned
					break
				}
				if k == rDischarged {
					status = rDischarged
				}
				pend = append(pend, p...)
			}
			if status == rPruned {
				continue
			}
			if contradictory(pend) {
				continue
			}
			nacc++
			if status == rDischarged {
				continue
			}
			enqueue(&mpState{b: b, pend: dedupDemands(pend), note: "return at " + q.P.Pos(ret.Pos())})
		}
	}
	for len(queue) > 0 {
		s := queue[0]
		queue = queue[1:]
		b := s.b
		if !first[s] {
			if o.walls[b] {
				continue
			}
			// instructions in this block
			discharged := false
			from := len(b.Instrs) - 1
			if o.startInstr != nil && s.parent == nil && o.startAt != nil && b == o.startInstr.Block() {
				for i, ins := range b.Instrs {
					if ins == o.startInstr {
						from = i - 1
					}
				}
			}
			for i := from; i >= 0; i-- {
				if q.instrDischarges(fn, b.Instrs[i], depth) {
					discharged = true
					break
				}
			}
			if discharged {
				continue
			}
			if (o.terminal != nil && b == o.terminal) || (o.terminal == nil && len(b.Preds) == 0) {
				return mpResult{Holds: false, Path: q.renderPath(fn, s), NAcc: nacc}
			}
		}
		for i, p := range b.Preds {
			if o.predOK != nil && !o.predOK(b, p) {
				continue
			}
			var newPend []demand
			status := rDropped
			notes := []string{}
			for _, d := range s.pend {
				// a remembered fact is about one dynamic instance of its SSA value: moving backwards out of
				// the block that defines the value ends that instance (around a loop the same SSA name
				// denotes the previous iteration's value, which may well have had the opposite outcome)
				if ins, isIns := d.v.(ssa.Instruction); isIns && ins.Block() == b {
					if _, isPhi := d.v.(*ssa.Phi); !isPhi {
						continue
					}
				}
				if phi, ok := d.v.(*ssa.Phi); ok && phi.Block() == b {
					k, pp := q.resolve(fn, phi.Edges[i], d.want, depth)
					if k == rPruned {
						status = rPruned
						break
					}
					if k == rDischarged {
						status = rDischarged
					}
					newPend = append(newPend, pp...)
				} else {
					newPend = append(newPend, d)
				}
			}
			if status == rPruned {
				continue
			}
			if iff, ok := p.Instrs[len(p.Instrs)-1].(*ssa.If); ok && p.Succs[0] != p.Succs[1] {
				want := True
				if p.Succs[1] == b {
					want = False
				}
				k, pp := q.resolve(fn, iff.Cond, want, depth)
				if k == rPruned {
					continue
				}
				if k == rDischarged {
					status = rDischarged
				}
				newPend = append(newPend, pp...)
				notes = append(notes, fmt.Sprintf("[%s: %s is %s]", q.P.Pos(condPos(iff)), desc(iff.Cond), want))
			}
			if status == rDischarged {
				continue
			}
			if contradictory(newPend) {
				continue // infeasible: the same value tested with opposite outcomes
			}
			enqueue(&mpState{b: p, pend: dedupDemands(newPend), parent: s, note: strings.Join(notes, " ")})
		}
	}
	return mpResult{Holds: true, NAcc: nacc}
}

func condPos(iff *ssa.If) token.Pos {
	if iff.Cond.Pos().IsValid() {
		return iff.Cond.Pos()
	}
	if ins, ok := iff.Cond.(ssa.Instruction); ok {
		for _, op := range ins.Operands(nil) {
			if *op != nil && (*op).Pos().IsValid() {
				return (*op).Pos()
			}
		}
	}
	return iff.Pos()
}

func dedupDemands(ds []demand) []demand {
	var out []demand
	for _, d := range ds {
		dup := false
		for _, e := range out {
			if e.v == d.v && e.want == d.want {
				dup = true
			}
		}
		if !dup {
			out = append(out, d)
		}
	}
	return out
}

func (q *MustPass) renderPath(fn *ssa.Function, s *mpState) string {
	var steps []string
	for x := s; x != nil; x = x.parent {
		st := fmt.Sprintf("b%d", x.b.Index)
		if x.note != "" {
			st += " " + x.note
		}
		steps = append(steps, st)
	}
	// s is the entry-most state; parents go toward the return
	return FuncKey(fn) + ": entry -> " + strings.Join(steps, " -> ")
}

// resolve reduces a demand to (status, pending phi demands).
func (q *MustPass) resolve(fn *ssa.Function, v ssa.Value, want Pred, depth int) (resKind, []demand) {
	switch x := v.(type) {
	case *ssa.Const:
		if x.Value == nil { // nil constant
			switch want {
			case Nil:
				return rDropped, nil
			case NonNil:
				return rPruned, nil
			}
			return rDropped, nil
		}
		if b, ok := boolConst(x); ok {
			if (b && want == True) || (!b && want == False) {
				return rDropped, nil
			}
			return rPruned, nil
		}
		return rDropped, nil
	case *ssa.UnOp:
		if x.Op == token.NOT {
			return q.resolve(fn, x.X, want.neg(), depth)
		}
	case *ssa.BinOp:
		if x.Op == token.EQL || x.Op == token.NEQ {
			w := want
			if x.Op == token.NEQ {
				w = want.neg()
			}
			// w is the polarity of "X == Y"
			if isNilConst(x.Y) && (w == True || w == False) {
				if w == True {
					return q.resolve(fn, x.X, Nil, depth)
				}
				return q.resolve(fn, x.X, NonNil, depth)
			}
			if isNilConst(x.X) && (w == True || w == False) {
				if w == True {
					return q.resolve(fn, x.Y, Nil, depth)
				}
				return q.resolve(fn, x.Y, NonNil, depth)
			}
			if b, ok := boolConst(x.Y); ok {
				if b == (w == True) {
					return q.resolve(fn, x.X, True, depth)
				}
				return q.resolve(fn, x.X, False, depth)
			}
		}
	case *ssa.Phi:
		return rPending, []demand{{x, want}}
	case *ssa.MakeInterface:
		if want == Nil {
			return rPruned, nil
		}
		if want == NonNil {
			return rDropped, nil
		}
	case *ssa.ChangeInterface:
		return q.resolve(fn, x.X, want, depth)
	case *ssa.ChangeType:
		return q.resolve(fn, x.X, want, depth)
	case *ssa.Call:
		if (want == Nil || want == NonNil) && nonNilErrCalls[calleeName(x)] {
			if want == Nil {
				return rPruned, nil
			}
			return rDropped, nil
		}
	case *ssa.Alloc, *ssa.MakeMap, *ssa.MakeSlice, *ssa.MakeChan, *ssa.MakeClosure:
		if want == Nil {
			return rPruned, nil
		}
	}
	// atom
	a := Atom{Fn: fn, V: v, Want: want}
	if q.Exempt != nil && q.Exempt(a) {
		return rDischarged, nil
	}
	if q.Match != nil && q.Match(a) {
		return rDischarged, nil
	}
	if !q.NoInterproc && depth < q.MaxDepth {
		if q.calleeImplies(v, want, depth) {
			return rDischarged, nil
		}
		if q.existsImplies(a, depth) {
			return rDischarged, nil
		}
		// `slices.Contains(list, nil)` is false: every element of the list is non-nil - for a list whose elements are
		// known (a literal, e.g. the arguments of a variadic helper) the fact holds for each of them
		if c, _ := callAndResult(normAtom(a).V); c != nil && normAtom(a).Want == False && calleeName(c) == "slices.Contains" && len(callArgs(c)) == 2 && isNilConst(callArgs(c)[1]) && q.Match != nil {
			lst := callArgs(c)[0]
			if p, isP := lst.(*ssa.Parameter); isP {
				if b, ok := paramBindV[p]; ok && b != nil {
					lst = b
				}
			}
			if seq, ok := seqOf(lst); ok {
				for _, e := range seq {
					if e.Kind == "elem" && e.V != nil && q.Match(Atom{Fn: fn, V: e.V, Want: NonNil}) {
						return rDischarged, nil
					}
				}
			}
		}
		// a search helper that found nothing ran its loop to the end: what every non-finding exit passed holds
		if c, ok := searchMissed(a); ok {
			if g := staticCallee(c); g != nil {
				held := false
				bindCall(c, g, func() { held = q.implied(g, AcceptNegInt(0), depth+1) })
				if held {
					return rDischarged, nil
				}
			}
		}
	}
	// remember the fact: the same SSA value cannot have the opposite polarity on the same path
	return rPending, []demand{{v, want}}
}

// contradictory: two facts about the same non-phi value with opposite polarity.
func contradictory(ds []demand) bool {
	for i, d := range ds {
		if _, isPhi := d.v.(*ssa.Phi); isPhi {
			continue
		}
		for _, e := range ds[i+1:] {
			if e.v == d.v && e.want == d.want.neg() {
				return true
			}
		}
	}
	return false
}

// callAndResult: if v is the result (or an extracted result) of a call, returns the call and result index.
func callAndResult(v ssa.Value) (*ssa.Call, int) {
	switch x := v.(type) {
	case *ssa.Call:
		return x, 0
	case *ssa.Extract:
		if c, ok := x.Tuple.(*ssa.Call); ok {
			return c, refResultIndex(c, x.Index)
		}
	case *ssa.Field, *ssa.FieldAddr:
		if c, h, ok := bundledResult(v); ok {
			return c, h
		}
	case *ssa.UnOp:
		if x.Op == token.MUL {
			if c, h, ok := bundledResult(x.X); ok {
				return c, h
			}
		}
	}
	return nil, 0
}

// calleeImplies: the atom is "call G returned true/nil/non-nil"; does that imply the obligation
// for every possible callee G?
func (q *MustPass) calleeImplies(v ssa.Value, want Pred, depth int) bool {
	c, idx := callAndResult(v)
	if c == nil {
		return false
	}
	var acc Accept
	switch want {
	case True:
		acc = AcceptTrue(idx)
	case False:
		// "the search found nothing": only for a second, boolean result of an unexported helper (`idx, found := f(x)`)
		if idx == 0 || !isBoolType(v.Type()) {
			return false
		}
		acc = AcceptFalse(idx)
	case Nil:
		// only for error-typed results
		if !isErrorType(v.Type()) {
			return false
		}
		acc = AcceptNilErr(idx)
	case NonNil:
		if isErrorType(v.Type()) {
			return false
		}
		acc = AcceptNonNil(idx)
	default:
		return false
	}
	cs := q.P.callees(c)
	if len(cs) == 0 {
		return false
	}
	for _, g := range cs {
		if !inModuleFn(g) || g.Blocks == nil {
			return false
		}
		ok := false
		bindCall(c, g, func() { ok = q.implied(g, acc, depth+1) })
		if !ok {
			return false
		}
	}
	return true
}

// existsImplies: the atom says that a search with a predicate found an element - slices.ContainsFunc(S, f) is
// true, slices.IndexFunc(S, f) >= 0 - so f returned true for some element of S. The obligation follows if every
// true-returning path of f passes it, with f's parameter described as an element of S.
func (q *MustPass) existsImplies(a Atom, depth int) bool {
	a = normAtom(a)
	var c *ssa.Call
	if cc, _ := callAndResult(a.V); cc != nil && calleeName(cc) == "slices.ContainsFunc" && a.Want == True {
		c = cc
	} else if g, ok := parseGuard(a, nil); ok && g.Kind == "int" && g.BoundA.isConst() {
		if cc, isCall := stripConv(g.SubjV).(*ssa.Call); isCall && calleeName(cc) == "slices.IndexFunc" {
			k := g.BoundA.C
			if (g.Rel == ">=" && k >= 0) || (g.Rel == ">" && k >= -1) || (g.Rel == "!=" && k == -1) || (g.Rel == "==" && k >= 0) {
				c = cc
			}
		}
	}
	if c == nil || len(callArgs(c)) != 2 {
		return false
	}
	var f *ssa.Function
	switch x := callArgs(c)[1].(type) {
	case *ssa.MakeClosure:
		f, _ = x.Fn.(*ssa.Function)
	case *ssa.Function:
		f = x
	}
	if f == nil || f.Blocks == nil || len(f.Params) != 1 || !inModuleFn(f) {
		return false
	}
	p := f.Params[0]
	old, had := paramBind[p]
	oldV, hadV := paramBindV[p]
	paramBind[p] = desc(callArgs(c)[0]) + "[*]"
	delete(paramBindV, p)
	defer func() {
		if had {
			paramBind[p] = old
		} else {
			delete(paramBind, p)
		}
		if hadV {
			paramBindV[p] = oldV
		}
	}()
	return q.implied(f, AcceptTrue(0), depth+1)
}

func (q *MustPass) implied(g *ssa.Function, acc Accept, depth int) bool {
	key := fmt.Sprintf("%s|%s%d%s", FuncKey(g), acc.Kind, acc.Result, bindingSig(g))
	if r, ok := q.memo[key]; ok {
		return r
	}
	if q.inprog[key] {
		return false
	}
	q.inprog[key] = true
	r := q.check(g, acc, depth, nil, nil)
	delete(q.inprog, key)
	// "holds" with zero accepting exits means G never accepts: vacuously implies
	q.memo[key] = r.Holds
	return r.Holds
}

func isErrorType(t types.Type) bool {
	n, ok := t.(*types.Named)
	return ok && n.Obj().Pkg() == nil && n.Obj().Name() == "error"
}

// instrDischarges: executing instruction i establishes the obligation (directly, or because it is a
// call to a module function all of whose normal returns pass the obligation).
func (q *MustPass) instrDischarges(fn *ssa.Function, i ssa.Instruction, depth int) bool {
	if q.Instr == nil {
		return false
	}
	if q.Instr(fn, i) {
		return true
	}
	if q.NoInterproc || depth >= q.MaxDepth {
		return false
	}
	c, ok := i.(*ssa.Call)
	if !ok {
		return false
	}
	cs := q.P.callees(c)
	if len(cs) == 0 {
		return false
	}
	for _, g := range cs {
		if !inModuleFn(g) || g.Blocks == nil {
			return false
		}
		ok := false
		bindCall(c, g, func() { ok = q.implied(g, AcceptAny(), depth+1) })
		if !ok {
			return false
		}
	}
	return true
}

// ---- loops -------------------------------------------------------------------

// Loop describes a natural loop found by its header.
type Loop struct {
	Header *ssa.BasicBlock
	Body   map[*ssa.BasicBlock]bool // blocks of the loop incl. header
	Latch  []*ssa.BasicBlock        // preds of header inside the loop
	Entry  []*ssa.BasicBlock        // preds of header outside the loop
}

// findLoop returns the natural loop with the given header.
func findLoop(h *ssa.BasicBlock) *Loop {
	l := &Loop{Header: h, Body: map[*ssa.BasicBlock]bool{h: true}}
	for _, p := range h.Preds {
		if h.Dominates(p) {
			l.Latch = append(l.Latch, p)
		} else {
			l.Entry = append(l.Entry, p)
		}
	}
	if len(l.Latch) == 0 {
		return nil
	}
	work := append([]*ssa.BasicBlock(nil), l.Latch...)
	for len(work) > 0 {
		b := work[len(work)-1]
		work = work[:len(work)-1]
		if l.Body[b] {
			continue
		}
		l.Body[b] = true
		work = append(work, b.Preds...)
	}
	return l
}

// rangeLoopsOver returns loops of fn that iterate over a collection whose descriptor satisfies pred:
// `for k, v := range m` on a map (Range/Next), `for i, v := range s` / `for i := range s` on a slice
// (index phi compared with len(s)), or `for i := 0; i < len(s); i++`.
func rangeLoopsOver(fn *ssa.Function, pred func(collDesc string) bool) []*Loop {
	var out []*Loop
	seen := map[*ssa.BasicBlock]bool{}
	for _, b := range fn.Blocks {
		for _, ins := range b.Instrs {
			var coll ssa.Value
			switch x := ins.(type) {
			case *ssa.Next:
				if r, ok := x.Iter.(*ssa.Range); ok {
					coll = r.X
				}
			case *ssa.BinOp:
				// i < len(coll) in a loop header
				// (i counts from 0 by 1: a loop that starts elsewhere does not walk the whole collection)
				if x.Op == token.LSS {
					if c, ok := x.Y.(*ssa.Call); ok && isCallTo(c, "builtin:len") {
						if ph, isPhi := stripConv(x.X).(*ssa.Phi); isPhi && isInduction(ph) {
							coll = callArgs(c)[0]
						} else if bo, isBo := stripConv(x.X).(*ssa.BinOp); isBo && bo.Op == token.ADD {
							// rotated form: the latch tests i+1 < len
							if ph, isPhi := bo.X.(*ssa.Phi); isPhi && isInduction(ph) {
								if k, isC := constInt(bo.Y); isC && k == 1 {
									coll = callArgs(c)[0]
								}
							}
						}
					}
				}
			}
			if coll == nil || !pred(desc(coll)) || seen[b] {
				continue
			}
			if l := findLoop(b); l != nil {
				seen[b] = true
				out = append(out, l)
			} else if bo, isCmp := ins.(*ssa.BinOp); isCmp {
				// a rotated loop (`for i := range n`): the comparison sits in the latch, the header is the successor it
				// jumps back to
				if iff, isIf := b.Instrs[len(b.Instrs)-1].(*ssa.If); isIf && iff.Cond == ssa.Value(bo) {
					for _, sc := range b.Succs {
						if sc.Dominates(b) && !seen[sc] {
							if l := findLoop(sc); l != nil {
								seen[sc] = true
								seen[b] = true
								out = append(out, l)
							}
						}
					}
				}
			}
		}
	}
	return out
}

// ForAllBody checks that every path through the loop body (header -> ... -> back edge) passes the
// obligation, that the body cannot reach an accepting exit without going through the header, and
// (if mustEnter) that no accepting path avoids the loop header.
func (q *MustPass) ForAllBody(fn *ssa.Function, l *Loop, acc Accept, mustEnter bool) mpResult {
	q.init()
	// (ii) body: backward from the header's back edges to the header
	inLoop := func(_, p *ssa.BasicBlock) bool { return l.Body[p] }
	r0 := q.search(fn, acc, 0, searchOpts{terminal: l.Header, predOK: inLoop, skipFirst: true,
		startAt: []*mpState{{b: l.Header, note: "back edge"}}})
	if !r0.Holds {
		return mpResult{Holds: false, Path: "loop body path avoids the check: " + r0.Path}
	}
	// (i) no accept from inside the body except through the header: search backwards from accepting
	// exits with the header as wall; reaching a body block is a violation.
	walls := map[*ssa.BasicBlock]bool{l.Header: true}
	// a rotated loop (`for i := range n`) tests its condition at the bottom: leaving the loop from the latch is
	// finishing the iteration, like leaving it from the header of an ordinary loop
	for _, lt := range l.Latch {
		if iff, ok := lt.Instrs[len(lt.Instrs)-1].(*ssa.If); ok && len(lt.Succs) == 2 && (lt.Succs[0] == l.Header || lt.Succs[1] == l.Header) {
			_ = iff
			walls[lt] = true
		}
	}
	for b := range l.Body {
		if b == l.Header || walls[b] {
			continue
		}
		// is any accepting return reachable from b without passing the header? forward search
		if path := forwardToAccept(q, fn, b, walls, acc); path != "" {
			return mpResult{Holds: false, Path: "accepting exit reachable from inside the loop body without finishing the iteration: " + path}
		}
	}
	if mustEnter {
		// (iii) every accepting path passes through the header
		saveI, saveM := q.Instr, q.Match
		q.Instr = func(f *ssa.Function, i ssa.Instruction) bool { return f == fn && i.Block() == l.Header }
		q.Match = nil
		q.memo = map[string]bool{}
		r := q.check(fn, acc, q.MaxDepth, nil, nil) // no interproc
		q.Instr, q.Match = saveI, saveM
		q.memo = map[string]bool{}
		if !r.Holds {
			return mpResult{Holds: false, Path: "accepting path skips the loop: " + r.Path}
		}
	}
	return mpResult{Holds: true}
}

// forwardToAccept: from block b, moving forward without entering walls, can an accepting return be
// reached? Branch conditions crossed on the way are remembered as facts, so that `if err != nil {
// return nil, err }` is recognised as a rejecting exit.
func forwardToAccept(q *MustPass, fn *ssa.Function, from *ssa.BasicBlock, walls map[*ssa.BasicBlock]bool, acc Accept) string {
	type st struct {
		b     *ssa.BasicBlock
		prev  *ssa.BasicBlock
		facts []demand
	}
	seen := map[string]bool{}
	work := []st{{from, nil, nil}}
	for len(work) > 0 {
		s := work[len(work)-1]
		work = work[:len(work)-1]
		if walls[s.b] {
			continue
		}
		if ret, ok := s.b.Instrs[len(s.b.Instrs)-1].(*ssa.Return); ok {
			ds, isAcc := acceptDemands(ret, acc)
			if isAcc {
				rejecting := false
				facts := append([]demand(nil), s.facts...)
				for _, d := range ds {
					v := d.v
					if phi, ok := v.(*ssa.Phi); ok && phi.Block() == s.b && s.prev != nil {
						for i, p := range s.b.Preds {
							if p == s.prev {
								v = phi.Edges[i]
							}
						}
					}
					k, pp := q.resolveNoMatch(fn, v, d.want)
					if k == rPruned {
						rejecting = true
					}
					facts = append(facts, pp...)
				}
				if !rejecting && !contradictory(facts) {
					return fmt.Sprintf("b%d -> return at %s", from.Index, q.P.Pos(ret.Pos()))
				}
			}
			continue
		}
		key := pendKey(s.b, s.facts)
		if seen[key] {
			continue
		}
		seen[key] = true
		iff, isIf := s.b.Instrs[len(s.b.Instrs)-1].(*ssa.If)
		for i, n := range s.b.Succs {
			facts := s.facts
			// entering n starts new instances of the values defined there
			if len(facts) > 0 {
				var kept []demand
				for _, d := range facts {
					if ins, isIns := d.v.(ssa.Instruction); isIns && ins.Block() == n {
						continue
					}
					kept = append(kept, d)
				}
				facts = kept
			}
			base := facts
			if isIf && s.b.Succs[0] != s.b.Succs[1] {
				want := True
				if i == 1 {
					want = False
				}
				k, pp := q.resolveNoMatch(fn, iff.Cond, want)
				if k == rPruned {
					continue
				}
				facts = dedupDemands(append(append([]demand(nil), base...), pp...))
				if contradictory(facts) {
					continue
				}
			}
			work = append(work, st{n, s.b, facts})
		}
	}
	return ""
}

func (q *MustPass) resolveNoMatch(fn *ssa.Function, v ssa.Value, want Pred) (resKind, []demand) {
	sm, se, sn := q.Match, q.Exempt, q.NoInterproc
	q.Match, q.Exempt, q.NoInterproc = nil, nil, true
	k, p := q.resolve(fn, v, want, 0)
	q.Match, q.Exempt, q.NoInterproc = sm, se, sn
	return k, p
}
