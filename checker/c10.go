package main

import (
	"fmt"
	"go/token"
	"strings"

	"golang.org/x/tools/go/ssa"
)

const (
	kUpdVerify  = "revocation.(*Update).Verify"
	kSaccVerify = "revocation.(*SignedAccumulator).UnmarshalVerify"
	kELVerify   = "revocation.(*EventList).Verify"
	kHashEquals = "revocation.hashEquals"
	kHashEqual  = "revocation.(Hash).Equal"
	kHashAlg    = "revocation.(Hash).Algorithm"
	kSignedUV   = "signed.UnmarshalVerify"
	kSignedVer  = "signed.Verify"
	saccD       = "<revocation.SignedAccumulator>"
	elD         = "<revocation.EventList>"
	kPrepend    = "revocation.(*Update).Prepend"
	kHashUsing  = "revocation.hashUsingAlg"
	kELUncomp   = "revocation.(*EventList).uncompress"
)

func init() {
	register("C10",
		Rule{ID: "C10.a", Explain: "Update.Verify returns nil only if SignedAccumulator.UnmarshalVerify(pk) returned nil and EventList.Verify(acc) returned nil on a list holding exactly update.Events, against the accumulator that UnmarshalVerify returned.",
			Run: func(P *Program, R *Report) {
				fn := mustFunc(P, R, "C10.a", kUpdVerify)
				if fn == nil {
					return
				}
				mp(P, R, "C10.a", kUpdVerify+":signature", "nil error => update.SignedAccumulator.UnmarshalVerify(pk) returned nil", fn, AcceptNilErr(1), &MustPass{Match: func(a Atom) bool {
					c, idx := callAndResult(a.V)
					return c != nil && calleeIs(c, kSaccVerify) && idx == 1 && a.Want == Nil && desc(callArgs(c)[0]) == "<revocation.Update>.SignedAccumulator" && desc(callArgs(c)[1]) == pkD
				}})
				mp(P, R, "C10.a", kUpdVerify+":chain", "nil error => EventList.Verify(acc) returned nil for NewEventList(update.Events...) and the verified accumulator", fn, AcceptNilErr(1), &MustPass{Match: func(a Atom) bool {
					c, _ := callAndResult(a.V)
					if c == nil || !calleeIs(c, kELVerify) || a.Want != Nil {
						return false
					}
					return desc(callArgs(c)[0]) == "call:revocation.NewEventList(<revocation.Update>.Events)" &&
						desc(callArgs(c)[1]) == "call:"+kSaccVerify+"(<revocation.Update>.SignedAccumulator,"+pkD+")#0"
				}})
				if ne := mustFunc(P, R, "C10.a", "revocation.NewEventList"); ne != nil {
					fs := litFieldStores(ne, "new:revocation.EventList")
					ok := len(fs) == 1 && fs["Events"] != nil && desc(fs["Events"].Val) == "arg#0"
					R.decide("C10.a", "revocation.NewEventList:fresh", "NewEventList yields an unverified list holding exactly the given events (no memo flags set)", ok, fmt.Sprint(len(fs))+" fields set", P.Pos(ne.Pos()))
				}
			}},
		Rule{ID: "C10.b", Explain: "SignedAccumulator.UnmarshalVerify caches/returns a decoded accumulator only after the key counter matched and signed.UnmarshalVerify(pk.ECDSA, s.Data, fresh object) returned nil; signed.UnmarshalVerify decodes the payload into the destination only after Verify succeeded; signed.Verify is nil only if the DER signature has no trailing bytes and ecdsa.Verify over sha256(message) is true. The memoised path ignoring pk/Data is reported (known finding).",
			Run: func(P *Program, R *Report) { signedAccumulatorRule(P, R) }},
		Rule{ID: "C10.h", Explain: "memos of verification cannot arrive over the wire: SignedAccumulator.Accumulator, EventList.verified and Update.product are excluded from decoding.",
			Run: func(P *Program, R *Report) {
				notDecodableRule(P, R, "C10.h", [][2]string{{"revocation.SignedAccumulator", "Accumulator"}, {"revocation.EventList", "verified"}, {"revocation.Update", "product"}, {"revocation.Update", "productFrom"}})
			}},
		Rule{ID: "C10.c", Explain: "EventList.Verify: nil with a non-empty list => the last event's hash was compared with acc.EventHash (before any memo shortcut); for every i>0 the parent-hash test passed and for every i Index == start+i (unless the list carries the verified memo, tabled exemption).",
			Run: func(P *Program, R *Report) { eventListVerifyRule(P, R) }},
		Rule{ID: "C10.d", Explain: "byte equality: Hash.Equal is true only for equal length and bytes; hashEquals is nil only if Equal held between a freshly computed hash of the event (hashUsingAlg, which whitelists the algorithm) and the given hash; only SHA2-256 is whitelisted. (Decoding the given hash's header is not demanded separately: with exact equality against a freshly computed well-formed hash it is redundant.)",
			Run: func(P *Program, R *Report) { hashEqualityRule(P, R) }},
		Rule{ID: "C10.e", Explain: "the event hash input contains Index, ParentHash and E.",
			Run: func(P *Program, R *Report) {
				// every multihash.Sum in the package (hashUsingAlg today; wherever the code is moved)
				n := 0
				for _, fn := range P.AllFuncs {
					if fn.Pkg == nil || fn.Pkg.Pkg.Name() != "revocation" || fn.Blocks == nil {
						continue
					}
					for _, c := range callsIn(fn) {
						sum, isCall := c.(*ssa.Call)
						if !isCall || !isCallTo(c, "github.com/multiformats/go-multihash.Sum") {
							continue
						}
						n++
						key := FuncKey(fn)
						R.seen(key)
						requireDeps(P, R, "C10.e", key, fn, []ssa.Value{callArgs(sum)[0]}, 3, []depReq{
							{"Index", is("<revocation.Event>.Index"), "position in the chain"},
							{"ParentHash", is("<revocation.Event>.ParentHash"), "link to the parent"},
							{"E", is("<revocation.Event>.E"), "revoked value"},
						})
						alg := desc(callArgs(sum)[1])
						r := (&MustPass{P: P, Match: func(a Atom) bool {
							cc, ok := callAtom(a, Nil, "revocation.checkHashAlg")
							return ok && desc(callArgs(cc)[0]) == alg
						}}).MustReach(fn, sum)
						R.decide("C10.e", key+":alg-whitelisted", "a hash is produced only for a whitelisted algorithm (checkHashAlg of the same algorithm succeeded before multihash.Sum)", r.Holds, r.Path, P.Pos(sum.Pos()))
						// the digest is never truncated: length -1 (the algorithm's full length), as a constant here or in every caller
						okLen, why := constInAllCallers(P, fn, callArgs(sum)[2], -1, 0)
						R.decide("C10.e", key+":full-digest", "the event hash has the algorithm's full length (multihash.Sum(..., -1)): a length taken from a received hash lets a prefix compare equal", okLen, why, P.Pos(sum.Pos()))
					}
				}
				R.decide("C10.e", "revocation:sum-sites", "the event hash is computed by multihash.Sum (>= 1 site)", n >= 1, fmt.Sprintf("%d", n), "")
			}},
		Rule{ID: "C10.f", Explain: "Update.Prepend replaces the receiver (`*update = *n`) only after the merged list verified against the signed accumulator; it performs no other store through the receiver.",
			Run: func(P *Program, R *Report) {
				fn := mustFunc(P, R, "C10.f", kPrepend)
				if fn == nil {
					return
				}
				prependProductRule(P, R, "C10.f")
				sts := receiverStores(fn)
				R.decide("C10.f", kPrepend+":one-store", "exactly one store through the receiver", len(sts) == 1, fmt.Sprintf("%d stores", len(sts)), P.Pos(fn.Pos()))
				for _, st := range sts {
					q := &MustPass{P: P, Match: func(a Atom) bool {
						c, _ := callAndResult(a.V)
						if c == nil || !calleeIs(c, kELVerify) || a.Want != Nil {
							return false
						}
						if !(strings.HasPrefix(desc(callArgs(c)[0]), "call:revocation.NewEventList(") && strings.HasSuffix(desc(callArgs(c)[1]), ".SignedAccumulator.Accumulator")) {
							return false
						}
						// ... and the list that is verified is the merged one: a fresh list (no memo of its own)
						// over a slice that, at this call, holds the prepended events. A list the caller handed
						// in may arrive pre-marked as verified (decoding, FlattenEventLists), and the receiver's
						// own tail verified on its own says nothing about the junction and the older events.
						nl, isNL := siteOf(callArgs(c)[0]).(*ssa.Call)
						if !isNL || len(callArgs(nl)) == 0 || len(fn.Params) < 2 {
							return true
						}
						return sliceHoldsParamAt(callArgs(nl)[0], fn.Params[1], nl, 0)
					}}
					r := q.MustReach(fn, st)
					R.decide("C10.f", kPrepend+":verified-before-commit", "the receiver is replaced only after the merged chain verified", r.Holds, r.Path, P.Pos(st.Pos()))
					path := errorReachableFrom(P, fn, st, 0)
					R.decide("C10.f", kPrepend+":commit-last", "no error return after the receiver was replaced", path == "", path, P.Pos(st.Pos()))
				}
			}},
		Rule{ID: "C10.i", Explain: "aliasing discipline: verifying leaves update messages, events and accumulators unchanged - no function mutates in place a big.Int it reached through revocation.Update / revocation.Event / revocation.EventList / revocation.SignedAccumulator / revocation.Accumulator (math/big mutators write their receiver), except the tabled merge/refresh functions.",
			Run: func(P *Program, R *Report) {
				inPlaceDisciplineRule(P, R, "C10.i", "revocation.Update", "revocation.Event", "revocation.EventList", "revocation.SignedAccumulator", "revocation.Accumulator")
			}},
		Rule{ID: "C10.j", Explain: "no unauthenticated message changes or is acknowledged by a witness: Witness.Update returns nil only after update.Verify(pk) returned nil - on every path, also those that leave U untouched (same index, no events, older update).",
			Run: func(P *Program, R *Report) {
				fn := mustFunc(P, R, "C10.j", "revocation.(*Witness).Update")
				if fn == nil {
					return
				}
				mp(P, R, "C10.j", "revocation.(*Witness).Update:verified-on-every-path", "nil => update.Verify(pk) returned nil", fn, AcceptNilErr(0), &MustPass{Match: func(a Atom) bool {
					c, idx := callAndResult(a.V)
					return c != nil && calleeIs(c, "revocation.(*Update).Verify") && idx == 1 && a.Want == Nil && desc(callArgs(c)[0]) == "<revocation.Update>" && desc(callArgs(c)[1]) == pkD
				}})
			}},
		Rule{ID: "C10.k", Explain: "the product computed while an event list is decoded is the product of all decoded events: fresh big.NewInt(1) times E of every index from 0.",
			Run: func(P *Program, R *Report) { decodedProductRule(P, R, "C10.k") }},
		Rule{ID: "C10.g", Explain: "the verified memo of an event list is set only by Verify after all tests, by uncompress (which recomputes indices and parent hashes) and by FlattenEventLists; uncompress derives Index and ParentHash of every event after the first from its predecessor.",
			Run: func(P *Program, R *Report) { verifiedMemoRule(P, R) }},
		Rule{ID: "C10.l", Explain: "no verification failure of an update, accumulator or event list is dropped (revocation/api.go) (same rule as C08.g: the error a call returns has a use - a nil test or a return - before it is overwritten, shadowed or left behind).",
			Run: func(P *Program, R *Report) {
				errorResultsUsedRule(P, R, "C10.l", inFiles(P, "revocation/api.go"), nil, 15)
			}},
		Rule{ID: "C10.m", Explain: "an update is authenticated every time it is decoded: the decoders of Update and EventList start from a zero-valued intermediate value (same rule as C18.n) - a recycled SignedAccumulator keeps the accumulator it verified before and UnmarshalVerify returns that memo without looking at the new signature, counter or data.",
			Run: func(P *Program, R *Report) { freshDecodeTargetRule(P, R, "C10.m") }},
	)
}

// sliceHoldsParamAt: does the slice v, as it is when instruction `at` executes, hold elements taken from
// (a field of) param? Operand walk; a load of a field of a local object is resolved to the latest store into
// that field of the same object that dominates `at`. Only definite shapes answer no (a load rooted in another
// parameter, a field whose latest dominating store does not hold param's elements); shapes the walk does not
// know (helpers, make+copy) answer yes, so that a rewritten merge is not reported.
func sliceHoldsParamAt(v ssa.Value, param *ssa.Parameter, at ssa.Instruction, depth int) bool {
	if depth > 12 {
		return true
	}
	switch x := v.(type) {
	case *ssa.Parameter:
		return x == param
	case *ssa.Slice:
		return sliceHoldsParamAt(x.X, param, at, depth+1)
	case *ssa.ChangeType:
		return sliceHoldsParamAt(x.X, param, at, depth+1)
	case *ssa.Phi:
		for _, e := range x.Edges {
			if !sliceHoldsParamAt(e, param, at, depth+1) {
				return false
			}
		}
		return true
	case *ssa.Call:
		if isCallTo(x, "builtin:append") {
			for _, a := range callArgs(x) {
				if sliceHoldsParamAt(a, param, x, depth+1) {
					return true
				}
			}
			return false
		}
		return true
	case *ssa.UnOp:
		if x.Op != token.MUL {
			return true
		}
		root := rootOfAddr(x.X)
		if p, isP := root.(*ssa.Parameter); isP {
			return p == param
		}
		fa, isFA := x.X.(*ssa.FieldAddr)
		if !isFA {
			return true
		}
		// latest store into the same field of the same object that dominates `at`
		var last *ssa.Store
		allInstrs(x.Parent(), func(i ssa.Instruction) {
			st, ok := i.(*ssa.Store)
			if !ok {
				return
			}
			sa, ok := st.Addr.(*ssa.FieldAddr)
			if !ok || sa.Field != fa.Field || sa.X != fa.X || !instrBefore(st, at) {
				return
			}
			if last == nil || instrBefore(last, st) {
				last = st
			}
		})
		if last == nil {
			return true
		}
		return sliceHoldsParamAt(last.Val, param, last, depth+1)
	}
	return true
}

// instrBefore: a executes before b on every path that reaches b (a's block strictly dominates b's, or both
// are in one block and a comes first).
func instrBefore(a, b ssa.Instruction) bool {
	if a.Block() == b.Block() {
		for _, i := range a.Block().Instrs {
			if i == a {
				return a != b
			}
			if i == b {
				return false
			}
		}
		return false
	}
	return a.Block().Dominates(b.Block())
}

func signedAccumulatorRule(P *Program, R *Report) {
	rule := "C10.b"
	fn := mustFunc(P, R, rule, kSaccVerify)
	if fn != nil {
		counter := func(a Atom) bool {
			g, ok := parseGuard(a, nil)
			if !ok || g.Kind != "int" || g.Rel != "==" {
				return false
			}
			x, y := pkD+".Counter", saccD+".PKCounter"
			return (g.Subject == x && g.BoundA.String() == y) || (g.Subject == y && g.BoundA.String() == x)
		}
		var dst ssa.Value
		sig := func(a Atom) bool {
			c, _ := callAndResult(a.V)
			if c == nil || !calleeIs(c, kSignedUV) || a.Want != Nil {
				return false
			}
			if desc(callArgs(c)[0]) != pkD+".ECDSA" || desc(callArgs(c)[1]) != saccD+".Data" {
				return false
			}
			dst = stripConv(callArgs(c)[2])
			return true
		}
		// every store to the cache field - in the function itself or in a worker it was split into (an unexported
		// function whose only caller it is), seen with the worker's parameters bound
		n := 0
		type recvStore struct {
			st  *ssa.Store
			in  *ssa.Function
			via ssa.CallInstruction
		}
		var stores []recvStore
		for _, st := range receiverStores(fn) {
			stores = append(stores, recvStore{st, fn, nil})
		}
		for _, c := range callsIn(fn) {
			if g := staticCallee(c); g != nil && g != fn && ownerOf(P, g) == ownerOf(P, fn) && g.Blocks != nil {
				for _, st := range receiverStores(g) {
					stores = append(stores, recvStore{st, g, c})
				}
			}
		}
		for _, rs := range stores {
			st := rs.st
			if desc(st.Addr) != saccD+".Accumulator" {
				R.bad(rule, kSaccVerify+":store("+desc(st.Addr)+")", "UnmarshalVerify writes only its cache field", "unexpected store", P.Pos(st.Pos()))
				continue
			}
			n++
			var r1, r2 mpResult
			if rs.via == nil {
				r1 = (&MustPass{P: P, Match: counter}).MustReach(fn, st)
				r2 = (&MustPass{P: P, Match: sig}).MustReach(fn, st)
			} else {
				bindCall(rs.via, rs.in, func() {
					r1 = (&MustPass{P: P, Match: counter}).MustReach(rs.in, st)
					r2 = (&MustPass{P: P, Match: sig}).MustReach(rs.in, st)
				})
				if !r1.Holds {
					r1 = (&MustPass{P: P, Match: counter}).MustReach(fn, rs.via)
				}
				if !r2.Holds {
					r2 = (&MustPass{P: P, Match: sig}).MustReach(fn, rs.via)
				}
			}
			R.decide(rule, fmt.Sprintf("%s:cache-store#%d:counter", kSaccVerify, n), "the accumulator is cached only after pk.Counter == s.PKCounter", r1.Holds, r1.Path, P.Pos(st.Pos()))
			R.decide(rule, fmt.Sprintf("%s:cache-store#%d:signature", kSaccVerify, n), "the accumulator is cached only after signed.UnmarshalVerify(pk.ECDSA, s.Data, dst) returned nil", r2.Holds, r2.Path, P.Pos(st.Pos()))
			if r2.Holds && dst != nil {
				_, fresh := dst.(*ssa.Alloc)
				R.decide(rule, fmt.Sprintf("%s:cache-store#%d:value", kSaccVerify, n), "the cached accumulator is the fresh object the verified payload was decoded into", fresh && (siteOf(st.Val) == dst || siteOf(origin(st.Val)) == dst), "stored "+desc(st.Val)+" decoded into "+desc(dst), P.Pos(st.Pos()))
			}
		}
		R.decide(rule, kSaccVerify+":cache-stores", "the cache is written (memoisation present)", n >= 1, fmt.Sprintf("%d", n), P.Pos(fn.Pos()))
		// non-cached returns
		mp(P, R, rule, kSaccVerify+":return", "a nil error is returned only from the cache or after counter and signature checks", fn, AcceptNilErr(1), &MustPass{Match: sig,
			Exempt: func(a Atom) bool { return desc(a.V) == saccD+".Accumulator" && a.Want == NonNil }})
		// memo-key completeness (known finding K1): cached path not controlled by pk / Data
		cachedKeyed := false
		for _, ret := range returnsOf(fn) {
			if desc(retValue(ret, 0)) != saccD+".Accumulator" {
				continue
			}
			if _, isLoad := retValue(ret, 0).(*ssa.UnOp); !isLoad {
				continue
			}
			hasKey := false
			for _, a := range controllingConds(ret.Block()) {
				d := desc(normAtom(a).V)
				if strings.Contains(d, pkD) || strings.Contains(d, ".Data") {
					hasKey = true
				}
			}
			if hasKey {
				cachedKeyed = true
			}
			R.decide(rule, kSaccVerify+":memo-ignores-pk-and-data", "the cached accumulator is returned only for the key and signed data it was verified with", hasKey,
				"the cached path depends only on s.Accumulator != nil: in-memory changes of Data/PKCounter or a different pk after the first verification are not detected", P.Pos(ret.Pos()))
		}
		_ = cachedKeyed
	}
	if g := mustFunc(P, R, rule, kSignedUV); g != nil {
		var decodeDst *ssa.Call
		for _, c := range callsIn(g) {
			if isCallTo(c, "github.com/fxamacker/cbor.Unmarshal") && desc(callArgs(c)[1]) == "arg#2" {
				decodeDst = c.(*ssa.Call)
			}
		}
		ver := func(a Atom) bool {
			c, _ := callAndResult(a.V)
			return c != nil && calleeIs(c, kSignedVer) && a.Want == Nil && (desc(callArgs(c)[0]) == "arg#0" || desc(callArgs(c)[0]) == "<crypto/ecdsa.PublicKey>")
		}
		if decodeDst == nil {
			R.bad(rule, kSignedUV+":decode", "the payload is decoded into the destination", "no cbor.Unmarshal into dst found", P.Pos(g.Pos()))
		} else {
			r := (&MustPass{P: P, Match: ver}).MustReach(g, decodeDst)
			R.decide(rule, kSignedUV+":verify-before-decode", "the destination is written only after the signature verified", r.Holds, r.Path, P.Pos(decodeDst.Pos()))
			// verified bytes are the decoded bytes
			var verCall *ssa.Call
			for _, c := range callsIn(g) {
				if isCallTo(c, kSignedVer) {
					verCall = c.(*ssa.Call)
				}
			}
			ok := verCall != nil && desc(callArgs(verCall)[1]) == desc(callArgs(decodeDst)[0])
			R.decide(rule, kSignedUV+":same-bytes", "the bytes that are decoded are the bytes whose signature was verified", ok, "", P.Pos(g.Pos()))
		}
		mp(P, R, rule, kSignedUV+":nil=>verified", "nil error => Verify(pk, msg, sig) returned nil", g, AcceptNilErr(0), &MustPass{Match: ver})
	}
	if v := mustFunc(P, R, rule, kSignedVer); v != nil {
		mp(P, R, rule, kSignedVer+":ecdsa", "nil error => ecdsa.Verify(pk, sha256(msg), r, s) was true", v, AcceptNilErr(0), &MustPass{Match: func(a Atom) bool {
			c, ok := callAtom(a, True, "crypto/ecdsa.Verify")
			if !ok {
				return false
			}
			return (desc(callArgs(c)[0]) == "arg#0" || desc(callArgs(c)[0]) == "<crypto/ecdsa.PublicKey>") && dependsOnDeep(P, callArgs(c)[1], 1, func(d string) bool { return strings.HasPrefix(d, "call:crypto/sha256.Sum256(arg#1)") })
		}})
		mp(P, R, rule, kSignedVer+":no-trailing", "nil error => the DER signature had no trailing bytes", v, AcceptNilErr(0), &MustPass{Match: func(a Atom) bool {
			g, ok := parseGuard(a, nil)
			return ok && g.Kind == "int" && strings.HasPrefix(g.Subject, "len(call:encoding/asn1.Unmarshal(") && g.Rel == "==" && g.BoundA.String() == "0"
		}})
		mp(P, R, rule, kSignedVer+":parsed", "nil error => the signature parsed", v, AcceptNilErr(0), &MustPass{Match: func(a Atom) bool {
			c, idx := callAndResult(a.V)
			return c != nil && calleeIs(c, "encoding/asn1.Unmarshal") && idx == 1 && a.Want == Nil
		}})
	}
}

func eventListVerifyRule(P *Program, R *Report) {
	rule := "C10.c"
	fn := mustFunc(P, R, rule, kELVerify)
	if fn == nil {
		return
	}
	ev := elD + ".Events"
	empty := func(a Atom) bool {
		g, ok := parseGuard(a, nil)
		return ok && g.Kind == "int" && g.Subject == "len("+ev+")" && g.Rel == "==" && g.BoundA.String() == "0"
	}
	mp(P, R, rule, kELVerify+":tail-hash", "nil for a non-empty list => events[count-1].hashEquals(acc.EventHash) returned nil", fn, AcceptNilErr(0), &MustPass{Exempt: empty, Match: func(a Atom) bool {
		c, ok := hashEqualsCall(P, a)
		if !ok {
			return false
		}
		return desc(callArgs(c)[0]) == ev+"[(len("+ev+")-1)]" && desc(callArgs(c)[1]) == "<revocation.Accumulator>.EventHash"
	}})
	memo := func(a Atom) bool { return desc(a.V) == elD+".verified" && a.Want == True }
	exempt := anyOf(empty, memo)
	for _, ck := range []struct {
		name, what string
		m          func(a Atom) bool
	}{
		{"parent-hash", "for every i > 0: events[i-1].hashEquals(events[i].ParentHash) returned nil", func(a Atom) bool {
			c, ok := hashEqualsCall(P, a)
			if ok && desc(callArgs(c)[0]) == ev+"[(#i-1)]" && desc(callArgs(c)[1]) == ev+"[#i].ParentHash" {
				return true
			}
			// i == 0 has no parent inside the list
			g, okg := parseGuard(a, nil)
			return okg && g.Kind == "int" && g.Subject == "#i" && g.Rel == "==" && g.BoundA.String() == "0"
		}},
		{"index", "for every i: events[i].Index == events[0].Index + i", func(a Atom) bool {
			g, ok := parseGuard(a, nil)
			if !ok || g.Kind != "int" || g.Rel != "==" {
				return false
			}
			x, y := parseAffine("#i+"+ev+"[0].Index").String(), ev+"[#i].Index"
			return (g.Subject == x && g.BoundA.String() == y) || (g.Subject == y && g.BoundA.String() == x)
		}},
	} {
		ck := ck
		fa := &ForAll{P: P, Spec: ForAllSpec{Coll: is(ev), Exempt: exempt, Body: func(f *ssa.Function, l *Loop) *MustPass {
			return &MustPass{Match: ck.m}
		}}}
		// (both statements are trivial for i = 0 - no parent inside the list, Index == Index + 0 -: a walk from 1 will do)
		walkStartMax = 1
		m := fa.inFn(fn, AcceptNilErr(0))
		walkStartMax = 0
		R.decide(rule, kELVerify+":"+ck.name, "nil (without the verified memo) => "+ck.what, m.holds, m.detail, P.Pos(fn.Pos()))
	}
}

func hashEqualityRule(P *Program, R *Report) {
	rule := "C10.d"
	if fn := mustFunc(P, R, rule, kHashEqual); fn != nil {
		lenEq := func(a Atom) bool {
			g, ok := parseGuard(a, nil)
			return ok && g.Kind == "int" && g.Rel == "==" && ((g.Subject == "len(arg#0)" && g.BoundA.String() == "len(arg#1)") || (g.Subject == "len(arg#1)" && g.BoundA.String() == "len(arg#0)"))
		}
		mp(P, R, rule, kHashEqual+":full-equality", "true => the two hashes have equal length and equal bytes (bytes.Equal / constant-time compare, or a loop guarded by a length-equality test)", fn, AcceptTrue(0),
			&MustPass{Match: anyOf(eqMatcher(is("arg#0"), is("arg#1")), lenEq)})
	}
	if fn := hashEqualsFn(P); fn != nil {
		R.seen(FuncKey(fn))
		mp(P, R, rule, kHashEquals+":equal", "nil => Equal(freshly computed hash of this event, given hash) was true", fn, AcceptNilErr(0), &MustPass{Match: hashEqualsMatch})
	} else {
		R.bad(rule, kHashEquals+":equal", "a helper exists that returns nil only if Equal(freshly computed hash of the event, given hash) held", "no such function in package revocation", "")
	}
	if fn := mustFunc(P, R, rule, "revocation.checkHashAlg"); fn != nil {
		// nil only for SHA2_256
		mp(P, R, rule, "revocation.checkHashAlg:whitelist", "only SHA2-256 (code 0x12) is accepted", fn, AcceptNilErr(0), &MustPass{Match: func(a Atom) bool {
			g, ok := parseGuard(a, nil)
			return ok && g.Kind == "int" && g.Rel == "==" && g.Subject == "arg#0" && g.BoundA.isConst() && g.BoundA.C == 18
		}})
	}
}

func verifiedMemoRule(P *Program, R *Report) {
	rule := "C10.g"
	allowed := map[string]bool{kELVerify: true, kELUncomp: true, "revocation.FlattenEventLists": true}
	var setters []string
	okAll := true
	for _, fn := range P.AllFuncs {
		for _, s := range sinksOf(fn) {
			if !strings.HasSuffix(s.target, "revocation.EventList.verified") && s.target != elD+".verified" {
				continue
			}
			setters = append(setters, FuncKey(fn))
			if !allowed[FuncKey(fn)] {
				okAll = false
			}
		}
	}
	R.decide(rule, "revocation.EventList.verified:setters", "the verified memo is set only in Verify, uncompress and FlattenEventLists", okAll && len(setters) >= 3, strings.Join(setters, ","), "")
	if fn := P.Func(kELVerify); fn != nil {
		for _, st := range receiverStores(fn) {
			if desc(st.Addr) != elD+".verified" {
				continue
			}
			// after the loop: every path to the store passed the tail-hash test
			q := &MustPass{P: P, Match: func(a Atom) bool {
				_, ok := hashEqualsCall(P, a)
				return ok
			}}
			r := q.MustReach(fn, st)
			R.decide(rule, kELVerify+":memo-after-tests", "Verify sets the memo only after the hash tests", r.Holds, r.Path, P.Pos(st.Pos()))
		}
	}
	// FlattenEventLists concatenates lists the caller hands in: the result may be pre-marked only on the strength of
	// the pieces' own memos and a hash test of every junction - never unconditionally (a dropped event between two
	// pieces, or a piece of another chain, would otherwise pass Verify on the tail hash alone).
	if fn := mustFunc(P, R, rule, "revocation.FlattenEventLists"); fn != nil {
		n := 0
		for _, sk := range sinksOf(fn) {
			if !strings.HasSuffix(sk.target, "revocation.EventList.verified") && sk.target != elD+".verified" {
				continue
			}
			n++
			_, isConst := sk.val.(*ssa.Const)
			junction, pieces := false, false
			// data dependence, and - the memo is a flag cleared under tests - the branch conditions that decide
			// which value a phi of the flag takes (every branch below the phi's immediate dominator)
			roots := map[ssa.Value]bool{sk.val: true}
			for d := range deps(P, sk.val) {
				phi, isPhi := d.(*ssa.Phi)
				if !isPhi || phi.Block().Idom() == nil {
					continue
				}
				for _, b := range fn.Blocks {
					if iff, isIf := b.Instrs[len(b.Instrs)-1].(*ssa.If); isIf && phi.Block().Idom().Dominates(b) {
						roots[iff.Cond] = true
					}
				}
			}
			// (through helpers of the package: the junction test may live in one)
			var rootList []ssa.Value
			for r := range roots {
				rootList = append(rootList, r)
			}
			all := depsIP(P, rootList, 2)
			for d := range all {
				if c, ok := d.(*ssa.Call); ok {
					if g := c.Call.StaticCallee(); g != nil && inModuleFn(g) && g.Blocks != nil && g != fn {
						for _, b := range g.Blocks {
							if iff, isIf := b.Instrs[len(b.Instrs)-1].(*ssa.If); isIf {
								for x := range deps(P, iff.Cond) {
									all[x] = true
								}
							}
						}
					}
				}
			}
			for d := range all {
				if c, ok := d.(*ssa.Call); ok && hashEqualsFn(P) != nil && c.Call.StaticCallee() == hashEqualsFn(P) {
					junction = true
				}
				if strings.HasSuffix(desc(d), ".verified") {
					pieces = true
				}
			}
			ok := !isConst && junction && pieces
			R.decide(rule, "revocation.FlattenEventLists:memo-from-pieces-and-junctions", "the flattened list is pre-marked as verified only if every piece was and every junction passed the hash test (the stored value depends on the pieces' memos and on hashEquals of a junction; it is not a constant)", ok, fmt.Sprintf("stored value %s: constant=%v junction-hash=%v pieces-memo=%v", desc(sk.val), isConst, junction, pieces), P.Pos(fn.Pos()))
		}
		R.decide(rule, "revocation.FlattenEventLists:memo-stores", "FlattenEventLists' store of the memo was found (>= 1; if it no longer sets it, the setters obligation above says so)", n >= 1, fmt.Sprintf("%d", n), P.Pos(fn.Pos()))
	}
	if fn := mustFunc(P, R, rule, kELUncomp); fn != nil {
		ev := litFieldStores(fn, "new:revocation.Event")
		idx := ""
		if st := ev["Index"]; st != nil {
			a, _ := affineOf(st.Val)
			idx = a.String()
		}
		R.decide(rule, kELUncomp+":index", "uncompress sets Index of event i to the compressed start index + i", idx == parseAffine("#i+<revocation.compressedEventList>.Index").String(), "got "+idx, P.Pos(fn.Pos()))
		okParent := false
		// the event of iteration i: addressed as Events[i], or the fresh object that iteration files under Events[i]
		freshFiled := false
		for _, s := range sinksOf(fn) {
			if strings.HasSuffix(s.target, ".Events[#i]") && desc(s.val) == "new:revocation.Event" {
				freshFiled = true
			}
		}
		for _, s := range sinksOf(fn) {
			own := strings.HasSuffix(s.target, ".Events[#i].ParentHash") || (freshFiled && s.target == "new:revocation.Event.ParentHash")
			if own && strings.Contains(desc(s.val), "call:revocation.hash(") && strings.Contains(desc(s.val), ".Events[(#i-1)]") {
				okParent = true
			}
		}
		R.decide(rule, kELUncomp+":parent", "uncompress derives the parent hash of every later event from its predecessor", okParent, "", P.Pos(fn.Pos()))
	}
}

// hashEqualsFn: the helper that compares a freshly computed hash of an event with a given hash - by name
// (revocation.hashEquals) or, if it was renamed or reshaped, the one unexported function of the package that takes an
// event and a hash, returns an error, and returns nil only after Equal(fresh hash of the event, the given hash).
var hashEqualsCache = map[*Program]*ssa.Function{}

func hashEqualsFn(P *Program) *ssa.Function {
	if f, ok := hashEqualsCache[P]; ok {
		return f
	}
	var found *ssa.Function
	if f := P.Func(kHashEquals); f != nil && hashEqualsHolds(P, f) {
		found = f
	} else {
		for _, f := range P.AllFuncs {
			if f.Pkg == nil || f.Pkg.Pkg.Name() != "revocation" || f.Blocks == nil || f.Parent() != nil || f.Object() == nil || f.Object().Exported() {
				continue
			}
			if len(f.Params) != 2 || f.Signature.Results().Len() != 1 || !isErrorType(f.Signature.Results().At(0).Type()) {
				continue
			}
			if hashEqualsHolds(P, f) {
				if found != nil {
					found = nil
					break
				}
				found = f
			}
		}
	}
	hashEqualsCache[P] = found
	return found
}

func hashEqualsMatch(a Atom) bool {
	c, ok := callAtom(a, True, kHashEqual)
	if !ok {
		return false
	}
	// (a hash obtained from a helper is named by what the helper returns: multihash.Sum of the event's bytes)
	x, y := descNN(callArgs(c)[0]), descNN(callArgs(c)[1])
	fresh := func(d string) bool {
		if !strings.HasSuffix(d, "#0") {
			return false
		}
		return strings.HasPrefix(d, "call:"+kHashUsing+"(<revocation.Event>,") ||
			strings.HasPrefix(d, "call:github.com/multiformats/go-multihash.Sum(call:revocation.hashBytes(<revocation.Event>),")
	}
	return (fresh(x) && y == "arg#1") || (fresh(y) && x == "arg#1")
}

func hashEqualsHolds(P *Program, f *ssa.Function) bool {
	q := &MustPass{P: P, Match: hashEqualsMatch}
	r := q.Check(f, AcceptNilErr(0))
	return r.Holds && r.NAcc > 0
}

// hashEqualsCall: the atom is "the hash-comparison helper returned nil".
func hashEqualsCall(P *Program, a Atom) (*ssa.Call, bool) {
	if a.Want != Nil {
		return nil, false
	}
	c, _ := callAndResult(a.V)
	if c == nil {
		return nil, false
	}
	if he := hashEqualsFn(P); he != nil && staticCallee(c) == he {
		return c, true
	}
	return nil, false
}

// decodedProductRule: the product an event list computes while it is decoded (ComputeProduct) is the product of ALL
// decoded events' E, accumulated into a fresh integer: it starts as a fresh big.NewInt(1), and the multiplication by
// E of event i sits in a loop that runs over every index from 0. (Flatten/Prepend turn this value into the Update's
// cached product, which Witness.Update uses for the gcd and Bezout step.)
func decodedProductRule(P *Program, R *Report, rule string) {
	fn := mustFunc(P, R, rule, kELUncomp)
	if fn == nil {
		return
	}
	prodD := elD + ".product"
	okInit, nInit := true, 0
	for _, st := range receiverStores(fn) {
		if desc(st.Addr) != prodD {
			continue
		}
		nInit++
		c, isCall := st.Val.(*ssa.Call)
		one := false
		if isCall && isCallTo(c, "big.NewInt") {
			if k, ok := constInt(callArgs(c)[0]); ok && k == 1 {
				one = true
			}
		}
		if !one {
			okInit = false
		}
	}
	R.decide(rule, kELUncomp+":product-init", "the product starts as a fresh big.NewInt(1) (not as one of the decoded integers)", okInit && nInit >= 1, fmt.Sprintf("%d initialisations", nInit), P.Pos(fn.Pos()))
	okMul := false
	detail := "no multiplication of the product by the event's E found"
	deepVisit(P, fn, 1, func(g *ssa.Function) {
		for _, ci := range callsIn(g) {
			c, isCall := ci.(*ssa.Call)
			if !isCall || bigMethod(c) != "Mul" || desc(callArgs(c)[0]) != prodD || desc(callArgs(c)[1]) != prodD {
				continue
			}
			fd := desc(callArgs(c)[2])
			if !(strings.HasSuffix(fd, ".E[#i]") || strings.HasSuffix(fd, ".Events[#i].E") || fd == "new:revocation.Event.E") {
				detail = "multiplied by " + fd
				continue
			}
			l := innermostLoopOf(c.Block())
			if l == nil {
				detail = "the multiplication is not inside the decoding loop"
				continue
			}
			// the loop's index starts at 0
			start := false
			for _, ins := range l.Header.Instrs {
				phi, isPhi := ins.(*ssa.Phi)
				if !isPhi || !isIntegerType(phi.Type()) {
					continue
				}
				for k, e := range phi.Edges {
					if l.Body[phi.Block().Preds[k]] {
						continue // back edge
					}
					if v, ok := constInt(e); ok && (v == 0 || (v == -1 && phi.Comment == "rangeindex")) {
						start = true
					}
				}
			}
			if !start {
				detail = "the loop that multiplies does not start at the first event"
				continue
			}
			okMul = true
		}
	})
	R.decide(rule, kELUncomp+":product-all", "every decoded event's E is multiplied into the product (loop over all indices from 0)", okMul, detail, P.Pos(fn.Pos()))
}

// constInAllCallers: v is the integer constant want, or a parameter of fn that every (static) caller binds to it,
// transitively up to three levels.
func constInAllCallers(P *Program, fn *ssa.Function, v ssa.Value, want int64, depth int) (bool, string) {
	if c, ok := constInt(v); ok {
		return c == want, fmt.Sprintf("constant %d", c)
	}
	if a, ok := affineOf(v); ok && a.isConst() {
		return a.C == want, fmt.Sprintf("constant %d", a.C)
	}
	p, isParam := stripConv(v).(*ssa.Parameter)
	if !isParam || depth > 3 {
		return false, "not a constant: " + desc(v)
	}
	idx := -1
	for i, q := range fn.Params {
		if q == p {
			idx = i
		}
	}
	n := 0
	for _, g := range P.AllFuncs {
		for _, c := range callsTo(g, fn) {
			n++
			args := callArgsRaw(c)
			if idx < 0 || idx >= len(args) {
				return false, "caller " + FuncKey(g) + ": argument not found"
			}
			if ok, why := constInAllCallers(P, g, args[idx], want, depth+1); !ok {
				return false, "caller " + FuncKey(g) + ": " + why
			}
		}
	}
	if n == 0 {
		return false, "parameter of a function without static callers"
	}
	return true, fmt.Sprintf("%d callers pass the constant", n)
}
