package main

import (
	"fmt"
	"go/token"
	"go/types"
	"sort"
	"strings"

	"golang.org/x/tools/go/ssa"
)

// shareable: objects the library treats as usable from several goroutines at once.
var shareable = map[string]bool{"gabi.Credential": true, "revocation.Witness": true, "revocation.SignedAccumulator": true, "revocation.Accumulator": true,
	"gabikeys.PublicKey": true, "gabikeys.PrivateKey": true, "common.CPRNG": true, "gabi.CLSignature": true, "gabikeys.SystemParameters": true}

// concurrent entry points (C20): functions that may run at the same time on the same shareable objects.
var concurrentEntries = []string{
	"gabi.(*Credential).CreateDisclosureProof", "gabi.(*Credential).CreateDisclosureProofBuilder", "gabi.(*Credential).NonrevPrepareCache",
	kListVerify, kProofDVerify, kProofUVerify, "gabi.(ProofBuilderList).BuildProofList", "gabi.(ProofBuilderList).BuildDistributedProofList",
	"common.FastRandomBigInt", "common.RandomQR", "common.RandomBigInt", "common.(*CPRNG).Read", kGenKey,
	"keyproof.(*ValidKeyProofStructure).BuildProof", "keyproof.(*ValidKeyProofStructure).VerifyProof", "gabi.SignMessageBlock",
}

// configuration hooks: package-level variables that applications set once at start-up (tabled with reason).
var configGlobals = map[string]string{
	"gabi.Logger": "logging hook set by the application before use", "revocation.Logger": "logging hook, assigned from gabi's init",
	"keyproof.Follower": "progress hook set by the application before use",
}

func init() {
	register("C20",
		Rule{ID: "C20.a", Explain: "ownership/lockset discipline: in every function reachable from the concurrent entry points, a store (or in-place big.Int mutation) through a pointer rooted in a shareable object (Credential, Witness, SignedAccumulator, Accumulator, PublicKey, PrivateKey, CPRNG, CLSignature) is inside a function run by sync.Once, an atomic operation, or under a held mutex; stores to fresh objects are free. One known finding: SignedAccumulator.UnmarshalVerify caches into the shared object (K4).",
			Run: func(P *Program, R *Report) { sharedWritesRule(P, R) }},
		Rule{ID: "C20.b", Explain: "NewProofCommit and its callees perform no store through the shared witness, and the per-proof randomiser is written only into a local copy (C07.c).",
			Run: func(P *Program, R *Report) {
				sub := newReport(R.Prop, R.Tier, P)
				noEscapeRule(P, sub)
				for _, o := range sub.Obls {
					if strings.Contains(o.Construct, "witness") || strings.Contains(o.Construct, "Witness") {
						o.Rule = "C20.b"
						R.add(o)
					}
				}
			}},
		Rule{ID: "C20.c", Explain: "the process-wide generator: counter touched only by one atomic add per Read with the block range derived from it (C07.e); package-level variables are written only during package initialisation, except tabled configuration hooks.",
			Run: func(P *Program, R *Report) {
				cprngRule(P, R, "C20.c")
				globalsInitOnlyRule(P, R, "C20.c")
			}},
		Rule{ID: "C20.d", Explain: "worker pools of the key proof: jobs write captured slices only through per-job indices and never append to them; the dispatcher index is an atomic counter; WaitGroup.Wait post-dominates the spawns and precedes the return of the results.",
			Run: func(P *Program, R *Report) { workerPoolRule(P, R) }},
		Rule{ID: "C20.e", Explain: "goroutine protocol of GenerateConcurrent (C16.d).",
			Run: func(P *Program, R *Report) { goroutineProtocolRule(P, R, "C20.e") }},
		Rule{ID: "C20.l", Explain: "package-level mutable state: in the concurrent call tree a package-level variable is a value shared by every goroutine of the process. Each use of one that can change it - a store to it or through it, a method called on it or on the object it holds (a hash state, a math/rand generator, a buffer), its address or the object handed to a call - is under a held mutex or inside sync.Once, unless the variable's type synchronises itself (sync.*, atomic.*, the process-wide CPRNG, whose discipline is C20.c) or the variable is a tabled configuration hook or read-only table. A scratch object or generator hoisted from a function to package level (to save an allocation) makes concurrent provers and verifiers compute on each other's data.",
			Run: func(P *Program, R *Report) { packageStateRule(P, R, "C20.l", concurrentEntries, 1) }},
		Rule{ID: "C20.n", Explain: "pooled and copied state: (1) an object handed back to a sync.Pool (also by a deferred Put) is not a result of the function - a returned object that is in the pool is overwritten by whoever takes it next, so concurrent signers and verifiers compute on each other's numbers; (2) the state of the process-wide generator (common.CPRNG: key schedule and block counter) is never copied by value - a method with a value receiver, a dereference - because a copy replays the keystream of the original.",
			Run: func(P *Program, R *Report) { pooledAndCopiedRule(P, R, "C20.n") }},
		Rule{ID: "C20.m", Explain: "64-bit atomics on 32-bit platforms: a field that is the operand of a 64-bit sync/atomic function is 8-byte aligned in its struct under the 386/arm layout (offset computed with the gc sizes for 386); otherwise every such operation panics there ('unaligned 64-bit atomic operation') and the process-wide generator is unusable.",
			Run: func(P *Program, R *Report) { atomicAlignmentRule(P, R, "C20.m") }},
		Rule{ID: "C20.g", Explain: "package-level big.Int constants (bigONE, bigZERO, two, ...) are only read: never the receiver of a mutating method, never returned to a caller, never stored into a structure - an escaped constant is modified by its new owner's next in-place operation and corrupts every later computation of the process.",
			Run: func(P *Program, R *Report) { sharedConstantsRule(P, R, "C20.g") }},
		Rule{ID: "C20.h", Explain: "lazily initialised fields: a field that is assigned inside a function run by sync.Once.Do is read only after the same Once.Do in the reading function (the accessor pattern); a direct read elsewhere races with the first initialisation.",
			Run: func(P *Program, R *Report) { onceGuardedReadsRule(P, R) }},
		Rule{ID: "C20.i", Explain: "shared scratch storage: in the concurrent call tree the address of (or a slice over) a field of a shareable object is not handed to a call that can write through it (encoders, ciphers, copy, PutUint64 ...) unless synchronised; per-call scratch buffers are locals.",
			Run: func(P *Program, R *Report) { sharedScratchRule(P, R) }},
		Rule{ID: "C20.f", Explain: "provers and verifiers never write the public key: no store or in-place mutation through *PublicKey (or its bases) in any function reachable from the proving/verifying entry points.",
			Run: func(P *Program, R *Report) { publicKeyReadOnlyRule(P, R) }},
		Rule{ID: "C20.j", Explain: "the prepared non-revocation commitment is handed back to the shared cache only in a consistent state: NonrevPrepareCache puts a builder into the channel only after UpdateCommit (or building it) succeeded - another goroutine may take it out at once (the put-back obligation of C07.d, same rule).",
			Run: func(P *Program, R *Report) {
				sharedRule(P, R, "C07", "C07.d", "C20.j", func(c string) bool { return strings.Contains(c, "put-back") })
			}},
		Rule{ID: "C20.k", Explain: "nothing reachable from a shared credential is overwritten in place by one goroutine's clean-up: no function mutates in place a big.Int it reached through the builders or the proof commitment (the obligations of C07.h, same rule) - wiping a discarded builder's secrets zeroes the witness's E, which the commit aliases.",
			Run: func(P *Program, R *Report) { sharedRule(P, R, "C07", "C07.h", "C20.k", nil) }},
	)
}

// sharedRoot: the address/pointer is rooted in a shareable object that the function did not create itself.
func sharedRoot(v ssa.Value) (string, bool) {
	for i := 0; i < 40; i++ {
		switch x := v.(type) {
		case *ssa.FieldAddr:
			if tk := faType(x); shareable[tk] {
				if _, fresh := rootOfAddr(x.X).(*ssa.Alloc); !fresh {
					return tk + "." + faName(x), true
				}
				return "", false
			}
			v = x.X
		case *ssa.IndexAddr:
			v = x.X
		case *ssa.UnOp:
			if x.Op != token.MUL {
				return "", false
			}
			v = x.X
		case *ssa.ChangeType:
			v = x.X
		case *ssa.Parameter:
			if tk := typeKey(x.Type()); shareable[tk] {
				if _, isPtr := x.Type().(*types.Pointer); isPtr {
					return tk, true
				}
			}
			return "", false
		case *ssa.FreeVar:
			if tk := typeKey(x.Type()); shareable[tk] {
				return tk, true
			}
			// pointer to a captured variable holding a shareable pointer
			if p, ok := x.Type().(*types.Pointer); ok {
				if tk := typeKey(p.Elem()); shareable[tk] {
					return tk, true
				}
			}
			return "", false
		default:
			return "", false
		}
	}
	return "", false
}

// onceBodies: the functions that run only as the argument of a sync.Once.Do, mapped to that call: the closure
// passed to it; for a method value (`once.Do(x.init)`) or a named function also the unexported method/function
// itself, provided the Once.Do argument is the only thing that ever calls it.
var onceBodiesCache map[*ssa.Function]*ssa.Call

func onceBodies(P *Program) map[*ssa.Function]*ssa.Call {
	if onceBodiesCache != nil {
		return onceBodiesCache
	}
	out := map[*ssa.Function]*ssa.Call{}
	for _, fn := range P.AllFuncs {
		if fn.Blocks == nil {
			continue
		}
		for _, ci := range callsIn(fn) {
			c, ok := ci.(*ssa.Call)
			if !ok || !calleeIs(c, "(*sync.Once).Do") || len(callArgs(c)) < 2 {
				continue
			}
			var body *ssa.Function
			switch a := callArgs(c)[1].(type) {
			case *ssa.MakeClosure:
				body, _ = a.Fn.(*ssa.Function)
			case *ssa.Function:
				body = a
			}
			if body == nil {
				continue
			}
			out[body] = c
			// a bound-method wrapper or a named function: the function it stands for, if nothing else calls it
			target := body
			if body.Synthetic != "" {
				target = nil
				for _, cc := range callsIn(body) {
					if g := staticCallee(cc); g != nil {
						target = g
					}
				}
			}
			if target == nil || target == body && body.Parent() != nil {
				continue
			}
			if target.Object() != nil && target.Object().Exported() {
				continue
			}
			only := true
			if node := P.CG.Nodes[target]; node != nil {
				for _, e := range node.In {
					if e.Caller.Func != body && e.Site != ssa.CallInstruction(c) {
						only = false
					}
				}
			}
			// and it is not stored or passed anywhere else as a value
			for _, g := range P.AllFuncs {
				if g == body || g.Blocks == nil {
					continue
				}
				allInstrs(g, func(i ssa.Instruction) {
					for _, op := range i.Operands(nil) {
						if *op == ssa.Value(target) {
							if cc, isCall := i.(ssa.CallInstruction); isCall && cc.Common().Value == ssa.Value(target) {
								only = false // a direct call elsewhere
							} else if i != ssa.Instruction(c) {
								only = false
							}
						}
					}
				})
			}
			if only {
				out[target] = c
			}
		}
	}
	onceBodiesCache = out
	return out
}

// synchronised: the instruction is inside a function passed to sync.Once.Do, or dominated by a mutex Lock.
func synchronised(P *Program, fn *ssa.Function, ins ssa.Instruction) (bool, string) {
	// function run by Once.Do (or a closure nested in one)
	ob := onceBodies(P)
	for p := fn; p != nil; p = p.Parent() {
		if ob[p] != nil {
			return true, "inside sync.Once.Do"
		}
	}
	// mutex
	for b := ins.Block(); b != nil; b = b.Idom() {
		for _, j := range b.Instrs {
			if j == ins && b == ins.Block() {
				break
			}
			if c, ok := j.(*ssa.Call); ok && (calleeIs(c, "(*sync.Mutex).Lock") || calleeIs(c, "(*sync.RWMutex).Lock")) {
				return true, "under " + calleeName(c)
			}
		}
	}
	return false, ""
}

func sharedWritesRule(P *Program, R *Report) {
	rule := "C20.a"
	var roots []*ssa.Function
	for _, k := range concurrentEntries {
		if f := mustFunc(P, R, rule, k); f != nil {
			roots = append(roots, f)
		}
	}
	fns := P.reachableFuncs(roots...)
	R.decide(rule, "reach:count", "the concurrent call tree was explored (>= 150 functions)", len(fns) >= 150, fmt.Sprintf("%d functions", len(fns)), "")
	inReach := map[*ssa.Function]bool{}
	for _, f := range fns {
		inReach[f] = true
	}
	nWrites := 0
	type w struct {
		ok       bool
		how, pos string
	}
	res := map[string]*w{}
	for _, fn := range fns {
		R.seen(FuncKey(fn))
		record := func(ins ssa.Instruction, target string) {
			nWrites++
			key := FuncKey(ownerOf(P, fn)) + ":write(" + target + ")"
			ok, how := synchronised(P, fn, ins)
			if !ok {
				// the object may be owned by the caller: every call site in the concurrent call tree passes a freshly created object
				var addr ssa.Value
				switch x := ins.(type) {
				case *ssa.Store:
					addr = x.Addr
				case *ssa.MapUpdate:
					addr = x.Map
				case *ssa.Call:
					addr = callArgs(x)[0]
				}
				if p, isP := rootParam(addr); isP && freshAtAllCallers(P, fn, p, inReach, 0) {
					ok, how = true, "object is freshly created by every caller"
				}
			}
			if cur, dup := res[key]; dup {
				cur.ok = cur.ok && ok
				return
			}
			res[key] = &w{ok, how, P.Pos(ins.Pos())}
		}
		allInstrs(fn, func(i ssa.Instruction) {
			switch x := i.(type) {
			case *ssa.Store:
				if t, ok := sharedRoot(x.Addr); ok {
					// whole-struct copy into a local (`local := *witn`) is a read of the shared object
					record(x, t)
				}
			case *ssa.MapUpdate:
				if t, ok := sharedRoot(x.Map); ok {
					record(x, t+"[...]")
				}
			case *ssa.Call:
				if m := bigMethod(x); m != "" && bigMutators[m] && len(callArgs(x)) > 0 {
					if t, ok := sharedRoot(callArgs(x)[0]); ok {
						record(x, t+" (in-place "+m+")")
					}
				}
				if strings.HasPrefix(calleeName(x), "sync/atomic.") {
					// atomic access: synchronised by construction
				}
			}
		})
	}
	// the one tabled lazy cache (known finding K4) must at least stay write-once: the store happens only while the cache is empty
	if uv := P.Func(kSaccVerify); uv != nil {
		for _, st := range receiverStores(uv) {
			if desc(st.Addr) != saccD+".Accumulator" {
				continue
			}
			r := (&MustPass{P: P, Match: func(a Atom) bool { return desc(a.V) == saccD+".Accumulator" && a.Want == Nil }}).MustReach(uv, st)
			R.decide(rule, kSaccVerify+":cache-write-once", "the cached accumulator is written only while the cache is empty (a populated shared object is never re-written by verification)", r.Holds, r.Path, P.Pos(st.Pos()))
		}
	}
	keys := make([]string, 0, len(res))
	for k := range res {
		keys = append(keys, k)
	}
	sort.Strings(keys)
	for _, k := range keys {
		v := res[k]
		R.decide(rule, k, "a write to a shareable object on a concurrently usable path is synchronised", v.ok, "unsynchronised write to shared state reachable from concurrent entry points"+v.how, v.pos)
	}
	R.decide(rule, "writes:count", "writes to shareable objects were found and classified (>= 1)", nWrites >= 1, fmt.Sprintf("%d", nWrites), "")
}

func globalsInitOnlyRule(P *Program, R *Report, rule string) {
	n := 0
	bad := map[string][]string{}
	for _, fn := range P.AllFuncs {
		isInit := strings.HasPrefix(fn.Name(), "init") && fn.Parent() == nil
		allInstrs(fn, func(i ssa.Instruction) {
			st, ok := i.(*ssa.Store)
			if !ok {
				return
			}
			g, ok := rootOfAddr(st.Addr).(*ssa.Global)
			if !ok || g.Pkg == nil || !inModule(g.Pkg.Pkg) {
				return
			}
			n++
			name := shortPkg(g.Pkg.Pkg.Path()) + "." + globalName(g)
			if isInit {
				return
			}
			if _, cfg := configGlobals[name]; cfg {
				return
			}
			if ok, _ := synchronised(P, fn, st); ok {
				return // filled once under sync.Once (a lazily built read-only table), or under a lock
			}
			bad[name] = append(bad[name], FuncKey(fn)+" at "+P.Pos(st.Pos()))
		})
		// in-place mutation of package-level big.Ints
		allInstrs(fn, func(i ssa.Instruction) {
			c, ok := i.(*ssa.Call)
			if !ok || isInit {
				return
			}
			if m := bigMethod(c); m != "" && bigMutators[m] && len(callArgs(c)) > 0 {
				if u, ok := callArgs(c)[0].(*ssa.UnOp); ok {
					if g, ok := rootOfAddr(u.X).(*ssa.Global); ok && g.Pkg != nil && inModule(g.Pkg.Pkg) {
						name := shortPkg(g.Pkg.Pkg.Path()) + "." + globalName(g)
						bad[name] = append(bad[name], FuncKey(fn)+" mutates in place at "+P.Pos(c.Pos()))
					}
				}
			}
		})
	}
	names := make([]string, 0, len(bad))
	for k := range bad {
		names = append(names, k)
	}
	sort.Strings(names)
	for _, name := range names {
		R.bad(rule, "global:"+name, "package-level state is written only during package initialisation", strings.Join(bad[name], "; "), "")
	}
	R.decide(rule, "globals:init-only", "package-level variables are assigned only in package initialisers (configuration hooks tabled)", len(bad) == 0 && n >= 10, fmt.Sprintf("%d stores inspected", n), "")
}

func workerPoolRule(P *Program, R *Report) {
	rule := "C20.d"
	nPools, nJobs := 0, 0
	for _, fn := range P.AllFuncs {
		if fn.Pkg == nil || shortPkg(fn.Pkg.Pkg.Path()) != "keyproof" {
			continue
		}
		var gos []*ssa.Go
		allInstrs(fn, func(i ssa.Instruction) {
			if g, ok := i.(*ssa.Go); ok {
				gos = append(gos, g)
			}
		})
		if len(gos) == 0 {
			continue
		}
		nPools++
		key := FuncKey(fn)
		R.seen(key)
		// Wait post-dominates the spawns: every return passes a WaitGroup.Wait
		mp(P, R, rule, key+":joined", "every return of the function passes WaitGroup.Wait (workers are joined before results are used)", fn, AcceptAny(), &MustPass{Instr: func(_ *ssa.Function, i ssa.Instruction) bool {
			c, ok := i.(*ssa.Call)
			return ok && calleeIs(c, "(*sync.WaitGroup).Wait")
		}})
		for _, g := range gos {
			// at least one worker whatever the machine: spawned in a loop whose bound is NumCPU()/GOMAXPROCS(0) plus a
			// non-negative constant, or a positive constant (NumCPU()-1 is zero on a one-CPU machine: Wait returns at once
			// and no job runs)
			if l := innermostLoopOf(g.Block()); l != nil {
				var bound ssa.Value
				for _, bb := range append([]*ssa.BasicBlock{l.Header}, l.Latch...) {
					for _, ins := range bb.Instrs {
						if b, isB := ins.(*ssa.BinOp); isB && b.Op == token.LSS {
							bound = b.Y
						}
					}
				}
				okCount, countD := false, "?"
				if bound != nil {
					if a, isA := affineOf(bound); isA {
						countD = a.String()
						if a.isConst() {
							okCount = a.C >= 1
						} else if len(a.S) == 1 && a.C >= 0 {
							for sym, k := range a.S {
								okCount = k >= 1 && (sym == "call:runtime.NumCPU()" || sym == "call:runtime.GOMAXPROCS(0)")
							}
						}
					}
				}
				R.decide(rule, key+":workers>=1", "at least one worker goroutine is started whatever the machine", okCount, "count = "+countD, P.Pos(g.Pos()))
			}
			mc, ok := g.Call.Value.(*ssa.MakeClosure)
			if !ok {
				R.und(rule, key+":worker", "worker body is a closure", "", P.Pos(g.Pos()))
				continue
			}
			body := mc.Fn.(*ssa.Function)
			// worker: index from atomic.Add; Done at the end; no writes of its own to captured slices
			atomicIdx, done := false, false
			var writes []string
			allInstrs(body, func(i ssa.Instruction) {
				switch x := i.(type) {
				case *ssa.Call:
					if strings.HasPrefix(calleeName(x), "sync/atomic.Add") {
						atomicIdx = true
					}
					if calleeIs(x, "(*sync.WaitGroup).Done") {
						done = true
					}
				case *ssa.Store:
					if _, isFV := rootOfAddr(x.Addr).(*ssa.FreeVar); isFV {
						writes = append(writes, desc(x.Addr))
					}
				}
			})
			R.decide(rule, FuncKey(body)+":dispatch", "the worker takes job numbers from an atomic counter and signals Done", atomicIdx && done, fmt.Sprintf("atomic=%v done=%v", atomicIdx, done), P.Pos(body.Pos()))
			R.decide(rule, FuncKey(body)+":no-shared-writes", "the worker itself writes no captured variable", len(writes) == 0, strings.Join(writes, ","), P.Pos(body.Pos()))
		}
		// jobs: closures stored in the todo list: writes to captured slices only at captured (per-job) offsets; no append to captured slices
		// (the closures put on the todo list live in this function or, when the pool is a helper that is handed the
		// list, in the functions that call it)
		hosts := []*ssa.Function{fn}
		for _, caller := range P.AllFuncs {
			if caller != fn && len(callsTo(caller, fn)) > 0 {
				hosts = append(hosts, caller)
			}
		}
		var jobs []*ssa.Function
		for _, h := range hosts {
			jobs = append(jobs, h.AnonFuncs...)
		}
		for _, job := range jobs {
			nJobs++
			isWorker := false
			for _, g := range gos {
				if mc, ok := g.Call.Value.(*ssa.MakeClosure); ok && mc.Fn == ssa.Value(job) {
					isWorker = true
				}
			}
			if isWorker {
				continue
			}
			var badw []string
			nw := 0
			allInstrs(job, func(i ssa.Instruction) {
				switch x := i.(type) {
				case *ssa.Store:
					ia, ok := x.Addr.(*ssa.IndexAddr)
					if !ok {
						// stores to the job's own locals (spilled variables) are fine
						if _, isFV := rootOfAddr(x.Addr).(*ssa.FreeVar); isFV {
							if fv, ok := x.Addr.(*ssa.FreeVar); ok {
								// assignment to a captured variable: must be per-job (captured by value copy made per iteration)
								_ = fv
							}
						}
						return
					}
					nw++
					// index must derive from the job's own captured offset (a free variable or local derived from it), not a shared counter
					idxOK := false
					for d := range depDescs(P, ia.Index) {
						if strings.HasPrefix(d, "free:") {
							idxOK = true
						}
					}
					if _, isConst := ia.Index.(*ssa.Const); isConst {
						idxOK = true
					}
					if !idxOK {
						badw = append(badw, "index "+desc(ia.Index)+" at "+P.Pos(x.Pos()))
					}
				case *ssa.Call:
					if isCallTo(x, "builtin:append") {
						for _, base := range sliceRoots(callArgs(x)[0]) {
							if _, isFV := rootOfAddr(base).(*ssa.FreeVar); isFV {
								badw = append(badw, "append to captured slice at "+P.Pos(x.Pos()))
							}
							if p, ok := base.(*ssa.Parameter); ok {
								badw = append(badw, "append to shared list parameter "+p.Name()+" at "+P.Pos(x.Pos()))
							}
						}
					}
				}
			})
			R.decide(rule, FuncKey(job)+":disjoint-slots", "a job writes the shared result lists only at its own offsets and never appends to them", len(badw) == 0, strings.Join(badw, "; "), P.Pos(job.Pos()))
			_ = nw
		}
	}
	R.decide(rule, "pools:count", "the worker pools of the exponentiation proof and the jobs they run were found (>= 1 pool, >= 10 closures)", nPools >= 1 && nJobs >= 10, fmt.Sprintf("%d pools, %d closures", nPools, nJobs), "")
}

func publicKeyReadOnlyRule(P *Program, R *Report) {
	rule := "C20.f"
	var roots []*ssa.Function
	for _, k := range []string{"gabi.(*Credential).CreateDisclosureProof", "gabi.(*Credential).CreateDisclosureProofBuilder", kListVerify, kProofDVerify, kProofUVerify,
		"gabi.(ProofBuilderList).BuildProofList", kNewCB, kConstruct, "gabi.(*Issuer).IssueSignature", "gabi.KeyshareResponse", kKSCommits} {
		if f := mustFunc(P, R, rule, k); f != nil {
			roots = append(roots, f)
		}
	}
	fns := P.reachableFuncs(roots...)
	var bad []string
	n := 0
	for _, fn := range fns {
		allInstrs(fn, func(i ssa.Instruction) {
			check := func(addr ssa.Value, what string) {
				cur := addr
				for k := 0; k < 40; k++ {
					switch x := cur.(type) {
					case *ssa.FieldAddr:
						if typeKey(x.X.Type()) == "gabikeys.PublicKey" {
							if _, fresh := rootOfAddr(x.X).(*ssa.Alloc); !fresh {
								bad = append(bad, FuncKey(fn)+" "+what+" "+desc(addr)+" at "+P.Pos(i.Pos()))
							}
							return
						}
						cur = x.X
					case *ssa.IndexAddr:
						cur = x.X
					case *ssa.UnOp:
						cur = x.X
					default:
						return
					}
				}
			}
			switch x := i.(type) {
			case *ssa.Store:
				n++
				check(x.Addr, "stores to")
			case *ssa.Call:
				if m := bigMethod(x); m != "" && bigMutators[m] && len(callArgs(x)) > 0 {
					check(callArgs(x)[0], "mutates in place")
				}
			}
		})
	}
	sort.Strings(bad)
	R.decide(rule, "gabikeys.PublicKey:read-only", "no prover/verifier/issuer path writes through a public key", len(bad) == 0 && n > 100, strings.Join(bad, "; ")+fmt.Sprintf(" (%d stores in %d functions inspected)", n, len(fns)), "")
}

// rootParam: the parameter an address expression is rooted in.
func rootParam(v ssa.Value) (*ssa.Parameter, bool) {
	for i := 0; i < 40 && v != nil; i++ {
		switch x := v.(type) {
		case *ssa.FieldAddr:
			v = x.X
		case *ssa.IndexAddr:
			v = x.X
		case *ssa.UnOp:
			v = x.X
		case *ssa.ChangeType:
			v = x.X
		case *ssa.Parameter:
			return x, true
		default:
			return nil, false
		}
	}
	return nil, false
}

// freshAtAllCallers: every call of fn inside the reach passes, for parameter p, an object allocated by the caller
// (or the caller's own parameter that is itself fresh at all its callers).
// freshFromConstructor: v is (result 0 of) a call of a module function all of whose non-nil returns hand out an
// object allocated in that call (or obtained from another such constructor).
func freshFromConstructor(v ssa.Value, depth int) bool {
	if depth > 2 {
		return false
	}
	c, idx := callAndResult(v)
	if c == nil || idx > 0 {
		return false
	}
	g := staticCallee(c)
	if g == nil || g.Blocks == nil || !inModuleFn(g) {
		return false
	}
	n := 0
	for _, r := range returnsOf(g) {
		rv := retValue(r, 0)
		if isNilConst(rv) {
			continue
		}
		n++
		switch rootOfAddr(rv).(type) {
		case *ssa.Alloc:
		default:
			if !freshFromConstructor(rv, depth+1) {
				return false
			}
		}
	}
	return n > 0
}

func freshAtAllCallers(P *Program, fn *ssa.Function, p *ssa.Parameter, reach map[*ssa.Function]bool, depth int) bool {
	if depth > 4 {
		return false
	}
	k := paramIndex(p)
	n := 0
	for g := range reach {
		for _, c := range callsIn(g) {
			hit := false
			for _, callee := range P.callees(c) {
				if callee == fn {
					hit = true
				}
			}
			if !hit {
				continue
			}
			n++
			args := callArgs(c)
			if c.Common().IsInvoke() {
				args = append([]ssa.Value{c.Common().Value}, args...)
			}
			if k >= len(args) {
				return false
			}
			switch r := rootOfAddr(args[k]).(type) {
			case *ssa.Alloc:
			case *ssa.Parameter:
				if !freshAtAllCallers(P, g, r, reach, depth+1) {
					return false
				}
			default:
				// the result of a constructor of the module: fresh if every object it returns is one it allocated
				if !freshFromConstructor(args[k], 0) {
					return false
				}
			}
		}
	}
	return n > 0
}

// sliceRoots: the slice values a (re-sliced, loop-carried, appended-to) slice expression is built from.
func sliceRoots(v ssa.Value) []ssa.Value {
	var out []ssa.Value
	seen := map[ssa.Value]bool{}
	var walk func(x ssa.Value)
	walk = func(x ssa.Value) {
		if seen[x] {
			return
		}
		seen[x] = true
		switch y := x.(type) {
		case *ssa.Slice:
			walk(y.X)
		case *ssa.Phi:
			for _, e := range y.Edges {
				walk(e)
			}
		case *ssa.Call:
			if isCallTo(y, "builtin:append") {
				walk(callArgs(y)[0])
				return
			}
			out = append(out, x)
		case *ssa.UnOp:
			if al, ok := y.X.(*ssa.Alloc); ok {
				for _, r := range referrersOf(al) {
					if st, ok := r.(*ssa.Store); ok && st.Addr == ssa.Value(al) {
						walk(st.Val)
					}
				}
				return
			}
			out = append(out, x)
		default:
			out = append(out, x)
		}
	}
	walk(v)
	return out
}

// onceGuardedReadsRule (C20.h).
func onceGuardedReadsRule(P *Program, R *Report) {
	rule := "C20.h"
	type tf struct{ t, f string }
	lazy := map[tf]*ssa.Function{}
	for cl := range onceBodies(P) {
		cl := cl
		if cl.Blocks == nil {
			continue
		}
		allInstrs(cl, func(i ssa.Instruction) {
			if st, ok := i.(*ssa.Store); ok {
				if fa, ok := st.Addr.(*ssa.FieldAddr); ok {
					lazy[tf{faType(fa), faName(fa)}] = cl
				}
			}
		})
	}
	R.decide(rule, "lazy-fields:count", "fields initialised under sync.Once were found (>= 1: Credential.nonrevCache)", len(lazy) >= 1, fmt.Sprintf("%d", len(lazy)), "")
	for _, fn := range P.AllFuncs {
		if fn.Blocks == nil {
			continue
		}
		for k, cl := range lazy {
			if fn == cl || onceBodies(P)[fn] != nil {
				continue
			}
			var loads []*ssa.UnOp
			allInstrs(fn, func(i ssa.Instruction) {
				if ld, ok := i.(*ssa.UnOp); ok && ld.Op == token.MUL {
					if fa, ok := ld.X.(*ssa.FieldAddr); ok && faType(fa) == k.t && faName(fa) == k.f {
						if _, fresh := rootOfAddr(fa.X).(*ssa.Alloc); !fresh {
							loads = append(loads, ld)
						}
					}
				}
			})
			if len(loads) == 0 {
				continue
			}
			ok := true
			var why []string
			for _, ld := range loads {
				q := &MustPass{P: P, Instr: func(_ *ssa.Function, i ssa.Instruction) bool {
					c, isC := i.(*ssa.Call)
					return isC && calleeIs(c, "(*sync.Once).Do")
				}}
				if r := q.MustReach(fn, ld); !r.Holds {
					ok = false
					why = append(why, P.Pos(ld.Pos())+": "+r.Path)
				}
			}
			R.decide(rule, FuncKey(fn)+":read("+k.t+"."+k.f+")", "a lazily initialised field is read only after its sync.Once.Do in the same function", ok, strings.Join(why, "\n"), P.Pos(loads[0].Pos()))
		}
	}
}

// sharedScratchRule (C20.i).
func sharedScratchRule(P *Program, R *Report) {
	rule := "C20.i"
	var roots []*ssa.Function
	for _, k := range concurrentEntries {
		if f := P.Func(k); f != nil {
			roots = append(roots, f)
		}
	}
	fns := P.reachableFuncs(roots...)
	nCalls := 0
	bad := map[string]string{}
	for _, fn := range fns {
		for _, c := range callsIn(fn) {
			call, isC := c.(*ssa.Call)
			if !isC {
				continue
			}
			name := calleeName(call)
			if strings.HasPrefix(name, "sync/atomic.") || strings.HasPrefix(name, "(*sync.") || strings.HasPrefix(name, "(*sync/atomic.") {
				continue
			}
			nCalls++
			for k, a := range callArgs(call) {
				var addr ssa.Value
				switch a.(type) {
				case *ssa.FieldAddr, *ssa.IndexAddr:
					addr = a
				default:
					if _, isSl := a.Type().Underlying().(*types.Slice); isSl {
						// a slice value: does it range over an array that lives inside a shareable object?
						for _, r := range sliceRoots(a) {
							switch r.(type) {
							case *ssa.FieldAddr, *ssa.IndexAddr:
								if _, isArr := r.Type().Underlying().(*types.Pointer).Elem().Underlying().(*types.Array); isArr {
									addr = r
								}
							}
						}
					}
				}
				if addr == nil {
					continue
				}
				t, shared := sharedRoot(addr)
				if !shared {
					continue
				}
				// method calls on a field that is itself a synchronisation or table object are reads of the module's own types
				if k == 0 && call.Call.Value != nil {
					if f := staticCallee(call); f != nil && f.Signature.Recv() != nil && inModuleFn(f) {
						continue
					}
				}
				if isBigIntPtr(a.Type()) || isBigIntValueAddr(a) {
					continue // big.Int operands are covered by the in-place rules (C20.a)
				}
				if ok, _ := synchronised(P, fn, call); ok {
					continue
				}
				bad[FuncKey(fn)+":escape("+t+"->"+name+")"] = fmt.Sprintf("%s: storage of the shared %s is passed to %s, which may write it while other goroutines use the object", P.Pos(call.Pos()), t, name)
			}
		}
	}
	R.decide(rule, "calls:count", "calls in the concurrent call tree were examined (>= 500)", nCalls >= 500, fmt.Sprintf("%d", nCalls), "")
	for _, k := range sortedKeys(boolSet(bad)) {
		R.bad(rule, k, "no storage of a shareable object escapes to a writer", bad[k], "")
	}
	if len(bad) == 0 {
		R.ok(rule, "shared-scratch:none", fmt.Sprintf("no address of / slice over a field of a shareable object is passed to a call (%d calls examined)", nCalls))
	}
}

func isBigIntValueAddr(v ssa.Value) bool {
	p, ok := v.Type().Underlying().(*types.Pointer)
	if !ok {
		return false
	}
	n, ok := p.Elem().(*types.Named)
	return ok && n.Obj().Name() == "Int" && n.Obj().Pkg() != nil && strings.HasSuffix(n.Obj().Pkg().Path(), "big")
}

// selfSynchronised: types whose methods may be called from several goroutines at once.
func selfSynchronised(t types.Type) bool {
	ts := types.TypeString(t, nil)
	ts = strings.TrimPrefix(ts, "*")
	return strings.HasPrefix(ts, "sync.") || strings.HasPrefix(ts, "sync/atomic.") || strings.HasSuffix(ts, "internal/common.CPRNG")
}

// readOnlyGlobals: package-level values the concurrent call tree only reads through calls (tabled with reason).
var readOnlyGlobals = map[string]string{
	"crypto/rand.Reader": "the system generator is safe for concurrent use (documented)",
}

// packageStateRule: see C20.l.
func packageStateRule(P *Program, R *Report, rule string, entries []string, floor int) {
	var roots []*ssa.Function
	for _, k := range entries {
		if f := mustFunc(P, R, rule, k); f != nil {
			roots = append(roots, f)
		}
	}
	type res struct {
		ok  bool
		why []string
		pos string
	}
	out := map[string]*res{}
	nGlobals := map[string]bool{}
	for _, fn := range P.reachableFuncs(roots...) {
		if fn.Blocks == nil || !inModuleFn(fn) || fn.Name() == "init" || strings.HasPrefix(fn.Name(), "init#") {
			continue
		}
		allInstrs(fn, func(i ssa.Instruction) {
			for _, op := range i.Operands(nil) {
				g, ok := (*op).(*ssa.Global)
				if !ok || g.Pkg == nil || !inModule(g.Pkg.Pkg) {
					continue
				}
				name := shortPkg(g.Pkg.Pkg.Path()) + "." + g.Name()
				elem := g.Type().(*types.Pointer).Elem()
				if selfSynchronised(elem) || configGlobals[name] != "" || isBigIntPtr(elem) || strings.HasPrefix(g.Name(), "init$") {
					continue // big.Int constants: C20.g
				}
				nGlobals[name] = true
				var bad []string
				note := func(u ssa.Instruction, what string) {
					if ok, _ := synchronised(P, fn, u); !ok {
						bad = append(bad, what+" at "+P.Pos(u.Pos()))
					}
				}
				var follow func(v ssa.Value, viaLoad bool, depth int)
				var visit func(u ssa.Instruction, v ssa.Value, viaLoad bool, depth int)
				follow = func(v ssa.Value, viaLoad bool, depth int) {
					if depth > 4 {
						return
					}
					for _, u := range referrersOf(v) {
						visit(u, v, viaLoad, depth)
					}
				}
				visit = func(u ssa.Instruction, v ssa.Value, viaLoad bool, depth int) {
					{
						switch u := u.(type) {
						case *ssa.Store:
							if u.Addr == v {
								note(u, "store")
							} else if !viaLoad {
								note(u, "address stored")
							}
						case *ssa.UnOp:
							if u.Op == token.MUL {
								// loading the variable: a pointer, interface, map, slice or channel it holds is the shared object
								switch u.Type().Underlying().(type) {
								case *types.Pointer, *types.Interface, *types.Map, *types.Slice:
									if !selfSynchronised(u.Type()) && !isBigIntPtr(u.Type()) {
										follow(u, true, depth+1)
									}
								}
							}
						case *ssa.FieldAddr, *ssa.IndexAddr:
							follow(u.(ssa.Value), viaLoad, depth+1)
						case *ssa.MapUpdate:
							if u.Map == v {
								note(u, "map update")
							}
						case ssa.CallInstruction:
							cc := u.Common()
							if cc.IsInvoke() && cc.Value == v {
								note(u, "method "+cc.Method.Name()+" called on the shared object")
								return
							}
							if callee := staticCallee(u); callee != nil && callee.Signature.Recv() != nil && len(cc.Args) > 0 && cc.Args[0] == v {
								if _, ptr := callee.Signature.Recv().Type().(*types.Pointer); ptr {
									if inModuleFn(callee) && callee.Blocks != nil && len(receiverStores(callee)) == 0 {
										return // a method of the module that does not write its receiver
									}
									note(u, "method "+callee.Name()+" called on the shared object")
								}
								return
							}
							switch v.Type().Underlying().(type) {
							case *types.Pointer, *types.Interface, *types.Map:
								if b, isB := cc.Value.(*ssa.Builtin); isB && (b.Name() == "len" || b.Name() == "cap") {
									return
								}
								note(u, "handed to "+calleeName(u))
							}
						}
					}
				}
				visit(i, g, false, 0)
				key := name
				r := out[key]
				if r == nil {
					r = &res{ok: true, pos: P.Pos(i.Pos())}
					out[key] = r
				}
				if len(bad) > 0 {
					r.ok = false
					r.why = append(r.why, FuncKey(fn)+": "+strings.Join(bad, "; "))
				}
			}
		})
	}
	for k, r := range out {
		sort.Strings(r.why)
		R.decide(rule, "global:"+k, "the package-level variable is only read in the concurrent call tree, or every use that can change it is under a lock", r.ok, strings.Join(dedupStrings(r.why), "\n"), r.pos)
	}
	R.decide(rule, "globals:count", fmt.Sprintf("package-level variables used in the concurrent call tree were found (>= %d)", floor), len(nGlobals) >= floor, fmt.Sprintf("%d", len(nGlobals)), "")
}

func dedupStrings(in []string) []string {
	seen := map[string]bool{}
	var out []string
	for _, s := range in {
		if !seen[s] {
			seen[s] = true
			out = append(out, s)
		}
	}
	return out
}

// atomicAlignmentRule: see C20.m.
func atomicAlignmentRule(P *Program, R *Report, rule string) {
	sizes := types.SizesFor("gc", "386")
	n := 0
	for _, fn := range P.AllFuncs {
		if fn.Blocks == nil || !inModuleFn(fn) {
			continue
		}
		for _, ci := range callsIn(fn) {
			name := calleeName(ci)
			if !strings.HasPrefix(name, "sync/atomic.") || !(strings.HasSuffix(name, "Int64") || strings.HasSuffix(name, "Uint64")) {
				continue
			}
			args := ci.Common().Args
			if len(args) == 0 {
				continue
			}
			// offset of the operand within the outermost allocated struct
			off, okOff, path := int64(0), true, ""
			v := args[0]
			for {
				fa, isFA := v.(*ssa.FieldAddr)
				if !isFA {
					break
				}
				st := fa.X.Type().(*types.Pointer).Elem().Underlying().(*types.Struct)
				var fields []*types.Var
				for k := 0; k < st.NumFields(); k++ {
					fields = append(fields, st.Field(k))
				}
				off += sizes.Offsetsof(fields)[fa.Field]
				path = "." + st.Field(fa.Field).Name() + path
				v = fa.X
			}
			if _, isFA := args[0].(*ssa.FieldAddr); !isFA {
				okOff = true // a variable of its own: allocated 64-bit aligned
			}
			n++
			R.seen(FuncKey(fn))
			R.decide(rule, fmt.Sprintf("%s:%s(%s)", FuncKey(fn), strings.TrimPrefix(name, "sync/atomic."), typeShort(v.Type())+path), "the 64-bit operand is at an offset that is a multiple of 8 under the 386 layout", okOff && off%8 == 0, fmt.Sprintf("offset %d", off), P.Pos(ci.Pos()))
		}
	}
	R.decide(rule, "sites:count", "64-bit atomic operations were counted", n >= 0, fmt.Sprintf("%d", n), "")
}

// pooledAndCopiedRule: see C20.n. Both parts have no instance on a tree that satisfies them; the count of
// functions scanned is the coverage figure.
func pooledAndCopiedRule(P *Program, R *Report, rule string) {
	scanned := 0
	var escapes, copies []string
	for _, fn := range P.AllFuncs {
		if fn.Blocks == nil || !inModuleFn(fn) {
			continue
		}
		scanned++
		returned := map[ssa.Value]bool{}
		for _, r := range returnsOf(fn) {
			for k := 0; k < retCount(r); k++ {
				// the objects the result may be (aliases, not values computed from them)
				var walk func(v ssa.Value, d int)
				walk = func(v ssa.Value, d int) {
					if v == nil || returned[v] || d > 8 {
						return
					}
					returned[v] = true
					switch x := v.(type) {
					case *ssa.Phi:
						for _, e := range x.Edges {
							walk(e, d+1)
						}
					case *ssa.ChangeType:
						walk(x.X, d+1)
					case *ssa.MakeInterface:
						walk(x.X, d+1)
					case *ssa.TypeAssert:
						walk(x.X, d+1)
					case *ssa.Slice:
						walk(x.X, d+1)
					case *ssa.FieldAddr:
						walk(x.X, d+1)
					case *ssa.IndexAddr:
						walk(x.X, d+1)
					case *ssa.Extract:
						walk(x.Tuple, d+1)
					case *ssa.Call:
						if m := bigMethod(x); m != "" && bigMutators[m] {
							walk(callArgs(x)[0], d+1) // in-place methods return their receiver
						}
					}
				}
				walk(retValue(r, k), 0)
			}
		}
		for _, ci := range callsIn(fn) {
			if !calleeIs(ci, "(*sync.Pool).Put") || len(ci.Common().Args) < 2 {
				continue
			}
			v := ci.Common().Args[1]
			if mi, ok := v.(*ssa.MakeInterface); ok {
				v = mi.X
			}
			if !returned[v] {
				if ta, ok := v.(*ssa.TypeAssert); ok && returned[ta.X] {
					v = ta.X
				}
			}
			if returned[v] {
				escapes = append(escapes, FuncKey(fn)+": "+typeShort(v.Type())+" put back at "+P.Pos(ci.Pos())+" is (part of) a result")
			}
		}
		allInstrs(fn, func(i ssa.Instruction) {
			if u, ok := i.(*ssa.UnOp); ok && u.Op == token.MUL && typeShort(u.Type()) == "common.CPRNG" {
				copies = append(copies, FuncKey(fn)+": copy at "+P.Pos(u.Pos()))
			}
		})
		if fn.Signature.Recv() != nil && typeShort(fn.Signature.Recv().Type()) == "common.CPRNG" {
			copies = append(copies, FuncKey(fn)+": value receiver")
		}
	}
	sort.Strings(escapes)
	sort.Strings(copies)
	R.decide(rule, "pool:no-escape", "no object that is put back into a sync.Pool is returned by the same function", len(escapes) == 0 && scanned >= 300, fmt.Sprintf("%d functions scanned\n%s", scanned, strings.Join(escapes, "\n")), "")
	R.decide(rule, "cprng:never-copied", "the generator state common.CPRNG is not copied by value anywhere in the module", len(copies) == 0 && scanned >= 300, fmt.Sprintf("%d functions scanned\n%s", scanned, strings.Join(dedupStrings(copies), "\n")), "")
}
