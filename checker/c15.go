package main

import (
	"fmt"

	"golang.org/x/tools/go/ssa"
)

// hashCommitShape implements C02.b / C15.a: the structure of common.HashCommit, evaluated separately
// on the issig=true and issig=false paths.
func hashCommitShape(P *Program, R *Report, rule string) {
	const key = "common.HashCommit"
	fn := mustFunc(P, R, rule, key)
	if fn == nil {
		return
	}
	// encoder / digest / result chain
	var marshal, sum, setBytes *ssa.Call
	nMarshal, nSum := 0, 0
	for _, c := range callsIn(fn) {
		cc, _ := c.(*ssa.Call)
		switch {
		case isCallTo(c, "encoding/asn1.Marshal"):
			marshal = cc
			nMarshal++
		case isCallTo(c, "crypto/sha256.Sum256"):
			sum = cc
			nSum++
		case cc != nil && bigMethod(cc) == "SetBytes":
			setBytes = cc
		}
	}
	R.decide(rule, key+":one-encoder", "exactly one encoder call, encoding/asn1.Marshal", nMarshal == 1 && marshal != nil, fmt.Sprintf("%d calls", nMarshal), P.Pos(fn.Pos()))
	R.decide(rule, key+":one-digest", "exactly one digest, crypto/sha256.Sum256", nSum == 1 && sum != nil, fmt.Sprintf("%d calls", nSum), P.Pos(fn.Pos()))
	if marshal == nil || sum == nil {
		return
	}
	R.decide(rule, key+":digest-input", "the digest input is exactly the marshal result", desc(sum.Call.Args[0]) == desc(marshal)+"#0", "got "+desc(sum.Call.Args[0]), P.Pos(sum.Pos()))
	// whole digest into the integer
	okWhole := false
	detail := "no SetBytes call"
	if setBytes != nil {
		detail = "SetBytes argument is " + desc(setBytes.Call.Args[1])
		if sl, ok := setBytes.Call.Args[1].(*ssa.Slice); ok && sl.Low == nil && sl.High == nil {
			if al, ok := sl.X.(*ssa.Alloc); ok {
				for _, r := range referrersOf(al) {
					if st, ok := r.(*ssa.Store); ok && st.Addr == al && st.Val == ssa.Value(sum) {
						okWhole = true
					}
				}
			}
		}
	}
	R.decide(rule, key+":whole-digest", "the returned integer is SetBytes of the whole 32-byte digest (no truncation)", okWhole, detail, P.Pos(fn.Pos()))
	retOK := setBytes != nil
	for _, r := range returnsOf(fn) {
		if setBytes == nil || len(r.Results) != 1 || siteOf(r.Results[0]) != siteOf(setBytes) {
			retOK = false
		}
	}
	R.decide(rule, key+":result", "every return returns that integer", retOK, "", P.Pos(fn.Pos()))

	// the encoded sequence, per value of issig
	var branch *ssa.If
	for _, b := range fn.Blocks {
		if iff, ok := b.Instrs[len(b.Instrs)-1].(*ssa.If); ok && desc(iff.Cond) == "arg#1" {
			if branch != nil {
				R.und(rule, key+":branch", "a single branch on issig", "more than one branch on issig", P.Pos(iff.Pos()))
				return
			}
			branch = iff
		}
	}
	if branch == nil {
		R.bad(rule, key+":branch", "the encoding depends on issig (marker present iff issig)", "no branch on the issig parameter", P.Pos(fn.Pos()))
		return
	}
	elemD := "call:big.(*Int).Go(arg#0[#i])"
	countD := "call:math/big.NewInt(len(arg#0))"
	for _, sig := range []bool{true, false} {
		chosen := branch.Block().Succs[0]
		if !sig {
			chosen = branch.Block().Succs[1]
		}
		phiEnv = map[*ssa.Phi]ssa.Value{}
		for _, b := range fn.Blocks {
			for _, ins := range b.Instrs {
				phi, ok := ins.(*ssa.Phi)
				if !ok {
					continue
				}
				for i, p := range b.Preds {
					if p == chosen || chosen.Dominates(p) {
						other := false
						for j, q := range b.Preds {
							if j != i && (q == chosen || chosen.Dominates(q)) {
								other = true
							}
						}
						if !other {
							phiEnv[phi] = phi.Edges[i]
						}
					}
				}
			}
		}
		arg := stripConv(marshal.Call.Args[0])
		if phi, ok := arg.(*ssa.Phi); ok {
			if e, ok := phiEnv[phi]; ok {
				arg = e
			}
		}
		seq, ok := seqOf(arg)
		got := seqString(seq)
		want := "[" + countD + ", (" + elemD + ")*]"
		if sig {
			want = "[true, " + countD + ", (" + elemD + ")*]"
		}
		c := fmt.Sprintf("%s:sequence[issig=%v]", key, sig)
		what := fmt.Sprintf("with issig=%v the encoded sequence is %s", sig, want)
		if !ok {
			R.und(rule, c, what, "slice construction idiom not recognised for "+desc(arg), P.Pos(marshal.Pos()))
		} else {
			R.decide(rule, c, what, got == want, "got "+got, P.Pos(marshal.Pos()))
		}
		phiEnv = map[*ssa.Phi]ssa.Value{}
	}
}
