package main

import (
	"fmt"
	"go/token"
	"strings"

	"golang.org/x/tools/go/ssa"
)

// hashCommitShape implements C02.b / C15.a: the structure of common.HashCommit, evaluated separately
// on the issig=true and issig=false paths.
func hashCommitShape(P *Program, R *Report, rule string) {
	const key = "common.HashCommit"
	fn := mustFunc(P, R, rule, key)
	if fn == nil {
		return
	}
	// encoder / digest / result chain, in HashCommit or in helpers it was split into
	var marshal, sum, setBytes *ssa.Call
	nMarshal, nSum := 0, 0
	digestInputOK, wholeOK := false, false
	wholeDetail := "no SetBytes call"
	seqs := map[bool]string{}
	seqOK := map[bool]bool{}
	nMarker, markerOK := 0, true
	nBranch := 0
	deepVisit(P, fn, 2, func(g *ssa.Function) {
		for _, b := range g.Blocks {
			if iff, ok := b.Instrs[len(b.Instrs)-1].(*ssa.If); ok && strings.TrimPrefix(desc(iff.Cond), "!") == "arg#1" {
				nBranch++
			}
		}
		for _, c := range callsIn(g) {
			cc, _ := c.(*ssa.Call)
			if cc == nil {
				continue
			}
			switch {
			case isCallTo(c, "encoding/asn1.Marshal"):
				marshal = cc
				nMarshal++
				for _, sig := range []bool{true, false} {
					assume = map[string]bool{"arg#1": sig}
					seq, ok := seqOf(stripConv(callArgs(cc)[0]))
					seqs[sig], seqOK[sig] = seqString(seq), ok
					assume = map[string]bool{}
				}
			case isCallTo(c, "crypto/sha256.Sum256"):
				sum = cc
				nSum++
				if ex, ok := origin(callArgs(cc)[0]).(*ssa.Extract); ok && ex.Index == 0 {
					if m, ok := ex.Tuple.(*ssa.Call); ok && isCallTo(m, "encoding/asn1.Marshal") {
						digestInputOK = true
					}
				}
			case isCallTo(c, "common.IntHashSha256"):
				// the package's own "SHA-256 of exactly these bytes, as an integer" (C15.c decides that it is): digest and
				// conversion in one
				sum = cc
				nSum++
				setBytes = cc
				wholeOK = true
				wholeDetail = "digest taken by IntHashSha256"
				if ex, ok := origin(callArgs(cc)[0]).(*ssa.Extract); ok && ex.Index == 0 {
					if m, ok := ex.Tuple.(*ssa.Call); ok && isCallTo(m, "encoding/asn1.Marshal") {
						digestInputOK = true
					}
				}
			case bigMethod(cc) == "SetBytes":
				setBytes = cc
				wholeDetail = "SetBytes argument is " + desc(callArgs(cc)[1])
				if sl, ok := callArgs(cc)[1].(*ssa.Slice); ok && sl.Low == nil && sl.High == nil {
					if al, ok := sl.X.(*ssa.Alloc); ok {
						for _, r := range referrersOf(al) {
							if st, ok := r.(*ssa.Store); ok && st.Addr == al {
								if o, ok := origin(st.Val).(*ssa.Call); ok && isCallTo(o, "crypto/sha256.Sum256") {
									wholeOK = true
								}
							}
						}
					}
				}
			}
		}
		// the marker is written exactly under issig
		allInstrs(g, func(i ssa.Instruction) {
			st, ok := i.(*ssa.Store)
			if !ok || desc(st.Val) != "true" {
				return
			}
			if _, isIA := st.Addr.(*ssa.IndexAddr); !isIA {
				return
			}
			nMarker++
			under := false
			for _, a := range controllingConds(st.Block()) {
				a = normAtom(a)
				if desc(a.V) == "arg#1" && a.Want == True {
					under = true
				}
			}
			if !under {
				markerOK = false
			}
		})
	})
	R.decide(rule, key+":one-encoder", "exactly one encoder call, encoding/asn1.Marshal", nMarshal == 1 && marshal != nil, fmt.Sprintf("%d calls", nMarshal), P.Pos(fn.Pos()))
	R.decide(rule, key+":one-digest", "exactly one digest, crypto/sha256.Sum256 (directly or through IntHashSha256)", nSum == 1 && sum != nil, fmt.Sprintf("%d calls", nSum), P.Pos(fn.Pos()))
	if marshal == nil || sum == nil {
		return
	}
	R.decide(rule, key+":digest-input", "the digest input is exactly the marshal result", digestInputOK, "got "+desc(callArgs(sum)[0]), P.Pos(sum.Pos()))
	R.decide(rule, key+":whole-digest", "the returned integer is SetBytes of the whole 32-byte digest (no truncation)", wholeOK, wholeDetail, P.Pos(fn.Pos()))
	retOK := setBytes != nil
	for _, r := range returnsOf(fn) {
		if setBytes == nil || retCount(r) != 1 || (siteOf(origin(retValue(r, 0))) != siteOf(setBytes) && siteOf(retValue(r, 0)) != siteOf(setBytes)) {
			retOK = false
		}
	}
	R.decide(rule, key+":result", "every return returns that integer", retOK, "", P.Pos(fn.Pos()))
	R.decide(rule, key+":branch", "the encoding depends on issig (marker present iff issig)", nBranch >= 1, fmt.Sprintf("%d branches on the issig parameter", nBranch), P.Pos(fn.Pos()))
	R.decide(rule, key+":marker-iff-issig", "the boolean marker is written only on the path where issig is true", markerOK && nMarker >= 1, "a marker store is not control-dependent on issig alone", P.Pos(fn.Pos()))
	R.decide(rule, key+":marker-present", "a boolean marker is written for signature sessions", nMarker == 1, fmt.Sprintf("%d marker stores", nMarker), P.Pos(fn.Pos()))
	elemD := "call:big.(*Int).Go(arg#0[#i])"
	countD := "call:math/big.NewInt(len(arg#0))"
	for _, sig := range []bool{true, false} {
		want := "[" + countD + ", (" + elemD + ")*]"
		if sig {
			want = "[true, " + countD + ", (" + elemD + ")*]"
		}
		c := fmt.Sprintf("%s:sequence[issig=%v]", key, sig)
		what := fmt.Sprintf("with issig=%v the encoded sequence is %s", sig, want)
		if !seqOK[sig] {
			R.und(rule, c, what, "slice construction idiom not recognised for "+desc(callArgs(marshal)[0]), P.Pos(marshal.Pos()))
		} else {
			R.decide(rule, c, what, seqs[sig] == want, "got "+seqs[sig], P.Pos(marshal.Pos()))
		}
	}
}

// unrollLiteralAppendLoop: x is the loop-carried list of `for _, v := range <slice literal> { if v != nil { x = append(x, v) } }`;
// returns the list before the loop and one optional entry per literal element.
func unrollLiteralAppendLoop(x *ssa.Phi) (ssa.Value, []string, bool) {
	l := findLoop(x.Block())
	if l == nil {
		return nil, nil, false
	}
	var init ssa.Value
	var app *ssa.Call
	keeps := false
	var consider func(e ssa.Value) bool
	consider = func(e ssa.Value) bool {
		if e == ssa.Value(x) {
			keeps = true
			return true
		}
		if c, isC := e.(*ssa.Call); isC && isCallTo(c, "builtin:append") && callArgs(c)[0] == ssa.Value(x) && app == nil {
			app = c
			return true
		}
		// the merge of the two inside the body
		if lp, isPhi := e.(*ssa.Phi); isPhi && lp != x && l.Body[lp.Block()] {
			for _, ee := range lp.Edges {
				if !consider(ee) {
					return false
				}
			}
			return true
		}
		return false
	}
	for k, p := range x.Block().Preds {
		if !l.Body[p] {
			if init != nil {
				return nil, nil, false
			}
			init = x.Edges[k]
			continue
		}
		if !consider(x.Edges[k]) {
			return nil, nil, false
		}
	}
	if init == nil || !keeps || app == nil {
		return nil, nil, false
	}
	t, ok := seqTail(callArgs(app)[1], 0, map[ssa.Value]bool{})
	if !ok || len(t) != 1 {
		return nil, nil, false
	}
	// the appended element is literal[i] of the loop's own index, the literal a fully known list
	if ix, isIx := t[0].V.(*ssa.Index); isIx {
		// ... an array literal ranged over by value: `for _, v := range [...]*big.Int{a, b}`
		arr, isLd := ix.X.(*ssa.UnOp)
		if !isLd {
			return nil, nil, false
		}
		al, isAl := arr.X.(*ssa.Alloc)
		if !isAl || al.Comment != "complit" || desc(ix.Index) != inductionName(l.Header) {
			return nil, nil, false
		}
		vals := map[int64]ssa.Value{}
		for _, r := range referrersOf(al) {
			switch u := r.(type) {
			case *ssa.IndexAddr:
				k, isK := constInt(u.Index)
				if !isK {
					return nil, nil, false
				}
				for _, rr := range referrersOf(u) {
					if st, isSt := rr.(*ssa.Store); isSt && st.Addr == ssa.Value(u) {
						if _, dup := vals[k]; dup {
							return nil, nil, false
						}
						vals[k] = st.Val
					}
				}
			case *ssa.UnOp, *ssa.DebugRef:
			default:
				return nil, nil, false
			}
		}
		// the loop runs over the whole array: i+1 < len with len the number of elements
		full := false
		for _, ins := range l.Header.Instrs {
			if bo, isB := ins.(*ssa.BinOp); isB && bo.Op == token.LSS {
				if k, isK := constInt(bo.Y); isK && k == int64(len(vals)) {
					if add, isAdd := bo.X.(*ssa.BinOp); isAdd && add.Op == token.ADD {
						if ph, isPhi := add.X.(*ssa.Phi); isPhi && isInduction(ph) {
							full = true
						}
					}
				}
			}
		}
		if !full || len(vals) == 0 || len(vals) > 8 {
			return nil, nil, false
		}
		var conds []Atom
		for _, a := range controllingConds(app.Block()) {
			if ins, isI := a.V.(ssa.Instruction); isI && l.Body[ins.Block()] && ins.Block() != l.Header {
				conds = append(conds, normAtom(a))
			}
		}
		if len(conds) != 1 || desc(conds[0].V) != "("+t[0].D+"!=nil)" || conds[0].Want != True {
			return nil, nil, false
		}
		var out []string
		for k := int64(0); k < int64(len(vals)); k++ {
			v, has := vals[k]
			if !has {
				return nil, nil, false
			}
			out = append(out, fmt.Sprintf("?%s if (%s!=nil) is true", desc(v), desc(v)))
		}
		return init, out, true
	}
	ld, isLoad := t[0].V.(*ssa.UnOp)
	if !isLoad {
		return nil, nil, false
	}
	ia, isIA := ld.X.(*ssa.IndexAddr)
	if !isIA || !strings.HasSuffix(desc(ia.Index), "#i") && !strings.HasPrefix(desc(ia.Index), "#") {
		return nil, nil, false
	}
	if ph, isPhi := stripConv(ia.Index).(*ssa.BinOp); isPhi {
		_ = ph
	}
	elems, ok := seqOf(ia.X)
	if !ok || len(elems) == 0 || len(elems) > 8 {
		return nil, nil, false
	}
	for _, e := range elems {
		if e.Kind != "elem" {
			return nil, nil, false
		}
	}
	// the loop walks exactly that literal
	walks := false
	for _, wl := range rangeLoopsOver(x.Parent(), func(d string) bool { return d == desc(ia.X) }) {
		if wl.Header == l.Header {
			walks = true
		}
	}
	if !walks {
		return nil, nil, false
	}
	// guarded by elem != nil and nothing else inside the loop
	var conds []Atom
	for _, a := range controllingConds(app.Block()) {
		if ins, isI := a.V.(ssa.Instruction); isI && l.Body[ins.Block()] && ins.Block() != l.Header {
			conds = append(conds, normAtom(a))
		}
	}
	if len(conds) != 1 || desc(conds[0].V) != "("+t[0].D+"!=nil)" || conds[0].Want != True {
		return nil, nil, false
	}
	var out []string
	for _, e := range elems {
		out = append(out, fmt.Sprintf("?%s if (%s!=nil) is true", e.D, e.D))
	}
	return init, out, true
}

func init() {
	register("C15",
		Rule{ID: "C15.a", Explain: "HashCommit: exactly one encoder (encoding/asn1.Marshal) over a slice built here whose elements are [true iff issig], the element count len(values), then values[i].Go() for every i in order; one SHA-256 over exactly the marshal result; the returned integer is SetBytes of the whole digest (path-split evaluation for issig = true/false).",
			Run: func(P *Program, R *Report) { hashCommitShape(P, R, "C15.a") }},
		Rule{ID: "C15.b", Explain: "GetHashNumber: the hashed list is [a if non-nil, b if non-nil, index, counter]; limbs are HashCommit(list, false) shifted left by k and added; k starts at 0, the loop runs while k < bitlen and advances k by 256 and the counter by 1 per limb.",
			Run: func(P *Program, R *Report) { getHashNumberRule(P, R) }},
		Rule{ID: "C15.c", Explain: "IntHashSha256 is SetBytes of the whole SHA-256 digest of exactly the input.",
			Run: func(P *Program, R *Report) {
				fn := mustFunc(P, R, "C15.c", "common.IntHashSha256")
				if fn == nil {
					return
				}
				var write, sum, set *ssa.Call
				for _, c := range callsIn(fn) {
					cc, _ := c.(*ssa.Call)
					if cc == nil {
						continue
					}
					switch {
					case cc.Call.IsInvoke() && cc.Call.Method.Name() == "Write":
						write = cc
					case cc.Call.IsInvoke() && cc.Call.Method.Name() == "Sum":
						sum = cc
					case bigMethod(cc) == "SetBytes":
						set = cc
					}
				}
				ok := write != nil && sum != nil && set != nil && desc(callArgs(write)[0]) == "arg#0" && desc(write.Call.Value) == "call:crypto/sha256.New()" &&
					desc(sum.Call.Value) == "call:crypto/sha256.New()" && isNilConst(callArgs(sum)[0]) && callArgs(set)[1] == ssa.Value(sum)
				// equivalent one-shot form: SetBytes(sha256.Sum256(input)[:])
				if !ok && set != nil && write == nil {
					if sl, isSl := callArgs(set)[1].(*ssa.Slice); isSl && sl.Low == nil && sl.High == nil {
						if al, isAl := sl.X.(*ssa.Alloc); isAl {
							for _, r := range referrersOf(al) {
								if st, isSt := r.(*ssa.Store); isSt && st.Addr == ssa.Value(al) {
									if c, isC := st.Val.(*ssa.Call); isC && isCallTo(c, "crypto/sha256.Sum256") && desc(callArgs(c)[0]) == "arg#0" {
										ok = true
									}
								}
							}
						}
					}
				}
				R.decide("C15.c", "common.IntHashSha256:shape", "SetBytes of the whole SHA-256 digest of exactly the input (streaming or one-shot form)", ok, "", P.Pos(fn.Pos()))
				okRet := set != nil
				for _, r := range returnsOf(fn) {
					if set == nil || siteOf(retValue(r, 0)) != siteOf(set) {
						okRet = false
					}
				}
				R.decide("C15.c", "common.IntHashSha256:result", "that integer is returned", okRet, "", P.Pos(fn.Pos()))
			}},
		Rule{ID: "C15.d", Explain: "createChallenge sandwiches the contributions between context and nonce in order (C02.a) and nothing on a challenge-feeding path accumulates in map order (C02.g).",
			Run: func(P *Program, R *Report) {
				sub := newReport(R.Prop, R.Tier, P)
				for _, r := range registry["C02"] {
					if r.ID == "C02.a" || r.ID == "C02.g" {
						r.Run(P, sub)
					}
				}
				for _, o := range sub.Obls {
					o.Rule = "C15.d"
					R.add(o)
				}
				for f := range sub.funcsSeen {
					R.seen(f)
				}
			}},
		Rule{ID: "C15.e", Explain: "the signature-session marker: only createChallenge passes a variable flag to HashCommit; key proofs, ProofS, the revocation self-check and GetHashNumber pass the constant false (table of call sites).",
			Run: func(P *Program, R *Report) {
				hc := mustFunc(P, R, "C15.e", "common.HashCommit")
				if hc == nil {
					return
				}
				n := 0
				for _, fn := range P.AllFuncs {
					for _, c := range callsIn(fn) {
						if staticCallee(c) != hc {
							continue
						}
						// (a site inside an unexported helper counts once per use of the helper: merging two sites into one
						// shared helper leaves the number of hashing uses unchanged)
						w := 0
						if fn.Object() != nil && !fn.Object().Exported() && fn.Parent() == nil {
							for _, g := range P.AllFuncs {
								w += len(callsTo(g, fn))
							}
						}
						if w < 1 {
							w = 1
						}
						n += w
						k := FuncKey(fn)
						d := desc(callArgs(c)[1])
						want := "false"
						if k == "gabi.createChallenge" {
							want = "arg#3"
						}
						R.decide("C15.e", k+":issig", "HashCommit is called with issig = "+want+" here", d == want, "got "+d, P.Pos(c.Pos()))
					}
				}
				R.decide("C15.e", "common.HashCommit:callsites", "at least 7 call sites of HashCommit", n >= 7, fmt.Sprintf("%d", n), "")
			}},
		Rule{ID: "C15.f", Explain: "the signature-session marker that is hashed is the caller's: in ProofD.Verify / ProofU.Verify / ProofList.Verify and the builders the issig argument of createChallenge originates from the function's own issig parameter (or the tabled constant), also through helpers (the obligations of C02.f, same rule).",
			Run: func(P *Program, R *Report) {
				sharedRule(P, R, "C02", "C02.f", "C15.f", func(c string) bool { return strings.HasSuffix(c, ":issig") })
			}},
		Rule{ID: "C15.g", Explain: "the attribute hash is applied where the specification says: prover, verifier and signer replace an attribute by its SHA-256 digest under the same condition, BitLen > Lm (the guard obligations of C04.g / C01.f, same rule) - a threshold of Lh on one side agrees with Lm for the 1024- and 2048-bit parameters and not for the 4096-bit ones.",
			Run: func(P *Program, R *Report) { sharedRule(P, R, "C04", "C04.g", "C15.g", nil) }},
	)
}

// controllingCondsInLoopOf: the conditions that control the block of c, other than leaving a loop that ran before.
func controllingCondsInLoopOf(c *ssa.Call) []Atom {
	var out []Atom
	for _, a := range controllingConds(c.Block()) {
		if ins, isI := a.V.(ssa.Instruction); isI {
			if hl := findLoop(ins.Block()); hl != nil && !hl.Body[c.Block()] {
				continue
			}
		}
		out = append(out, a)
	}
	return out
}

// nonNilOfLiteral: c is slices.DeleteFunc(lit, pred) over a slice literal of this function with a predicate that is
// exactly `v == nil`: the literal's elements, each marked optional-if-non-nil, in order.
func nonNilOfLiteral(c *ssa.Call) ([]string, bool) {
	if calleeName(c) != "slices.DeleteFunc" || len(callArgs(c)) != 2 {
		return nil, false
	}
	mc, ok := callArgs(c)[1].(*ssa.MakeClosure)
	var pred *ssa.Function
	if ok {
		pred, _ = mc.Fn.(*ssa.Function)
		if len(mc.Bindings) != 0 {
			return nil, false
		}
	} else if f, isFn := callArgs(c)[1].(*ssa.Function); isFn {
		pred = f
	}
	if pred == nil || len(pred.Params) != 1 || len(pred.Blocks) != 1 {
		return nil, false
	}
	rets := returnsOf(pred)
	if len(rets) != 1 || len(rets[0].Results) != 1 {
		return nil, false
	}
	b, ok := rets[0].Results[0].(*ssa.BinOp)
	if !ok || b.Op != token.EQL {
		return nil, false
	}
	isParamNil := func(x, y ssa.Value) bool { return x == ssa.Value(pred.Params[0]) && isNilConst(y) }
	if !isParamNil(b.X, b.Y) && !isParamNil(b.Y, b.X) {
		return nil, false
	}
	elems, ok := seqD(callArgs(c)[0], 0, map[ssa.Value]bool{})
	if !ok || len(elems) == 0 {
		return nil, false
	}
	var out []string
	for _, e := range elems {
		if e.Kind != "elem" {
			return nil, false
		}
		out = append(out, fmt.Sprintf("?%s if (%s!=nil) is true", e.D, e.D))
	}
	return out, true
}

// lenAffine: the length of slice v: len(append(x, e1..ek)) = len(x)+k; otherwise the symbol len(<v>).
func lenAffine(v ssa.Value) Affine {
	if c, ok := v.(*ssa.Call); ok && isCallTo(c, "builtin:append") && len(callArgs(c)) == 2 {
		if t, ok := seqTail(callArgs(c)[1], 0, map[ssa.Value]bool{}); ok {
			fixed := true
			for _, e := range t {
				if e.Kind != "elem" {
					fixed = false
				}
			}
			if fixed {
				return lenAffine(callArgs(c)[0]).add(affConst(int64(len(t))))
			}
		}
	}
	return affSym("len(" + desc(v) + ")")
}

// lenIndexAffine: an index expression made of len(slice), integer constants, + and -, with lengths as in lenAffine.
func lenIndexAffine(v ssa.Value) (Affine, bool) {
	switch x := v.(type) {
	case *ssa.Call:
		if isCallTo(x, "builtin:len") && len(callArgs(x)) == 1 {
			return lenAffine(callArgs(x)[0]), true
		}
	case *ssa.BinOp:
		if x.Op == token.ADD || x.Op == token.SUB {
			a, ok1 := lenIndexAffine(x.X)
			b, ok2 := lenIndexAffine(x.Y)
			if ok1 && ok2 {
				if x.Op == token.SUB {
					b = b.scale(-1)
				}
				return a.add(b), true
			}
		}
	case *ssa.Const:
		if c, ok := constInt(x); ok {
			return affConst(c), true
		}
	case *ssa.Convert:
		return lenIndexAffine(x.X)
	}
	return affineOf(v)
}

func getHashNumberRule(P *Program, R *Report) {
	rule := "C15.b"
	const key = "common.GetHashNumber"
	fn := mustFunc(P, R, rule, key)
	if fn == nil {
		return
	}
	var hc *ssa.Call
	for _, c := range callsIn(fn) {
		if isCallTo(c, "common.HashCommit") {
			hc = c.(*ssa.Call)
		}
	}
	if hc == nil {
		R.bad(rule, key+":limb", "limbs are computed by HashCommit", "no call", P.Pos(fn.Pos()))
		return
	}
	R.decide(rule, key+":issig", "limbs are hashed without the signature-session marker", desc(callArgs(hc)[1]) == "false", "", P.Pos(hc.Pos()))
	// the list: optional a, optional b, index, counter(0)
	// evaluate the append chain with the two optional elements
	listOK := false
	var notes []string
	var lastElem ssa.Value // the counter: the last element appended to the hashed list
	list := callArgs(hc)[0]
	walkList := func(f func(v ssa.Value)) { f(list) }
	if c, ok := list.(*ssa.Call); ok && !isCallTo(c, "builtin:append") {
		// the list is assembled by an unexported helper: walk its (single) returned slice with its parameters bound
		if g := staticCallee(c); g != nil && g.Blocks != nil && inModuleFn(g) && g.Signature.Results().Len() == 1 && len(returnsOf(g)) == 1 {
			walkList = func(f func(v ssa.Value)) { bindCall(c, g, func() { f(returnsOf(g)[0].Results[0]) }) }
		}
	}
	walkList(func(v ssa.Value) {
		// walk the chain backwards from the hashed slice
		var tail []string
		for i := 0; i < 10; i++ {
			switch x := v.(type) {
			case *ssa.Call:
				if isCallTo(x, "builtin:append") {
					t, ok := seqTail(callArgs(x)[1], 0, map[ssa.Value]bool{})
					if ok && len(t) >= 1 && lastElem == nil && len(tail) == 0 {
						lastElem = t[len(t)-1].V
					}
					if ok && len(t) > 1 && len(controllingCondsInLoopOf(x)) == 0 {
						// `append(l, x, y)`: the elements in order (unconditional appends only)
						var ds []string
						for _, e := range t {
							ds = append(ds, e.D)
						}
						tail = append(ds, tail...)
					}
					if ok && len(t) == 1 {
						cond := ""
						for _, a := range controllingConds(x.Block()) {
							// (leaving a loop that ran before this append is not a condition on the append)
							if ins, isI := a.V.(ssa.Instruction); isI {
								if hl := findLoop(ins.Block()); hl != nil && !hl.Body[x.Block()] {
									continue
								}
							}
							a = normAtom(a)
							cond = fmt.Sprintf(" if %s is %s", desc(a.V), a.Want)
							break
						}
						tail = append([]string{t[0].D + cond}, tail...)
					}
					v = callArgs(x)[0]
					continue
				}
				// `slices.DeleteFunc([]*big.Int{a, b}, func(v *big.Int) bool { return v == nil })`: the literal's non-nil elements
				if kept, ok := nonNilOfLiteral(x); ok {
					tail = append(kept, tail...)
					v = nil
					continue
				}
			case *ssa.Phi:
				// a loop over a literal list that appends each non-nil element (`for _, v := range []*big.Int{a, b} { if v != nil
				// { l = append(l, v) } }`): the unrolled optional appends, in the literal's order
				if init, unrolled, ok := unrollLiteralAppendLoop(x); ok {
					tail = append(unrolled, tail...)
					v = init
					continue
				}
				// optional append: phi(prev, append(prev, x))
				var next ssa.Value
				for _, e := range x.Edges {
					if c, ok := e.(*ssa.Call); ok && isCallTo(c, "builtin:append") {
						t, ok := seqTail(callArgs(c)[1], 0, map[ssa.Value]bool{})
						cond := ""
						for _, a := range controllingConds(c.Block()) {
							a = normAtom(a)
							cond = fmt.Sprintf(" if %s is %s", desc(a.V), a.Want)
							break
						}
						if ok && len(t) == 1 {
							tail = append([]string{"?" + t[0].D + cond}, tail...)
						}
						next = callArgs(c)[0]
					}
				}
				if next != nil {
					v = next
					continue
				}
			}
			break
		}
		notes = tail
		want := []string{"?arg#0 if (arg#0!=nil) is true", "?arg#1 if (arg#1!=nil) is true", "call:big.NewInt(arg#2)", "call:big.NewInt(0)"}
		listOK = len(tail) == len(want)
		for i := range want {
			if i < len(tail) && tail[i] != want[i] {
				listOK = false
			}
		}
	})
	R.decide(rule, key+":list", "the hashed list is [a if non-nil, b if non-nil, index, counter starting at 0]", listOK, strings.Join(notes, " ; "), P.Pos(hc.Pos()))
	// loop: k phi(0, k+256), condition k < bitlen
	l := innermostLoopOf(hc.Block())
	okLoop, okShift, okAdd, okCounter := false, false, false, false
	var shiftedSite ssa.Value // the object that holds the shifted limb
	if l != nil {
		for _, ins := range l.Header.Instrs {
			if phi, ok := ins.(*ssa.Phi); ok && len(phi.Edges) == 2 {
				start, step := false, false
				for _, e := range phi.Edges {
					if c, ok := constInt(e); ok && c == 0 {
						start = true
					}
					if b, ok := e.(*ssa.BinOp); ok && b.Op.String() == "+" && b.X == ssa.Value(phi) {
						if c, ok := constInt(b.Y); ok && c == 256 {
							step = true
						}
					}
				}
				if start && step {
					// condition
					for _, j := range l.Header.Instrs {
						if b, ok := j.(*ssa.BinOp); ok && b.Op.String() == "<" && b.X == ssa.Value(phi) && desc(b.Y) == "arg#3" {
							okLoop = true
						}
						if b, ok := j.(*ssa.BinOp); ok && b.Op.String() == ">" && b.Y == ssa.Value(phi) && desc(b.X) == "arg#3" {
							okLoop = true // bitlen > k
						}
					}
					// shift by k
					allInstrs(fn, func(i ssa.Instruction) {
						c, ok := i.(*ssa.Call)
						if !ok || !l.Body[c.Block()] {
							return
						}
						// cur.Lsh(cur, k) in place, or shifted := new(big.Int).Lsh(cur, k)
						if bigMethod(c) == "Lsh" && siteOf(callArgs(c)[1]) == ssa.Value(hc) && stripConv(callArgs(c)[2]) == ssa.Value(phi) {
							okShift = true
							shiftedSite = siteOf(callArgs(c)[0])
						}
					})
				}
			}
		}
		allInstrs(fn, func(i ssa.Instruction) {
			c, ok := i.(*ssa.Call)
			if !ok || !l.Body[c.Block()] || bigMethod(c) != "Add" {
				return
			}
			// res.Add(res, cur)
			if siteOf(callArgs(c)[0]) == siteOf(callArgs(c)[1]) && shiftedSite != nil && siteOf(callArgs(c)[2]) == shiftedSite {
				for _, r := range returnsOf(fn) {
					if siteOf(retValue(r, 0)) == siteOf(callArgs(c)[0]) {
						okAdd = true
					}
				}
			}
			// counter: tmp[countIdx].Add(tmp[countIdx], 1)
			d0, d1 := desc(callArgs(c)[0]), desc(callArgs(c)[1])
			isCounter := false
			// list[len(list)-1]: the last element of the hashed list, with the length of a list that was appended to
			// counted as the length before plus the number of elements appended
			if ld, isLoad := callArgs(c)[0].(*ssa.UnOp); isLoad && d0 == d1 {
				if ia, isIA := ld.X.(*ssa.IndexAddr); isIA && ia.X == list {
					if a, ok := lenIndexAffine(ia.Index); ok && a.String() == lenAffine(list).add(affConst(-1)).String() {
						isCounter = true
					}
				}
			}
			if lastElem != nil && siteOf(callArgs(c)[0]) == siteOf(lastElem) && siteOf(callArgs(c)[1]) == siteOf(lastElem) {
				isCounter = true // the counter object itself, kept in a local
			}
			if isCounter {
				if k, ok := P.bigEval(fn).At[c]; ok && len(k) == 3 && k[2].equal(tconst(1)) {
					okCounter = true
				}
			}
		})
	}
	R.decide(rule, key+":loop", "k starts at 0, the loop runs while k < bitlen and advances k by 256", okLoop, "", P.Pos(fn.Pos()))
	R.decide(rule, key+":shift", "each limb is shifted left by k", okShift, "", P.Pos(fn.Pos()))
	R.decide(rule, key+":sum", "the limbs are added into the returned result", okAdd, "", P.Pos(fn.Pos()))
	R.decide(rule, key+":counter", "the counter (last list element) is incremented by exactly 1 per limb", okCounter, "", P.Pos(fn.Pos()))
}
