package main

import (
	"fmt"
	"go/token"
	"strings"

	"golang.org/x/tools/go/ssa"
)

const (
	kExtract   = "rangeproof.(*Proof).ExtractStructure"
	kNewParams = "rangeproof.newWithParams"
	kRPVerify  = "rangeproof.(*ProofStructure).VerifyProofStructure"
	kRPCFP     = "rangeproof.(*ProofStructure).CommitmentsFromProof"
	kRPCFS     = "rangeproof.(*ProofStructure).CommitmentsFromSecrets"
	kProves    = "rangeproof.(*Proof).ProvesStatement"
	kProven    = "rangeproof.(*Proof).ProvenStatement"
	kNewPS     = "rangeproof.NewProofStructure"
	kReconRP   = "gabi.reconstructRangeProofStructures"
	rpP        = "<rangeproof.Proof>"
	rpS        = "<rangeproof.ProofStructure>"
	pdRP       = "<gabi.ProofD>.RangeProofs"
)

// loopsIn returns the loops of fn over the collection, innermost information via header.
func loopOver(fn *ssa.Function, coll func(string) bool) *Loop {
	ls := rangeLoopsOver(fn, coll)
	if len(ls) == 1 {
		return ls[0]
	}
	return nil
}

func init() {
	register("C12",
		Rule{ID: "C12.a", Explain: "carried => checked: ChallengeContribution returns contributions only if for EVERY key of RangeProofs (the verifying loop ranges over the sorted key set) the attribute is hidden, and for every proof under it the structure was extracted with that same index, VerifyProofStructure returned true and CommitmentsFromProof was appended.",
			Run: func(P *Program, R *Report) { carriedCheckedRule(P, R) }},
		Rule{ID: "C12.b", Explain: "binding: the m-response of a range proof is (a copy of) AResponses[index] for the same index that names its base R<index>, assigned before the structure check and the contributions.",
			Run: func(P *Program, R *Report) { bindingRule(P, R) }},
		Rule{ID: "C12.j", Explain: "the m-response of a range proof is never taken from the message: rangeproof.Proof.MResponse is excluded from decoding (it is installed from the hidden attribute's response, C12.b).",
			Run: func(P *Program, R *Report) {
				notDecodableRule(P, R, "C12.j", [][2]string{{"rangeproof.Proof", "MResponse"}})
			}},
		Rule{ID: "C12.k", Explain: "aliasing discipline: range proofs, structures and statements are not modified in place - no function mutates in place a big.Int it reached through rangeproof.Proof / rangeproof.ProofStructure / rangeproof.Statement (math/big mutators write their receiver), except the tabled merge/refresh functions.",
			Run: func(P *Program, R *Report) { inPlaceDisciplineRule(P, R, "C12.k", "rangeproof.Proof", "rangeproof.ProofStructure", "rangeproof.Statement") }},
		Rule{ID: "C12.c", Explain: "ExtractStructure rejects K == nil, Ld > Lm, len(Cs) outside {3,4}, K.BitLen() > Lm + IntSize, three squares with A != 4, sign outside {1,-1} and more than 4 squares.",
			Run: func(P *Program, R *Report) { extractLimitsRule(P, R) }},
		Rule{ID: "C12.d", Explain: "VerifyProofStructure size limits: V5 <= Lm+ld+2+Lh+Lstatzk+1 bits, M and V_i <= Lm+Lh+Lstatzk+1, D_i <= ld+Lh+Lstatzk+1, C_i <= |N| bits (symbolic comparison).",
			Run: func(P *Program, R *Report) { rangeSizesRule(P, R, "C12.d") }},
		Rule{ID: "C12.m", Explain: "the commitments C_i carried by a range proof are bases of the verified relations: the structure check accepts only if every C_i is an element of the group - 0 < C_i < N (a C_i that is zero modulo N makes every reconstructed commitment zero whatever the responses, so that any inequality verifies).",
			Run: func(P *Program, R *Report) { rangeGroupElementsRule(P, R, "C12.m") }},
		Rule{ID: "C12.n", Explain: "a range proof carries all of its parts: in package rangeproof every slice made with a computed length and filed in a struct field (the commitments c, hiders d, v and their randomisers in ProofCommit; Cs, DResponses, VResponses in Proof) has every element visited by a full walk from 0 by 1 up to that very length (same rule as C17.k); a walk that starts at 1 leaves the first square's commitment or response nil.",
			Run: func(P *Program, R *Report) { madeSlicesFilledRule(P, R, "C12.n", "rangeproof", 0) }},
		Rule{ID: "C12.e", Explain: "the proven relation is built from the descriptor: base R<index> raised to -k (sign 1) or k (sign -1) on the left; S^(-v5), R<index>^(-a*sign*m) and each C_i^(d_i) on the right; C_i = R<index>^(d_i) S^(v_i).",
			Run: func(P *Program, R *Report) { relationShapeRule(P, R) }},
		Rule{ID: "C12.l", Explain: "the challenge covers every relation of the range proof: in CommitmentsFromSecrets and CommitmentsFromProof the list returned by each sub-relation's contribution call flows into the returned list.",
			Run: func(P *Program, R *Report) { contributionsKeptRule(P, R, "C12.l") }},
		Rule{ID: "C12.q", Explain: "the challenge covers the prover-chosen bases (strong Fiat-Shamir): the C_i of a range proof are chosen by the prover and are bases of the verified relations, so they have to be fixed before the challenge is known - in CommitmentsFromProof the proof's Cs, and in CommitmentsFromSecrets the commitments c that BuildProof sends as Cs, are appended to the returned contribution list as they are, at the same place (before or after the relations) on both sides. Without it a prover picks C_i = R^(d_i) after seeing the challenge and proves a false inequality.",
			Run: func(P *Program, R *Report) { rangeBasesHashedRule(P, R, "C12.q") }},
		Rule{ID: "C12.f", Explain: "ProvesStatement is true only if the sign is 1 or -1 and equals the proof's, the (rescaled) factor equals the proof's A, and K equals the (rescaled) bound or compares to it in the direction of the sign.",
			Run: func(P *Program, R *Report) { provesStatementRule(P, R) }},
		Rule{ID: "C12.g", Explain: "the three-square rescaling (factor*4, bound*4-2) is the same symbolic term in NewProofStructure and ProvesStatement, ProvenStatement is its inverse ((K+2)>>2, A>>2), and the queried factor cannot wrap around.",
			Run: func(P *Program, R *Report) { rescalingRule(P, R, "C12.g") }},
		Rule{ID: "C12.i", Explain: "the prover refuses false statements: the difference sign*(a*m-k) is tested non-negative before it is split.",
			Run: func(P *Program, R *Report) {
				fn := mustFunc(P, R, "C12.i", kRPCFS)
				if fn == nil {
					return
				}
				var split *ssa.Call
				for _, c := range callsIn(fn) {
					if cc, ok := c.(*ssa.Call); ok && cc.Call.IsInvoke() && cc.Call.Method.Name() == "Split" {
						split = cc
					}
				}
				if split == nil {
					R.bad("C12.i", kRPCFS+":split", "the difference is split into squares", "no Split call", P.Pos(fn.Pos()))
					return
				}
				nonNeg := func(v ssa.Value) func(Atom) bool {
					return func(a Atom) bool {
						g, ok := P.guardOf(a)
						return ok && g.Kind == "big" && siteOf(g.SubjV) == siteOf(v) && g.Rel == ">=" && g.Bound.equal(tconst(0))
					}
				}
				r := (&MustPass{P: P, Match: nonNeg(callArgs(split)[0])}).MustReach(fn, split)
				if ex, isEx := callArgs(split)[0].(*ssa.Extract); isEx && !r.Holds {
					// the difference comes from a helper: its error was tested before the split, and every successful
					// return of the helper hands out a value it tested >= 0
					if hc, isCall := ex.Tuple.(*ssa.Call); isCall {
						if h := staticCallee(hc); h != nil && h.Blocks != nil && inModuleFn(h) {
							if hacc, okAcc := accOfFn(h, Nil); okAcc {
								r = (&MustPass{P: P, NoInterproc: true, Match: func(a Atom) bool {
									c2, idx := callAndResult(a.V)
									return c2 == hc && idx == hacc.Result && a.Want == Nil
								}}).MustReach(fn, split)
								bindCall(hc, h, func() {
									for _, ret := range returnsOf(h) {
										if !r.Holds || !isNilConst(retValue(ret, hacc.Result)) {
											continue
										}
										r = (&MustPass{P: P, Match: nonNeg(retValue(ret, ex.Index))}).MustReach(h, ret)
									}
								})
							}
						}
					}
				}
				R.decide("C12.i", kRPCFS+":nonnegative", "the value handed to the splitter was tested >= 0 (else ErrFalseStatement)", r.Holds, r.Path, P.Pos(split.Pos()))
				// the term of the difference: both signs
				be := P.bigEval(fn)
				ts := be.at(split)
				got := ""
				if len(ts) > 0 {
					got = ts[0].String()
				}
				// flow-sensitive join of the two sign branches gives Top; check the unsigned difference before negation
				okDiff := false
				deepVisit(P, fn, 1, func(g *ssa.Function) {
					be := P.bigEval(g)
					allInstrs(g, func(i ssa.Instruction) {
						if c, ok := i.(*ssa.Call); ok && bigMethod(c) == "Sub" {
							if t, ok := be.Ret[c]; ok {
								want := tsub(tmul(tsym("arg#2"), tsym("call:big.NewInt("+rpS+".a)")), tsym(rpS+".k"))
								if t.equal(want) {
									okDiff = true
								}
								got += " | " + t.String()
							}
						}
					})
				})
				R.decide("C12.i", kRPCFS+":difference", "the difference is a*m - k (negated when sign = -1)", okDiff, "got "+got, P.Pos(fn.Pos()))
			}},
		Rule{ID: "C12.o", Explain: "no failure is dropped in package rangeproof (a failed split, generator or structure extraction ends the call) (same rule as C08.g: the error a call returns has a use - a nil test or a return - before it is overwritten, shadowed or left behind).",
			Run: func(P *Program, R *Report) { errorResultsUsedRule(P, R, "C12.o", inFiles(P, "rangeproof/"), nil, 5) }},
		Rule{ID: "C12.p", Explain: "the response a range proof is tied to is a bound one: an attribute index is never both disclosed and hidden (the obligations of C01.g, same rule) - a tolerated response at a disclosed index is skipped when Z is rebuilt and still used as the range proof's attribute response.",
			Run: func(P *Program, R *Report) { sharedRule(P, R, "C01", "C01.g", "C12.p", nil) }},
		Rule{ID: "C12.r", Explain: "what is verified is what is reported: the range-proof structures checked by a verification are extracted from the proof as it is in that call (the obligations of C02.h, same rule) - structures remembered in the proof object from an earlier call let a descriptor (sign, factor, bound, l_d) altered since then pass the equations of the old one while Proves / ProvenStatement read the new one.",
			Run: func(P *Program, R *Report) { sharedRule(P, R, "C02", "C02.h", "C12.r", nil) }},
	)
}

func carriedCheckedRule(P *Program, R *Report) {
	rule := "C12.a"
	fn := mustFunc(P, R, rule, kProofDCC)
	if fn == nil {
		return
	}
	acc := AcceptNilErr(1)
	noRP := func(a Atom) bool { return desc(a.V) == pdRP && a.Want == Nil }
	// (1) the iterated index set is the key set of RangeProofs
	outer := loopOver(fn, is("makeslice"))
	keysOK := false
	var keysDetail string
	if outer != nil {
		// find the slice value iterated and evaluate how it was built
		for _, ins := range outer.Header.Instrs {
			if b, ok := ins.(*ssa.BinOp); ok && b.Op == token.LSS {
				if c, ok := b.Y.(*ssa.Call); ok && isCallTo(c, "builtin:len") {
					seq, sok := seqOf(callArgs(c)[0])
					keysDetail = seqString(seq)
					keysOK = sok && keysDetail == "[(rangekey("+pdRP+"))*]"
				}
			}
		}
	}
	R.decide(rule, kProofDCC+":key-set", "the verifying loop iterates exactly the keys of RangeProofs (collected unconditionally, then sorted)", keysOK, "indices built as "+keysDetail, P.Pos(fn.Pos()))
	if outer == nil {
		R.bad(rule, kProofDCC+":loop", "a loop over the collected range-proof indices exists", "not found", P.Pos(fn.Pos()))
		return
	}
	idx := "makeslice[#i]"
	// the loop over the proofs of one index: in ChallengeContribution itself or in a helper the outer loop's body
	// was extracted into (examined with its parameters bound to the call's arguments)
	var inner *Loop
	innerFn := fn
	deepVisit(P, fn, 2, func(g *ssa.Function) {
		if inner == nil {
			if l := loopOver(g, is(pdRP+"["+idx+"]")); l != nil {
				inner, innerFn = l, g
			}
		}
	})
	if inner == nil {
		R.bad(rule, kProofDCC+":inner-loop", "for every index a loop over all its range proofs exists", "no loop over RangeProofs[index]", P.Pos(fn.Pos()))
		return
	}
	innerAcc := acc
	if innerFn != fn {
		var okAcc bool
		if innerAcc, okAcc = accOfFn(innerFn, Nil); !okAcc {
			R.bad(rule, kProofDCC+":inner-loop", "for every index a loop over all its range proofs exists", "the helper "+FuncKey(innerFn)+" cannot report failure", P.Pos(innerFn.Pos()))
			return
		}
	}
	// (2) per index
	chk := func(name, what string, q *MustPass) {
		q.P = P
		q.Exempt = noRP
		r := q.ForAllBody(fn, outer, acc, true)
		R.decide(rule, kProofDCC+":"+name, what, r.Holds, r.Path, P.Pos(fn.Pos()))
	}
	chk("hidden", "every range-proof index has a hidden response in this proof (else error)", &MustPass{Match: func(a Atom) bool {
		return desc(a.V) == "<gabi.ProofD>.AResponses["+idx+"]" && a.Want == NonNil
	}})
	chk("inner-loop-entered", "for every index the loop over its proofs is executed", &MustPass{Instr: func(f *ssa.Function, i ssa.Instruction) bool {
		return i.Block() == inner.Header
	}})
	chk("structures-match", "the number of extracted structures equals the number of proofs under the index", &MustPass{Match: func(a Atom) bool {
		g, ok := parseGuard(a, nil)
		x, y := "len("+pdRP+"["+idx+"])", "len(<gabi.ProofD>.cachedRangeStructures["+idx+"])"
		return ok && g.Kind == "int" && g.Rel == "==" && ((g.Subject == x && g.BoundA.String() == y) || (g.Subject == y && g.BoundA.String() == x))
	}})
	// (3) per proof
	proof := pdRP + "[" + idx + "][#j]"
	str := "<gabi.ProofD>.cachedRangeStructures[" + idx + "][#j]"
	q1 := &MustPass{P: P, Match: func(a Atom) bool {
		c, ok := callAtom(a, True, kRPVerify)
		return ok && desc(callArgs(c)[0]) == str && desc(callArgs(c)[1]) == pkD && desc(callArgs(c)[2]) == proof
	}}
	if innerFn != fn {
		chk("helper-succeeded", "for every index the helper holding the per-proof loop returned without error", &MustPass{NoInterproc: true, Match: func(a Atom) bool {
			c, _ := callAndResult(a.V)
			return c != nil && staticCallee(c) == innerFn && a.Want == Nil
		}})
	}
	var r1, r2 mpResult
	bindPath(fn, innerFn, 2, func() { r1 = q1.ForAllBody(innerFn, inner, innerAcc, false) })
	R.decide(rule, kProofDCC+":each-verified", "for every proof: VerifyProofStructure(pk, proof) of its own structure returned true", r1.Holds, r1.Path, P.Pos(fn.Pos()))
	q2 := &MustPass{P: P, Instr: func(f *ssa.Function, i ssa.Instruction) bool {
		c, ok := i.(*ssa.Call)
		if !ok || !isCallTo(c, "builtin:append") {
			return false
		}
		d := desc(callArgs(c)[1])
		return strings.HasPrefix(d, "call:"+kRPCFP+"("+str+","+pkD+","+proof+",<gabi.ProofD>.C)")
	}}
	bindPath(fn, innerFn, 2, func() { r2 = q2.ForAllBody(innerFn, inner, innerAcc, false) })
	R.decide(rule, kProofDCC+":each-contributes", "for every proof: CommitmentsFromProof(pk, proof, p.C) is appended to the contribution", r2.Holds, r2.Path, P.Pos(fn.Pos()))
	// (4) structures are extracted for the index they are filed under (in reconstructRangeProofStructures, or
	// wherever that code sits below ChallengeContribution)
	var ext *ssa.Call
	deepVisit(P, fn, 2, func(g *ssa.Function) {
		for _, c := range callsIn(g) {
			if cc, isCall := c.(*ssa.Call); isCall && isCallTo(c, kExtract) && ext == nil {
				ext = cc
			}
		}
	})
	if ext == nil {
		R.bad(rule, kProofDCC+":extract", "the structures are extracted from the proofs below ChallengeContribution", "no call of ExtractStructure found", P.Pos(fn.Pos()))
		return
	}
	rf := ext.Parent()
	bindPath(fn, rf, 2, func() {
		a := callArgs(ext)
		ok := desc(a[0]) == pdRP+"[*][#j]" && desc(a[1]) == "rangekey("+pdRP+")" && desc(a[2]) == pkD
		R.decide(rule, kProofDCC+":extract:index", "each structure is extracted with the index its proof is filed under", ok, desc(a[0])+", "+desc(a[1]), P.Pos(ext.Pos()))
		okStore := false
		for _, s := range sinksOf(rf) {
			if s.target == "<gabi.ProofD>.cachedRangeStructures" && s.key == "rangekey("+pdRP+")" {
				okStore = true
			}
		}
		R.decide(rule, kProofDCC+":extract:filed", "and cached under that same index", okStore, "", P.Pos(rf.Pos()))
		// every iteration of the loop over the proofs either extracted successfully or the function fails
		racc, okAcc := accOfFn(rf, Nil)
		l := innermostLoopOf(ext.Block())
		res := mpResult{Path: "the extraction is not inside a loop of a function that can fail"}
		if okAcc && l != nil {
			res = (&MustPass{P: P, Match: func(a Atom) bool {
				c, idx := callAndResult(a.V)
				return c == ext && idx == 1 && a.Want == Nil
			}}).ForAllBody(rf, l, racc, false)
		}
		R.decide(rule, kProofDCC+":extract:error", "a nil error is returned only if every extraction succeeded", res.Holds, res.Path, P.Pos(ext.Pos()))
	})
	if rf != fn {
		mp(P, R, rule, kProofDCC+":extract:propagated", "contributions are returned only if the extraction of the structures succeeded", fn, acc, &MustPass{NoInterproc: true, Exempt: noRP, Match: func(a Atom) bool {
			c, _ := callAndResult(a.V)
			return c != nil && staticCallee(c) == rf && a.Want == Nil
		}})
	}
}

func bindingRule(P *Program, R *Report) {
	rule := "C12.b"
	fn := mustFunc(P, R, rule, kProofDCC)
	if fn == nil {
		return
	}
	idx := "makeslice[#i]"
	var ver, cfp *ssa.Call
	deepVisit(P, fn, 2, func(g *ssa.Function) {
		for _, c := range callsIn(g) {
			if isCallTo(c, kRPVerify) {
				ver, _ = c.(*ssa.Call)
			}
			if isCallTo(c, kRPCFP) {
				cfp, _ = c.(*ssa.Call)
			}
		}
	})
	if ver == nil || cfp == nil {
		R.bad(rule, kProofDCC+":calls", "structure check and contribution calls exist", "missing", P.Pos(fn.Pos()))
		return
	}
	want := tsym("<gabi.ProofD>.AResponses[" + idx + "]")
	assign := func(f *ssa.Function, i ssa.Instruction) bool {
		be := P.bigEval(i.Parent())
		st, ok := i.(*ssa.Store)
		if !ok || !strings.HasSuffix(desc(st.Addr), ".MResponse") {
			return false
		}
		if desc(st.Addr) != pdRP+"["+idx+"][#j].MResponse" {
			return false
		}
		t := be.Use[st][st.Val]
		_, fresh := siteOf(st.Val).(*ssa.Alloc)
		return fresh && t.equal(want)
	}
	for _, c := range []*ssa.Call{ver, cfp} {
		var r mpResult
		if !bindPath(fn, c.Parent(), 2, func() { r = (&MustPass{P: P, Instr: assign}).MustReach(c.Parent(), c) }) {
			r = mpResult{Path: "the call is not reached from ChallengeContribution by static calls"}
		}
		R.decide(rule, kProofDCC+":MResponse-before:"+calleeName(c), "MResponse of the proof is a fresh copy of AResponses[its index] before this call", r.Holds, r.Path, P.Pos(c.Pos()))
	}
	// the structure's base name uses the same index
	if np := mustFunc(P, R, rule, kNewParams); np != nil {
		n := 0
		bad := 0
		allInstrs(np, func(i ssa.Instruction) {
			c, ok := i.(*ssa.Call)
			if !ok || !calleeIs(c, "fmt.Sprintf") {
				return
			}
			f := desc(callArgs(c)[0])
			if f == `"R%d"` {
				n++
				if seq, ok := seqOf(callArgs(c)[1]); !ok || len(seq) != 1 || seq[0].D != "arg#0" {
					bad++
				}
			}
		})
		R.decide(rule, kNewParams+":base-name", "every R<i> base of the structure is named with the structure's attribute index", n >= 1 && bad == 0, fmt.Sprintf("%d uses, %d wrong", n, bad), P.Pos(np.Pos()))
	}
}

func extractLimitsRule(P *Program, R *Report) { extractLimitsRuleFor(P, R, "C12.c") }

func extractLimitsRuleFor(P *Program, R *Report, rule string) {
	fn := mustFunc(P, R, rule, kExtract)
	if fn == nil {
		return
	}
	acc := AcceptNilErr(1)
	intG := func(check func(g Guard) bool) func(Atom) bool {
		return func(a Atom) bool {
			g, ok := parseGuard(a, nil)
			return ok && check(g)
		}
	}
	lenCs := "len(" + rpP + ".Cs)"
	mp(P, R, rule, kExtract+":K-present", "structure => K != nil", fn, acc, &MustPass{Match: func(a Atom) bool { return desc(a.V) == rpP+".K" && a.Want == NonNil }})
	mp(P, R, rule, kExtract+":Ld", "structure => Ld <= Lm", fn, acc, &MustPass{Match: intG(func(g Guard) bool {
		return g.Kind == "int" && g.Subject == rpP+".Ld" && g.Rel == "<=" && g.BoundA.String() == "Lm"
	})})
	mp(P, R, rule, kExtract+":squares>=3", "structure => len(Cs) >= 3", fn, acc, &MustPass{Match: intG(func(g Guard) bool {
		return g.Kind == "int" && g.Subject == lenCs && ((g.Rel == ">=" && g.BoundA.String() == "3") || (g.Rel == ">" && g.BoundA.String() == "2"))
	})})
	mp(P, R, rule, kExtract+":squares<=4", "structure => len(Cs) <= 4", fn, acc, &MustPass{Match: intG(func(g Guard) bool {
		return g.Kind == "int" && g.Subject == lenCs && ((g.Rel == "<=" && g.BoundA.String() == "4") || (g.Rel == "<" && g.BoundA.String() == "5"))
	})})
	mp(P, R, rule, kExtract+":K-size", "structure => K.BitLen() <= Lm + IntSize", fn, acc, &MustPass{Match: intG(func(g Guard) bool {
		if g.Kind != "bitlen" || g.Subject != rpP+".K" {
			return false
		}
		k, ok := g.bitlenUpper()
		return ok && (k.String() == fmt.Sprintf("Lm+%d", intSize()) || k.String() == parseAffine(fmt.Sprintf("Lm+%d", intSize())).String())
	})})
	mp(P, R, rule, kExtract+":three-squares-factor", "structure with three squares => A == 4", fn, acc, &MustPass{
		Exempt: intG(func(g Guard) bool { return g.Kind == "int" && g.Subject == lenCs && g.Rel == "!=" && g.BoundA.String() == "3" }),
		Match:  intG(func(g Guard) bool { return g.Kind == "int" && g.Subject == rpP+".A" && g.Rel == "==" && g.BoundA.String() == "4" })})
	// sign: through newWithParams with the proof's own Sign
	var npc *ssa.Call
	for _, c := range callsIn(fn) {
		if isCallTo(c, kNewParams) {
			npc = c.(*ssa.Call)
		}
	}
	if npc == nil {
		R.bad(rule, kExtract+":construct", "the structure is built by newWithParams from the proof's descriptor", "no call", P.Pos(fn.Pos()))
		return
	}
	a := callArgs(npc)
	R.decide(rule, kExtract+":descriptor-args", "newWithParams(index, p.Sign, p.A, p.K, nil, len(p.Cs), p.Ld)",
		desc(a[0]) == "arg#1" && desc(a[1]) == rpP+".Sign" && desc(a[2]) == rpP+".A" && desc(a[3]) == rpP+".K" && desc(a[5]) == lenCs && desc(a[6]) == rpP+".Ld", "", P.Pos(npc.Pos()))
	mp(P, R, rule, kExtract+":sign", "structure => sign is 1 or -1 (checked on the verifier's path, not only for locally created statements)", fn, acc, &MustPass{Match: func(at Atom) bool {
		// inside newWithParams: sign is arg#1; accept the pair of tests sign == 1 || sign == -1 as: path crosses (sign != 1) false, or (sign != -1) false
		g, ok := parseGuard(at, nil)
		if !ok || g.Kind != "int" || g.Rel != "==" {
			return false
		}
		// (inside a helper the parameter is described as the caller's argument: the proof's Sign)
		if (g.Subject == "arg#1" && at.Fn != nil && FuncKey(at.Fn) == kNewParams || g.Subject == rpP+".Sign") && (g.BoundA.String() == "1" || g.BoundA.String() == "-1") {
			return true
		}
		return at.Fn != nil && FuncKey(at.Fn) == kExtract && g.Subject == rpP+".Sign" && (g.BoundA.String() == "1" || g.BoundA.String() == "-1")
	}})
	if np := mustFunc(P, R, rule, kNewParams); np != nil {
		// the factor is used as a signed 64-bit exponent and multiplier (int64(a)): it must fit, or the relation
		// that is proven is about a - 2^64 while the statement that is reported is about a
		mp(P, R, rule, kNewParams+":factor-fits-int64", "a structure is built only for a factor that survives the conversion to int64 (a <= MaxInt64)", np, AcceptNilErr(1), &MustPass{Match: intG(func(g Guard) bool {
			if g.Kind != "int" || g.Subject != "arg#2" || !g.BoundA.isConst() {
				return false
			}
			return (g.Rel == "<=" && g.BoundA.C == 9223372036854775807) || (g.Rel == "<" && g.BoundA.C == -9223372036854775808) // `< 1<<63` prints as the wrapped constant
		})})
		mp(P, R, rule, kNewParams+":squares<=4", "a structure is built only for at most 4 squares", np, AcceptNilErr(1), &MustPass{Match: intG(func(g Guard) bool {
			return g.Kind == "int" && g.Subject == "arg#5" && g.Rel == "<=" && g.BoundA.String() == "4"
		})})
	}
}

// intSize of the analysed configuration (strconv.IntSize is folded to a constant by the compiler).
var analysedIntSize = 64

func intSize() int { return analysedIntSize }

func rangeSizesRule(P *Program, R *Report, rule string) {
	fn := mustFunc(P, R, rule, kRPVerify)
	if fn == nil {
		return
	}
	acc := AcceptTrue(0)
	one := func(name, subj, bound string) {
		mp(P, R, rule, kRPVerify+":"+name, "accept => "+name+" has at most "+bound+" bits", fn, acc, &MustPass{Match: func(a Atom) bool {
			g, ok := parseGuard(a, nil)
			if !ok || g.Kind != "bitlen" || g.Subject != subj {
				return false
			}
			k, ok := g.bitlenUpper()
			return ok && k.String() == parseAffine(bound).String()
		}})
	}
	one("V5Response", rpP+".V5Response", "Lm+"+rpS+".ld+2+Lh+Lstatzk+1")
	one("MResponse", rpP+".MResponse", "Lm+Lh+Lstatzk+1")
	each := func(name, elem, bound string) {
		fa := &ForAll{P: P, Spec: ForAllSpec{Coll: is(rpS + ".cRep"), Body: func(f *ssa.Function, l *Loop) *MustPass {
			return &MustPass{Match: func(a Atom) bool {
				g, ok := parseGuard(a, nil)
				if !ok || g.Kind != "bitlen" || g.Subject != elem {
					return false
				}
				k, ok := g.bitlenUpper()
				return ok && k.String() == parseAffine(bound).String()
			}}
		}}}
		m := fa.inFn(fn, acc)
		R.decide(rule, kRPVerify+":"+name, "accept => every "+name+" has at most "+bound+" bits", m.holds, m.detail, P.Pos(fn.Pos()))
	}
	each("DResponses[i]", rpP+".DResponses[#i]", rpS+".ld+Lh+Lstatzk+1")
	each("VResponses[i]", rpP+".VResponses[#i]", "Lm+Lh+Lstatzk+1")
	each("Cs[i]", rpP+".Cs[#i]", "bitlen("+pkD+".N)")
}

// groupElementMatchers: guards that establish 0 < x (lower) and x < N (upper) for the big.Int described by subj,
// with N the modulus described by modulus.
func groupElementMatchers(P *Program, subj func(string) bool, modulus string) (lower, upper func(a Atom) bool) {
	lower = func(a Atom) bool {
		g, ok := P.guardOf(a)
		if !ok || g.Kind != "big" || !subj(g.Subject) {
			return false
		}
		if t, ok := g.inclusiveLower(); ok && t.equal(tconst(1)) {
			return true
		}
		return g.Rel == ">" && g.Bound.equal(tconst(0))
	}
	upper = func(a Atom) bool {
		g, ok := P.guardOf(a)
		if !ok || g.Kind != "big" || !subj(g.Subject) {
			return false
		}
		if t, ok := g.exclusiveUpper(); ok && t.equal(tsym(modulus)) {
			return true
		}
		return false
	}
	// the comparison may have been oriented with the modulus as subject (N > x): read it the other way round
	upper0 := upper
	upper = func(a Atom) bool {
		if upper0(a) {
			return true
		}
		g, ok := P.guardOf(a)
		if !ok || g.Kind != "big" || g.Subject != modulus {
			return false
		}
		n := g.Bound.opaqueName()
		if n == "" || !subj(n) {
			return false
		}
		return g.Rel == ">" // N > x
	}
	return
}

// invertibleMatcher: a guard that establishes gcd(x, N) == 1 for the big.Int described by subj.
func invertibleMatcher(P *Program, subj func(string) bool, modulus string) func(a Atom) bool {
	return func(a Atom) bool {
		g, ok := P.guardOf(a)
		if !ok || g.Kind != "big" || g.Rel != "==" || !g.Bound.equal(tconst(1)) {
			return false
		}
		c, isCall := g.SubjV.(*ssa.Call)
		if !isCall || bigMethod(c) != "GCD" || len(callArgs(c)) != 5 {
			return false
		}
		x, y := desc(callArgs(c)[3]), desc(callArgs(c)[4])
		return (subj(x) && y == modulus) || (subj(y) && x == modulus)
	}
}

func rangeGroupElementsRule(P *Program, R *Report, rule string) {
	fn := mustFunc(P, R, rule, kRPVerify)
	if fn == nil {
		return
	}
	lower, upper := groupElementMatchers(P, is(rpP+".Cs[#i]"), pkD+".N")
	for _, side := range []struct {
		name, what string
		m          func(a Atom) bool
	}{{"positive", "0 < C_i", lower}, {"below-N", "C_i < N", upper}} {
		side := side
		fa := &ForAll{P: P, Spec: ForAllSpec{Coll: anyOfStr(is(rpS+".cRep"), is(rpP+".Cs")), Body: func(f *ssa.Function, l *Loop) *MustPass {
			return &MustPass{Match: side.m}
		}}}
		m := fa.OnAccept(fn, AcceptTrue(0))
		R.decide(rule, kRPVerify+":Cs:"+side.name, "accept => every commitment of the range proof is a group element: "+side.what, m.Holds, m.Path, P.Pos(fn.Pos()))
	}
}

func relationShapeRule(P *Program, R *Report) {
	rule := "C12.e"
	fn := mustFunc(P, R, rule, kNewParams)
	if fn == nil {
		return
	}
	// stores into zkproof contribution literals
	type contrib struct{ base, secret, power string }
	var lhs, rhs []contrib
	cur := map[ssa.Value]*contrib{}
	order := []ssa.Value{}
	allInstrs(fn, func(i ssa.Instruction) {
		st, ok := i.(*ssa.Store)
		if !ok {
			return
		}
		fa, ok := st.Addr.(*ssa.FieldAddr)
		if !ok {
			return
		}
		tk := faType(fa)
		if tk != "zkproof.LhsContribution" && tk != "zkproof.RhsContribution" {
			return
		}
		c := cur[fa.X]
		if c == nil {
			c = &contrib{}
			cur[fa.X] = c
			order = append(order, fa.X)
		}
		v := desc(st.Val)
		if call, ok := st.Val.(*ssa.Call); ok && calleeIs(call, "fmt.Sprintf") {
			f := desc(callArgs(call)[0])
			if seq, ok := seqOf(callArgs(call)[1]); ok && len(seq) == 1 {
				v = f + "%" + seq[0].D
			}
		}
		switch faName(fa) {
		case "Base":
			c.base = v
		case "Secret":
			c.secret = v
		case "Power":
			c.power = v
		}
	})
	for _, x := range order {
		if typeKey(x.Type()) == "zkproof.LhsContribution" {
			lhs = append(lhs, *cur[x])
		} else {
			rhs = append(rhs, *cur[x])
		}
	}
	str := func(cs []contrib) string {
		var p []string
		for _, c := range cs {
			p = append(p, c.base+"^"+c.secret+"*"+c.power)
		}
		return strings.Join(p, " ; ")
	}
	got := "LHS: " + str(lhs) + " | RHS: " + str(rhs)
	find := func(cs []contrib, base, secret string) *contrib {
		for i := range cs {
			if cs[i].base == base && cs[i].secret == secret {
				return &cs[i]
			}
		}
		return nil
	}
	rIdx := `"R%d"%arg#0`
	ok := true
	// mCorrect lhs: R<index>^(+-k)
	l0 := find(lhs, rIdx, "")
	ok = ok && l0 != nil
	v5 := find(rhs, `"S"`, `"v5"`)
	ok = ok && v5 != nil && v5.power == "-1"
	m := find(rhs, rIdx, `"m"`)
	ok = ok && m != nil && (m.power == "((-arg#2)*arg#1)" || m.power == "(-arg#2*arg#1)")
	ci := find(lhs, `"C%d"%#i`, "")
	ok = ok && ci != nil && ci.power == "call:big.NewInt(1)"
	d1 := find(rhs, rIdx, `"d%d"%#i`)
	ok = ok && d1 != nil && d1.power == "1"
	vi := find(rhs, `"S"`, `"v%d"%#i`)
	ok = ok && vi != nil && vi.power == "1"
	cd := find(rhs, `"C%d"%#i`, `"d%d"%#i`)
	ok = ok && cd != nil && cd.power == "1"
	R.decide(rule, kNewParams+":relations", "R<index>^(-sign*k) * Π C_i^(d_i) = S^(v5) R<index>^(sign*a*m) and C_i = R<index>^(d_i) S^(v_i), with index, a, sign, k from the descriptor", ok, got, P.Pos(fn.Pos()))
	// exponent of the lhs: Neg(k) when sign == 1, k otherwise
	if l0 != nil {
		good := strings.Contains(l0.power, "phi(") || l0.power == "new:big.Int"
		be := P.bigEval(fn)
		var terms []string
		allInstrs(fn, func(i ssa.Instruction) {
			if c, ok := i.(*ssa.Call); ok {
				if m := bigMethod(c); m == "Neg" || m == "Set" {
					if t, ok := be.Ret[c]; ok {
						conds := controllingConds(c.Block())
						side := "?"
						if len(conds) > 0 {
							t, w := condText(conds[0])
							side = fmt.Sprintf("%s is %s", t, w)
						}
						terms = append(terms, m+"->"+t.String()+" when "+side)
					}
				}
			}
		})
		okNeg, okPos := false, false
		// also: one object set to k unconditionally and negated in place exactly when sign == 1
		// (`exp := new(big.Int).Set(k); if sign == 1 { exp.Neg(exp) }`)
		{
			var sets, negs []*ssa.Call
			allInstrs(fn, func(i ssa.Instruction) {
				c, ok := i.(*ssa.Call)
				if !ok {
					return
				}
				t, has := be.Ret[c]
				if !has {
					return
				}
				onSign := Pred(-1)
				for _, a := range controllingConds(c.Block()) {
					if t, w := condText(a); t == "(arg#1==1)" {
						onSign = w
					}
				}
				switch {
				case bigMethod(c) == "Set" && t.String() == "arg#3" && onSign == Pred(-1):
					sets = append(sets, c)
				case bigMethod(c) == "Neg" && t.String() == "-arg#3" && onSign == True:
					negs = append(negs, c)
				}
			})
			for _, sc := range sets {
				for _, nc := range negs {
					if siteOf(callArgs(sc)[0]) == siteOf(callArgs(nc)[0]) && sc.Block().Dominates(nc.Block()) {
						okNeg, okPos = true, true
					}
				}
			}
		}
		for _, t := range terms {
			if t == "Neg->-arg#3 when (arg#1==1) is true" {
				okNeg = true
			}
			if t == "Set->arg#3 when (arg#1==1) is false" {
				okPos = true
			}
		}
		R.decide(rule, kNewParams+":k-sign", "the left-hand exponent is -k for sign 1 and k for sign -1", good && okNeg && okPos, strings.Join(terms, "; "), P.Pos(fn.Pos()))
	}
	// CommitmentsFromProof / CommitmentsFromSecrets emit mCorrect first, then cRep in order
	for _, k := range []string{kRPCFP, kRPCFS} {
		f := relationsHost(P, mustFunc(P, R, rule, k))
		if f == nil {
			continue
		}
		var seq []string
		for _, c := range callsIn(f) {
			n := calleeName(c)
			if strings.HasPrefix(n, "zkproof.(*QrRepresentationProofStructure).CommitmentsFrom") {
				d := desc(callArgs(c)[0])
				seq = append(seq, strings.TrimPrefix(d, rpS+"."))
			}
		}
		R.decide(rule, k+":order", "contributions are mCorrect first, then cRep[0..n) in order", strings.Join(seq, ",") == "mCorrect,cRep[#i]", strings.Join(seq, ","), P.Pos(f.Pos()))
	}
}

func provesStatementRule(P *Program, R *Report) {
	rule := "C12.f"
	fn := mustFunc(P, R, rule, kProves)
	if fn == nil {
		return
	}
	acc := AcceptTrue(0)
	intEq := func(x, y string) func(Atom) bool {
		return func(a Atom) bool {
			g, ok := parseGuard(a, nil)
			return ok && g.Kind == "int" && g.Rel == "==" && ((g.Subject == x && g.BoundA.String() == y) || (g.Subject == y && g.BoundA.String() == x))
		}
	}
	mp(P, R, rule, kProves+":sign-valid", "true => the queried sign is 1 or -1", fn, acc, &MustPass{Match: anyOf(intEq("arg#1", "1"), intEq("arg#1", "-1"))})
	mp(P, R, rule, kProves+":sign-equal", "true => the proof's Sign equals the queried sign", fn, acc, &MustPass{Match: intEq(rpP+".Sign", "arg#1")})
	// factor: p.A == factor' where factor' is arg#2 or 4*arg#2 depending on len(Cs)==3
	mp(P, R, rule, kProves+":factor-equal", "true => the proof's A equals the (rescaled) queried factor", fn, acc, &MustPass{Match: func(a Atom) bool {
		x, y, ok := rawEq(a)
		if !ok {
			return false
		}
		if desc(y) == rpP+".A" {
			x, y = y, x
		}
		if desc(x) != rpP+".A" {
			return false
		}
		lv := phiLeaves(y)
		return len(lv) == 2 && lv["arg#2"] && lv["(arg#2*4)"]
	}})
	// K vs bound'
	mp(P, R, rule, kProves+":bound", "true => K equals the (rescaled) bound, or compares to it in the direction of the sign", fn, acc, &MustPass{Match: func(a Atom) bool {
		bx, by, ok := rawEq(a)
		if !ok {
			return false
		}
		if _, isCall := by.(*ssa.Call); isCall {
			bx, by = by, bx
		}
		c, ok := bx.(*ssa.Call)
		if !ok || bigMethod(c) != "Cmp" {
			return false
		}
		// K.Cmp(bound') or, mirrored, bound'.Cmp(K)
		kArg, bArg, mirrored := callArgs(c)[0], callArgs(c)[1], false
		if desc(kArg) != rpP+".K" {
			kArg, bArg, mirrored = bArg, kArg, true
		}
		if desc(kArg) != rpP+".K" {
			return false
		}
		lv := phiLeavesNN(bArg)
		if !(len(lv) == 2 && lv["arg#3"] && lv["new:big.Int"]) {
			return false
		}
		d := desc(by)
		if d == "0" {
			return true // equality is symmetric
		}
		if mirrored {
			return d == "-arg#1" || d == "(0-arg#1)"
		}
		return d == "arg#1"
	}})
}

// rawEq: the atom states x == y on plain values (`x == y` held, or `x != y` did not).
func rawEq(a Atom) (x, y ssa.Value, ok bool) {
	a = normAtom(a)
	bo, isB := a.V.(*ssa.BinOp)
	if !isB {
		return nil, nil, false
	}
	if (bo.Op == token.EQL && a.Want == True) || (bo.Op == token.NEQ && a.Want == False) {
		return bo.X, bo.Y, true
	}
	return nil, nil, false
}

func rescalingRule(P *Program, R *Report, rule string) {
	// NewProofStructure: factor*4, bound*4-2 under SquareCount()==3
	if fn := mustFunc(P, R, rule, kNewPS); fn != nil {
		okB := false
		got := ""
		deepVisit(P, fn, 2, func(g *ssa.Function) {
			be := P.bigEval(g)
			allInstrs(g, func(i ssa.Instruction) {
				if c, ok := i.(*ssa.Call); ok && bigMethod(c) == "Sub" {
					if t, ok := be.Ret[c]; ok {
						got = t.String()
						okB = t.equal(tsub(tmul(tconst(4), tsym("arg#3")), tconst(2)))
					}
				}
			})
		})
		R.decide(rule, kNewPS+":bound", "three squares: bound' = 4*bound - 2", okB, "got "+got, P.Pos(fn.Pos()))
		okF := false
		for _, c := range callsIn(fn) {
			if isCallTo(c, kNewParams) {
				lv := phiLeaves(callArgs(c)[2])
				okF = len(lv) == 2 && lv["arg#2"] && lv["(arg#2*4)"]
			}
		}
		R.decide(rule, kNewPS+":factor", "three squares: factor' = 4*factor", okF, "", P.Pos(fn.Pos()))
		mp(P, R, rule, kNewPS+":factor-one", "three squares are offered only for factor 1", fn, AcceptNilErr(1), &MustPass{Exempt: func(a Atom) bool {
				g, ok := parseGuard(a, nil)
				return ok && g.Kind == "int" && strings.Contains(g.Subject, "SquareCount") && g.Rel == "!=" && g.BoundA.String() == "3"
			},
			Match: func(a Atom) bool {
				g, ok := parseGuard(a, nil)
				return ok && g.Kind == "int" && g.Subject == "arg#2" && g.Rel == "==" && g.BoundA.String() == "1"
			}})
	}
	if fn := mustFunc(P, R, rule, kProves); fn != nil {
		okB := false
		got := ""
		var mul *ssa.BinOp
		deepVisit(P, fn, 2, func(g *ssa.Function) {
			be := P.bigEval(g)
			allInstrs(g, func(i ssa.Instruction) {
				if c, ok := i.(*ssa.Call); ok && bigMethod(c) == "Sub" {
					if t, ok := be.Ret[c]; ok {
						got = t.String()
						okB = t.equal(tsub(tmul(tconst(4), tsym("arg#3")), tconst(2)))
					}
				}
				if b, ok := i.(*ssa.BinOp); ok && b.Op == token.MUL && desc(b) == "(arg#2*4)" {
					mul = b
				}
			})
		})
		R.decide(rule, kProves+":bound", "three squares: the queried bound is rescaled to 4*bound - 2 (same term as the prover)", okB, "got "+got, P.Pos(fn.Pos()))
		if mul == nil {
			R.bad(rule, kProves+":factor", "three squares: the queried factor is rescaled to 4*factor", "no factor*4", P.Pos(fn.Pos()))
		} else {
			q := (&MustPass{P: P, Match: func(a Atom) bool {
				g, ok := parseGuard(a, nil)
				if !ok || g.Kind != "int" || g.Subject != "arg#2" {
					return false
				}
				// factor <= MaxUint/4, or factor == 1
				if g.Rel == "<=" && g.BoundA.isConst() && (uint64(g.BoundA.C) <= ^uint64(0)/4) {
					return true
				}
				if g.Rel == "<" && g.BoundA.isConst() && (uint64(g.BoundA.C) <= ^uint64(0)/4+1) {
					return true
				}
				return g.Rel == "==" && g.BoundA.isConst()
			}})
			r := mpResult{Path: "the multiplication is not reached from ProvesStatement by static calls"}
			if h := mul.Parent(); h == fn {
				r = q.MustReach(fn, mul)
			} else {
				// in a helper: guarded there, or before every call of the helper in ProvesStatement
				bindPath(fn, h, 1, func() { r = q.MustReach(h, mul) })
				if !r.Holds && len(callsTo(fn, h)) > 0 {
					r.Holds = true
					for _, c := range callsTo(fn, h) {
						if rc := q.MustReach(fn, c); !rc.Holds {
							r = rc
							break
						}
					}
				}
			}
			R.decide(rule, kProves+":no-wrap", "the multiplication factor*4 cannot wrap around (guarded)", r.Holds, r.Path, P.Pos(mul.Pos()))
		}
	}
	if fn := mustFunc(P, R, rule, kProven); fn != nil {
		be := P.bigEval(fn)
		var rets []string
		okB, okF := false, false
		for _, r := range returnsOf(fn) {
			if t, ok := be.Use[r][retValue(r, 2)]; ok {
				rets = append(rets, t.String())
			}
		}
		wantB := termFn("Rsh", tsum(tsym(rpP+".K"), tconst(2)), tconst(2))
		allInstrs(fn, func(i ssa.Instruction) {
			if c, ok := i.(*ssa.Call); ok && bigMethod(c) == "Rsh" {
				if t, ok := be.Ret[c]; ok {
					rets = append(rets, t.String())
					okB = okB || t.equal(wantB)
				}
			}
		})
		// (or computed by an unexported helper that is handed K and A: its results as terms of this function's values)
		for _, t := range be.Inl {
			rets = append(rets, t.String())
			if t.equal(wantB) {
				okB = true
			}
		}
		deepVisit(P, fn, 1, func(g *ssa.Function) {
			allInstrs(g, func(i ssa.Instruction) {
				if b, ok := i.(*ssa.BinOp); ok && b.Op == token.SHR && desc(b.X) == rpP+".A" && desc(b.Y) == "2" {
					okF = true
				}
			})
		})
		R.decide(rule, kProven+":bound", "three squares: the reported bound is (K+2)>>2, the inverse of 4*bound-2", okB, strings.Join(rets, " | "), P.Pos(fn.Pos()))
		R.decide(rule, kProven+":factor", "three squares: the reported factor is A>>2", okF, "", P.Pos(fn.Pos()))
	}
}

// contributionsKeptRule: in the range-proof structure's CommitmentsFromSecrets / CommitmentsFromProof every
// sub-relation's contribution ends up in the returned list: the list each sub-structure call returns (it appends to the
// list it is given) flows into the function's result. (A call whose result is dropped leaves the challenge without the
// commitments that bind the square roots, on both sides alike.)
func contributionsKeptRule(P *Program, R *Report, rule string) {
	for _, k := range []string{kRPCFP, kRPCFS} {
		fn := relationsHost(P, mustFunc(P, R, rule, k))
		if fn == nil {
			continue
		}
		var roots []ssa.Value
		for _, r := range returnsOf(fn) {
			if retCount(r) > 0 && !isNilConst(retValue(r, 0)) {
				roots = append(roots, retValue(r, 0))
			}
		}
		inResult := map[ssa.Value]bool{}
		for _, root := range roots {
			for v := range deps(P, root) {
				inResult[v] = true
			}
		}
		n, dropped := 0, []string{}
		for _, ci := range callsIn(fn) {
			c, isCall := ci.(*ssa.Call)
			if !isCall || !strings.HasPrefix(calleeName(c), "zkproof.(*QrRepresentationProofStructure).CommitmentsFrom") {
				continue
			}
			n++
			if !inResult[c] {
				dropped = append(dropped, desc(callArgs(c)[0])+" at "+P.Pos(c.Pos()))
			}
		}
		R.decide(rule, k+":contributions-kept", "the contribution of every sub-relation (mCorrect, cRep[i]) is part of the returned list", n >= 2 && len(dropped) == 0, fmt.Sprintf("%d calls; result dropped: %s", n, strings.Join(dropped, ", ")), P.Pos(fn.Pos()))
	}
}

// rangeBasesHashedRule: see C12.q.
func rangeBasesHashedRule(P *Program, R *Report, rule string) {
	// what the prover sends as Cs: the field of the commit that BuildProof copies into Proof.Cs
	sent := ""
	if bp := mustFunc(P, R, rule, "rangeproof.(*ProofStructure).BuildProof"); bp != nil {
		allInstrs(bp, func(i ssa.Instruction) {
			if c, ok := i.(*ssa.Call); ok && bigMethod(c) == "Set" {
				if d := desc(callArgs(c)[1]); strings.HasPrefix(d, "<rangeproof.ProofCommit>.") || strings.HasPrefix(d, "<rangeproof.proofCommit>.") {
					for _, r := range referrersOf(c) {
						if st, ok := r.(*ssa.Store); ok && strings.HasPrefix(desc(st.Addr), "new:rangeproof.Proof.Cs[") || ok && strings.Contains(desc(st.Addr), ".Cs[") {
							sent = d[:strings.LastIndex(d, "[")]
						}
					}
				}
			}
		})
		R.decide(rule, FuncKey(bp)+":sends", "BuildProof sends the commit's c as the proof's Cs", sent != "", "field: "+sent, P.Pos(bp.Pos()))
	}
	place := map[string]string{}
	for _, k := range []string{kRPCFP, kRPCFS} {
		fn := relationsHost(P, mustFunc(P, R, rule, k))
		if fn == nil {
			continue
		}
		want := rpP + ".Cs"
		if k == kRPCFS {
			want = sent
		}
		inResult := map[ssa.Value]bool{}
		for _, r := range returnsOf(fn) {
			if retCount(r) > 0 && !isNilConst(retValue(r, 0)) {
				for v := range deps(P, retValue(r, 0)) {
					inResult[v] = true
				}
			}
		}
		var firstRel *ssa.Call
		for _, ci := range callsIn(fn) {
			if c, ok := ci.(*ssa.Call); ok && strings.HasPrefix(calleeName(c), "zkproof.(*QrRepresentationProofStructure).CommitmentsFrom") && firstRel == nil {
				firstRel = c
			}
		}
		found, got := false, []string{}
		for _, ci := range callsIn(fn) {
			c, ok := ci.(*ssa.Call)
			if !ok || !isCallTo(c, "builtin:append") || !inResult[c] || want == "" {
				continue
			}
			tail, okT := seqTail(callArgs(c)[1], 0, map[ssa.Value]bool{})
			if !okT {
				continue
			}
			for _, e := range tail {
				got = append(got, e.Kind+":"+e.D)
				_, isLoad := e.V.(*ssa.UnOp)
				if !isLoad {
					continue
				}
				ed := strings.NewReplacer("new:rangeproof.ProofCommit.", "<rangeproof.ProofCommit>.", "new:rangeproof.proofCommit.", "<rangeproof.ProofCommit>.", "<rangeproof.proofCommit>.", "<rangeproof.ProofCommit>.").Replace(e.D)
				if (e.Kind == "spread" && ed == want) || (e.Kind == "elem" && (ed == want+"[#i]" || ed == want+"[rangeindex]")) {
					found = true
					if firstRel != nil && deps(P, callArgs(firstRel)[2])[c] {
						place[k] = "before the relations"
					} else {
						place[k] = "after the relations"
					}
				}
			}
		}
		R.decide(rule, k+":bases-in-challenge", "the prover-chosen bases ("+want+") are appended, unchanged, to the returned contributions", found, "appended: "+strings.Join(got, ", "), P.Pos(fn.Pos()))
	}
	R.decide(rule, "both-sides:same-place", "prover and verifier put the bases at the same place of the list", place[kRPCFP] != "" && place[kRPCFP] == place[kRPCFS], fmt.Sprintf("verifier: %s; prover: %s", place[kRPCFP], place[kRPCFS]), "")
}

// relationsHost: the function that makes the sub-relations' contribution calls - fn itself, or the new unexported
// helper the assembly of the list was moved into (then the helper's result is what fn hands on).
func relationsHost(P *Program, fn *ssa.Function) *ssa.Function {
	has := func(f *ssa.Function) bool {
		for _, ci := range callsIn(f) {
			if strings.HasPrefix(calleeName(ci), "zkproof.(*QrRepresentationProofStructure).CommitmentsFrom") {
				return true
			}
		}
		return false
	}
	if fn == nil || has(fn) {
		return fn
	}
	for _, ci := range callsIn(fn) {
		if g := staticCallee(ci); g != nil && g.Blocks != nil && inModuleFn(g) && newHelper(g) && has(g) {
			return g
		}
	}
	return fn
}
