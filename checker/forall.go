package main

import (
	"fmt"
	"go/token"
	"strings"

	"golang.org/x/tools/go/ssa"
)

// ForAllSpec: "every element of the collection passes the body obligation".
type ForAllSpec struct {
	Coll func(collDesc string) bool // which collection is iterated
	// Body builds the per-iteration obligation; it receives the loop so that matchers can refer to the
	// iteration's key/element descriptors.
	Body func(fn *ssa.Function, l *Loop) *MustPass
	// Exempt atoms for the "loop is entered on every accepting path" part.
	Exempt func(a Atom) bool
}

type forAllMemo struct {
	holds  bool
	detail string
	found  bool
}

type ForAll struct {
	P    *Program
	Spec ForAllSpec
	memo map[string]forAllMemo
	seen map[string]bool
}

func accOfFn(fn *ssa.Function, want Pred) (Accept, bool) {
	res := fn.Signature.Results()
	for i := 0; i < res.Len(); i++ {
		t := res.At(i).Type()
		if want == True && t.String() == "bool" {
			return AcceptTrue(i), true
		}
		if want == Nil && isErrorType(t) {
			return AcceptNilErr(i), true
		}
	}
	return Accept{}, false
}

// inFn: does fn (with the given accept definition) establish the ForAll by a loop of its own?
func (fa *ForAll) inFn(fn *ssa.Function, acc Accept) forAllMemo {
	if fa.memo == nil {
		fa.memo = map[string]forAllMemo{}
		fa.seen = map[string]bool{}
	}
	key := FuncKey(fn) + "|" + acc.Kind + bindingSig(fn)
	if m, ok := fa.memo[key]; ok {
		return m
	}
	fa.memo[key] = forAllMemo{} // cycle guard
	res := forAllMemo{}
	if fn.Blocks != nil {
		loops := rangeLoopsOver(fn, fa.Spec.Coll)
		var details []string
		for _, l := range loops {
			res.found = true
			fa.seen[FuncKey(fn)] = true
			q := fa.Spec.Body(fn, l)
			q.P = fa.P
			q.Exempt = fa.Spec.Exempt
			r := q.ForAllBody(fn, l, acc, true)
			if r.Holds {
				res.holds = true
				res.detail = fmt.Sprintf("loop at %s in %s checks every element", fa.P.Pos(loopPos(l)), FuncKey(fn))
				break
			}
			details = append(details, r.Path)
		}
		if !res.holds {
			res.detail = strings.Join(details, "\n")
		}
	}
	fa.memo[key] = res
	return res
}

func loopPos(l *Loop) token.Pos {
	for _, i := range l.Header.Instrs {
		if i.Pos().IsValid() {
			return i.Pos()
		}
	}
	for b := range l.Body {
		for _, i := range b.Instrs {
			if i.Pos().IsValid() {
				return i.Pos()
			}
		}
	}
	return 0
}

// OnAccept: every accepting path of fn establishes the ForAll, either by a loop in fn itself or
// by a successful call to a function that does.
func (fa *ForAll) OnAccept(fn *ssa.Function, acc Accept) mpResult {
	if m := fa.inFn(fn, acc); m.holds {
		return mpResult{Holds: true, NAcc: 1, Path: m.detail}
	}
	var loopDetails []string
	q := &MustPass{P: fa.P, Exempt: fa.Spec.Exempt}
	q.Match = func(a Atom) bool {
		// the loop may sit in a search helper that returns the index of the first offender: "nothing found" establishes
		// the fact for every element if every iteration that does not return an index passes the body obligation
		if sc, ok := searchMissed(a); ok {
			if g := staticCallee(sc); g != nil {
				var m forAllMemo
				bindCall(sc, g, func() { m = fa.inFn(g, AcceptNegInt(0)) })
				if m.found && !m.holds {
					loopDetails = append(loopDetails, m.detail)
				}
				return m.holds
			}
		}
		c, _ := callAndResult(a.V)
		if c == nil {
			return false
		}
		cs := fa.P.callees(c)
		if len(cs) == 0 {
			return false
		}
		for _, g := range cs {
			if !inModuleFn(g) || g.Blocks == nil {
				return false
			}
			ga, ok := accOfFn(g, a.Want)
			if _, idx := callAndResult(a.V); a.Want == False && idx > 0 && idx < g.Signature.Results().Len() && isBoolType(g.Signature.Results().At(idx).Type()) {
				ga, ok = AcceptFalse(idx), true // `_, found := firstOffender(xs)`: nothing found
			}
			if !ok {
				return false
			}
			var m forAllMemo
			bindCall(c, g, func() { m = fa.inFn(g, ga) })
			if m.found && !m.holds {
				loopDetails = append(loopDetails, m.detail)
			}
			if !m.holds {
				return false
			}
		}
		return true
	}
	r := q.Check(fn, acc)
	for _, v := range q.Visited() {
		fa.seen[v] = true
	}
	if !r.Holds && len(loopDetails) > 0 {
		r.Path = strings.Join(loopDetails, "\n") + "\n(and no other establishing call on: " + r.Path + ")"
	}
	return r
}

func (fa *ForAll) Seen() []string { return sortedKeys(fa.seen) }
