package main

import (
	"fmt"
	"go/constant"
	"go/token"
	"go/types"
	"math/big"
	"sort"
	"strings"

	"golang.org/x/tools/go/ssa"
)

// ---- affine forms over parameter symbols ------------------------------------

type Affine struct {
	C int64
	S map[string]int64
}

func affConst(c int64) Affine      { return Affine{C: c} }
func affSym(s string) Affine       { return Affine{S: map[string]int64{s: 1}} }
func (a Affine) clone() Affine     { b := Affine{C: a.C, S: map[string]int64{}}; for k, v := range a.S { b.S[k] = v }; return b }
func (a Affine) add(b Affine) Affine {
	r := a.clone()
	r.C += b.C
	for k, v := range b.S {
		r.S[k] += v
		if r.S[k] == 0 {
			delete(r.S, k)
		}
	}
	return r
}
func (a Affine) scale(k int64) Affine {
	r := Affine{C: a.C * k, S: map[string]int64{}}
	if k == 0 {
		return r
	}
	for s, v := range a.S {
		r.S[s] = v * k
	}
	return r
}
func (a Affine) isConst() bool { return len(a.S) == 0 }
func (a Affine) String() string {
	keys := make([]string, 0, len(a.S))
	for k := range a.S {
		keys = append(keys, k)
	}
	sort.Strings(keys)
	var parts []string
	for _, k := range keys {
		v := a.S[k]
		switch {
		case v == 1:
			parts = append(parts, k)
		case v == -1:
			parts = append(parts, "-"+k)
		default:
			parts = append(parts, fmt.Sprintf("%d*%s", v, k))
		}
	}
	if a.C != 0 || len(parts) == 0 {
		parts = append(parts, fmt.Sprintf("%d", a.C))
	}
	return strings.ReplaceAll(strings.Join(parts, "+"), "+-", "-")
}

// ---- terms: polynomials  Σ c · Π sym^k · 2^(affine) ------------------------------
// Symbols are uninterpreted immutable values (descriptors) or uninterpreted function applications
// such as Exp(x,y,m), Mod(x,m), ModInverse(x,m).

type mono struct {
	coef *big.Int
	syms map[string]int
	exp  Affine
}

func (m mono) key() string {
	ks := make([]string, 0, len(m.syms))
	for k, p := range m.syms {
		if p == 1 {
			ks = append(ks, k)
		} else {
			ks = append(ks, fmt.Sprintf("%s^%d", k, p))
		}
	}
	sort.Strings(ks)
	e := ""
	if !(m.exp.isConst() && m.exp.C == 0) {
		e = "2^(" + m.exp.String() + ")"
	}
	if e != "" {
		ks = append(ks, e)
	}
	return strings.Join(ks, "*")
}

type Term struct {
	Top bool
	M   map[string]mono
}

func termTop() Term { return Term{Top: true} }
func newTerm() Term { return Term{M: map[string]mono{}} }
func termOpaque(d string) Term {
	t := newTerm()
	m := mono{coef: big.NewInt(1), syms: map[string]int{d: 1}, exp: affConst(0)}
	t.M[m.key()] = m
	return t
}
func termConst(c int64) Term { return termBig(big.NewInt(c)) }
func termBig(c *big.Int) Term {
	t := newTerm()
	if c.Sign() != 0 {
		m := mono{coef: new(big.Int).Set(c), syms: map[string]int{}, exp: affConst(0)}
		t.M[m.key()] = m
	}
	return t
}
func termPow2(e Affine) Term {
	t := newTerm()
	m := mono{coef: big.NewInt(1), syms: map[string]int{}, exp: e}
	t.M[m.key()] = m
	return t.norm()
}
func (t Term) isPoly() bool { return !t.Top }

// opaqueName returns the symbol if the term is exactly one uninterpreted symbol.
func (t Term) opaqueName() string {
	if t.Top || len(t.M) != 1 {
		return ""
	}
	for _, m := range t.M {
		if m.coef.Cmp(big.NewInt(1)) == 0 && len(m.syms) == 1 && m.exp.isConst() && m.exp.C == 0 {
			for k, p := range m.syms {
				if p == 1 {
					return k
				}
			}
		}
	}
	return ""
}
func (t Term) add(u Term, sign int64) Term {
	if t.Top || u.Top {
		return termTop()
	}
	r := newTerm()
	for k, m := range t.M {
		r.M[k] = mono{coef: new(big.Int).Set(m.coef), syms: m.syms, exp: m.exp}
	}
	for k, m := range u.M {
		cc := new(big.Int).Mul(m.coef, big.NewInt(sign))
		if old, ok := r.M[k]; ok {
			cc.Add(cc, old.coef)
		}
		if cc.Sign() == 0 {
			delete(r.M, k)
		} else {
			r.M[k] = mono{coef: cc, syms: m.syms, exp: m.exp}
		}
	}
	return r.norm()
}
func (t Term) mul(u Term) Term {
	if t.Top || u.Top {
		return termTop()
	}
	r := newTerm()
	for _, m1 := range t.M {
		for _, m2 := range u.M {
			sy := map[string]int{}
			for k, p := range m1.syms {
				sy[k] += p
			}
			for k, p := range m2.syms {
				sy[k] += p
			}
			m := mono{coef: new(big.Int).Mul(m1.coef, m2.coef), syms: sy, exp: m1.exp.add(m2.exp)}
			one := newTerm()
			one.M[m.key()] = m
			r = r.add(one, 1)
		}
	}
	return r
}
func (t Term) lsh(e Affine) Term { return t.mul(termPow2(e)) }

// subst replaces placeholder symbols by terms: a symbol that is a placeholder becomes the term (raised to the
// symbol's power); inside the name of a function application the placeholder is replaced by the term's text.
func (t Term) subst(sub map[string]Term) Term {
	if t.Top || len(sub) == 0 {
		return t
	}
	for _, u := range sub {
		if u.Top {
			return termTop()
		}
	}
	res := termConst(0)
	for _, m := range t.M {
		prod := newTerm()
		base := mono{coef: new(big.Int).Set(m.coef), syms: map[string]int{}, exp: m.exp}
		prod.M[base.key()] = base
		for sname, pw := range m.syms {
			if u, ok := sub[sname]; ok {
				for k := 0; k < pw; k++ {
					prod = prod.mul(u)
				}
				continue
			}
			if app, ok := fnApps[sname]; ok {
				args := make([]Term, len(app.args))
				for i, a := range app.args {
					args[i] = a.subst(sub)
				}
				f := termFn(app.name, args...)
				for k := 0; k < pw; k++ {
					prod = prod.mul(f)
				}
				continue
			}
			name := sname
			for ph, u := range sub {
				if strings.Contains(name, ph) {
					name = strings.ReplaceAll(name, ph, u.String())
				}
			}
			f := termOpaque(name)
			for k := 0; k < pw; k++ {
				prod = prod.mul(f)
			}
		}
		res = res.add(prod, 1)
	}
	return res.norm()
}

// norm folds constant powers of two into coefficients.
func (t Term) norm() Term {
	if t.Top {
		return t
	}
	r := newTerm()
	for _, m := range t.M {
		c, e := m.coef, m.exp
		if e.isConst() && e.C > 0 && e.C <= 16384 {
			c = new(big.Int).Lsh(c, uint(e.C))
			e = affConst(0)
		} else if !e.isConst() && c.Sign() != 0 {
			// symbolic exponent: move the even part of the coefficient into the exponent (canonical form)
			tz := c.TrailingZeroBits()
			if tz > 0 {
				c = new(big.Int).Rsh(c, tz)
				e = e.add(affConst(int64(tz)))
			}
		}
		nm := mono{coef: c, syms: m.syms, exp: e}
		k := nm.key()
		if old, ok := r.M[k]; ok {
			nm.coef = new(big.Int).Add(nm.coef, old.coef)
		}
		if nm.coef.Sign() == 0 {
			delete(r.M, k)
			continue
		}
		r.M[k] = nm
	}
	return r
}
func (t Term) String() string {
	if t.Top {
		return "⊤"
	}
	keys := make([]string, 0, len(t.M))
	for k := range t.M {
		keys = append(keys, k)
	}
	sort.Strings(keys)
	if len(keys) == 0 {
		return "0"
	}
	var parts []string
	for _, k := range keys {
		c := t.M[k].coef
		switch {
		case k == "":
			parts = append(parts, c.String())
		case c.Cmp(big.NewInt(1)) == 0:
			parts = append(parts, k)
		case c.Cmp(big.NewInt(-1)) == 0:
			parts = append(parts, "-"+k)
		default:
			parts = append(parts, c.String()+"*"+k)
		}
	}
	return strings.ReplaceAll(strings.Join(parts, " + "), "+ -", "- ")
}
func (t Term) equal(u Term) bool { return !t.Top && !u.Top && t.norm().String() == u.norm().String() }

// symbols returns the set of uninterpreted symbols occurring in the term.
func (t Term) symbols() map[string]bool {
	out := map[string]bool{}
	for _, m := range t.M {
		for k := range m.syms {
			out[k] = true
		}
	}
	return out
}

// fn builds an uninterpreted function application over argument terms.
func termFn(name string, args ...Term) Term {
	parts := make([]string, len(args))
	for i, a := range args {
		if a.Top {
			return termTop()
		}
		parts[i] = a.String()
	}
	full := name + "(" + strings.Join(parts, ", ") + ")"
	if strings.Contains(full, "@inl") {
		fnApps[full] = fnApp{name, append([]Term(nil), args...)}
	}
	return termOpaque(full)
}

// fnApps remembers, for applications that mention a placeholder, how they were built, so that substitution rebuilds
// them (and renders their arguments in canonical order) instead of editing their text.
type fnApp struct {
	name string
	args []Term
}

var fnApps = map[string]fnApp{}

// ---- parsing oracle terms -----------------------------------------------------

// mkTerm builds a term from a compact spec: list of (coef, exponent) where exponent is written like
// "LmCommit+1" (symbols and integer constants joined by +/-), "" for 2^0.
func pow2(exp string) Term       { return termPow2(parseAffine(exp)) }
func tsum(ts ...Term) Term       { r := termConst(0); for _, t := range ts { r = r.add(t, 1) }; return r }
func tsym(d string) Term         { return termOpaque(d) }
func tmul(a, b Term) Term        { return a.mul(b) }
func tsub(a, b Term) Term        { return a.add(b, -1) }
func tconst(c int64) Term        { return termConst(c) }
func tneg(t Term) Term           { return termConst(0).add(t, -1) }
func parseAffine(s string) Affine {
	a := Affine{S: map[string]int64{}}
	s = strings.ReplaceAll(s, " ", "")
	if s == "" {
		return a
	}
	// split on +/-
	var toks []string
	cur := ""
	for i, r := range s {
		if (r == '+' || r == '-') && i > 0 {
			toks = append(toks, cur)
			cur = ""
		}
		cur += string(r)
	}
	toks = append(toks, cur)
	for _, t := range toks {
		sign := int64(1)
		if strings.HasPrefix(t, "+") {
			t = t[1:]
		} else if strings.HasPrefix(t, "-") {
			sign = -1
			t = t[1:]
		}
		coef := int64(1)
		if i := strings.Index(t, "*"); i > 0 {
			fmt.Sscanf(t[:i], "%d", &coef)
			t = t[i+1:]
		}
		var n int64
		if _, err := fmt.Sscanf(t, "%d", &n); err == nil && strings.Trim(t, "0123456789") == "" {
			a.C += sign * coef * n
		} else {
			a.S[t] += sign * coef
			if a.S[t] == 0 {
				delete(a.S, t)
			}
		}
	}
	return a
}

// ---- evaluation of uint expressions --------------------------------------------

var sysParamFields = map[string]bool{"LePrime": true, "Lh": true, "Lm": true, "Ln": true, "Lstatzk": true, "Le": true, "LeCommit": true,
	"LmCommit": true, "LRA": true, "LsCommit": true, "Lv": true, "LvCommit": true, "LvPrime": true, "LvPrimeCommit": true}

// phiEnv: path-specific resolution of phi nodes (used by path-splitting shape rules).
var phiEnv = map[*ssa.Phi]ssa.Value{}

// affineOf evaluates an integer-typed SSA value to an affine form over symbols.
func affineOf(v ssa.Value) (Affine, bool) { return affineD(v, 0) }

func affineD(v ssa.Value, d int) (Affine, bool) {
	if d > 20 {
		return Affine{}, false
	}
	switch x := v.(type) {
	case *ssa.Const:
		if c, ok := constInt(x); ok {
			return affConst(c), true
		}
	case *ssa.Convert:
		return affineD(x.X, d+1)
	case *ssa.ChangeType:
		return affineD(x.X, d+1)
	case *ssa.BinOp:
		if ph, ok := x.X.(*ssa.Phi); ok && x.Op == token.ADD && ph.Comment == "rangeindex" && isInduction(ph) {
			if c, ok := constInt(x.Y); ok && c == 1 {
				return affSym(inductionName(ph.Block())), true
			}
		}
		a, ok1 := affineD(x.X, d+1)
		b, ok2 := affineD(x.Y, d+1)
		if !ok1 || !ok2 {
			return Affine{}, false
		}
		switch x.Op {
		case token.ADD:
			return a.add(b), true
		case token.SUB:
			return a.add(b.scale(-1)), true
		case token.MUL:
			if a.isConst() {
				return b.scale(a.C), true
			}
			if b.isConst() {
				return a.scale(b.C), true
			}
		case token.QUO:
			if a.isConst() && b.isConst() && b.C != 0 {
				return affConst(a.C / b.C), true
			}
			if b.isConst() && b.C != 0 {
				// symbolic division: keep as a symbol
				return affSym("(" + a.String() + ")/" + fmt.Sprint(b.C)), true
			}
		case token.SHL:
			if a.isConst() && b.isConst() && b.C < 62 {
				return affConst(a.C << uint(b.C)), true
			}
		}
	case *ssa.UnOp:
		if x.Op == token.MUL { // load
			switch c := x.X.(type) {
			case *ssa.Alloc:
				if isIntegerType(x.Type()) {
					if v, ok := cellValueAt(c, x); ok {
						return affineD(v, d+1)
					}
				}
			case *ssa.FreeVar:
				if isIntegerType(x.Type()) {
					if v, ok := capturedValue(c); ok {
						return affineD(v, d+1)
					}
				}
			}
			return affSymOfPath(x.X), true
		}
		if x.Op == token.SUB {
			a, ok := affineD(x.X, d+1)
			if ok {
				return a.scale(-1), true
			}
		}
	case *ssa.Field:
		return affSymOfPath(x), true
	case *ssa.Call:
		if m := bigMethod(x); m == "BitLen" {
			return affSym("bitlen(" + desc(callArgs(x)[0]) + ")"), true
		}
		if isCallTo(x, "builtin:len") {
			if ms, ok := callArgs(x)[0].(*ssa.MakeSlice); ok {
				return affineD(ms.Len, d+1)
			}
			return affSym("len(" + desc(callArgs(x)[0]) + ")"), true
		}
		return affSym(desc(x)), true
	case *ssa.Parameter:
		if a, ok := paramBindA[x]; ok {
			return a.clone(), true
		}
		return affSym(desc(x)), true
	case *ssa.Phi:
		if e, ok := phiEnv[x]; ok {
			return affineD(e, d+1)
		}
		if e, ok := livePhiEdge(x); ok {
			return affineD(e, d+1)
		}
		if isInduction(x) {
			return affSym(inductionName(x.Block())), true
		}
		if _, ok := countedFrom(x); ok {
			return affSym(desc(x)), true
		}
	case *ssa.Extract, *ssa.Lookup, *ssa.Index:
		return affSym(desc(v)), true
	}
	return Affine{}, false
}

// affSymOfPath names a loaded integer field: system parameters by bare name (with @keylen when loaded
// from the DefaultSystemParameters table), other fields by their descriptor.
func affSymOfPath(addr ssa.Value) Affine {
	d := desc(addr)
	last := d
	if i := strings.LastIndex(d, "."); i >= 0 {
		last = d[i+1:]
	}
	if sysParamFields[last] {
		if i := strings.Index(d, "global:gabikeys.DefaultSystemParameters["); i >= 0 {
			rest := d[i+len("global:gabikeys.DefaultSystemParameters["):]
			if j := strings.Index(rest, "]"); j > 0 {
				return affSym(last + "@" + rest[:j])
			}
		}
		if strings.Contains(d, "<gabikeys.BaseParameters>") || strings.HasPrefix(d, "arg#") {
			return affSym("base." + last)
		}
		return affSym(last)
	}
	return affSym(d)
}

// ---- abstract interpretation of big.Int values ---------------------------------

// BigEval holds, for one function, the terms of big.Int operands at every call site.
type BigEval struct {
	P    *Program
	Fn   *ssa.Function
	At   map[*ssa.Call][]Term // terms of the call's arguments (receiver first) just before the call
	Ret  map[*ssa.Call]Term   // term of the receiver just after a mutator call
	Glob map[string]Term      // terms stored into package-level big.Int fields (by address descriptor)
	Use  map[ssa.Instruction]map[ssa.Value]Term // terms of *big.Int operands at stores, map updates, returns
	Inl  map[ssa.Value]Term                     // terms of the results of unexported helpers that were evaluated in place of the call
}

// store-to-load forwarding is kept inside the flow-sensitive state: a placeholder key per address
// descriptor maps to an opaque term naming the tracked object that was stored there.
var (
	fwdKeys  = map[string]*ssa.Const{}
	siteIDs  = map[ssa.Value]int{}
	siteByID = []ssa.Value{}
)

func fwdKey(d string) *ssa.Const {
	if k, ok := fwdKeys[d]; ok {
		return k
	}
	k := ssa.NewConst(constant.MakeString("fwd:"+d), types.Typ[types.String])
	fwdKeys[d] = k
	return k
}

func siteTerm(v ssa.Value) Term {
	id, ok := siteIDs[v]
	if !ok {
		id = len(siteByID)
		siteIDs[v] = id
		siteByID = append(siteByID, v)
	}
	return termOpaque(fmt.Sprintf("@site:%d", id))
}

// site resolves a value to its abstract object, forwarding loads of fields that were assigned a tracked object.
func (be *BigEval) site(st btState, v ssa.Value) ssa.Value {
	s := siteOf(v)
	if u, ok := s.(*ssa.UnOp); ok && u.Op == token.MUL {
		if _, isFA := u.X.(*ssa.FieldAddr); isFA {
			if t, ok := st[fwdKey(desc(u.X))]; ok {
				if n := t.opaqueName(); strings.HasPrefix(n, "@site:") {
					var id int
					fmt.Sscanf(n, "@site:%d", &id)
					if id < len(siteByID) {
						return siteByID[id]
					}
				}
			}
		}
	}
	return s
}

type btState map[ssa.Value]Term

func (s btState) clone() btState {
	r := btState{}
	for k, v := range s {
		r[k] = v
	}
	return r
}

// siteOf maps a *big.Int-typed value to its abstract object.
func siteOf(v ssa.Value) ssa.Value { return siteOfSeen(v, map[ssa.Value]bool{}) }

func siteOfSeen(v ssa.Value, seen map[ssa.Value]bool) ssa.Value {
	for i := 0; i < 50; i++ {
		switch x := v.(type) {
		case *ssa.Call:
			if m := bigMethod(x); m != "" && bigMutators[m] && len(callArgs(x)) > 0 {
				v = callArgs(x)[0]
				continue
			}
			return x
		case *ssa.ChangeType:
			v = x.X
			continue
		case *ssa.Phi:
			if seen[x] {
				return x // a cycle of phis (loop-carried object): the phi itself stands for the object
			}
			seen[x] = true
			var s ssa.Value
			for _, e := range x.Edges {
				se := siteOfSeen(e, seen)
				if se == ssa.Value(x) {
					continue // the loop-carried edge
				}
				if s == nil {
					s = se
				} else if s != se {
					return x
				}
			}
			if s != nil {
				return s
			}
			return x
		}
		return v
	}
	return v
}

func NewBigEval(P *Program, fn *ssa.Function) *BigEval {
	be := &BigEval{P: P, Fn: fn, At: map[*ssa.Call][]Term{}, Ret: map[*ssa.Call]Term{}, Glob: map[string]Term{}, Use: map[ssa.Instruction]map[ssa.Value]Term{}}
	if fn == nil || fn.Blocks == nil {
		return be
	}
	in := map[*ssa.BasicBlock]btState{}
	out := map[*ssa.BasicBlock]btState{}
	order := rpo(fn)
	for iter := 0; iter < 12; iter++ {
		changed := false
		for _, b := range order {
			var st btState
			first := true
			for _, p := range b.Preds {
				po, ok := out[p]
				if !ok {
					continue
				}
				if first {
					st = po.clone()
					first = false
					continue
				}
				for k, v := range st {
					if w, ok := po[k]; ok {
						if v.String() != w.String() {
							st[k] = termTop()
						}
					}
				}
				for k, w := range po {
					if _, ok := st[k]; !ok {
						st[k] = w
					}
				}
			}
			if st == nil {
				st = btState{}
			}
			in[b] = st
			cur := st.clone()
			for _, ins := range b.Instrs {
				be.step(cur, ins)
			}
			if old, ok := out[b]; !ok || !sameState(old, cur) {
				changed = true
				out[b] = cur
			}
		}
		if !changed {
			break
		}
		if iter == 10 {
			// not converged: anything still changing becomes Top on the next join (terms differ)
		}
	}
	return be
}

func sameState(a, b btState) bool {
	if len(a) != len(b) {
		return false
	}
	for k, v := range a {
		w, ok := b[k]
		if !ok || v.String() != w.String() {
			return false
		}
	}
	return true
}

func rpo(fn *ssa.Function) []*ssa.BasicBlock {
	seen := map[*ssa.BasicBlock]bool{}
	var post []*ssa.BasicBlock
	var dfs func(b *ssa.BasicBlock)
	dfs = func(b *ssa.BasicBlock) {
		seen[b] = true
		for _, s := range b.Succs {
			if !seen[s] {
				dfs(s)
			}
		}
		post = append(post, b)
	}
	dfs(fn.Blocks[0])
	for i, j := 0, len(post)-1; i < j; i, j = i+1, j-1 {
		post[i], post[j] = post[j], post[i]
	}
	return post
}

// termOf returns the current term of a *big.Int value.
func (be *BigEval) termOf(st btState, v ssa.Value) Term {
	s := be.site(st, v)
	if t, ok := st[s]; ok {
		return t
	}
	if ex, ok := s.(*ssa.Extract); ok && ex.Index == 0 {
		if t, ok := st[ex.Tuple]; ok {
			return t
		}
	}
	if u, ok := s.(*ssa.UnOp); ok && u.Op == token.MUL {
		d := desc(u.X)
		if t, ok := be.Glob[d]; ok {
			return t // stored earlier in this function (package initialisers)
		}
		if g, ok := u.X.(*ssa.Global); ok {
			if c, ok := be.P.globalBigConst(g); ok {
				return termConst(c)
			}
		}
	}
	switch x := s.(type) {
	case *ssa.Alloc:
		return termConst(0)
	case *ssa.Const:
		if x.Value == nil {
			return termOpaque("nil")
		}
	case *ssa.Phi:
		// a phi over immutable values is itself an immutable (opaque) value
		for _, e := range x.Edges {
			if _, tracked := st[siteOf(e)]; tracked {
				return termTop()
			}
			if _, isAlloc := siteOf(e).(*ssa.Alloc); isAlloc {
				return termTop()
			}
		}
		return termOpaque(desc(x))
	case *ssa.Call:
		if isCallTo(x, "big.NewInt", "math/big.NewInt") {
			if c, ok := constInt(callArgs(x)[0]); ok {
				return termConst(c)
			}
			if a, ok := affineOf(callArgs(x)[0]); ok && a.isConst() {
				return termConst(a.C)
			}
			return termOpaque(desc(x))
		}
	}
	return termOpaque(desc(s))
}

func (be *BigEval) step(st btState, ins ssa.Instruction) {
	switch ins.(type) {
	case *ssa.Store, *ssa.MapUpdate, *ssa.Return:
		m := map[ssa.Value]Term{}
		for _, op := range ins.Operands(nil) {
			if *op != nil && isBigIntPtr((*op).Type()) {
				m[*op] = be.termOf(st, *op)
			}
		}
		if len(m) > 0 {
			be.Use[ins] = m
		}
	}
	switch x := ins.(type) {
	case *ssa.Call:
		switch calleeName(x) {
		case "common.ModPow":
			st[x] = termFn("Exp", be.termOf(st, callArgs(x)[0]), be.termOf(st, callArgs(x)[1]), be.termOf(st, callArgs(x)[2]))
		case "common.ModInverse":
			st[x] = termFn("ModInverse", be.termOf(st, callArgs(x)[0]), be.termOf(st, callArgs(x)[1]))
		}
		be.inlineHelper(st, x)
		m := bigMethod(x)
		args := callArgs(x)
		if m != "" || isBigIntPtrArgs(args) {
			ts := make([]Term, len(args))
			for i, a := range args {
				if isBigIntPtr(a.Type()) {
					ts[i] = be.termOf(st, a)
				} else if af, ok := affineOf(a); ok {
					if af.isConst() {
						ts[i] = termConst(af.C)
					} else {
						ts[i] = termOpaque("uint:" + af.String())
					}
				} else {
					ts[i] = termTop()
				}
			}
			be.At[x] = ts
		}
		if isCallTo(x, "big.NewInt") {
			if a, ok := affineOf(args[0]); ok && a.isConst() {
				st[x] = termConst(a.C)
			} else {
				st[x] = termOpaque(desc(x))
			}
			return
		}
		if m == "" || !bigMutators[m] || len(args) == 0 {
			// a module function receiving a *big.Int it may mutate: havoc allocs passed as out-params
			if m == "" {
				for _, a := range args {
					if isBigIntPtr(a.Type()) {
						if _, ok := siteOf(a).(*ssa.Alloc); ok && !pureBigCallee(x) && be.P.mayMutateArg(x, a) {
							st[siteOf(a)] = termTop()
						}
					}
				}
			}
			return
		}
		recv := be.site(st, args[0])
		get := func(i int) Term { return be.termOf(st, args[i]) }
		var res Term
		switch m {
		case "Set":
			res = get(1)
		case "SetInt64", "SetUint64":
			if a, ok := affineOf(args[1]); ok && a.isConst() {
				res = termConst(a.C)
			} else {
				res = termTop()
			}
		case "Add":
			res = get(1).add(get(2), 1)
		case "Sub":
			res = get(1).add(get(2), -1)
		case "Neg":
			res = termConst(0).add(get(1), -1)
		case "Mul":
			res = get(1).mul(get(2))
		case "Lsh":
			if a, ok := affineOf(args[2]); ok {
				res = get(1).lsh(a)
			} else {
				res = termTop()
			}
		case "Exp":
			if len(args) >= 4 {
				if isNilConst(args[3]) {
					res = termFn("Pow", get(1), get(2))
				} else {
					res = termFn("Exp", get(1), get(2), get(3))
				}
			} else {
				res = termTop()
			}
		case "Mod":
			res = termFn("Mod", get(1), get(2))
		case "ModInverse":
			res = termFn("ModInverse", get(1), get(2))
		case "Div":
			res = termFn("Div", get(1), get(2))
		case "Rsh":
			if a, ok := affineOf(args[2]); ok {
				res = termFn("Rsh", get(1), termOpaque("uint:"+a.String()))
				if a.isConst() {
					res = termFn("Rsh", get(1), termConst(a.C))
				}
			} else {
				res = termTop()
			}
		case "SetBytes":
			res = termOpaque("SetBytes(" + desc(args[1]) + ")")
		case "GCD":
			// z.GCD(x, y, a, b): z = gcd(a,b); x, y receive the Bezout coefficients
			ta, tb := get(3), get(4)
			res = termFn("GCD", ta, tb)
			if !isNilConst(args[1]) {
				st[siteOf(args[1])] = termFn("BezoutX", ta, tb)
			}
			if !isNilConst(args[2]) {
				st[siteOf(args[2])] = termFn("BezoutY", ta, tb)
			}
		default:
			res = termTop()
		}
		st[recv] = res
		be.Ret[x] = res
	case *ssa.Store:
		// stores of *big.Int into package-level struct fields (init functions)
		if isBigIntPtr(x.Val.Type()) {
			d := desc(x.Addr)
			if _, isFA := x.Addr.(*ssa.FieldAddr); isFA {
				switch be.site(st, x.Val).(type) {
				case *ssa.Alloc, *ssa.Call:
					st[fwdKey(d)] = siteTerm(be.site(st, x.Val))
				default:
					delete(st, fwdKey(d))
				}
			}
			if strings.HasPrefix(d, "global:") {
				be.Glob[d] = be.termOf(st, x.Val)
			}
		}
	}
}

// inlineHelper: a call of an unexported helper of the same package that returns a *big.Int is given the term
// the helper computes (parameters bound to the arguments), when all its non-nil returns agree on it.
var inlineInProgress = map[*ssa.Function]bool{}

func (be *BigEval) inlineHelper(st btState, x *ssa.Call) {
	g := x.Call.StaticCallee()
	if g == nil || g.Blocks == nil || g.Pkg == nil || be.Fn.Pkg != g.Pkg || g == be.Fn || inlineInProgress[g] {
		return
	}
	if g.Object() == nil || g.Object().Exported() || isBigWrapperFn(g) || len(inlineInProgress) > 2 {
		return
	}
	res := g.Signature.Results()
	var idx []int
	for k := 0; k < res.Len(); k++ {
		if isBigIntPtr(res.At(k).Type()) {
			idx = append(idx, k)
		}
	}
	if len(idx) == 0 {
		return
	}
	inlineInProgress[g] = true
	defer delete(inlineInProgress, g)
	var sub *BigEval
	oldS := bindStructParams
	bindStructParams = true
	// the helper's integer parameters are placeholders while it is evaluated; afterwards they are replaced by the
	// terms the arguments have at this call (their descriptors alone would lose what the caller computed into them)
	place := map[string]Term{}
	bindCall(x, g, func() {
		args := callArgsRaw(x)
		for k, p := range g.Params {
			if k < len(args) && isBigIntPtr(p.Type()) {
				ph := fmt.Sprintf("@inl%d@", k)
				paramBind[p] = ph
				place[ph] = be.termOf(st, args[k])
			}
		}
		sub = be.P.bigEval(g)
	})
	bindStructParams = oldS
	for _, k := range idx {
		var t Term
		n := 0
		agree := true
		for _, b := range g.Blocks {
			ret, ok := b.Instrs[len(b.Instrs)-1].(*ssa.Return)
			if !ok || isNilConst(retValue(ret, k)) {
				continue
			}
			rt, ok := sub.Use[ret][retValue(ret, k)]
			if ok {
				rt = rt.subst(place)
			}
			if n := rt.opaqueName(); !ok || rt.Top || (n != "" && !(n[0] >= 'A' && n[0] <= 'Z' && strings.Contains(n, "("))) {
				// (a helper that merely hands on a value it obtained keeps its call descriptor)
				agree = false
				break
			}
			if n > 0 && !rt.equal(t) {
				agree = false
				break
			}
			t = rt
			n++
		}
		if !agree || n == 0 {
			continue
		}
		if be.Inl == nil {
			be.Inl = map[ssa.Value]Term{}
		}
		if res.Len() == 1 {
			st[x] = t
			be.Inl[x] = t
			continue
		}
		for _, r := range referrersOf(x) {
			if ex, ok := r.(*ssa.Extract); ok && ex.Index == k {
				st[ex] = t
				be.Inl[ex] = t
			}
		}
	}
}

func isBigIntPtrArgs(args []ssa.Value) bool {
	for _, a := range args {
		if isBigIntPtr(a.Type()) {
			return true
		}
	}
	return false
}

// pureBigCallee: callees known not to mutate their *big.Int arguments.
func pureBigCallee(c *ssa.Call) bool {
	n := calleeName(c)
	switch n {
	case "common.ModPow", "common.ModInverse", "common.HashCommit", "common.RandomBigInt", "common.FastRandomBigInt", "common.LegendreSymbol", "common.IntHashSha256":
		return true
	}
	return false
}

// ---- guards ----------------------------------------------------------------------

// Guard is a normalized comparison that HOLDS on the explored path.
type Guard struct {
	Kind    string // "big" (x REL term), "bitlen" (BitLen(x) REL affine), "sign" (x REL 0), "int" (affine REL affine)
	Subject string // descriptor of x
	SubjV   ssa.Value
	Rel     string // "<", "<=", "==", "!=", ">=", ">"
	Bound   Term   // for big/sign
	BoundA  Affine // for bitlen/int
	Call    *ssa.Call
}

func (g Guard) String() string {
	switch g.Kind {
	case "bitlen":
		return fmt.Sprintf("BitLen(%s) %s %s", g.Subject, g.Rel, g.BoundA)
	case "int":
		return fmt.Sprintf("%s %s %s", g.Subject, g.Rel, g.BoundA)
	}
	return fmt.Sprintf("%s %s %s", g.Subject, g.Rel, g.Bound)
}

var bigOneM = big.NewInt(1)

var relNeg = map[string]string{"<": ">=", "<=": ">", "==": "!=", "!=": "==", ">=": "<", ">": "<="}
var relFlip = map[string]string{"<": ">", "<=": ">=", "==": "==", "!=": "!=", ">=": "<=", ">": "<"}

func tokRel(op token.Token) string {
	switch op {
	case token.LSS:
		return "<"
	case token.LEQ:
		return "<="
	case token.EQL:
		return "=="
	case token.NEQ:
		return "!="
	case token.GEQ:
		return ">="
	case token.GTR:
		return ">"
	}
	return ""
}

// cmpOutcomeRel: given "Cmp(x,y) REL k" returns the relation between x and y ("" if not expressible,
// "true"/"false" if constant).
func cmpOutcomeRel(rel string, k int64) string {
	set := ""
	for _, c := range []int64{-1, 0, 1} {
		ok := false
		switch rel {
		case "<":
			ok = c < k
		case "<=":
			ok = c <= k
		case "==":
			ok = c == k
		case "!=":
			ok = c != k
		case ">=":
			ok = c >= k
		case ">":
			ok = c > k
		}
		if ok {
			set += map[int64]string{-1: "L", 0: "E", 1: "G"}[c]
		}
	}
	return map[string]string{"L": "<", "LE": "<=", "E": "==", "LG": "!=", "EG": ">=", "G": ">", "": "false", "LEG": "true"}[set]
}

// parseGuard interprets an atom as a normalized guard, using be for big.Int terms (be may be nil).
// unwrapBig: x.Go() and big.Convert(x) are the same integer under its other type (gabi/big.Int wraps math/big.Int):
// an observer (Sign, BitLen) applied to the conversion observes x.
func unwrapBig(v ssa.Value) ssa.Value {
	for k := 0; k < 4; k++ {
		switch x := v.(type) {
		case *ssa.ChangeType:
			v = x.X
			continue
		case *ssa.Call:
			if (isCallTo(x, "big.(*Int).Go") || isCallTo(x, "big.Convert")) && len(callArgs(x)) == 1 {
				v = callArgs(x)[0]
				continue
			}
		}
		break
	}
	return v
}

func parseGuard(a Atom, be *BigEval) (Guard, bool) {
	bo, ok := a.V.(*ssa.BinOp)
	if !ok {
		return Guard{}, false
	}
	if be != nil && bo.Parent() != nil && bo.Parent() != be.Fn {
		be = be.forFn(bo.Parent()) // the atom lies in a helper of the function the matcher was written for
	}
	rel := tokRel(bo.Op)
	if rel == "" || (a.Want != True && a.Want != False) {
		return Guard{}, false
	}
	if a.Want == False {
		rel = relNeg[rel]
	}
	L, R := stripConv(bo.X), stripConv(bo.Y)
	// constant on the left: flip
	if _, ok := L.(*ssa.Const); ok {
		L, R = R, L
		rel = relFlip[rel]
	}
	if c, ok := L.(*ssa.Call); ok {
		switch bigMethod(c) {
		case "Cmp", "CmpAbs":
			k, ok := constInt(R)
			if !ok {
				return Guard{}, false
			}
			r := cmpOutcomeRel(rel, k)
			if r == "" || r == "true" || r == "false" {
				return Guard{}, false
			}
			g := Guard{Kind: "big", Subject: desc(callArgs(c)[0]), SubjV: callArgs(c)[0], Rel: r, Call: c, Bound: termTop()}
			// mirrored form `bound.Cmp(x) > 0`: the subject is the operand that is less bound-like
			// (an operand that an unexported helper computed and returned is ranked as what the helper returns: a fresh value)
			if guardRank(descNN(callArgs(c)[1])) > guardRank(descNN(callArgs(c)[0])) {
				g.Subject, g.SubjV, g.Rel = desc(callArgs(c)[1]), callArgs(c)[1], relFlip[r]
				if be != nil {
					if ts, ok := be.At[c]; ok && len(ts) >= 2 {
						g.Bound = ts[0]
					}
				} else {
					g.Bound = termOpaque(desc(callArgs(c)[0]))
				}
				return g, true
			}
			if be != nil {
				if ts, ok := be.At[c]; ok && len(ts) >= 2 {
					g.Bound = ts[1]
					// if the subject side is the computed one (e.g. bound.Cmp(x)), swap
					if isPlainSym(ts[1]) && !ts[0].Top && !isPlainSym(ts[0]) {
						g.Subject, g.SubjV = desc(callArgs(c)[1]), callArgs(c)[1]
						g.Rel = relFlip[r]
						g.Bound = ts[0]
					}
				}
			} else {
				g.Bound = termOpaque(desc(callArgs(c)[1]))
			}
			return g, true
		case "Sign":
			k, ok := constInt(R)
			if !ok {
				return Guard{}, false
			}
			r := cmpOutcomeRel(rel, k)
			if r == "" || r == "true" || r == "false" {
				return Guard{}, false
			}
			sv := unwrapBig(callArgs(c)[0])
			return Guard{Kind: "big", Subject: desc(sv), SubjV: sv, Rel: r, Bound: termConst(0), Call: c}, true
		case "BitLen":
			af, ok := affineOf(R)
			if !ok {
				return Guard{}, false
			}
			sv := unwrapBig(callArgs(c)[0])
			return Guard{Kind: "bitlen", Subject: desc(sv), SubjV: sv, Rel: rel, BoundA: af, Call: c}, true
		}
	}
	if c, ok := R.(*ssa.Call); ok && bigMethod(c) == "BitLen" {
		af, ok := affineOf(L)
		if !ok {
			return Guard{}, false
		}
		return Guard{Kind: "bitlen", Subject: desc(callArgs(c)[0]), SubjV: callArgs(c)[0], Rel: relFlip[rel], BoundA: af, Call: c}, true
	}
	// plain integer comparison
	if isIntegerType(L.Type()) {
		la, ok1 := affineOf(L)
		ra, ok2 := affineOf(R)
		if ok1 && ok2 {
			rl, rr := guardRank(la.String()), guardRank(ra.String())
			// the less bound-like operand is the subject; between two equally subject-like operands the
			// lexicographically smaller one, so that `a < b` and `b > a` are the same guard
			if rr > rl || (rr == rl && rr == 2 && !ra.isConst() && !la.isConst() && ra.String() < la.String()) {
				return Guard{Kind: "int", Subject: ra.String(), SubjV: R, Rel: relFlip[rel], BoundA: la}, true
			}
			return Guard{Kind: "int", Subject: la.String(), SubjV: L, Rel: rel, BoundA: ra}, true
		}
	}
	return Guard{}, false
}

// guardRank orders the two operands of a comparison: the subject of a guard is the operand that is less
// "bound-like". 0: constants and freshly computed values; 1: quantities of trusted objects (keys, structure
// descriptions, system parameters); 2: everything else (fields of messages and proofs, arguments, loop keys).
// relFor orients a comparison of two big.Ints with the operand that denotes the same object as v as subject:
// returns the relation and the term of the other operand (x.Cmp(one) >= 0 and one.Cmp(x) <= 0 are the same guard).
func (g Guard) relFor(v ssa.Value, be *BigEval) (string, Term, bool) {
	if g.Kind != "big" || v == nil {
		return "", Term{}, false
	}
	if g.SubjV != nil && siteOf(g.SubjV) == siteOf(v) {
		return g.Rel, g.Bound, true
	}
	if g.Call == nil || len(callArgs(g.Call)) != 2 || be == nil {
		return "", Term{}, false
	}
	ts := be.at(g.Call)
	if len(ts) != 2 {
		return "", Term{}, false
	}
	for k, op := range callArgs(g.Call) {
		if siteOf(op) == siteOf(v) && op != g.SubjV {
			return relFlip[g.Rel], ts[1-k], true
		}
	}
	return "", Term{}, false
}

// intRel orients an integer comparison as `x REL y` for the two given affine strings, whichever is the subject.
func (g Guard) intRel(x, y string) (string, bool) {
	if g.Kind != "int" {
		return "", false
	}
	x, y = parseAffine(x).String(), parseAffine(y).String()
	if parseAffine(g.Subject).String() == x && g.BoundA.String() == y {
		return g.Rel, true
	}
	if parseAffine(g.Subject).String() == y && g.BoundA.String() == x {
		return relFlip[g.Rel], true
	}
	return "", false
}

// relBetween orients a comparison of two big.Ints as `subj REL bound`, whichever operand the code put first
// (x.Cmp(p) < 0 and p.Cmp(x) > 0 are the same guard).
func (g Guard) relBetween(subj string, bound Term) (string, bool) {
	if g.Kind != "big" {
		return "", false
	}
	if g.Subject == subj && g.Bound.equal(bound) {
		return g.Rel, true
	}
	n := bound.opaqueName()
	if n != "" && g.Subject == n && g.Bound.equal(tsym(subj)) {
		return relFlip[g.Rel], true
	}
	// the object named subj may have been computed since (ret.Set(..); p.Cmp(ret)): go by the operands' names
	if g.Call != nil && len(callArgs(g.Call)) == 2 && n != "" && g.Subject == n {
		other := callArgs(g.Call)[1]
		if g.SubjV == other {
			other = callArgs(g.Call)[0]
		}
		if desc(other) == subj {
			return relFlip[g.Rel], true
		}
	}
	return "", false
}

// isPlainSym: the term is one uninterpreted value (a descriptor), not a computed expression or a function application.
func isPlainSym(t Term) bool {
	n := t.opaqueName()
	if n == "" {
		return false
	}
	if n[0] >= 'A' && n[0] <= 'Z' {
		if i := strings.IndexByte(n, '('); i > 0 && !strings.ContainsAny(n[:i], ".:<[# ") {
			return false // Exp(...), Mod(...), Rsh(...), GCD(...)
		}
	}
	return true
}

func guardRank(d string) int {
	switch {
	case d == "":
		return 0
	case d[0] >= '0' && d[0] <= '9', d[0] == '-', strings.HasPrefix(d, "new:"), strings.HasPrefix(d, "global:"),
		strings.HasPrefix(d, "call:big.NewInt"), strings.HasPrefix(d, "call:math/big.NewInt"), strings.HasPrefix(d, "2^"):
		return 0
	case strings.HasPrefix(d, "<gabikeys."), strings.HasPrefix(d, "len(<gabikeys."), strings.Contains(d, "Structure>"), strings.HasPrefix(d, "L") && len(d) > 1 && d[1] >= 'a' && d[1] <= 'z' && !strings.ContainsAny(d, "(<["):
		return 1
	}
	return 2
}

func isIntegerType(t types.Type) bool {
	b, ok := t.Underlying().(*types.Basic)
	return ok && b.Info()&types.IsInteger != 0
}

// impliesUpper reports whether guard g (which holds on the path) implies x < bound (exclusive upper
// bound `lt`), by exact term comparison after normalising <= to <.
func (g Guard) exclusiveUpper() (Term, bool) {
	switch g.Rel {
	case "<":
		return g.Bound, true
	case "<=":
		return g.Bound.add(termConst(1), 1), true
	}
	return Term{}, false
}

// inclusiveLower: x >= T
func (g Guard) inclusiveLower() (Term, bool) {
	switch g.Rel {
	case ">=":
		return g.Bound, true
	case ">":
		return g.Bound.add(termConst(1), 1), true
	}
	return Term{}, false
}

// bitlenUpper: BitLen(x) <= K  (inclusive), from "<= K" or "< K+1"
func (g Guard) bitlenUpper() (Affine, bool) {
	if g.Kind != "bitlen" {
		return Affine{}, false
	}
	switch g.Rel {
	case "<=":
		return g.BoundA, true
	case "<":
		return g.BoundA.add(affConst(-1)), true
	}
	return Affine{}, false
}

// globalBigConst: package-level *big.Int variables that are assigned exactly once, in a package
// initialiser, from big.NewInt(constant), and never used as receiver of a mutating method.
func (P *Program) globalBigConst(g *ssa.Global) (int64, bool) {
	if P.bigConsts == nil {
		P.bigConsts = map[*ssa.Global]*int64{}
		stores := map[*ssa.Global]int{}
		vals := map[*ssa.Global]int64{}
		mutated := map[*ssa.Global]bool{}
		for _, fn := range P.AllFuncs {
			allInstrs(fn, func(i ssa.Instruction) {
				switch x := i.(type) {
				case *ssa.Store:
					if gg, ok := x.Addr.(*ssa.Global); ok && isBigIntPtr(x.Val.Type()) {
						stores[gg]++
						if c, ok := x.Val.(*ssa.Call); ok && isCallTo(c, "big.NewInt", "math/big.NewInt") && strings.HasPrefix(fn.Name(), "init") {
							if k, ok := constInt(callArgs(c)[0]); ok {
								vals[gg] = k
								return
							}
						}
						mutated[gg] = true
					}
				case *ssa.Call:
					if m := bigMethod(x); m != "" && bigMutators[m] && len(callArgs(x)) > 0 {
						if u, ok := callArgs(x)[0].(*ssa.UnOp); ok {
							if gg, ok := u.X.(*ssa.Global); ok {
								mutated[gg] = true
							}
						}
					}
				}
			})
		}
		for gg, n := range stores {
			if n == 1 && !mutated[gg] {
				v := vals[gg]
				P.bigConsts[gg] = &v
			}
		}
	}
	if p, ok := P.bigConsts[g]; ok && p != nil {
		return *p, true
	}
	return 0, false
}

var mutMemo = map[string]int{}

// mayMutateArg: may the (module) callee of c write the big.Int passed as argument a?
func (P *Program) mayMutateArg(c *ssa.Call, a ssa.Value) bool {
	cs := P.callees(c)
	if len(cs) == 0 {
		return true
	}
	off := 0
	if c.Call.IsInvoke() {
		off = 1
	}
	for j, x := range callArgs(c) {
		if x != a {
			continue
		}
		for _, g := range cs {
			if !inModuleFn(g) || g.Blocks == nil {
				return true
			}
			if P.mutatesParam(g, j+off, 0) {
				return true
			}
		}
	}
	return false
}

func (P *Program) mutatesParam(g *ssa.Function, k, depth int) bool {
	if k >= len(g.Params) || depth > 6 {
		return true
	}
	key := fmt.Sprintf("%s#%d", FuncKey(g), k)
	switch mutMemo[key] {
	case 1:
		return true
	case 2, 3:
		return false
	}
	mutMemo[key] = 3
	res := false
	seen := map[ssa.Value]bool{}
	var visit func(v ssa.Value)
	visit = func(v ssa.Value) {
		if res || seen[v] {
			return
		}
		seen[v] = true
		for _, r := range referrersOf(v) {
			switch u := r.(type) {
			case *ssa.Call:
				if m := bigMethod(u); m != "" {
					if bigMutators[m] && len(callArgs(u)) > 0 && callArgs(u)[0] == v {
						res = true
					}
					if m == "GCD" && (callArgs(u)[1] == v || callArgs(u)[2] == v) {
						res = true
					}
					continue
				}
				off := 0
				if u.Call.IsInvoke() {
					off = 1
				}
				for j, a := range callArgs(u) {
					if a != v {
						continue
					}
					hs := P.callees(u)
					if len(hs) == 0 {
						res = true
					}
					for _, h := range hs {
						if !inModuleFn(h) || h.Blocks == nil || P.mutatesParam(h, j+off, depth+1) {
							res = true
						}
					}
				}
			case *ssa.Phi, *ssa.ChangeType:
				visit(u.(ssa.Value))
			case *ssa.Store:
				if u.Val == v {
					res = true // escapes
				}
			}
		}
	}
	visit(paramAt(g, k))
	if res {
		mutMemo[key] = 1
	} else {
		mutMemo[key] = 2
	}
	return res
}
