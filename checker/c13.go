package main

import (
	"go/token"
	"fmt"
	"strings"

	"golang.org/x/tools/go/ssa"
)

func init() {
	register("C13",
		Rule{ID: "C13.a", Explain: "order agreement: prover (Commit) and verifier (ChallengeContribution) enumerate range-proof contributions in the same deterministic order - attribute indices ascending, per index the structures/proofs in slice order - and CreateProof emits RangeProofs[index] in the structures' slice order; within a structure both sides emit mCorrect first, then cRep in order.",
			Run: func(P *Program, R *Report) { orderAgreementRule(P, R) }},
		Rule{ID: "C13.b", Explain: "size agreement: for every response class the verifier's accepted bit length equals the prover's randomiser length + 1 (d: ld+Lh+Lstatzk, v: Lm+Lh+Lstatzk, v5: Lm+ld+2+Lh+Lstatzk, m: LmCommit = Lm+Lstatzk+Lh), and the prover rejects a split value longer than ld, so an honest response is never rejected for size.",
			Run: func(P *Program, R *Report) { sizeAgreementRule(P, R) }},
		Rule{ID: "C13.c", Explain: "three-square rescaling agreement (C12.g) and the splitters' Ld stays within ExtractStructure's limit (FourSquaresSplitter.Ld() is a constant <= the smallest Lm).",
			Run: func(P *Program, R *Report) {
				rescalingRule(P, R, "C13.c")
				if fn := mustFunc(P, R, "C13.c", "rangeproof.(*FourSquaresSplitter).Ld"); fn != nil {
					ok := false
					got := ""
					for _, r := range returnsOf(fn) {
						if c, isC := constInt(retValue(r, 0)); isC {
							got = fmt.Sprint(c)
							ok = c > 0 && c <= minLm(P)
						}
					}
					R.decide("C13.c", FuncKey(fn)+":within-limit", "the four-square splitter's ld is a constant not above the smallest Lm of the parameter tables", ok, "ld="+got+" min Lm="+fmt.Sprint(minLm(P)), P.Pos(fn.Pos()))
				}
				if fn := mustFunc(P, R, "C13.c", kNewPS); fn != nil {
					ok := false
					for _, c := range callsIn(fn) {
						if isCallTo(c, kNewParams) {
							a := callArgs(c)
							ok = strings.Contains(desc(a[5]), "SquareCount") && strings.Contains(desc(a[6]), ".Ld(")
						}
					}
					R.decide("C13.c", kNewPS+":splitter-params", "the structure takes its number of squares and ld from the splitter that will produce them", ok, "", P.Pos(fn.Pos()))
				}
			}},
		Rule{ID: "C13.e", Explain: "no over-rejection: the proving call tree refuses a statement only for the specified reasons (false statement, unsupported sign, size limits of the descriptor) and the verification call tree rejects only for the specified reasons.",
			Run: func(P *Program, R *Report) {
				treeRejectionsRule(P, R, "C13.e", "prove", "the proving call tree")
				treeRejectionsRule(P, R, "C13.e", "show", "the verification call tree")
			}},
		Rule{ID: "C13.f", Explain: "package-level big.Int constants (bigONE, bigZERO, two, ...) are only read: never the receiver of a mutating method, never returned to a caller, never stored into a structure - an escaped constant is modified by its new owner's next in-place operation and corrupts every later computation of the process.",
			Run: func(P *Program, R *Report) { sharedConstantsRule(P, R, "C13.f") }},
		Rule{ID: "C13.g", Explain: "the verifier's descriptor limits are the documented ones and not tighter: ExtractStructure refuses exactly K == nil, Ld > Lm, a wrong number of squares, K.BitLen() > Lm + IntSize (the bound is compared with factor*m, three-square rescaling included), A != 4 for three squares, a bad sign (same rule as C12.c); the response size limits are the specified terms (same rule as C12.d).",
			Run: func(P *Program, R *Report) {
				extractLimitsRuleFor(P, R, "C13.g")
				rangeSizesRule(P, R, "C13.g")
			}},
		Rule{ID: "C13.h", Explain: "boundary statements stay provable under the three-square rescaling: the difference must be = 2 (mod 4) and non-negative exactly when the statement holds, i.e. the rescaled bound is 4*bound - 2 for >= and 4*bound + 2 for <= (4*bound - 2*sign). The code uses 4*bound - 2 for both signs, so `m <= bound` with m == bound is refused by the prover (known finding K5).",
			Run: func(P *Program, R *Report) {
				fn := mustFunc(P, R, "C13.h", kNewPS)
				if fn == nil {
					return
				}
				be := P.bigEval(fn)
				signAware := false
				got := ""
				allInstrs(fn, func(i ssa.Instruction) {
					c, ok := i.(*ssa.Call)
					if !ok || (bigMethod(c) != "Sub" && bigMethod(c) != "Add") {
						return
					}
					ts := be.at(c)
					if len(ts) == 3 && ts[1].String() == tmul(tconst(4), tsym("arg#3")).String() {
						got = bigMethod(c) + "(" + ts[1].String() + ", " + ts[2].String() + ")"
						// the correction term depends on the sign parameter (arg#1)
						if strings.Contains(ts[2].String(), "arg#1") || ts[2].Top {
							for _, a := range controllingConds(c.Block()) {
								if strings.Contains(desc(a.V), "arg#1") {
									signAware = true
								}
							}
							if strings.Contains(ts[2].String(), "arg#1") {
								signAware = true
							}
						}
						for _, a := range controllingConds(c.Block()) {
							if strings.Contains(desc(a.V), "arg#1") {
								signAware = true
							}
						}
					}
				})
				R.decide("C13.h", kNewPS+":rescaling-covers-equality", "three squares: the correction of the rescaled bound depends on the sign of the statement (-2 for >=, +2 for <=)", signAware, "the bound is rescaled by "+got+" for both signs: with sign -1 and m == bound the difference is -2 and the prover refuses a true statement", P.Pos(fn.Pos()))
			}},
		Rule{ID: "C13.d", Explain: "CreateDisclosureProofBuilder refuses range statements on disclosed attributes and files every accepted statement's structure under its attribute index; Commit commits every filed structure with the attribute and randomiser of that index.",
			Run: func(P *Program, R *Report) { statementFilingRule(P, R) }},
		Rule{ID: "C13.i", Explain: "a true statement's proof survives the wire: the verifier installs the derived response of a range proof (MResponse, which is not serialised) before it runs the structure check that demands it (the MResponse-before obligations of C12.b, same rule) - installed afterwards, every received disclosure proof with a range proof is refused.",
			Run: func(P *Program, R *Report) {
				sharedRule(P, R, "C12", "C12.b", "C13.i", func(c string) bool { return strings.Contains(c, "MResponse-before") })
			}},
		Rule{ID: "C13.j", Explain: "the structure proves the bound that was asked for: newWithParams keeps its own copies of the bound (the k obligations of C12.e, same rule) - sharing the caller's integer makes the proven K follow later changes of the statement.",
			Run: func(P *Program, R *Report) { sharedRule(P, R, "C12", "C12.e", "C13.j", func(c string) bool { return strings.Contains(c, "newWithParams") }) }},
	)
}

func minLm(P *Program) int64 {
	// base parameter literals in gabikeys init: stores of constants into BaseParameters.Lm
	min := int64(0)
	if ini := P.Func("gabikeys.init"); ini != nil {
		allInstrs(ini, func(i ssa.Instruction) {
			st, ok := i.(*ssa.Store)
			if !ok {
				return
			}
			fa, ok := st.Addr.(*ssa.FieldAddr)
			if !ok || faType(fa) != "gabikeys.BaseParameters" || faName(fa) != "Lm" {
				return
			}
			if c, ok := constInt(st.Val); ok && (min == 0 || c < min) {
				min = c
			}
		})
	}
	return min
}

// sliceAppend is one `append(dst, elems...)` of a function, seen either in the function itself or in an unexported
// helper it calls (e.g. a generic `appendAt(m, k, v)` standing for `m[k] = append(m[k], v)`); in the latter case the
// descriptors are taken with the helper's parameters bound to the call's arguments, so they read as if the append
// were written at the call site, and Blk is the block of that call.
type sliceAppend struct {
	Dst  string
	Src  string // descriptor of the appended slice argument (for `append(dst, xs...)`)
	Tail []SeqElem
	Blk  *ssa.BasicBlock
	Ins  ssa.Instruction
	Real *ssa.Call // the append itself (in fn, or in the helper that fn calls at Ins)
	Call ssa.CallInstruction // the call of fn through which a helper's append is reached (nil for fn's own)
}

func sliceAppends(P *Program, fn *ssa.Function) []sliceAppend {
	var out []sliceAppend
	collect := func(g *ssa.Function, at ssa.Instruction) {
		allInstrs(g, func(i ssa.Instruction) {
			c, ok := i.(*ssa.Call)
			if !ok || !isCallTo(c, "builtin:append") {
				return
			}
			a := sliceAppend{Dst: desc(callArgs(c)[0]), Src: desc(callArgs(c)[1]), Blk: c.Block(), Ins: c, Real: c}
			if at != nil {
				a.Blk, a.Ins = at.Block(), at
				a.Call, _ = at.(ssa.CallInstruction)
			}
			if tail, ok := seqTail(callArgs(c)[1], 0, map[ssa.Value]bool{}); ok {
				a.Tail = tail
			}
			out = append(out, a)
		})
	}
	collect(fn, nil)
	for _, c := range callsIn(fn) {
		g := staticCallee(c)
		if g == nil || g == fn || !inModuleFn(g) || g.Blocks == nil || g.Parent() != nil || (g.Object() != nil && g.Object().Exported()) || (len(g.Blocks) > 3 && !newHelper(g)) {
			continue // (small helpers, and helpers of any size that the reference tree does not have: code moved out of fn)
		}
		cc := c
		bindCall(cc, g, func() { collect(g, cc) })
	}
	return out
}

func orderAgreementRule(P *Program, R *Report) {
	rule := "C13.a"
	// prover: Commit
	if fn := mustFunc(P, R, rule, kDPBCommit); fn != nil {
		var cfs *ssa.Call
		for _, c := range callsIn(fn) {
			if isCallTo(c, kRPCFS) {
				cfs = c.(*ssa.Call)
			}
		}
		if cfs == nil {
			R.bad(rule, kDPBCommit+":range", "Commit computes the range-proof commitments", "no call", P.Pos(fn.Pos()))
		} else {
			// outer loop: index ascending over 0..len(attributes); inner: slice order of rpStructures[index]
			outer := loopOver(fn, is(dpb+".attributes"))
			inner := loopOver(fn, is(dpb+".rpStructures[#i]"))
			R.decide(rule, kDPBCommit+":outer-ascending", "indices are visited ascending (index loop over the attribute list, not map iteration)", outer != nil && outer.Body[cfs.Block()], "", P.Pos(cfs.Pos()))
			R.decide(rule, kDPBCommit+":inner-slice-order", "per index the structures are visited in slice order", inner != nil && inner.Body[cfs.Block()] && desc(callArgs(cfs)[0]) == dpb+".rpStructures[#i][#j]", desc(callArgs(cfs)[0]), P.Pos(cfs.Pos()))
			// contributions appended to the list in that order, commits recorded per index in the same order
			okApp, okCommit := false, false
			for _, a := range sliceAppends(P, fn) {
				if a.Blk != cfs.Block() && !inner.Body[a.Blk] {
					continue
				}
				if a.Src == desc(cfs)+"#0" {
					okApp = true
				}
				if len(a.Tail) == 1 && a.Tail[0].D == desc(cfs)+"#1" {
					okCommit = a.Dst == dpb+".rpCommits[#i]"
				}
			}
			R.decide(rule, kDPBCommit+":appended-in-order", "each structure's contributions are appended to the commitment list as it is visited", okApp, "", P.Pos(cfs.Pos()))
			R.decide(rule, kDPBCommit+":commits-in-order", "the per-index commit list follows the structures' order", okCommit, "", P.Pos(cfs.Pos()))
		}
	}
	// prover: CreateProof
	if fn := mustFunc(P, R, rule, kDPBCreateProof); fn != nil {
		ok := false
		got := ""
		for _, a := range sliceAppends(P, fn) {
			tail := a.Tail
			if len(tail) != 1 || !strings.HasPrefix(tail[0].D, "call:rangeproof.(*ProofStructure).BuildProof(") {
				continue
			}
			got = tail[0].D + " -> " + a.Dst
			key := "rangekey(" + dpb + ".rpStructures)"
			ok = tail[0].D == "call:rangeproof.(*ProofStructure).BuildProof("+dpb+".rpStructures[*][#j],"+dpb+".rpCommits["+key+"][#j],arg#1)" &&
				(a.Dst == "makemap["+key+"]" || a.Dst == "new:gabi.ProofD.RangeProofs["+key+"]")
		}
		R.decide(rule, kDPBCreateProof+":proofs-in-structure-order", "RangeProofs[index][i] is built from structure i and commit i of that index", ok, got, P.Pos(fn.Pos()))
	}
	// verifier: sorted indices, proofs in slice order (same facts as C12.a)
	if fn := mustFunc(P, R, rule, kProofDCC); fn != nil {
		sorted := false
		outer := loopOver(fn, is("makeslice"))
		if outer != nil {
			// a key list obtained from slices.Sorted is sorted by construction
			for _, ins := range outer.Header.Instrs {
				if b, ok := ins.(*ssa.BinOp); ok && b.Op == token.LSS {
					if c, ok := b.Y.(*ssa.Call); ok && isCallTo(c, "builtin:len") {
						if sc, ok := callArgs(c)[0].(*ssa.Call); ok && sortedKeysOf(sc) != nil && desc(sortedKeysOf(sc)) == pdRP {
							sorted = true
						}
					}
				}
			}
		}
		for _, c := range callsIn(fn) {
			if isCallTo(c, "sort.Ints") && outer != nil {
				if seq, ok := seqOf(callArgs(c)[0]); ok && seqString(seq) == "[(rangekey("+pdRP+"))*]" {
					// the sort is executed on every path into the loop
					call := c
					r := (&MustPass{P: P, Instr: func(_ *ssa.Function, i ssa.Instruction) bool { return i == ssa.Instruction(call.(*ssa.Call)) }}).MustReach(fn, outer.Header.Instrs[0])
					sorted = r.Holds
				}
			}
		}
		// (the per-index loop may live in a helper the outer loop's body was extracted into)
		var inner *Loop
		var cfp *ssa.Call
		okArgs := false
		deepVisit(P, fn, 2, func(g *ssa.Function) {
			if inner != nil {
				return
			}
			if inner = loopOver(g, is(pdRP+"[makeslice[#i]]")); inner == nil {
				return
			}
			for _, c := range callsIn(g) {
				if isCallTo(c, kRPCFP) {
					cfp = c.(*ssa.Call)
					okArgs = desc(callArgs(cfp)[0]) == "<gabi.ProofD>.cachedRangeStructures[makeslice[#i]][#j]" && desc(callArgs(cfp)[2]) == pdRP+"[makeslice[#i]][#j]"
				}
			}
		})
		R.decide(rule, kProofDCC+":ascending", "the verifier visits the range-proof indices in ascending order (sorted key list)", sorted && outer != nil, "", P.Pos(fn.Pos()))
		R.decide(rule, kProofDCC+":slice-order", "and per index the proofs in slice order, each with the structure at the same position", inner != nil && cfp != nil && inner.Body[cfp.Block()] && okArgs, "", P.Pos(fn.Pos()))
	}
	// structures extracted in proof order
	if cc := mustFunc(P, R, rule, kProofDCC); cc != nil {
		ok := false
		deepVisit(P, cc, 2, func(rf *ssa.Function) {
			allInstrs(rf, func(i ssa.Instruction) {
				c, isC := i.(*ssa.Call)
				if !isC || !isCallTo(c, "builtin:append") {
					return
				}
				if tail, okT := seqTail(callArgs(c)[1], 0, map[ssa.Value]bool{}); okT && len(tail) == 1 && strings.HasPrefix(tail[0].D, "call:"+kExtract+"("+pdRP+"[*][#j],") {
					ok = true
				}
			})
		})
		R.decide(rule, kProofDCC+":structure-order", "the cached structures follow the order of the proofs they were extracted from", ok, "", P.Pos(cc.Pos()))
	}
	// within a structure: same order on both sides (shared with C12.e)
	for _, k := range []string{kRPCFP, kRPCFS} {
		f := relationsHost(P, mustFunc(P, R, rule, k))
		if f == nil {
			continue
		}
		var seq []string
		for _, c := range callsIn(f) {
			if strings.HasPrefix(calleeName(c), "zkproof.(*QrRepresentationProofStructure).CommitmentsFrom") {
				seq = append(seq, strings.TrimPrefix(desc(callArgs(c)[0]), rpS+"."))
			}
		}
		R.decide(rule, k+":order", "contributions are mCorrect first, then cRep[0..n) in order", strings.Join(seq, ",") == "mCorrect,cRep[#i]", strings.Join(seq, ","), P.Pos(f.Pos()))
	}
}

func sizeAgreementRule(P *Program, R *Report) {
	rule := "C13.b"
	// verifier limits (C12.d) under this property
	rangeSizesRule(P, R, rule)
	fn := mustFunc(P, R, rule, kRPCFS)
	if fn == nil {
		return
	}
	// prover randomiser lengths
	want := map[string]string{
		".dRandomizers[#i]": rpS + ".ld+Lh+Lstatzk",
		".vRandomizers[#i]": "Lm+Lh+Lstatzk",
		".v5Randomizer":     "Lm+" + rpS + ".ld+2+Lh+Lstatzk",
	}
	for suf, w := range want {
		ok, got := false, ""
		for _, s := range sinksOf(fn) {
			if strings.HasSuffix(s.target, suf) {
				if g := genCallOf(s.val); g != nil {
					a, _ := affineOf(callArgs(g)[0])
					got = a.String()
					ok = got == parseAffine(w).String()
				}
			}
		}
		R.decide(rule, kRPCFS+":randomiser"+suf, "the prover's randomiser for this class has "+w+" bits (verifier accepts one bit more)", ok, "got "+got, P.Pos(fn.Pos()))
	}
	// split values bounded by ld
	memo := func(a Atom) bool { return desc(a.V) == rpS+".commitments" && a.Want == NonNil }
	fa := &ForAll{P: P, Spec: ForAllSpec{Coll: func(d string) bool { return strings.HasSuffix(d, ".d") }, Exempt: memo, Body: func(f *ssa.Function, l *Loop) *MustPass {
		return &MustPass{Match: func(a Atom) bool {
			g, ok := parseGuard(a, nil)
			if !ok || g.Kind != "bitlen" || !strings.HasSuffix(g.Subject, ".d[#i]") {
				return false
			}
			k, ok := g.bitlenUpper()
			return ok && k.String() == rpS+".ld"
		}}
	}}}
	m := fa.inFn(fn, AcceptNilErr(2))
	R.decide(rule, kRPCFS+":split-size", "commitments are produced only if every square root has at most ld bits", m.holds, m.detail, P.Pos(fn.Pos()))
	// number of squares matches the structure
	mp(P, R, rule, kRPCFS+":split-count", "commitments are produced only if the splitter returned as many roots as the structure has squares", fn, AcceptNilErr(2), &MustPass{Exempt: memo, Match: func(a Atom) bool {
		g, ok := parseGuard(a, nil)
		return ok && g.Kind == "int" && g.Rel == "==" && ((strings.HasSuffix(g.Subject, ".d)") && g.BoundA.String() == "len("+rpS+".cRep)") || (g.Subject == "len("+rpS+".cRep)" && strings.HasSuffix(g.BoundA.String(), ".d)")))
	}})
	// the m randomiser is the builder's LmCommit randomiser (C07.a) and LmCommit = Lm+Lstatzk+Lh
	if md := mustFunc(P, R, rule, "gabikeys.MakeDerivedParameters"); md != nil {
		got := map[string]string{}
		gotA := map[string]Affine{}
		for f, st := range litFieldStores(md, "new:gabikeys.DerivedParameters") {
			if a, ok := affineOf(st.Val); ok {
				gotA[f] = a
			}
		}
		// a derived length defined through another derived length (LvCommit = Lv + ...) is expanded
		for round := 0; round < 3; round++ {
			for f, a := range gotA {
				b := a.clone()
				for sym, k := range a.S {
					if def, isDerived := gotA[sym]; isDerived && sym != f {
						delete(b.S, sym)
						b = b.add(def.scale(k))
					}
				}
				gotA[f] = b
			}
		}
		for f, a := range gotA {
			got[f] = a.String()
		}
		spec := map[string]string{
			"Le": "Lstatzk+Lh+Lm+5", "LeCommit": "LePrime+Lstatzk+Lh", "LmCommit": "Lm+Lstatzk+Lh",
			"LRA": "Ln+Lstatzk", "LsCommit": "Lm+Lstatzk+Lh+1", "Lv": "Ln+2*Lstatzk+Lh+Lm+4",
			"LvCommit": "Ln+3*Lstatzk+2*Lh+Lm+4", "LvPrime": "Ln+Lstatzk", "LvPrimeCommit": "Ln+2*Lstatzk+Lh",
		}
		for f, w := range spec {
			R.decide(rule, "gabikeys.MakeDerivedParameters:"+f, "derived parameter "+f+" = "+w, parseAffine(strings.ReplaceAll(got[f], "base.", "")).String() == parseAffine(w).String(), "got "+got[f], P.Pos(md.Pos()))
		}
	}
}

func statementFilingRule(P *Program, R *Report) {
	rule := "C13.d"
	fn := mustFunc(P, R, rule, kCredBuilder)
	if fn == nil {
		return
	}
	key := "rangekey(arg#2)"
	var app *sliceAppend
	for _, a := range sliceAppends(P, fn) {
		if a.Dst == nbD+".rpStructures["+key+"]" || a.Dst == "<gabi.DisclosureProofBuilder>.rpStructures["+key+"]" {
			aa := a
			app = &aa
		}
	}
	if app == nil {
		var seenD []string
		for _, a := range sliceAppends(P, fn) {
			seenD = append(seenD, a.Dst)
		}
		R.bad(rule, kCredBuilder+":filed", "structures are filed under the statement's attribute index", "no append to rpStructures[index]; appends seen: "+strings.Join(seenD, " ; "), P.Pos(fn.Pos()))
		return
	}
	tail := app.Tail
	stmt := "arg#2[*][#j]"
	ok := len(tail) == 1 && (tail[0].D == "call:rangeproof.(*Statement).ProofStructure("+stmt+","+key+")#0" ||
		tail[0].D == "call:rangeproof.NewProofStructure("+key+","+stmt+".Sign,"+stmt+".Factor,"+stmt+".Bound,"+stmt+".Splitter)#0")
	R.decide(rule, kCredBuilder+":filed", "every statement's structure is built for, and filed under, the index the caller gave it", ok, seqString(tail), P.Pos(app.Ins.Pos()))
	// no requested statement is left out: a builder is returned only if every iteration of the walk over the requested
	// statements (outer: attribute indices, inner: that attribute's statements) reached the filing - an iteration that
	// is skipped (`continue`) yields a proof that verifies and silently lacks the inequality
	// (the walk may have been moved, whole, into an unexported helper of the builder: it is examined there, with the
	// helper's own "no error" exits as the accepting ones)
	var appIns ssa.Instruction = app.Real
	wfn, wacc := fn, AcceptNilErr(1)
	moved := app.Real != nil && app.Real.Parent() != fn && innermostLoopOf(app.Real.Block()) != nil
	if !moved {
		appIns = app.Ins // (fn's own append, or a one-line append helper called from fn's walk)
	}
	if moved {
		wfn = app.Real.Parent()
		res := wfn.Signature.Results()
		for k := 0; k < res.Len(); k++ {
			if isErrorType(res.At(k).Type()) {
				wacc = AcceptNilErr(k)
			}
		}
	}
	if appIns != nil {
		fn := wfn
		inner := innermostLoopOf(appIns.Block())
		okAll, why := inner != nil, "the filing is not inside a loop"
		for l := inner; l != nil && okAll; {
			q := &MustPass{P: P, NoInterproc: true, Instr: func(_ *ssa.Function, i ssa.Instruction) bool { return i == appIns }}
			if l != inner {
				// an outer iteration passes the obligation by entering the inner walk (whose every iteration files)
				q = &MustPass{P: P, NoInterproc: true, Instr: func(_ *ssa.Function, i ssa.Instruction) bool { return i.Block() == inner.Header }}
			}
			if r := q.ForAllBody(fn, l, wacc, false); !r.Holds {
				okAll, why = false, r.Path
			}
			var outer *Loop
			for h := l.Header.Idom(); h != nil; h = h.Idom() {
				if o := findLoop(h); o != nil && len(o.Latch) > 0 && o.Body[l.Header] && o.Header != l.Header {
					outer = o
					break
				}
			}
			l = outer
		}
		R.decide(rule, kCredBuilder+":every-statement", "a builder is returned only if every requested statement was filed (no statement is skipped)", okAll, why, P.Pos(appIns.Pos()))
	}
	hidden := &MustPass{P: P, Match: func(a Atom) bool {
		// the index is not contained in the disclosed list (tested here or in a helper such as isUndisclosedAttribute)
		c, okc := callAtom(a, False, "slices.Contains")
		return okc && desc(callArgs(c)[0]) == "arg#1" && desc(callArgs(c)[1]) == key
	}}
	var r mpResult
	if app.Call != nil && moved {
		// inside the helper the walk was moved to, with its parameters bound to the constructor's arguments
		bindCall(app.Call, app.Real.Parent(), func() { r = hidden.MustReach(app.Real.Parent(), app.Real) })
	} else {
		r = hidden.MustReach(fn, app.Ins)
	}
	R.decide(rule, kCredBuilder+":hidden-only", "a range statement is accepted only for an attribute that is not disclosed", r.Holds, r.Path, P.Pos(app.Ins.Pos()))
	if iu := P.Func("gabi.isUndisclosedAttribute"); iu != nil {
		okc := false
		for _, ret := range returnsOf(iu) {
			okc = desc(retValue(ret, 0)) == "!call:slices.Contains(arg#0,arg#1)"
		}
		R.decide(rule, "gabi.isUndisclosedAttribute:complement", "undisclosed = not contained in the disclosed list", okc, "", P.Pos(iu.Pos()))
	}
	// every statement is processed: loops over the map and the per-index slice, error => no builder
	mp(P, R, rule, kCredBuilder+":structure-error", "a builder is returned only if every statement yielded a structure", fn, AcceptNilErr(1), &MustPass{Exempt: func(a Atom) bool {
			d := desc(a.V)
			return (d == "arg#2" && a.Want == Nil) || (strings.HasPrefix(d, "rangeok(") && a.Want == False) || (strings.HasPrefix(d, "(#j<len(") && a.Want == False)
		},
		Match: func(a Atom) bool {
			c, idx := callAndResult(a.V)
			return c != nil && calleeIs(c, "rangeproof.(*Statement).ProofStructure") && idx == 1 && a.Want == Nil
		}})
}
