package main

import (
	"strconv"
	"regexp"
	"fmt"
	"go/token"
	"go/types"
	"sort"
	"strings"

	"golang.org/x/tools/go/ssa"
)

// implementationsOf returns the module types (as pointer or value receivers) implementing the named interface.
func implementationsOf(P *Program, pkg, iface string) []types.Type {
	sp := P.PkgByName[pkg]
	if sp == nil {
		return nil
	}
	obj := sp.Pkg.Scope().Lookup(iface)
	if obj == nil {
		return nil
	}
	it, ok := obj.Type().Underlying().(*types.Interface)
	if !ok {
		return nil
	}
	var out []types.Type
	for _, p := range P.SSA.AllPackages() {
		if !inModule(p.Pkg) {
			continue
		}
		sc := p.Pkg.Scope()
		for _, n := range sc.Names() {
			tn, ok := sc.Lookup(n).(*types.TypeName)
			if !ok || tn.IsAlias() {
				continue
			}
			if _, isIface := tn.Type().Underlying().(*types.Interface); isIface {
				continue
			}
			if types.Implements(tn.Type(), it) {
				out = append(out, tn.Type())
			} else if types.Implements(types.NewPointer(tn.Type()), it) {
				out = append(out, types.NewPointer(tn.Type()))
			}
		}
	}
	sort.Slice(out, func(i, j int) bool { return typeShort(out[i]) < typeShort(out[j]) })
	return out
}

func methodKey(t types.Type, name string) string {
	ptr := ""
	if p, ok := t.(*types.Pointer); ok {
		ptr = "*"
		t = p.Elem()
	}
	n := t.(*types.Named)
	return fmt.Sprintf("%s.(%s%s).%s", shortPkg(n.Obj().Pkg().Path()), ptr, n.Obj().Name(), name)
}

// createChallengeCallRoles: caller -> expected descriptors (regex) of (context, nonce, contributions, issig).
var createChallengeRoles = map[string][4]string{
	kProofDVerify: {`^arg#2$`, `^arg#3$`, `^call:gabi\.\(\*ProofD\)\.ChallengeContribution\(<gabi\.ProofD>,<gabikeys\.PublicKey>\)#0$`, `^arg#4$`},
	kProofUVerify: {`^arg#2$`, `^arg#3$`, `^call:gabi\.\(\*ProofU\)\.ChallengeContribution\(<gabi\.ProofU>,<gabikeys\.PublicKey>\)#0$`, `^false$`},
	kListVerify:   {`^arg#2$`, `^arg#3$`, ``, `^arg#4$`},
	"gabi.(ProofBuilderList).ChallengeWithRandomizers": {`^arg#1$`, `^arg#2$`, ``, `^arg#4$`},
	// the prover's entries on top of it hand their own context, nonce and flag on
	"gabi.(ProofBuilderList).Challenge":      {`^arg#1$`, `^arg#2$`, ``, `^arg#3$`},
	"gabi.(ProofBuilderList).BuildProofList": {`^arg#1$`, `^arg#2$`, ``, `^arg#3$`},
	"gabi.(*Credential).CreateDisclosureProof": {`^arg#4$`, `^arg#5$`, ``, `^false$`},
	// (rooted at the exported entry: the call may sit in an unexported helper such as proveCommitment, which is
	// then examined with its parameters bound to the entry's arguments)
	"gabi.(*CredentialBuilder).CommitToSecretAndProve": {`^<gabi\.CredentialBuilder>\.context$`, `^arg#1$`, `^call:gabi\.\(\*CredentialBuilder\)\.Commit\(<gabi\.CredentialBuilder>,.*\)#0$`, `^false$`},
	// the context, or the constant one in its place when it is absent (C14.b checks "only then")
	"gabi.KeyshareResponse": {`^(phi\()?<gabi\.KeyshareResponseRequest.*>\.Context(\|global:gabi\.bigOne\))?$`, `KeyshareResponseRequest.*\.Nonce$`, ``, `KeyshareResponseRequest.*\.IsSignatureSession$`},
}

func init() {
	register("C02",
		Rule{ID: "C02.a", Explain: "createChallenge hashes exactly [context, contributions..., nonce] in this order (abstract evaluation of the slice passed to HashCommit) and passes issig through unchanged.",
			Run: func(P *Program, R *Report) {
				fn := mustFunc(P, R, "C02.a", "gabi.createChallenge")
				if fn == nil {
					return
				}
				var hc *ssa.Call
				n := 0
				for _, c := range callsIn(fn) {
					if isCallTo(c, "common.HashCommit") {
						hc, _ = c.(*ssa.Call)
						n++
					}
				}
				if hc == nil || n != 1 {
					R.bad("C02.a", "gabi.createChallenge:hash", "exactly one call to common.HashCommit whose result is returned", fmt.Sprintf("found %d calls", n), P.Pos(fn.Pos()))
					return
				}
				seq, ok := seqOf(callArgs(hc)[0])
				want := "[arg#0, arg#2..., arg#1]"
				got := seqString(seq)
				if !ok {
					R.und("C02.a", "gabi.createChallenge:sequence", "hashed sequence is [context, contributions..., nonce]", "could not evaluate the slice construction idiom", P.Pos(hc.Pos()))
				} else {
					R.decide("C02.a", "gabi.createChallenge:sequence", "hashed sequence is [context, contributions..., nonce]", got == want, "got "+got+" want "+want, P.Pos(hc.Pos()))
				}
				R.decide("C02.a", "gabi.createChallenge:issig", "the signature-session flag is passed to HashCommit unchanged", desc(callArgs(hc)[1]) == "arg#3", "got "+desc(callArgs(hc)[1]), P.Pos(hc.Pos()))
				retOK := true
				for _, r := range returnsOf(fn) {
					if retCount(r) != 1 || siteOf(retValue(r, 0)) != ssa.Value(hc) {
						retOK = false
					}
				}
				R.decide("C02.a", "gabi.createChallenge:result", "the returned challenge is the HashCommit result itself", retOK, "a return does not return the hash", P.Pos(fn.Pos()))
			}},
		Rule{ID: "C02.b", Explain: "HashCommit encodes [marker iff issig], element count, every value in order, into one asn1.Marshal, one SHA-256 over exactly that, whole digest (shared with C15.a).",
			Run: func(P *Program, R *Report) { hashCommitShape(P, R, "C02.b") }},
		Rule{ID: "C02.c", Explain: "ProofList.Verify: accept => non-empty list, len(pl)==len(publicKeys), labels (if any) match in length; every proof's VerifyWithChallenge(publicKeys[i], X) returned true for ONE X = createChallenge(context, nonce, contributions, issig) computed before the loop; contributions is the in-order concatenation of pl[i].ChallengeContribution(publicKeys[i]) with error => reject.",
			Run: func(P *Program, R *Report) { proofListVerifyRule(P, R) }},
		Rule{ID: "C02.d", Explain: "every implementation of interface Proof compares its own C with the challenge parameter on every accepting path of VerifyWithChallenge (implementations enumerated from the type-checked program).",
			Run: func(P *Program, R *Report) {
				impls := implementationsOf(P, "gabi", "Proof")
				R.decide("C02.d", "gabi.Proof:implementations", "at least the 2 known implementations of gabi.Proof are found", len(impls) >= 2, fmt.Sprintf("found %d", len(impls)), "")
				for _, t := range impls {
					key := methodKey(t, "VerifyWithChallenge")
					fn := mustFunc(P, R, "C02.d", key)
					tn := namedOf(t)
					mp(P, R, "C02.d", key+":C==challenge", "accept => the proof's own C compared equal to the challenge parameter", fn, AcceptTrue(0),
						&MustPass{Match: eqMatcher(is("<"+typeShort(tn)+">.C"), is("arg#2"))})
				}
			}},
		Rule{ID: "C02.h", Explain: "no verdict-relevant state is carried from one verification to the next inside a proof object: every field of ProofD, ProofU, revocation.Proof or rangeproof.Proof that some function in the call tree of ProofList.Verify / ProofD.Verify / ProofU.Verify writes is, wherever that call tree reads it, preceded on every path from the entry point by a write of the same invocation (a memo read before it is recomputed would make the verdict depend on the keys, context or nonce of an earlier call).",
			Run: func(P *Program, R *Report) { noCrossCallStateRule(P, R) }},
		Rule{ID: "C02.i", Explain: "aliasing discipline: verification leaves the proofs of a list unchanged - no function mutates in place a big.Int it reached through gabi.ProofD / gabi.ProofU / gabi.ProofS (math/big mutators write their receiver), except the tabled merge/refresh functions.",
			Run: func(P *Program, R *Report) { inPlaceDisciplineRule(P, R, "C02.i", "gabi.ProofD", "gabi.ProofU", "gabi.ProofS") }},
		Rule{ID: "C02.e", Explain: "ProofU.ChallengeContribution = [U, Ucommit] with Ucommit data-dependent on U, C, VPrimeResponse, SResponse, every MUserResponses value, pk.S, pk.R[0], pk.R[i], pk.N (ProofD: C01.e).",
			Run: func(P *Program, R *Report) { proofUContributionDeps(P, R, "C02.e") }},
		Rule{ID: "C02.f", Explain: "every challenge of the showing/issuance protocol goes through createChallenge with the caller's own context/nonce/flag in their roles (table of 6 call sites).",
			Run: func(P *Program, R *Report) {
				cc := mustFunc(P, R, "C02.f", "gabi.createChallenge")
				if cc == nil {
					return
				}
				n := 0
				viaRoot := 0
				seen := map[string]bool{}
				inRoot := map[ssa.CallInstruction]bool{}
				rootSite := map[string]bool{}
				names := []string{"context", "nonce", "contributions", "issig"}
				for key, roles := range createChallengeRoles {
					root := P.Func(key)
					if root == nil {
						continue
					}
					deepVisit(P, root, 2, func(g *ssa.Function) {
						if g != root && createChallengeRoles[FuncKey(g)] != [4]string{} {
							return // another entry's own site
						}
						for _, c := range callsIn(g) {
							// the challenge obtained from another tabled entry (e.g. ChallengeWithRandomizers over a
							// one-element builder list): its role parameters take this entry's values
							if sc := staticCallee(c); sc != nil && sc != cc {
								if other, isRoot := createChallengeRoles[FuncKey(sc)]; isRoot && FuncKey(sc) != key && !seen[key] {
									okAll := true
									for i, re := range roles {
										if re == "" || other[i] == "" {
											continue
										}
										m := regexp.MustCompile(`^\^arg#(\d+)\$$`).FindStringSubmatch(other[i])
										if m == nil {
											okAll = false
											continue
										}
										k, _ := strconv.Atoi(m[1])
										args := callArgs(c)
										if k >= len(args) {
											okAll = false
											continue
										}
										d := desc(args[k])
										R.decide("C02.f", key+":"+names[i], "createChallenge argument '"+names[i]+"' originates from the caller's own "+names[i]+" (through "+FuncKey(sc)+")", matches(re)(d), "got "+d+" want "+re, P.Pos(c.Pos()))
									}
									if okAll {
										seen[key] = true
										viaRoot++
									}
								}
							}
							// (a site in a helper shared by two entries is examined once per entry, under that entry's binding)
							if staticCallee(c) != cc || rootSite[key+"@"+fmt.Sprint(c.Pos())] {
								continue
							}
							rootSite[key+"@"+fmt.Sprint(c.Pos())] = true
							inRoot[c] = true
							seen[key] = true
							R.seen(key)
							for i, re := range roles {
								if re == "" {
									continue
								}
								d := desc(callArgs(c)[i])
								R.decide("C02.f", key+":"+names[i], "createChallenge argument '"+names[i]+"' originates from the caller's own "+names[i], matches(re)(d), "got "+d+" want "+re, P.Pos(c.Pos()))
							}
						}
					})
				}
				for _, fn := range P.AllFuncs {
					for _, c := range callsIn(fn) {
						if staticCallee(c) != cc {
							continue
						}
						n++
						if !inRoot[c] {
							R.Notes = append(R.Notes, "untabled createChallenge call site in "+FuncKey(fn)+" (not checked for roles)")
						}
					}
				}
				for key := range createChallengeRoles {
					if !seen[key] {
						R.bad("C02.f", key+":site", "tabled call site of createChallenge exists", "no call to createChallenge found in "+key+" or its helpers (challenge computed differently?)", "")
					}
				}
				if len(rootSite) > n {
					n = len(rootSite)
				}
				R.decide("C02.f", "createChallenge:callsites", "at least 6 call sites of createChallenge (or uses of a tabled entry that has one), counted per entry", n+viaRoot >= 6, fmt.Sprintf("found %d", n+viaRoot), "")
			}},
		Rule{ID: "C02.g", Explain: "no order-sensitive accumulation inside a range over a map in any function that feeds a challenge (Go randomises map order).",
			Run: func(P *Program, R *Report) { noMapOrderRule(P, R, "C02.g") }},
	)
}

// challengeFeedingRoots: functions whose results feed a Fiat-Shamir challenge.
func challengeFeedingRoots(P *Program) []*ssa.Function {
	keys := []string{kProofDCC, kProofUCC, "gabi.challengeContributions", "gabi.(*DisclosureProofBuilder).Commit",
		"gabi.(*CredentialBuilder).Commit", "gabi.(ProofBuilderList).ChallengeWithRandomizers", "gabi.KeyshareUserCommitmentRequest",
		"gabi.KeyshareResponse", "gabi.keyshareUserCommitmentsHash", "gabi.createChallenge", "gabi.(*ProofS).Verify", "gabi.proveSignature",
		"keyproof.(*ValidKeyProofStructure).BuildProof", "keyproof.(*ValidKeyProofStructure).VerifyProof"}
	var out []*ssa.Function
	for _, k := range keys {
		if f := P.Func(k); f != nil {
			out = append(out, f)
		}
	}
	return out
}

func noMapOrderRule(P *Program, R *Report, rule string) {
	roots := challengeFeedingRoots(P)
	fns := P.reachableFuncs(roots...)
	R.decide(rule, "reach:count", "the challenge-feeding call tree is non-trivial (>= 40 functions)", len(fns) >= 40, fmt.Sprintf("%d functions", len(fns)), "")
	nLoops := 0
	for _, fn := range fns {
		R.seen(FuncKey(fn))
		for _, b := range fn.Blocks {
			for _, ins := range b.Instrs {
				nx, ok := ins.(*ssa.Next)
				if !ok {
					continue
				}
				rg, ok := nx.Iter.(*ssa.Range)
				if !ok {
					continue
				}
				if _, isMap := rg.X.Type().Underlying().(*types.Map); !isMap {
					continue
				}
				l := findLoop(b)
				if l == nil {
					continue
				}
				nLoops++
				mapDesc := desc(rg.X)
				var offenders []string
				for bb := range l.Body {
					for _, i2 := range bb.Instrs {
						switch y := i2.(type) {
						case *ssa.Call:
							if isCallTo(y, "builtin:append") {
								base := desc(callArgs(y)[0])
								if strings.Contains(base, "[rangekey("+mapDesc+")]") || base == mapDesc+"[*]" {
									continue // per-key bucket: order inside a bucket is not map order
								}
								if appendRootsInside(l, callArgs(y)[0], nil, map[ssa.Value]bool{}) {
									continue // slice restarts in every iteration of the map loop
								}
								if sortedAfterLoop(P, fn, l, y) {
									continue // collected keys are sorted before use
								}
								offenders = append(offenders, "append to "+base+" at "+P.Pos(y.Pos()))
							}
						case *ssa.Store:
							if ia, ok := y.Addr.(*ssa.IndexAddr); ok {
								if _, isSlice := ia.X.Type().Underlying().(*types.Slice); isSlice {
									idx := desc(ia.Index)
									if strings.Contains(idx, "rangekey("+mapDesc+")") {
										continue // slot determined by the key itself
									}
									// filled in map order under a running counter and sorted before any use: like append + sort
									if sortedAfterLoopV(P, fn, l, ia.X) {
										continue
									}
									offenders = append(offenders, "indexed store into "+desc(ia.X)+" at "+P.Pos(y.Pos()))
								}
							}
						}
					}
				}
				sort.Strings(offenders)
				R.decide(rule, FuncKey(fn)+":range("+mapDesc+")", "no order-sensitive accumulation in a range over a map on a challenge-feeding path",
					len(offenders) == 0, strings.Join(offenders, "; "), P.Pos(nx.Pos()))
			}
		}
	}
	R.decide(rule, "maploops:count", "map-range loops on challenge-feeding paths were found and inspected (>= 5)", nLoops >= 5, fmt.Sprintf("%d loops", nLoops), "")
}

func proofUContributionDeps(P *Program, R *Report, rule string) {
	fn := mustFunc(P, R, rule, kProofUCC)
	if fn == nil {
		return
	}
	roots := nonErrorReturnValues(fn, 0, 1)
	R.decide(rule, kProofUCC+":roots", "ChallengeContribution has a non-error return carrying a slice", len(roots) > 0, "", P.Pos(fn.Pos()))
	reqs := []depReq{
		{"U", is("<gabi.ProofU>.U"), "commitment"},
		{"C", is("<gabi.ProofU>.C"), "challenge exponent"},
		{"VPrimeResponse", is("<gabi.ProofU>.VPrimeResponse"), "exponent of S"},
		{"SResponse", is("<gabi.ProofU>.SResponse"), "exponent of R0"},
		{"MUserResponses[*]", is("<gabi.ProofU>.MUserResponses[*]"), "blind-attribute responses"},
		{"pk.S", is("<gabikeys.PublicKey>.S"), "S"},
		{"pk.N", is("<gabikeys.PublicKey>.N"), "modulus"},
		{"pk.R[0]", is("<gabikeys.PublicKey>.R[0]"), "secret-key base"},
		{"pk.R[key]", is("<gabikeys.PublicKey>.R[rangekey(<gabi.ProofU>.MUserResponses)]"), "blind-attribute bases"},
	}
	requireDeps(P, R, rule, kProofUCC, fn, roots, 4, reqs)
}

func proofListVerifyRule(P *Program, R *Report) {
	rule := "C02.c"
	fn := mustFunc(P, R, rule, kListVerify)
	if fn == nil {
		return
	}
	intGuard := func(check func(g Guard) bool) func(Atom) bool {
		return func(a Atom) bool {
			g, ok := parseGuard(a, nil)
			return ok && g.Kind == "int" && check(g)
		}
	}
	mp(P, R, rule, kListVerify+":nonempty", "accept => len(pl) != 0 was tested", fn, AcceptTrue(0), &MustPass{Match: intGuard(func(g Guard) bool {
		return g.Subject == "len(arg#0)" && g.BoundA.String() == "0" && (g.Rel == "!=" || g.Rel == ">")
	})})
	mp(P, R, rule, kListVerify+":len==keys", "accept => len(pl) == len(publicKeys) was tested", fn, AcceptTrue(0), &MustPass{Match: intGuard(func(g Guard) bool {
		return g.Rel == "==" && ((g.Subject == "len(arg#0)" && g.BoundA.String() == "len(arg#1)") || (g.Subject == "len(arg#1)" && g.BoundA.String() == "len(arg#0)"))
	})})
	mp(P, R, rule, kListVerify+":len==labels", "accept => labels given => len(pl) == len(keyshareServers)", fn, AcceptTrue(0), &MustPass{
		Match: intGuard(func(g Guard) bool {
			return g.Rel == "==" && ((g.Subject == "len(arg#0)" && g.BoundA.String() == "len(arg#5)") || (g.Subject == "len(arg#5)" && g.BoundA.String() == "len(arg#0)"))
		}),
		Exempt: intGuard(func(g Guard) bool {
			return g.Subject == "len(arg#5)" && g.BoundA.String() == "0" && (g.Rel == "<=" || g.Rel == "==")
		})})

	// the one expected challenge: a createChallenge call in Verify, or in the one unexported helper that collects
	// the contributions and returns the challenge computed from them
	var chall *ssa.Call      // the createChallenge call
	var challV ssa.Value     // its value as seen in Verify
	var hcall *ssa.Call      // the call of the helper in Verify (nil: computed in Verify itself)
	challFn := fn
	for _, c := range callsIn(fn) {
		if isCallTo(c, "gabi.createChallenge") {
			if chall != nil {
				R.bad(rule, kListVerify+":one-challenge", "exactly one expected challenge is computed", "more than one createChallenge call", P.Pos(c.Pos()))
				return
			}
			chall, _ = c.(*ssa.Call)
			challV = chall
		}
	}
	if chall == nil {
		for _, ci := range callsIn(fn) {
			c, isCall := ci.(*ssa.Call)
			h := staticCallee(ci)
			if !isCall || h == nil || h.Blocks == nil || h.Pkg != fn.Pkg || h.Object() == nil || h.Object().Exported() {
				continue
			}
			var inner *ssa.Call
			nInner := 0
			for _, c2 := range callsIn(h) {
				if isCallTo(c2, "gabi.createChallenge") {
					inner, _ = c2.(*ssa.Call)
					nInner++
				}
			}
			if nInner != 1 || inner == nil {
				continue
			}
			// returned as result 0 on the successful returns
			okRet := true
			for _, rv := range nonErrorReturnValues(h, 0, errIndex(h)) {
				if rv != ssa.Value(inner) {
					okRet = false
				}
			}
			if !okRet {
				continue
			}
			for _, r := range referrersOf(c) {
				if ex, isEx := r.(*ssa.Extract); isEx && ex.Index == 0 {
					if chall != nil {
						R.bad(rule, kListVerify+":one-challenge", "exactly one expected challenge is computed", "more than one challenge helper call", P.Pos(c.Pos()))
						return
					}
					chall, challV, hcall, challFn = inner, ex, c, h
				}
			}
		}
	}
	if chall == nil {
		R.bad(rule, kListVerify+":one-challenge", "exactly one expected challenge is computed with createChallenge", "no createChallenge call", P.Pos(fn.Pos()))
		return
	}
	challDef := chall.Block()
	if hcall != nil {
		challDef = hcall.Block()
	}
	// every proof verified against it
	fa := &ForAll{P: P, Spec: ForAllSpec{
		Coll: is("arg#0"),
		Body: func(f *ssa.Function, l *Loop) *MustPass {
			return &MustPass{Match: func(a Atom) bool {
				if a.Want != True {
					return false
				}
				c, _ := callAndResult(a.V)
				if c == nil || !c.Call.IsInvoke() || c.Call.Method.Name() != "VerifyWithChallenge" {
					return false
				}
				if desc(c.Call.Value) != "arg#0[#i]" || desc(callArgs(c)[0]) != "arg#1[#i]" {
					return false
				}
				if callArgs(c)[1] != challV {
					return false
				}
				// computed before the loop
				return !l.Body[challDef]
			}}
		}}}
	r := fa.OnAccept(fn, AcceptTrue(0))
	R.decide(rule, kListVerify+":forall-verify", "accept => for every i, pl[i].VerifyWithChallenge(publicKeys[i], X) returned true for the single X computed before the loop", r.Holds, r.Path, P.Pos(fn.Pos()))
	if hcall != nil {
		mp(P, R, rule, kListVerify+":challenge-error", "accept => computing the expected challenge returned no error", fn, AcceptTrue(0), &MustPass{NoInterproc: true, Match: func(a Atom) bool {
			c, idx := callAndResult(a.V)
			return c == hcall && idx == 1 && a.Want == Nil
		}})
	}

	// contributions: in-order concatenation (evaluated where the challenge is computed, in Verify's terms)
	run := func(f func()) {
		if hcall != nil {
			bindCall(hcall, challFn, f)
		} else {
			f()
		}
	}
	run(func() {
		okAcc, errAcc := AcceptTrue(0), AcceptNilErr(1)
		contribArg := callArgs(chall)[2]
		seq, call, ok := seqThroughCall(P, contribArg)
		want := "[(call:invoke:gabi.Proof.ChallengeContribution(arg#0[#i],arg#1[#i])#0...)*]"
		got := seqString(seq)
		if call != nil {
			got = substArgs(got, call)
		}
		if !ok {
			R.und(rule, kListVerify+":contributions", "contributions = in-order concatenation of pl[i].ChallengeContribution(publicKeys[i])", "slice construction idiom not recognised: "+desc(contribArg), P.Pos(chall.Pos()))
		} else {
			R.decide(rule, kListVerify+":contributions", "contributions = in-order concatenation of pl[i].ChallengeContribution(publicKeys[i])", got == want, "got "+got+" want "+want, P.Pos(chall.Pos()))
		}
		// an error from any ChallengeContribution rejects: the function computing the challenge succeeds only if the
		// collecting function returned nil error, and inside it every iteration's error is tested
		collector := challFn
		hostAcc := okAcc
		if challFn != fn {
			hostAcc = errAcc
		}
		if call != nil {
			collector = staticCallee(call)
			mp(P, R, rule, kListVerify+":contrib-error", "accept => collecting the contributions returned no error", challFn, hostAcc, &MustPass{Match: func(a Atom) bool {
				c, _ := callAndResult(a.V)
				return c == call && a.Want == Nil
			}})
		}
		if collector != nil {
			acc := okAcc
			if collector != fn {
				acc = errAcc
			}
			fa2 := &ForAll{P: P, Spec: ForAllSpec{Coll: func(d string) bool { return d == "arg#0" }, Body: func(f *ssa.Function, l *Loop) *MustPass {
				return &MustPass{Match: func(a Atom) bool {
					c, idx := callAndResult(a.V)
					return c != nil && a.Want == Nil && idx == 1 && c.Call.IsInvoke() && c.Call.Method.Name() == "ChallengeContribution"
				}}
			}}}
			var r2 forAllMemo
			if call != nil {
				bindCall(call, collector, func() { r2 = fa2.inFn(collector, acc) })
				if !r2.holds {
					r2 = fa2.inFn(collector, acc) // (the collector's own parameter names)
				}
			} else {
				r2 = fa2.inFn(collector, acc)
			}
			R.decide(rule, FuncKey(collector)+":each-error-tested", "every proof's ChallengeContribution error is tested and leads to rejection", r2.holds, r2.detail, P.Pos(collector.Pos()))
			R.seen(FuncKey(collector))
		}
	})
	// argument roles of the expected challenge: C02.f
}

// seqThroughCall evaluates a slice value; if it is the (extracted) result of a static module call, the
// callee's returned slice is evaluated instead and the call is returned for argument substitution.
func seqThroughCall(P *Program, v ssa.Value) ([]SeqElem, *ssa.Call, bool) {
	c, idx := callAndResult(v)
	if c != nil {
		if g := staticCallee(c); g != nil && inModuleFn(g) && g.Blocks != nil {
			var res []SeqElem
			have := false
			for _, rv := range nonErrorReturnValues(g, idx, errIndex(g)) {
				s, ok := seqOf(rv)
				if !ok {
					return nil, c, false
				}
				if have && seqString(s) != seqString(res) {
					return nil, c, false
				}
				res, have = s, true
			}
			return res, c, have
		}
	}
	s, ok := seqOf(v)
	return s, nil, ok
}

func errIndex(g *ssa.Function) int {
	res := g.Signature.Results()
	for i := 0; i < res.Len(); i++ {
		if isErrorType(res.At(i).Type()) {
			return i
		}
	}
	return -1
}

// appendRootsInside: the slice being appended to is (re)started inside the loop body on every
// iteration, so its element order does not depend on the iteration order of the loop.
func appendRootsInside(l *Loop, v ssa.Value, via *ssa.Phi, seen map[ssa.Value]bool) bool {
	if seen[v] {
		return true
	}
	seen[v] = true
	switch x := v.(type) {
	case *ssa.Phi:
		if x.Block() == l.Header || !l.Body[x.Block()] {
			return false
		}
		for _, e := range x.Edges {
			if !appendRootsInside(l, e, x, seen) {
				return false
			}
		}
		return true
	case *ssa.Call:
		if isCallTo(x, "builtin:append") {
			return appendRootsInside(l, callArgs(x)[0], via, seen)
		}
		return l.Body[x.Block()] && x.Block() != l.Header
	case *ssa.Const:
		return via != nil
	case ssa.Instruction:
		return l.Body[x.Block()] && x.Block() != l.Header
	}
	return false
}

// sortedAfterLoop: the slice accumulated in the map loop is passed to a sort function after the loop,
// and every later use of it is dominated by that sort.
func sortedAfterLoop(P *Program, fn *ssa.Function, l *Loop, app *ssa.Call) bool {
	return sortedAfterLoopV(P, fn, l, app)
}

// sortedAfterLoopV: the slice that v (an append in the loop, or the slice that is stored into there) belongs to is
// sorted after the loop, before any other use outside it.
func sortedAfterLoopV(P *Program, fn *ssa.Function, l *Loop, app ssa.Value) bool {
	sorted := false
	allInstrs(fn, func(i ssa.Instruction) {
		c, ok := i.(*ssa.Call)
		if !ok || l.Body[c.Block()] {
			return
		}
		switch calleeName(c) {
		case "sort.Ints", "sort.Strings", "slices.Sort", "sort.Slice", "sort.SliceStable", "slices.SortFunc":
		default:
			return
		}
		if deps(P, callArgs(c)[0])[app] {
			// the sort must dominate every other use of the accumulated slice outside the loop
			ok := true
			arg := callArgs(c)[0]
			for _, r := range referrersOf(arg) {
				if r == ssa.Instruction(c) || l.Body[r.Block()] {
					continue
				}
				if _, isDbg := r.(*ssa.DebugRef); isDbg {
					continue
				}
				if !(c.Block().Dominates(r.Block())) {
					ok = false
				}
				if c.Block() == r.Block() {
					// same block: sort must come first
					for _, ins := range c.Block().Instrs {
						if ins == r {
							ok = false
							break
						}
						if ins == ssa.Instruction(c) {
							break
						}
					}
				}
			}
			if ok {
				sorted = true
			}
		}
	})
	return sorted
}

// noCrossCallStateRule (C02.h): memo fields of proof objects. A field of a proof type that one function of the
// verification call tree both reads and (itself or through its callees) writes is a memo; every such read must
// follow a write of the same invocation.
func noCrossCallStateRule(P *Program, R *Report) {
	noCrossCallStateRuleFor(P, R, "C02.h", map[string]bool{"gabi.ProofD": true, "gabi.ProofU": true, "revocation.Proof": true, "rangeproof.Proof": true},
		[]string{kListVerify, kProofDVerify, kProofUVerify}, 3, nil)
}

// noCrossCallStateRuleFor: no field of the given object types that the call tree of the entries writes is read there
// before it was written in the same invocation (a value kept from an earlier call - a memo keyed on less than all
// its inputs - would make this call depend on that one). allowed: fields that are state by design.
func noCrossCallStateRuleFor(P *Program, R *Report, rule string, proofTypes map[string]bool, entryKeys []string, minWritten int, allowed map[string]string) {
	var entries []*ssa.Function
	for _, k := range entryKeys {
		if f := mustFunc(P, R, rule, k); f != nil {
			entries = append(entries, f)
		}
	}
	if len(entries) == 0 {
		return
	}
	descReroot = true
	defer func() { descReroot = false }()
	reach := P.reachableFuncs(entries...)
	fieldOf := func(addr ssa.Value) (string, bool) {
		fa, ok := addr.(*ssa.FieldAddr)
		if !ok {
			return "", false
		}
		// a field of the object, or of a struct held by value inside it
		owner := false
		for cur := fa; ; {
			if proofTypes[typeKey(cur.X.Type())] {
				owner = true
				break
			}
			inner, isFA := cur.X.(*ssa.FieldAddr)
			if !isFA {
				break
			}
			cur = inner
		}
		if !owner {
			return "", false
		}
		if _, fresh := rootOfAddr(fa.X).(*ssa.Alloc); fresh {
			return "", false
		}
		return desc(fa), true
	}
	// fields stored directly by each function
	direct := map[*ssa.Function]map[string]bool{}
	nWritten := map[string]bool{}
	for _, fn := range reach {
		direct[fn] = map[string]bool{}
		allInstrs(fn, func(i ssa.Instruction) {
			if st, ok := i.(*ssa.Store); ok {
				if d, ok := fieldOf(st.Addr); ok {
					direct[fn][d] = true
					nWritten[d] = true
				}
			}
		})
	}
	R.decide(rule, "written-fields:count", fmt.Sprintf("object fields written in this call tree were found (>= %d)", minWritten), len(nWritten) >= minWritten, strings.Join(sortedKeys(nWritten), ", "), "")
	// ... and through callees (bounded depth)
	var storedBy func(fn *ssa.Function, depth int, seen map[*ssa.Function]bool) map[string]bool
	storedBy = func(fn *ssa.Function, depth int, seen map[*ssa.Function]bool) map[string]bool {
		out := map[string]bool{}
		if seen[fn] || depth > 4 {
			return out
		}
		seen[fn] = true
		for d := range direct[fn] {
			out[d] = true
		}
		for _, c := range callsIn(fn) {
			for _, g := range P.callees(c) {
				if direct[g] != nil {
					for d := range storedBy(g, depth+1, seen) {
						out[d] = true
					}
				}
			}
		}
		return out
	}
	nMemo := 0
	for _, fn := range reach {
		stored := storedBy(fn, 0, map[*ssa.Function]bool{})
		if len(stored) == 0 {
			continue
		}
		type site struct {
			ld *ssa.UnOp
			d  string
		}
		var sites []site
		allInstrs(fn, func(i ssa.Instruction) {
			if ld, ok := i.(*ssa.UnOp); ok && ld.Op == token.MUL {
				if d, ok := fieldOf(ld.X); ok && stored[d] {
					sites = append(sites, site{ld, d})
				}
			}
		})
		byField := map[string][]site{}
		for _, s := range sites {
			byField[s.d] = append(byField[s.d], s)
		}
		for _, d := range sortedKeys(boolSetAgg(byField)) {
			if allowed[d] != "" {
				continue
			}
			nMemo++
			R.seen(FuncKey(fn))
			ok := true
			var why []string
			for _, s := range byField[d] {
				q := &MustPass{P: P, Instr: func(_ *ssa.Function, i ssa.Instruction) bool {
					st, isSt := i.(*ssa.Store)
					return isSt && desc(st.Addr) == d
				}}
				q.init()
				r := q.search(fn, AcceptAny(), 0, searchOpts{startAt: []*mpState{{b: s.ld.Block(), note: "read at " + P.Pos(s.ld.Pos())}}, startInstr: s.ld})
				if !r.Holds {
					ok = false
					why = append(why, P.Pos(s.ld.Pos())+": "+r.Path)
				}
			}
			R.decide(rule, FuncKey(fn)+":memo("+d+")", "a proof field that this function (or its callees) writes is read only after it was written in the same invocation", ok, strings.Join(why, "\n"), P.Pos(byField[d][0].ld.Pos()))
		}
	}
	if rule == "C02.h" {
		R.decide(rule, "memo-candidates:count", "functions that read and write the same object field were examined (>= 1)", nMemo >= 1, fmt.Sprintf("%d", nMemo), "")
	}
}

func boolSet(m map[string]string) map[string]bool {
	out := map[string]bool{}
	for k := range m {
		out[k] = true
	}
	return out
}

func boolSetAgg[T any](m map[string]T) map[string]bool {
	out := map[string]bool{}
	for k := range m {
		out[k] = true
	}
	return out
}
