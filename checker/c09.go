package main

import (
	"regexp"
	"go/constant"
	"fmt"
	"go/token"
	"strings"

	"golang.org/x/tools/go/ssa"
)

const (
	kWitUpdate = "revocation.(*Witness).Update"
	kProduct   = "revocation.(*Update).Product"
	witD       = "<revocation.Witness>"
)

// receiverStores: stores in fn whose address is rooted in the receiver (param 0), excluding local spills.
func receiverStores(fn *ssa.Function) []*ssa.Store {
	var out []*ssa.Store
	if len(fn.Params) == 0 {
		return nil
	}
	recv := fn.Params[0]
	allInstrs(fn, func(i ssa.Instruction) {
		st, ok := i.(*ssa.Store)
		if !ok {
			return
		}
		if rootOfAddr(st.Addr) == ssa.Value(recv) {
			out = append(out, st)
		}
	})
	return out
}

func init() {
	register("C09",
		Rule{ID: "C09.a", Explain: "commit-last: in Witness.Update no store through the receiver is followed, on any path, by a return with a non-nil error (a failed update leaves the witness exactly as it was).",
			Run: func(P *Program, R *Report) {
				fn := mustFunc(P, R, "C09.a", kWitUpdate)
				if fn == nil {
					return
				}
				sts := receiverStores(fn)
				// a helper of the package that is handed the receiver and writes through it is a store site as well
				var helperWrites []*ssa.Call
				for _, c := range callsIn(fn) {
					call, isC := c.(*ssa.Call)
					if !isC || len(callArgs(call)) == 0 || callArgs(call)[0] != ssa.Value(fn.Params[0]) {
						continue
					}
					if g := call.Call.StaticCallee(); g != nil && g != fn && inModuleFn(g) && g.Blocks != nil && len(receiverStores(g)) > 0 {
						helperWrites = append(helperWrites, call)
					}
				}
				R.decide("C09.a", kWitUpdate+":stores", "stores through the receiver were found (>= 4, counting calls of helpers that write through it)", len(sts)+len(helperWrites) >= 4, fmt.Sprintf("%d stores, %d helper calls", len(sts), len(helperWrites)), P.Pos(fn.Pos()))
				for _, call := range helperWrites {
					path := errorReachableFrom(P, fn, call, 0)
					R.decide("C09.a", kWitUpdate+":store-in("+calleeName(call)+")@"+fmt.Sprintf("b%d", call.Block().Index), "no error return is reachable after this call, which writes to the witness", path == "", "error return reachable: "+path, P.Pos(call.Pos()))
				}
				for _, st := range sts {
					path := errorReachableFrom(P, fn, st, 0)
					R.decide("C09.a", kWitUpdate+":store("+desc(st.Addr)+")@"+blockRole(st), "no error return is reachable after this store to the witness", path == "", "error return reachable: "+path, P.Pos(st.Pos()))
				}
			}},
		Rule{ID: "C09.b", Explain: "Witness.Update: U is replaced only after update.Verify(pk) returned nil, the GCD of the witness' E with the event product was compared with 1 (difference => ErrorRevoked), and the final relation check verify(newU, E, newAcc, pk) passed for the very value that is stored.",
			Run: func(P *Program, R *Report) { witnessUpdateGuards(P, R) }},
		Rule{ID: "C09.c", Explain: "never backwards: the accumulator/U are replaced on the main path only when the new index is greater than ours; on the same-index path only when the new time is greater.",
			Run: func(P *Program, R *Report) { neverBackwards(P, R) }},
		Rule{ID: "C09.d", Explain: "window: an update starting after our index+1 is an error; the event product is requested from exactly our index+1.",
			Run: func(P *Program, R *Report) { windowRule(P, R) }},
		Rule{ID: "C09.e", Explain: "memo-key completeness of Update.Product(from): a cached product is returned only under a comparison of the requested `from` with the index the cache was computed for; the computed product ranges over Events[from-Events[0].Index:]; Prepend keeps the cache key consistent.",
			Run: func(P *Program, R *Report) { productMemoRule(P, R) }},
		Rule{ID: "C09.g", Explain: "the values a history is made of are immutable: no function of the module mutates in place (big.Int mutator with it as receiver) an integer loaded from Event.E, Witness.E, Witness.U or Accumulator.Nu; new values are computed into fresh integers and assigned (one Update object, event list or accumulator is applied to many witnesses and re-verified by its hash chain).",
			Run: func(P *Program, R *Report) { historyValuesImmutableRule(P, R) }},
		Rule{ID: "C09.h", Explain: "a non-revoked witness stays valid: Witness.Update / Witness.Verify and everything below them return an error only for the specified reasons (bad signature or chain, window gap, common factor = revoked, failed final relation).",
			Run: func(P *Program, R *Report) { treeRejectionsRule(P, R, "C09.h", "witness", "the witness update call tree") }},
		Rule{ID: "C09.i", Explain: "the product an event list computes while being decoded is the product of all decoded events, accumulated into a fresh integer (same rule as C10.k): a short or aliased product breaks the witness update that later uses it / the round trip of the first event.",
			Run: func(P *Program, R *Report) { decodedProductRule(P, R, "C09.i") }},
		Rule{ID: "C09.f", Explain: "Accumulator.Remove / newWitness: new Nu = Nu^(e^-1 mod Order) mod N, index+1, the event carries e, the new index and the parent's hash; a fresh witness is u = Nu^(e^-1) (symbolic terms; inverses checked).",
			Run: func(P *Program, R *Report) { accumulatorRemoveRule(P, R) }},
		Rule{ID: "C09.k", Explain: "an update that has something new is applied: Witness.Update returns nil without having replaced the witness' accumulator only for the specified reasons - the update carries no events, it ends at or before our index, or it is for our index and not newer in time. Any other quiet return (a staleness shortcut on a clock value, a cache hit) leaves a witness behind the accumulator it was shown, or hides a revocation from its holder.",
			Run: func(P *Program, R *Report) { quietReturnsRule(P, R, "C09.k") }},
		Rule{ID: "C09.j", Explain: "one update object serves several witnesses and several polls: decoding the next message into a used Update does not write through objects that witnesses updated from it still hold (the decoders start from a zero-valued intermediate value, same rule as C18.n).",
			Run: func(P *Program, R *Report) { freshDecodeTargetRule(P, R, "C09.j") }},
	)
}

func blockRole(st *ssa.Store) string { return fmt.Sprintf("b%d", st.Block().Index) }

func witnessUpdateGuards(P *Program, R *Report) {
	rule := "C09.b"
	fn := mustFunc(P, R, rule, kWitUpdate)
	if fn == nil {
		return
	}
	var uStores []*ssa.Store
	for _, st := range receiverStores(fn) {
		if desc(st.Addr) == witD+".U" {
			uStores = append(uStores, st)
		}
	}
	R.decide(rule, kWitUpdate+":U-store", "exactly one store replaces the witness value U", len(uStores) == 1, fmt.Sprintf("%d", len(uStores)), P.Pos(fn.Pos()))
	for _, st := range uStores {
		newU := st.Val
		q := func(m func(Atom) bool) *MustPass { return &MustPass{P: P, Match: m} }
		r := q(func(a Atom) bool {
			c, idx := callAndResult(a.V)
			return c != nil && calleeIs(c, "revocation.(*Update).Verify") && idx == 1 && a.Want == Nil && desc(callArgs(c)[0]) == "<revocation.Update>" && desc(callArgs(c)[1]) == pkD
		}).MustReach(fn, st)
		R.decide(rule, kWitUpdate+":U:update-verified", "U replaced => update.Verify(pk) returned nil", r.Holds, r.Path, P.Pos(st.Pos()))
		r = q(func(a Atom) bool {
			c, ok := callAtom(a, True, "revocation.verify")
			if !ok {
				return false
			}
			ar := callArgs(c)
			return siteOf(ar[0]) == siteOf(newU) && desc(ar[1]) == witD+".E" && strings.HasPrefix(desc(ar[2]), "call:revocation.(*Update).Verify(") && desc(ar[3]) == pkD
		}).MustReach(fn, st)
		if !r.Holds {
			// the same test written out: newU^E mod N compared equal to the new accumulator's Nu
			// (in Update itself, or in whatever helper it hands newU, w.E, the new accumulator and the key to)
			r = (&MustPass{P: P, Match: func(a Atom) bool {
				x, y, ok := parseEq(a)
				if !ok {
					return false
				}
				bo, _ := a.V.(*ssa.BinOp)
				if bo == nil {
					return false
				}
				cmp, _ := stripConv(bo.X).(*ssa.Call)
				if cmp == nil {
					cmp, _ = stripConv(bo.Y).(*ssa.Call)
				}
				if cmp == nil || bigMethod(cmp) != "Cmp" {
					return false
				}
				for _, pr := range [][2]ssa.Value{{x, y}, {y, x}} {
					e := lastWriterBefore(pr[0], cmp)
					if e == nil || bigMethod(e) != "Exp" {
						continue
					}
					ar := callArgs(e)
					nuD := desc(pr[1])
					okNu := strings.HasPrefix(nuD, "call:revocation.(*Update).Verify(") && strings.HasSuffix(nuD, "#0.Nu")
					if a.Fn != fn && nuD == "<revocation.Accumulator>.Nu" {
						// inside a helper the accumulator is a parameter; it must be the verified new one at the call
						okNu = true
					}
					if siteOf(origin(ar[1])) == siteOf(newU) && desc(ar[2]) == witD+".E" && desc(ar[3]) == pkD+".N" && okNu {
						return true
					}
				}
				return false
			}}).MustReach(fn, st)
		}
		R.decide(rule, kWitUpdate+":U:relation-checked", "U replaced => verify(newU, w.E, newAcc, pk) was true for the stored value", r.Holds, r.Path, P.Pos(st.Pos()))
		var gcdIf *ssa.If
		r = q(func(a Atom) bool {
			x, y, ok := parseEq(a)
			if !ok {
				return false
			}
			for _, pr := range [][2]ssa.Value{{x, y}, {y, x}} {
				c, isC := pr[0].(*ssa.Call)
				if !isC || bigMethod(c) != "GCD" {
					continue
				}
				one := false
				if u, isU := pr[1].(*ssa.UnOp); isU {
					if g, isG := u.X.(*ssa.Global); isG {
						if k, okk := P.globalBigConst(g); okk && k == 1 {
							one = true
						}
					}
				}
				if !one {
					continue
				}
				ar := callArgs(c) // recv, x, y, a, b
				ds := []string{desc(ar[3]), desc(ar[4])}
				hasE, hasProd := false, false
				for _, d := range ds {
					if d == witD+".E" {
						hasE = true
					}
					if strings.HasPrefix(d, "call:"+kProduct+"(") {
						hasProd = true
					}
				}
				if hasE && hasProd {
					for _, rr := range referrersOf(a.V) {
						if iff, isIf := rr.(*ssa.If); isIf {
							gcdIf = iff
						}
					}
					return true
				}
			}
			return false
		}).MustReach(fn, st)
		R.decide(rule, kWitUpdate+":U:gcd-one", "U replaced => gcd(w.E, product of the revoked values) == 1 was tested", r.Holds, r.Path, P.Pos(st.Pos()))
		// the failing side of the gcd test returns ErrorRevoked
		okRev := false
		if gcdIf != nil {
			for _, s := range gcdIf.Block().Succs {
				if ret, isRet := s.Instrs[len(s.Instrs)-1].(*ssa.Return); isRet {
					if desc(retValue(ret, 0)) == "global:revocation.ErrorRevoked" {
						okRev = true
					}
				}
			}
		}
		if gcdIf != nil && gcdIf.Parent() != fn && !okRev {
			// the test sits in a helper: its failing side returns a constant flag, and the caller turns exactly
			// that flag value into ErrorRevoked
			g := gcdIf.Parent()
			for _, s := range gcdIf.Block().Succs {
				ret, isRet := s.Instrs[len(s.Instrs)-1].(*ssa.Return)
				if !isRet {
					continue
				}
				for k, rv := range ret.Results {
					cst, isC := rv.(*ssa.Const)
					if !isC || cst.Value == nil || cst.Value.Kind() != constant.Bool {
						continue
					}
					flag := constant.BoolVal(cst.Value)
					allInstrs(fn, func(i ssa.Instruction) {
						c, isCall := i.(*ssa.Call)
						if !isCall || c.Call.StaticCallee() != g {
							return
						}
						for _, r := range referrersOf(c) {
							ex, isEx := r.(*ssa.Extract)
							if !isEx || ex.Index != k {
								continue
							}
							for _, b := range fn.Blocks {
								iff, isIf := b.Instrs[len(b.Instrs)-1].(*ssa.If)
								if !isIf {
									continue
								}
								a := normAtom(Atom{Fn: fn, V: iff.Cond, Want: True})
								if a.V != ssa.Value(ex) {
									continue
								}
								// Succs[0] is taken when ex == (a.Want == True)
								for si, sb := range b.Succs {
									val := (a.Want == True) == (si == 0)
									if val != flag {
										continue
									}
									if ret2, isRet2 := sb.Instrs[len(sb.Instrs)-1].(*ssa.Return); isRet2 && desc(retValue(ret2, 0)) == "global:revocation.ErrorRevoked" {
										okRev = true
									}
								}
							}
						}
					})
				}
			}
		}
		R.decide(rule, kWitUpdate+":revoked-error", "a common factor is reported as ErrorRevoked", okRev, "", P.Pos(st.Pos()))
		// the new value's term
		t := termAtStore(P, fn, st)
		N := tsym(pkD + ".N")
		e := tsym(witD + ".E")
		prod := tsym("call:" + kProduct + "(<revocation.Update>,(" + witD + ".SignedAccumulator.Accumulator.Index+1))")
		nu := tsym("call:revocation.(*Update).Verify(<revocation.Update>," + pkD + ")#0.Nu")
		want := termFn("Mod", tmul(termFn("Exp", tsym(witD+".U"), termFn("BezoutY", e, prod), N), termFn("Exp", nu, termFn("BezoutX", e, prod), N)), N)
		R.decide(rule, kWitUpdate+":U:term", "newU = U^b * newNu^a mod N with (a, b) the Bezout coefficients of (E, product)", t.equal(want), "got "+t.String()+"\nwant "+want.String(), P.Pos(st.Pos()))
	}
}

func neverBackwards(P *Program, R *Report) {
	rule := "C09.c"
	fn := mustFunc(P, R, rule, kWitUpdate)
	if fn == nil {
		return
	}
	newIdx := func(d string) bool { return strings.HasPrefix(d, "call:revocation.(*Update).Verify(") && strings.HasSuffix(d, "#0.Index") }
	ourIdx := func(d string) bool { return d == witD+".SignedAccumulator.Accumulator.Index" }
	newT := func(d string) bool { return strings.HasPrefix(d, "call:revocation.(*Update).Verify(") && strings.HasSuffix(d, "#0.Time") }
	ourT := func(d string) bool { return d == witD+".SignedAccumulator.Accumulator.Time" }
	rel := func(a Atom, xs, ys func(string) bool, wantRel string) bool {
		bo, ok := a.V.(*ssa.BinOp)
		if !ok {
			return false
		}
		r := tokRel(bo.Op)
		if r == "" || (a.Want != True && a.Want != False) {
			return false
		}
		if a.Want == False {
			r = relNeg[r]
		}
		dx, dy := desc(bo.X), desc(bo.Y)
		if xs(dx) && ys(dy) {
			return r == wantRel
		}
		if xs(dy) && ys(dx) {
			return relFlip[r] == wantRel
		}
		return false
	}
	n := 0
	for _, st := range receiverStores(fn) {
		d := desc(st.Addr)
		if d == witD+".Updated" {
			continue
		}
		n++
		qGreater := &MustPass{P: P, Match: func(a Atom) bool { return rel(a, newIdx, ourIdx, ">") }}
		qSame := &MustPass{P: P, Match: func(a Atom) bool { return rel(a, newT, ourT, ">") }}
		qSameIdx := &MustPass{P: P, Match: func(a Atom) bool { return rel(a, newIdx, ourIdx, "==") }}
		r1 := qGreater.MustReach(fn, st)
		r2 := qSame.MustReach(fn, st)
		r3 := qSameIdx.MustReach(fn, st)
		ok := r1.Holds || (r2.Holds && r3.Holds)
		R.decide(rule, kWitUpdate+":forward-only:"+d+"@"+blockRole(st), "the witness state is replaced only by a newer accumulator (greater index, or same index and later time)", ok,
			"neither index-greater nor (same index and time-greater) is established: "+r1.Path, P.Pos(st.Pos()))
	}
	R.decide(rule, kWitUpdate+":stores", "state-replacing stores found (>= 3)", n >= 3, fmt.Sprintf("%d", n), P.Pos(fn.Pos()))
}

func windowRule(P *Program, R *Report) {
	rule := "C09.d"
	fn := mustFunc(P, R, rule, kWitUpdate)
	if fn == nil {
		return
	}
	var uStore *ssa.Store
	for _, st := range receiverStores(fn) {
		if desc(st.Addr) == witD+".U" {
			uStore = st
		}
	}
	if uStore == nil {
		R.bad(rule, kWitUpdate+":U-store", "store of U exists", "", P.Pos(fn.Pos()))
		return
	}
	q := &MustPass{P: P, Match: func(a Atom) bool {
		g, ok := parseGuard(a, nil)
		if !ok || g.Kind != "int" {
			return false
		}
		start, ours := "<revocation.Update>.Events[0].Index", witD+".SignedAccumulator.Accumulator.Index+1"
		return (g.Subject == start && g.Rel == "<=" && g.BoundA.String() == parseAffine(ours).String()) ||
			(g.Subject == parseAffine(ours).String() && g.Rel == ">=" && g.BoundA.String() == start)
	}}
	r := q.MustReach(fn, uStore)
	R.decide(rule, kWitUpdate+":no-gap", "U replaced => the update's first event index is at most our index + 1 (no gap)", r.Holds, r.Path, P.Pos(uStore.Pos()))
	okFrom := false
	for _, c := range callsIn(fn) {
		if isCallTo(c, kProduct) {
			a, ok := affineOf(callArgs(c)[1])
			okFrom = ok && a.String() == parseAffine(witD+".SignedAccumulator.Accumulator.Index+1").String()
		}
	}
	R.decide(rule, kWitUpdate+":product-from", "the product of revoked values is taken from our index + 1", okFrom, "", P.Pos(fn.Pos()))
}

func productMemoRule(P *Program, R *Report) {
	rule := "C09.e"
	fn := mustFunc(P, R, rule, kProduct)
	if fn == nil {
		return
	}
	upd := "<revocation.Update>"
	// cached returns: returns of a load of the receiver's product field
	nCached := 0
	for _, ret := range returnsOf(fn) {
		v := retValue(ret, 0)
		if desc(v) != upd+".product" {
			continue
		}
		if _, isLoad := v.(*ssa.UnOp); !isLoad {
			continue
		}
		nCached++
		keyed := false
		var conds []string
		var atoms []Atom
		for _, a := range controllingConds(ret.Block()) {
			atoms = append(atoms, conjunctsOf(a)...)
		}
		for _, a := range atoms {
			a = normAtom(a)
			conds = append(conds, fmt.Sprintf("%s is %s", desc(a.V), a.Want))
			if bo, ok := a.V.(*ssa.BinOp); ok {
				dx, dy := desc(bo.X), desc(bo.Y)
				eq := (bo.Op == token.EQL && a.Want == True) || (bo.Op == token.NEQ && a.Want == False)
				if eq && ((dx == "arg#1" && strings.HasPrefix(dy, upd+".")) || (dy == "arg#1" && strings.HasPrefix(dx, upd+"."))) {
					keyed = true
				}
			}
		}
		if !keyed {
			// the same as a question over paths (a named boolean, a negated disjunction, a switch): every path to
			// this return established the key equality
			q := (&MustPass{P: P, NoInterproc: true, Match: func(a Atom) bool {
				a = normAtom(a)
				bo, ok := a.V.(*ssa.BinOp)
				if !ok {
					return false
				}
				dx, dy := desc(bo.X), desc(bo.Y)
				eq := (bo.Op == token.EQL && a.Want == True) || (bo.Op == token.NEQ && a.Want == False)
				return eq && ((dx == "arg#1" && strings.HasPrefix(dy, upd+".")) || (dy == "arg#1" && strings.HasPrefix(dx, upd+".")))
			}}).MustReach(fn, ret)
			keyed = q.Holds
		}
		R.decide(rule, kProduct+":cached-return@"+fmt.Sprintf("b%d", ret.Block().Index), "the cached product is returned only when it was computed for the requested `from`", keyed, "controlling conditions: "+strings.Join(conds, "; "), P.Pos(ret.Pos()))
	}
	R.decide(rule, kProduct+":cache", "the function has a cached path (memoisation present and inspected)", nCached >= 1, fmt.Sprintf("%d cached returns", nCached), P.Pos(fn.Pos()))
	// stores to the cache and its key happen together
	// (in Product or in the unexported helper that computes on a cache miss, seen with `from` bound)
	var stProd, stKey *ssa.Store
	okWin := false
	deepVisit(P, fn, 1, func(g *ssa.Function) {
		for _, st := range receiverStores(g) {
			switch desc(st.Addr) {
			case upd + ".product":
				stProd = st
			default:
				if desc(st.Val) == "arg#1" {
					stKey = st
				}
			}
		}
		allInstrs(g, func(i ssa.Instruction) {
			if sl, ok := i.(*ssa.Slice); ok && desc(sl.X) == upd+".Events" && sl.Low != nil && sl.High == nil {
				a, ok := affineOf(sl.Low)
				okWin = okWin || (ok && a.String() == parseAffine("arg#1-"+upd+".Events[0].Index").String())
			}
		})
	})
	R.decide(rule, kProduct+":key-recorded", "whenever the cache is filled, the `from` it was computed for is recorded with it", stProd != nil && stKey != nil && stProd.Block() == stKey.Block(), "", P.Pos(fn.Pos()))
	// the computed product ranges over Events[from - Events[0].Index:]
	R.decide(rule, kProduct+":window", "the product ranges over the events from index `from` on", okWin, "", P.Pos(fn.Pos()))
	// ... and a miss recomputes from the events alone: the remembered product (computed for another `from`) is never an
	// operand of the new one. (An incremental extension of the cache would be a second window to get right - the
	// event at the old key counted once - and is not among the forms this rule knows: it reports it.)
	okFresh := true
	var detail []string
	deepVisit(P, fn, 1, func(g *ssa.Function) {
		for _, c := range callsIn(g) {
			call, isC := c.(*ssa.Call)
			if !isC || bigMethod(c) == "" || !bigMutators[bigMethod(c)] {
				continue
			}
			for _, a := range callArgs(call)[1:] {
				if d := desc(siteOf(a)); d == upd+".product" {
					okFresh = false
					detail = append(detail, P.Pos(call.Pos())+": "+bigMethod(c)+" takes the remembered product as an operand")
				}
			}
		}
	})
	R.decide(rule, kProduct+":miss-recomputes-from-events", "on a cache miss the product is computed from the events alone; the remembered product is not an operand of it", okFresh, strings.Join(detail, "\n"), P.Pos(fn.Pos()))
	// Prepend
	if pf := mustFunc(P, R, rule, "revocation.(*Update).Prepend"); pf != nil {
		// the merged update's cache is either dropped or re-keyed to the new first index
		be := P.bigEval(pf)
		_ = be
		okKey := false
		nNil := false
		for _, s := range sinksOf(pf) {
			if s.target == "new:revocation.Update.productFrom" {
				okKey = strings.HasSuffix(desc(s.val), ".Events[0].Index") || strings.Contains(desc(s.val), "Events[0].Index")
			}
			if s.target == "new:revocation.Update.product" && isNilConst(s.val) {
				nNil = true
			}
		}
		R.decide(rule, FuncKey(pf)+":cache-key", "after prepending, the cached product is re-keyed to the new first event index (or dropped)", okKey && nNil, "", P.Pos(pf.Pos()))
	}
	prependProductRule(P, R, rule)
	// every other writer of the event list drops the memo: the cache key names only `from`, so whoever
	// replaces update.Events in an existing object must invalidate the cached product in the same call
	nWriters := 0
	for _, g := range P.AllFuncs {
		if g.Blocks == nil {
			continue
		}
		allInstrs(g, func(i ssa.Instruction) {
			st, ok := i.(*ssa.Store)
			if !ok {
				return
			}
			fa, ok := st.Addr.(*ssa.FieldAddr)
			if !ok || faType(fa) != "revocation.Update" || faName(fa) != "Events" {
				return
			}
			if _, fresh := rootOfAddr(fa.X).(*ssa.Alloc); fresh {
				return // a new object has no memo yet
			}
			nWriters++
			root := rootOfAddr(fa.X)
			q := &MustPass{P: P, Instr: func(_ *ssa.Function, j ssa.Instruction) bool {
				s2, ok := j.(*ssa.Store)
				if !ok {
					return false
				}
				f2, ok := s2.Addr.(*ssa.FieldAddr)
				if !ok || faType(f2) != "revocation.Update" || rootOfAddr(f2.X) != root {
					return false
				}
				return faName(f2) == "product" && isNilConst(s2.Val)
			}}
			q.init()
			okAll := true
			var why []string
			// dropped before the replacement on every path to it ...
			if q.MustReach(g, st).Holds {
				R.decide(rule, FuncKey(g)+":events-replaced", "a function that replaces the event list of an existing Update drops the cached product in the same call", true, "", P.Pos(st.Pos()))
				return
			}
			// ... or afterwards, before any return
			for _, r := range returnsOf(g) {
				res := q.search(g, AcceptAny(), 0, searchOpts{startAt: []*mpState{{b: r.Block(), note: "return at " + P.Pos(r.Pos())}}, startInstr: r, terminal: st.Block()})
				if !res.Holds {
					okAll = false
					why = append(why, res.Path)
				}
			}
			R.decide(rule, FuncKey(g)+":events-replaced", "a function that replaces the event list of an existing Update drops the cached product in the same call", okAll, strings.Join(why, "\n"), P.Pos(st.Pos()))
		})
	}
	R.decide(rule, "events-writers:count", "writers of Update.Events on existing objects were found (>= 1: the decoder)", nWriters >= 1, fmt.Sprintf("%d", nWriters), "")
}

func accumulatorRemoveRule(P *Program, R *Report) {
	rule := "C09.f"
	if fn := mustFunc(P, R, rule, "revocation.(*Accumulator).Remove"); fn != nil {
		fs := litFieldStores(fn, "new:revocation.Accumulator")
		sk := "<gabikeys.PrivateKey>"
		inv := termFn("ModInverse", tsym("arg#2"), tsym(sk+".Order"))
		wantNu := termFn("Exp", tsym("<revocation.Accumulator>.Nu"), inv, tsym(sk+".N"))
		got := termAtStore(P, fn, fs["Nu"])
		R.decide(rule, FuncKey(fn)+":Nu", "new Nu = Nu^(e^-1 mod Order) mod N", got.equal(wantNu), "got "+got.String()+" want "+wantNu.String(), P.Pos(fn.Pos()))
		idx := ""
		if st := fs["Index"]; st != nil {
			a, _ := affineOf(st.Val)
			idx = a.String()
		}
		R.decide(rule, FuncKey(fn)+":Index", "new index = index + 1", idx == parseAffine("<revocation.Accumulator>.Index+1").String(), "got "+idx, P.Pos(fn.Pos()))
		es := litFieldStores(fn, "new:revocation.Event")
		ge := map[string]string{}
		for f, st := range es {
			ge[f] = desc(st.Val)
		}
		evIdx := ""
		if st := es["Index"]; st != nil {
			if a, ok := affineOf(st.Val); ok {
				evIdx = a.String()
			}
		}
		R.decide(rule, FuncKey(fn)+":event", "the event carries e, the new index and the hash of its parent",
			ge["E"] == "arg#2" && (ge["Index"] == "new:revocation.Accumulator.Index" || evIdx == parseAffine("<revocation.Accumulator>.Index+1").String()) && ge["ParentHash"] == "call:revocation.hash(<revocation.Event>)", fmt.Sprint(ge), P.Pos(fn.Pos()))
		// EventHash of the new accumulator is the hash of that event
		okH := false
		for _, s := range sinksOf(fn) {
			if s.target == "new:revocation.Accumulator.EventHash" {
				okH = desc(s.val) == "call:revocation.hash(new:revocation.Event)"
			}
		}
		R.decide(rule, FuncKey(fn)+":EventHash", "the new accumulator commits to the hash of the new event", okH, "", P.Pos(fn.Pos()))
		mp(P, R, rule, FuncKey(fn)+":inverse-checked", "an accumulator is returned only if e is invertible", fn, AcceptNilErr(2), &MustPass{Match: func(a Atom) bool {
			c, idx := callAndResult(a.V)
			return c != nil && calleeIs(c, "common.ModInverse") && idx == 1 && a.Want == True
		}})
	}
	if fn := mustFunc(P, R, rule, "revocation.newWitness"); fn != nil {
		fs := litFieldStores(fn, "new:revocation.Witness")
		sk := "<gabikeys.PrivateKey>"
		want := termFn("Exp", tsym("<revocation.Accumulator>.Nu"), termFn("ModInverse", tsym("arg#2"), tsym(sk+".Order")), tsym(sk+".N"))
		got := termAtStore(P, fn, fs["U"])
		R.decide(rule, FuncKey(fn)+":U", "u = Nu^(e^-1 mod Order) mod N", got.equal(want), "got "+got.String(), P.Pos(fn.Pos()))
		e := ""
		if st := fs["E"]; st != nil {
			e = desc(st.Val)
		}
		R.decide(rule, FuncKey(fn)+":E", "the witness carries e", e == "arg#2", e, P.Pos(fn.Pos()))
	}
	// Witness.Verify reports a witness as valid only if the relation holds for the witness's own pair and accumulator
	if fn := mustFunc(P, R, rule, "revocation.(*Witness).Verify"); fn != nil {
		lhs := termFn("Exp", tsym(witD+".U"), tsym(witD+".E"), tsym(pkD+".N"))
		isNu := func(d string) bool {
			return d == witD+".SignedAccumulator.Accumulator.Nu" || d == "<revocation.Accumulator>.Nu" ||
				(strings.HasPrefix(d, "call:revocation.(*SignedAccumulator).UnmarshalVerify("+witD+".SignedAccumulator,") && strings.HasSuffix(d, "#0.Nu"))
		}
		// (the comparison itself, in Verify or in the helper it hands the pair, the accumulator and the key to: the helper
		// is looked into with its parameters bound, whatever it is called and however its parameters are ordered)
		mp(P, R, rule, "revocation.(*Witness).Verify:relation", "nil => u^e mod N compared equal to Nu of the witness's own accumulator (verify(w.U, w.E, w.SignedAccumulator.Accumulator, pk) true)", fn, AcceptNilErr(0), &MustPass{Match: func(a Atom) bool {
			t0, t1, ok := eqTerms(a, P.bigEval(a.Fn))
			if !ok {
				return false
			}
			return (t0.equal(lhs) && isNu(t1.opaqueName())) || (t1.equal(lhs) && isNu(t0.opaqueName()))
		}})
		mp(P, R, rule, "revocation.(*Witness).Verify:accumulator", "nil => the witness's signed accumulator verified under the given key", fn, AcceptNilErr(0), &MustPass{Match: func(a Atom) bool {
			c, idx := callAndResult(a.V)
			return c != nil && idx == 1 && a.Want == Nil && isCallTo(c, "revocation.(*SignedAccumulator).UnmarshalVerify") && desc(callArgs(c)[0]) == witD+".SignedAccumulator" && desc(callArgs(c)[1]) == pkD
		}})
	}
	if fn := P.Func("revocation.verify"); fn != nil && len(fn.Params) == 4 { // (when inlined, renamed or reshaped, C09.b checks the test where it is made)
		be := P.bigEval(fn)
		mp(P, R, rule, "revocation.verify:relation", "verify is true only if u^e mod N compared equal to the accumulator's Nu", fn, AcceptTrue(0),
			&MustPass{Match: eqTermMatcher(be, termFn("Exp", tsym("arg#0"), tsym("arg#1"), tsym(pkD+".N")), tsym("<revocation.Accumulator>.Nu"))})
	}
}

// loadedFromFields: v is (possibly through phis) a *big.Int loaded from one of the tabled struct fields.
func loadedFromFields(v ssa.Value, table map[string]bool) (string, bool) {
	seen := map[ssa.Value]bool{}
	var walk func(x ssa.Value) (string, bool)
	walk = func(x ssa.Value) (string, bool) {
		if seen[x] {
			return "", false
		}
		seen[x] = true
		switch y := x.(type) {
		case *ssa.Phi:
			for _, e := range y.Edges {
				if s, ok := walk(e); ok {
					return s, true
				}
			}
		case *ssa.ChangeType:
			return walk(y.X)
		case *ssa.UnOp:
			if y.Op != token.MUL {
				return "", false
			}
			switch a := y.X.(type) {
			case *ssa.FieldAddr:
				k := faType(a) + "." + faName(a)
				if table[k] {
					return k, true
				}
			case *ssa.Alloc:
				// local variable holding the pointer
				for _, r := range referrersOf(a) {
					if st, ok := r.(*ssa.Store); ok && st.Addr == ssa.Value(a) {
						if s, ok := walk(st.Val); ok {
							return s, true
						}
					}
				}
			}
		case *ssa.Field:
			k := typeKey(y.X.Type()) + "." + fieldName(y.X.Type(), y.Field)
			if table[k] {
				return k, true
			}
		case *ssa.Call:
			// x.Set(..)/x.Mul(..) return their receiver
			if m := bigMethod(y); m != "" && bigMutators[m] && len(callArgs(y)) > 0 {
				return walk(callArgs(y)[0])
			}
		}
		return "", false
	}
	return walk(v)
}

func historyValuesImmutableRule(P *Program, R *Report) {
	rule := "C09.g"
	table := map[string]bool{"revocation.Event.E": true, "revocation.Witness.E": true, "revocation.Witness.U": true, "revocation.Accumulator.Nu": true}
	nReads, nMut := 0, 0
	bad := map[string]string{}
	for _, fn := range P.AllFuncs {
		if fn.Blocks == nil {
			continue
		}
		allInstrs(fn, func(i ssa.Instruction) {
			c, ok := i.(*ssa.Call)
			if !ok {
				return
			}
			m := bigMethod(c)
			if m == "" {
				return
			}
			for k, a := range callArgs(c) {
				if f, is := loadedFromFields(a, table); is {
					nReads++
					if k == 0 && bigMutators[m] {
						nMut++
						bad[FuncKey(fn)+":in-place("+f+")"] = fmt.Sprintf("%s: %s.%s(...) overwrites the shared value", P.Pos(c.Pos()), f, m)
					}
				}
			}
		})
	}
	R.decide(rule, "uses:count", "uses of event / witness / accumulator integers as big.Int operands were found (>= 8)", nReads >= 8, fmt.Sprintf("%d", nReads), "")
	for _, k := range sortedKeys(boolSet(bad)) {
		R.bad(rule, k, "no in-place mutation of an integer that belongs to an event, witness or accumulator", bad[k], "")
	}
	if len(bad) == 0 {
		R.ok(rule, "revocation:history-values-immutable", fmt.Sprintf("none of the %d operand uses is the receiver of a mutating big.Int method", nReads))
	}
}

// prependProductRule: in Update.Prepend the product of the merged update starts from Product() of the NEW
// object over its own (trimmed) events - not from the receiver's cached product, which covers other
// events and whose integer is shared with the receiver (a refused Prepend must leave the receiver intact).
func prependProductRule(P *Program, R *Report, rule string) {
	pf := mustFunc(P, R, rule, "revocation.(*Update).Prepend")
	if pf == nil {
		return
	}
	n, ok := 0, true
	var detail []string
	allInstrs(pf, func(i ssa.Instruction) {
		st, isSt := i.(*ssa.Store)
		if !isSt || desc(st.Addr) != "new:revocation.Update.product" || isNilConst(st.Val) {
			return
		}
		n++
		site := siteOf(st.Val)
		c, isCall := site.(*ssa.Call)
		if !isCall || !calleeIs(c, kProduct) || desc(callArgs(c)[0]) != "new:revocation.Update" {
			ok = false
			detail = append(detail, P.Pos(st.Pos())+": the merged product starts from "+desc(site))
			return
		}
		if d := desc(callArgs(c)[1]); !strings.Contains(d, "new:revocation.Update.Events[0].Index") {
			ok = false
			detail = append(detail, P.Pos(st.Pos())+": Product is asked for "+d)
		}
	})
	R.decide(rule, "revocation.(*Update).Prepend:product-of-merged", "the merged update's product is computed by the new object over its own retained events (fresh integer, right window)", ok && n >= 1, strings.Join(detail, "\n"), P.Pos(pf.Pos()))
	// and the in-place multiplication happens on that fresh value only
	okMul := true
	for _, c := range callsIn(pf) {
		call, isC := c.(*ssa.Call)
		if !isC || bigMethod(c) == "" || !bigMutators[bigMethod(c)] {
			continue
		}
		if d := desc(siteOf(callArgs(call)[0])); strings.HasPrefix(d, "<revocation.Update>") || strings.HasPrefix(d, "<revocation.EventList>") {
			okMul = false
			detail = append(detail, P.Pos(call.Pos())+": in-place "+bigMethod(c)+" on "+d)
		}
	}
	R.decide(rule, "revocation.(*Update).Prepend:no-in-place-on-inputs", "Prepend multiplies into the new object's product only, never into the receiver's or the list's", okMul, strings.Join(detail, "\n"), P.Pos(pf.Pos()))
}

// quietReturnsRule: see C09.k.
var quietReasons = []struct{ re, why string }{
	{`^len\(<revocation\.Update>\.Events\)\|int\|(==\|0|<\|1)$`, "the update carries no events: nothing to apply"},
	{`^ourAcc\.Index\|int\|(>=|==)\|newAcc\.Index$`, "the update ends at or before the witness' index (same index: the time decides, C09.c): nothing new"},
	{`^newAcc\.Index\|int\|(<|==)\|ourAcc\.Index(\+1)?$`, "the same, written the other way round"},
	{`^ourAcc\.Time\|int\|>=\|newAcc\.Time$`, "same index and not newer in time: nothing new"},
	{`^newAcc\.Time\|int\|<\|ourAcc\.Time\+1$`, "the same, written the other way round"},
}

var newAccCall = regexp.MustCompile(`call:revocation\.\(\*Update\)\.Verify\([^)]*\)#0`)

func quietReturnsRule(P *Program, R *Report, rule string) {
	fn := mustFunc(P, R, rule, kWitUpdate)
	if fn == nil {
		return
	}
	be := P.bigEval(fn)
	n := 0
	for _, r := range returnsOf(fn) {
		if retCount(r) != 1 || !isNilConst(retValue(r, 0)) {
			continue
		}
		applied := (&MustPass{P: P, NoInterproc: true, Instr: func(_ *ssa.Function, i ssa.Instruction) bool {
			st, ok := i.(*ssa.Store)
			return ok && strings.HasPrefix(desc(st.Addr), "<revocation.Witness>.SignedAccumulator")
		}}).MustReach(fn, r)
		if applied.Holds {
			continue
		}
		n++
		canon := func(a Atom) string {
			_, t := reasonOf(a, be)
			t = newAccCall.ReplaceAllString(t, "newAcc")
			return strings.ReplaceAll(t, "<revocation.Witness>.SignedAccumulator.Accumulator", "ourAcc")
		}
		// on every path to this return one of the "nothing new" conditions was established
		q := (&MustPass{P: P, NoInterproc: true, Match: func(a Atom) bool {
			t := canon(a)
			for _, qr := range quietReasons {
				if matches(qr.re)(t) {
					return true
				}
			}
			return false
		}}).MustReach(fn, r)
		var all []string
		for _, c := range controllingConds(r.Block()) {
			all = append(all, canon(c))
		}
		reason := "nothing-new"
		if !q.Holds {
			reason = "unconditional"
			if len(all) > 0 {
				reason = all[0]
			}
		}
		R.decide(rule, kWitUpdate+":quiet-return:"+reason, "a return of nil that leaves the witness as it was is reached only under one of the specified conditions (no events, not beyond our index, same index and not newer)", q.Holds, "dominating conditions: "+strings.Join(all, " ; ")+"\n"+q.Path, P.Pos(r.Pos()))
	}
	R.decide(rule, kWitUpdate+":quiet-returns", "the quiet returns were enumerated (>= 1)", n >= 1, fmt.Sprintf("%d", n), P.Pos(fn.Pos()))
}
