package main

import (
	"fmt"
	"go/token"
	"os"
	"strings"

	"golang.org/x/tools/go/ssa"
)

func init() {
	register("C19",
		Rule{ID: "C19.a", Explain: "ModInverse: ok is true only after gcd(a, n) == 1 was tested; the value returned is the Bezout coefficient of a (made positive by adding n when it is < 1); on failure nothing but nil is returned (absence reported, not guessed).",
			Run: func(P *Program, R *Report) { modInverseRule(P, R) }},
		Rule{ID: "C19.b", Explain: "ModPow: a negative exponent is served by Exp(ModInverse(x, m), -y, m) only after the inverse was tested non-nil, otherwise an error and no value; a non-negative one by Exp(x, y, m) (symbolic terms of the returned values).",
			Run: func(P *Program, R *Report) { modPowRule(P, R) }},
		Rule{ID: "C19.c", Explain: "Crt: returns only after gcd(pa, pb) == 1 was tested (panics otherwise); the returned term is (a * [coefficient of pb] * pb + b * [coefficient of pa] * pa) mod (pa * pb).",
			Run: func(P *Program, R *Report) { crtRule(P, R) }},
		Rule{ID: "C19.d", Explain: "PrimeSqrt: existence is reported correctly in shape: true is returned only for a == 0 or after Euler's criterion a^(p>>1) mod p == 1 was tested; the p = 3 mod 4 shortcut returns a^((p>>2)+1) mod p under that residue test.",
			Run: func(P *Program, R *Report) { primeSqrtRule(P, R) }},
		Rule{ID: "C19.e", Explain: "ModSqrt: true is returned only if for EVERY factor either it is 4 and a's second bit is clear or PrimeSqrt(a mod factor, factor) reported a root; partial results are recombined by Crt against the running product of the factors seen so far.",
			Run: func(P *Program, R *Report) { modSqrtRule(P, R) }},
		Rule{ID: "C19.f", Explain: "FastMod: Set derives b = |p|, c = 2^b - p, mask = 2^b - 1 and enables the fast path only for |c| < 60 bits; Mod falls back to big.Int.Mod for negative arguments and when disabled, and every result of the fast path is reduced below p (final conditional subtraction).",
			Run: func(P *Program, R *Report) { fastModRule(P, R) }},
		Rule{ID: "C19.g", Explain: "RandomPrimeInRange returns 2^start + offset, offset decoded from ceil(length/8) random bytes masked to `length` bits, only after ProbablyPrime(k >= 20) (same rule as C05.c).",
			Run: func(P *Program, R *Report) { randomPrimeInRangeRule(P, R, "C19.g") }},
		Rule{ID: "C19.k", Explain: "the helpers leave their inputs unchanged: no exported function of internal/common writes in place (or stores) a *big.Int parameter, except the tabled result parameters.",
			Run: func(P *Program, R *Report) { pureInputsRule(P, R, "C19.k") }},
		Rule{ID: "C19.h", Explain: "ProbablySafePrime is true only if x and x>>1 both pass ProbablyPrime with the caller's round count; safeprime.Generate returns 2q+1 for a candidate q of bitsize-1 bits only after ProbablySafePrime(k >= 40) (same rules as C16.b).",
			Run: func(P *Program, R *Report) { safeprimeGenerateRule19(P, R) }},
		Rule{ID: "C19.j", Explain: "package-level big.Int constants (bigONE, bigZERO, two, ...) are only read: never the receiver of a mutating method, never returned to a caller, never stored into a structure - an escaped constant is modified by its new owner's next in-place operation and corrupts every later computation of the process.",
			Run: func(P *Program, R *Report) { sharedConstantsRule(P, R, "C19.j") }},
		Rule{ID: "C19.i", Explain: "Group.Exp: a negative exponent is replaced by exponent + group order before use, and the table exponentiation is reached only after the exponent was tested below the group order.",
			Run: func(P *Program, R *Report) { groupExpRule(P, R) }},
		Rule{ID: "C19.l", Explain: "the helpers refuse what they are specified to refuse and nothing else: the rejecting branches of the key-loading call tree, which include ProbablySafePrime, are the tabled reasons (the obligations of C18.g, same rule) - a pre-check on the two low bits refuses the safe prime 5.",
			Run: func(P *Program, R *Report) { sharedRule(P, R, "C18", "C18.g", "C19.l", nil) }},
	)
}

// eqTerms: the atom establishes X.Cmp(Y) == 0; returns the symbolic terms of X and Y.
func eqTerms(a Atom, be *BigEval) (Term, Term, bool) {
	if _, _, ok := parseEq(a); !ok {
		return Term{}, Term{}, false
	}
	bo, _ := a.V.(*ssa.BinOp)
	if bo == nil {
		return Term{}, Term{}, false
	}
	L := stripConv(bo.X)
	if _, isC := L.(*ssa.Const); isC {
		L = stripConv(bo.Y)
	}
	c, isC := L.(*ssa.Call)
	if !isC || bigMethod(c) != "Cmp" {
		return Term{}, Term{}, false
	}
	ts := be.at(c)
	if len(ts) != 2 {
		return Term{}, Term{}, false
	}
	return ts[0], ts[1], true
}

func eqTermMatcher(be *BigEval, x, y Term) func(Atom) bool {
	return func(a Atom) bool {
		t0, t1, ok := eqTerms(a, be)
		return ok && ((t0.equal(x) && t1.equal(y)) || (t0.equal(y) && t1.equal(x)))
	}
}

func modInverseRule(P *Program, R *Report) {
	rule := "C19.a"
	const k = "common.ModInverse"
	fn := mustFunc(P, R, rule, k)
	if fn == nil {
		return
	}
	be := P.bigEval(fn)
	mp(P, R, rule, k+":coprime-tested", "ok == true => gcd(a, n) == 1 was tested", fn, AcceptTrue(1), &MustPass{Match: eqTermMatcher(be, termFn("GCD", tsym("arg#0"), tsym("arg#1")), tconst(1))})
	// the returned object is the x of g.GCD(x, y, a, n), i.e. the coefficient of a
	var gcd *ssa.Call
	for _, c := range callsIn(fn) {
		if bigMethod(c) == "GCD" {
			gcd, _ = c.(*ssa.Call)
		}
	}
	okObj, okFail := gcd != nil, true
	nTrue := 0
	for _, r := range returnsOf(fn) {
		okv, isB := boolConst(retValue(r, 1))
		v := retValue(r, 0)
		switch {
		case isB && okv:
			nTrue++
			if gcd == nil || siteOf(v) != siteOf(callArgs(gcd)[1]) || desc(callArgs(gcd)[3]) != "arg#0" || desc(callArgs(gcd)[4]) != "arg#1" {
				okObj = false
			}
		default:
			// failure (or unknown flag): only nil may be returned
			if !isNilConst(v) && !isB || (isB && !okv && !isNilConst(v)) {
				okFail = false
			}
		}
	}
	R.decide(rule, k+":coefficient-of-a", "the value returned with ok == true is the Bezout coefficient of a in gcd(a, n)", okObj && nTrue > 0, "", P.Pos(fn.Pos()))
	R.decide(rule, k+":absence-reported", "without an inverse no value is returned (nil, false)", okFail, "", P.Pos(fn.Pos()))
	// sign normalisation: on every path to the successful return either x >= 1 was established or n was added to x
	okNorm := false
	var normDetail string
	if gcd != nil {
		xSite := siteOf(callArgs(gcd)[1])
		bx := termFn("BezoutX", tsym("arg#0"), tsym("arg#1"))
		for _, r := range returnsOf(fn) {
			if okv, isB := boolConst(retValue(r, 1)); !isB || !okv {
				continue
			}
			q := &MustPass{P: P, Match: func(a Atom) bool {
					g, ok := parseGuard(a, be)
					if !ok {
						return false
					}
					rel, bound, ok := g.relFor(callArgs(gcd)[1], be)
					return ok && ((rel == ">=" && bound.equal(tconst(1))) || (rel == ">" && bound.equal(tconst(0))))
				},
				Instr: func(_ *ssa.Function, i ssa.Instruction) bool {
					c, ok := i.(*ssa.Call)
					if !ok || bigMethod(c) != "Add" || siteOf(callArgs(c)[0]) != xSite {
						return false
					}
					ts := be.at(c)
					return len(ts) == 3 && ((ts[1].equal(bx) && ts[2].equal(tsym("arg#1"))) || (ts[2].equal(bx) && ts[1].equal(tsym("arg#1"))))
				}}
			q.init()
			res := q.search(fn, AcceptAny(), 0, searchOpts{startAt: []*mpState{{b: r.Block(), note: "return at " + P.Pos(r.Pos())}}, startInstr: r})
			okNorm = res.Holds
			normDetail = res.Path
		}
	}
	R.decide(rule, k+":made-positive", "the returned coefficient is >= 1: tested, or n was added to it", okNorm, normDetail, P.Pos(fn.Pos()))
}

func modPowRule(P *Program, R *Report) {
	rule := "C19.b"
	const k = "common.ModPow"
	fn := mustFunc(P, R, rule, k)
	if fn == nil {
		return
	}
	be := P.bigEval(fn)
	x, y, m := tsym("arg#0"), tsym("arg#1"), tsym("arg#2")
	pos := termFn("Exp", x, y, m)
	neg := termFn("Exp", termFn("ModInverse", x, m), tneg(y), m)
	nPos, nNeg, okAll := 0, 0, true
	var details []string
	for _, r := range returnsOf(fn) {
		v := retValue(r, 0)
		if isNilConst(v) {
			// no value => an error
			if isNilConst(retValue(r, 1)) {
				okAll = false
				details = append(details, "nil value with nil error at "+P.Pos(r.Pos()))
			}
			continue
		}
		t := be.Use[r][retValue(r, 0)]
		// sign of y on this return's paths
		negPath, posPath := false, false
		for _, a := range controllingConds(r.Block()) {
			a = normAtom(a)
			if g, ok := parseGuard(a, be); ok && g.Kind == "big" && g.Subject == "arg#1" && g.Bound.equal(tconst(0)) {
				switch g.Rel {
				case "<":
					negPath = true
				case ">=":
					posPath = true
				}
			}
		}
		switch {
		case t.equal(pos) && posPath:
			nPos++
		case t.equal(neg) && negPath:
			nNeg++
		default:
			okAll = false
			details = append(details, fmt.Sprintf("%s: returns %s (negative path %v, non-negative path %v)", P.Pos(r.Pos()), t, negPath, posPath))
		}
	}
	R.decide(rule, k+":terms", "y >= 0 returns Exp(x, y, m); y < 0 returns Exp(ModInverse(x, m), -y, m); nothing else", okAll && nPos == 1 && nNeg == 1, strings.Join(details, "\n"), P.Pos(fn.Pos()))
	// the inverse is nil-tested before it is used
	nInv := 0
	defer func() {
		if nInv == 0 {
			R.bad(rule, k+":inverse-checked", "the modular inverse is tested non-nil before it is used", "no use of ModInverse(x, m) as the base of an exponentiation was found", P.Pos(fn.Pos()))
		}
	}()
	for _, c := range callsIn(fn) {
		call, isC := c.(*ssa.Call)
		if !isC || bigMethod(c) != "Exp" {
			continue
		}
		ts := be.at(call)
		if len(ts) < 2 || !ts[1].equal(termFn("ModInverse", x, m)) {
			continue
		}
		inv := callArgs(call)[1]
		nInv++
		q := &MustPass{P: P, Match: func(a Atom) bool { return siteOf(a.V) == siteOf(inv) && a.Want == NonNil }}
		q.init()
		r := q.search(fn, AcceptAny(), 0, searchOpts{startAt: []*mpState{{b: call.Block(), note: "use at " + P.Pos(call.Pos())}}, startInstr: call})
		R.decide(rule, k+":inverse-checked", "the modular inverse is tested non-nil before it is used", r.Holds, r.Path, P.Pos(call.Pos()))
	}
}

func crtRule(P *Program, R *Report) {
	rule := "C19.c"
	const k = "common.Crt"
	fn := mustFunc(P, R, rule, k)
	if fn == nil {
		return
	}
	be := P.bigEval(fn)
	a, pa, b, pb := tsym("arg#0"), tsym("arg#1"), tsym("arg#2"), tsym("arg#3")
	mp(P, R, rule, k+":coprime-tested", "a value is returned only after gcd(pa, pb) == 1 was tested", fn, AcceptAny(), &MustPass{Match: eqTermMatcher(be, termFn("GCD", pa, pb), tconst(1))})
	want := termFn("Mod", tsum(tmul(tmul(a, termFn("BezoutY", pa, pb)), pb), tmul(tmul(b, termFn("BezoutX", pa, pb)), pa)), tmul(pa, pb))
	n, ok := 0, true
	var got []string
	for _, r := range returnsOf(fn) {
		t := be.Use[r][retValue(r, 0)]
		n++
		got = append(got, t.String())
		if !t.equal(want) {
			ok = false
		}
	}
	R.decide(rule, k+":term", "the result is (a*v*pb + b*u*pa) mod (pa*pb) with u*pa + v*pb = 1", ok && n > 0, "got "+strings.Join(got, " | ")+"\nwant "+want.String(), P.Pos(fn.Pos()))
}

func primeSqrtRule(P *Program, R *Report) {
	rule := "C19.d"
	const k = "common.PrimeSqrt"
	fn := mustFunc(P, R, rule, k)
	if fn == nil {
		return
	}
	be := P.bigEval(fn)
	a, p := tsym("arg#0"), tsym("arg#1")
	euler := termFn("Exp", a, termFn("Rsh", p, tconst(1)), p)
	zero := eqTermMatcher(be, a, tconst(0))
	mp(P, R, rule, k+":existence", "true is returned only for a == 0 or after a^(p>>1) mod p == 1 was tested", fn, AcceptTrue(1), &MustPass{Match: anyOf(zero, eqTermMatcher(be, euler, tconst(1)))})
	// false carries no value
	okFail := true
	for _, r := range returnsOf(fn) {
		if okv, isB := boolConst(retValue(r, 1)); isB && !okv && !isNilConst(retValue(r, 0)) {
			okFail = false
		}
	}
	R.decide(rule, k+":absence-reported", "a non-residue yields (nil, false)", okFail, "", P.Pos(fn.Pos()))
	// shortcut
	short := termFn("Exp", a, tsum(termFn("Rsh", p, tconst(2)), tconst(1)), p)
	found := false
	for _, r := range returnsOf(fn) {
		t, has := be.Use[r][retValue(r, 0)]
		if !has || !t.equal(short) {
			continue
		}
		for _, at := range controllingConds(r.Block()) {
			t0, t1, ok := eqTerms(normAtom(at), be)
			if ok && ((t0.equal(termFn("Mod", p, tconst(4))) && t1.equal(tconst(3))) || (t1.equal(termFn("Mod", p, tconst(4))) && t0.equal(tconst(3)))) {
				found = true
			}
		}
	}
	R.decide(rule, k+":shortcut", "a^((p>>2)+1) mod p is returned exactly under p mod 4 == 3", found, "", P.Pos(fn.Pos()))
}

func modSqrtRule(P *Program, R *Report) {
	rule := "C19.e"
	const k = "common.ModSqrt"
	fn := mustFunc(P, R, rule, k)
	if fn == nil {
		return
	}
	be := P.bigEval(fn)
	fa := &ForAll{P: P, Spec: ForAllSpec{Coll: is("arg#1"), Body: func(_ *ssa.Function, l *Loop) *MustPass {
		return &MustPass{Match: func(a Atom) bool {
			// PrimeSqrt(a mod fac, fac) reported a root
			if c, idx := callAndResult(a.V); c != nil && calleeIs(c, "common.PrimeSqrt") && idx == 1 && a.Want == True {
				ts := be.at(c)
				d1 := desc(callArgs(c)[1])
				return (d1 == "arg#1[#i]" || d1 == "arg#1[*]") && len(ts) >= 1 && ts[0].equal(termFn("Mod", tsym("arg#0"), tsym(d1)))
			}
			// factor 4: second bit of a clear
			if bo, ok := a.V.(*ssa.BinOp); ok {
				if c, isC := stripConv(bo.X).(*ssa.Call); isC && bigMethod(c) == "Bit" && desc(callArgs(c)[0]) == "arg#0" {
					if i, okk := constInt(callArgs(c)[1]); okk && i == 1 {
						if kk, okc := constInt(bo.Y); okc && kk == 0 && ((bo.Op == token.NEQ && a.Want == False) || (bo.Op == token.EQL && a.Want == True)) {
							return true
						}
					}
				}
			}
			return false
		}}
	}}}
	m := fa.inFn(fn, AcceptTrue(1))
	R.decide(rule, k+":every-factor", "true => for every factor a root exists (PrimeSqrt(a mod f, f) ok, or f == 4 with bit 1 of a clear)", m.holds, m.detail, P.Pos(fn.Pos()))
	// the factor-4 branch is taken only for factor == 4
	ok4 := false
	deepVisit(P, fn, 1, func(g *ssa.Function) {
		bg := P.bigEval(g)
		for _, c := range callsIn(g) {
			call, isC := c.(*ssa.Call)
			if !isC || bigMethod(c) != "Bit" || desc(callArgs(call)[0]) != "arg#0" {
				continue
			}
			for _, at := range controllingConds(call.Block()) {
				t0, t1, ok := eqTerms(normAtom(at), bg)
				if ok && ((t1.equal(tconst(4)) && strings.HasPrefix(t0.String(), "arg#1[")) || (t0.equal(tconst(4)) && strings.HasPrefix(t1.String(), "arg#1["))) {
					ok4 = true
				}
			}
		}
	})
	R.decide(rule, k+":four-only", "the bit test replaces PrimeSqrt only for the factor 4", ok4, "", P.Pos(fn.Pos()))
	// recombination
	okCrt, okProd := false, false
	for _, c := range callsIn(fn) {
		call, isC := c.(*ssa.Call)
		if !isC {
			continue
		}
		if calleeIs(c, "common.Crt") {
			d3 := desc(callArgs(call)[3])
			// Crt(res, n, locRes, fac): n is the running product object, fac this factor
			if d3 == "arg#1[#i]" || d3 == "arg#1[*]" {
				for _, c2 := range callsIn(fn) {
					if bigMethod(c2) == "Mul" && siteOf(callArgs(c2)[0]) == siteOf(callArgs(call)[1]) {
						a2 := callArgs(c2)
						if siteOf(a2[1]) == siteOf(a2[0]) && desc(a2[2]) == d3 && innermostLoopOf(c2.Block()) != nil && innermostLoopOf(call.Block()) != nil && innermostLoopOf(c2.Block()).Header == innermostLoopOf(call.Block()).Header {
							// ... on every path through the loop body (not only in the arm of the first factor)
							mul := c2
							q := &MustPass{P: P, NoInterproc: true, Instr: func(_ *ssa.Function, i ssa.Instruction) bool { return i == ssa.Instruction(mul.(*ssa.Call)) }}
							if r := q.ForAllBody(fn, innermostLoopOf(c2.Block()), AcceptTrue(1), false); r.Holds {
								okProd = true
							}
						}
					}
				}
				okCrt = true
			}
		}
	}
	if !okCrt {
		// the end of the loop body moved into a new unexported helper (`res = crtExtend(res, n, root, fac, i == 0)`):
		// the same two calls inside it, with its parameters bound; the helper is called in every iteration and
		// multiplies on every path through it
		for _, ci := range callsIn(fn) {
			g := staticCallee(ci)
			hc, isCall := ci.(*ssa.Call)
			if g == nil || !isCall || g.Blocks == nil || !newHelper(g) || innermostLoopOf(hc.Block()) == nil {
				continue
			}
			bindCall(ci, g, func() {
				for _, c := range callsIn(g) {
					call, isC := c.(*ssa.Call)
					if !isC || !calleeIs(c, "common.Crt") {
						continue
					}
					d3 := desc(callArgs(call)[3])
					if d3 != "arg#1[#i]" && d3 != "arg#1[*]" {
						continue
					}
					okCrt = true
					for _, c2 := range callsIn(g) {
						if bigMethod(c2) != "Mul" || siteOf(callArgs(c2)[0]) != siteOf(callArgs(call)[1]) {
							continue
						}
						a2 := callArgs(c2)
						if siteOf(a2[1]) != siteOf(a2[0]) || desc(a2[2]) != d3 {
							continue
						}
						mul := c2.(*ssa.Call)
						inHelper := (&MustPass{P: P, NoInterproc: true, Instr: func(_ *ssa.Function, i ssa.Instruction) bool { return i == ssa.Instruction(mul) }}).Check(g, AcceptAny())
						everyIter := (&MustPass{P: P, NoInterproc: true, Instr: func(_ *ssa.Function, i ssa.Instruction) bool { return i == ssa.Instruction(hc) }}).ForAllBody(fn, innermostLoopOf(hc.Block()), AcceptTrue(1), false)
						if inHelper.Holds && everyIter.Holds {
							okProd = true
						}
					}
				}
			})
		}
	}
	R.decide(rule, k+":recombined", "partial roots are combined by Crt(res, n, root, factor)", okCrt, "", P.Pos(fn.Pos()))
	R.decide(rule, k+":running-product", "n is multiplied by the factor in every iteration (n = product of the factors seen)", okProd, "", P.Pos(fn.Pos()))
}

func fastModRule(P *Program, R *Report) {
	rule := "C19.f"
	const ks, km = "common.(*FastMod).Set", "common.(*FastMod).Mod"
	fm := "<common.FastMod>"
	if fn := mustFunc(P, R, rule, ks); fn != nil {
		be := P.bigEval(fn)
		want := map[string]Term{
			"Sub:" + fm + ".c":    tsum(pow2(fm+".b"), tneg(tsym(fm+".p"))),
			"Sub:" + fm + ".mask": tsum(pow2(fm+".b"), tconst(-1)),
			"Set:" + fm + ".p":    tsym("arg#1"),
		}
		got := map[string]bool{}
		for _, c := range callsIn(fn) {
			call, isC := c.(*ssa.Call)
			if !isC {
				continue
			}
			key := bigMethod(c) + ":" + desc(callArgs(call)[0])
			if w, ok := want[key]; ok {
				if r, has := be.Ret[call]; has && r.equal(w) {
					got[key] = true
				}
			}
		}
		for key := range want {
			R.decide(rule, ks+":"+strings.SplitN(key, ":", 2)[1], "Set computes "+want[key].String(), got[key], "", P.Pos(fn.Pos()))
		}
		// b = BitLen(p)
		okB := false
		allInstrs(fn, func(i ssa.Instruction) {
			if st, ok := i.(*ssa.Store); ok && desc(st.Addr) == fm+".b" {
				if c, isC := stripConv(st.Val).(*ssa.Call); isC && bigMethod(c) == "BitLen" && desc(callArgs(c)[0]) == "arg#1" {
					okB = true
				}
			}
		})
		R.decide(rule, ks+":b", "b is the bit length of p", okB, "", P.Pos(fn.Pos()))
		// enabled = true only under |c| < 60: a constant true stored under that test, or the test's own value
		okEn := false
		nEn := 0
		smallC := func(a Atom) bool {
			g, ok := parseGuard(normAtom(a), be)
			return ok && g.Kind == "bitlen" && g.Subject == fm+".c" && ((g.Rel == "<" && g.BoundA.isConst() && g.BoundA.C <= 60) || (g.Rel == "<=" && g.BoundA.isConst() && g.BoundA.C < 60))
		}
		allInstrs(fn, func(i ssa.Instruction) {
			st, ok := i.(*ssa.Store)
			if !ok || desc(st.Addr) != fm+".enabled" {
				return
			}
			if v, isB := boolConst(st.Val); isB {
				if !v {
					return
				}
				nEn++
				good := false
				for _, a := range controllingConds(st.Block()) {
					if smallC(a) {
						good = true
					}
				}
				okEn = good
				return
			}
			nEn++
			okEn = smallC(Atom{Fn: fn, V: st.Val, Want: True})
		})
		okEn = okEn && nEn == 1
		R.decide(rule, ks+":small-c-only", "the fast path is enabled only when c = 2^b - p has fewer than 60 bits", okEn, "", P.Pos(fn.Pos()))
	}
	fn := mustFunc(P, R, rule, km)
	if fn == nil {
		return
	}
	be := P.bigEval(fn)
	// fallback: on paths where x is negative or the table is disabled every return is ret.Mod(x, p)
	isFallback := func(v ssa.Value) bool {
		c, ok := v.(*ssa.Call)
		if !ok || bigMethod(c) != "Mod" {
			return false
		}
		return desc(callArgs(c)[0]) == "arg#1" && desc(callArgs(c)[1]) == "arg#2" && desc(callArgs(c)[2]) == fm+".p"
	}
	nFallback := 0
	for _, r := range returnsOf(fn) {
		if isFallback(retValue(r, 0)) {
			nFallback++
		}
	}
	// no fast-path result is computed for a negative x or a modulus without table: x >= 0 and enabled are
	// established on every path to such a return (so those inputs can only reach the big.Int.Mod returns)
	okNonNeg, okEnabled := true, true
	var negDetail, disDetail []string
	for _, r := range returnsOf(fn) {
		if isFallback(retValue(r, 0)) {
			continue
		}
		q := &MustPass{P: P, Match: func(a Atom) bool {
			g, ok := parseGuard(a, be)
			return ok && g.Kind == "big" && g.Subject == "arg#2" && g.Rel == ">=" && g.Bound.equal(tconst(0))
		}}
		q.init()
		res := q.search(fn, AcceptAny(), 0, searchOpts{startAt: []*mpState{{b: r.Block(), note: "return at " + P.Pos(r.Pos())}}, startInstr: r})
		if !res.Holds {
			okNonNeg = false
			negDetail = append(negDetail, res.Path)
		}
		q2 := &MustPass{P: P, Match: func(a Atom) bool { return desc(a.V) == fm+".enabled" && a.Want == True }}
		q2.init()
		res2 := q2.search(fn, AcceptAny(), 0, searchOpts{startAt: []*mpState{{b: r.Block(), note: "return at " + P.Pos(r.Pos())}}, startInstr: r})
		if !res2.Holds {
			okEnabled = false
			disDetail = append(disDetail, res2.Path)
		}
	}
	R.decide(rule, km+":negative-fallback", "a negative argument is reduced by big.Int.Mod, and only non-negative ones take the fast path", nFallback >= 1 && okNonNeg, strings.Join(negDetail, "\n"), P.Pos(fn.Pos()))
	R.decide(rule, km+":disabled-fallback", "a modulus without fast path is reduced by big.Int.Mod", nFallback >= 1 && okEnabled, strings.Join(disDetail, "\n"), P.Pos(fn.Pos()))
	// no other return may be reached with a negative x: the sign test dominates everything but the disabled fallback
	var signBlock *ssa.BasicBlock
	for _, c := range callsIn(fn) {
		if bigMethod(c) == "Sign" && desc(callArgs(c)[0]) == "arg#2" {
			signBlock = c.Block()
		}
	}
	okDom := signBlock != nil
	for _, r := range returnsOf(fn) {
		if isFallback(retValue(r, 0)) {
			continue
		}
		if signBlock == nil || !signBlock.Dominates(r.Block()) {
			okDom = false
		}
	}
	R.decide(rule, km+":sign-tested-first", "every fast-path result is computed after the sign test", okDom, "", P.Pos(fn.Pos()))
	// final reduction: every fast-path return of ret is preceded by the test ret < p or follows ret -= p
	okRed := true
	var details []string
	nFast := 0
	for _, r := range returnsOf(fn) {
		if isFallback(retValue(r, 0)) {
			continue
		}
		nFast++
		v := retValue(r, 0)
		// returns of the form ret.Set(x)/ret.Sub(x, p) are guarded by x < p resp. follow x >= p: accept Set under x<p, Sub anywhere after a >= test
		if c, ok := v.(*ssa.Call); ok {
			switch bigMethod(c) {
			case "Set":
				src := desc(callArgs(c)[1])
				qs := &MustPass{P: P, Match: func(a Atom) bool {
					gd, ok := parseGuard(a, be)
					if !ok {
						return false
					}
					rel, ok := gd.relBetween(src, tsym(fm+".p"))
					return ok && rel == "<"
				}}
				qs.init()
				if !qs.search(fn, AcceptAny(), 0, searchOpts{startAt: []*mpState{{b: r.Block(), note: "return at " + P.Pos(r.Pos())}}, startInstr: r}).Holds {
					okRed = false
					details = append(details, P.Pos(r.Pos())+": value copied without the test < p")
				}
				continue
			case "Sub":
				if desc(callArgs(c)[2]) == fm+".p" {
					continue
				}
			}
			okRed = false
			details = append(details, P.Pos(r.Pos())+": unexpected result "+desc(v))
			continue
		}
		// plain `return ret`: on every path to it either ret < p was established or ret -= p executed
		q := &MustPass{P: P, Match: func(a Atom) bool {
				gd, ok := parseGuard(a, be)
				if !ok {
					return false
				}
				rel, ok := gd.relBetween("arg#1", tsym(fm+".p"))
				return ok && rel == "<"
			},
			Instr: func(_ *ssa.Function, i ssa.Instruction) bool {
				c, ok := i.(*ssa.Call)
				return ok && bigMethod(c) == "Sub" && desc(callArgs(c)[0]) == "arg#1" && desc(callArgs(c)[1]) == "arg#1" && desc(callArgs(c)[2]) == fm+".p"
			}}
		q.init()
		res := q.search(fn, AcceptAny(), 0, searchOpts{startAt: []*mpState{{b: r.Block(), note: "return at " + P.Pos(r.Pos())}}, startInstr: r})
		if os.Getenv("GABILINT_DEBUG") != "" {
			fmt.Println("DEBUG final-reduction", res.Holds, res.NAcc, res.Path)
		}
		if !res.Holds {
			okRed = false
			details = append(details, res.Path)
		}
	}
	R.decide(rule, km+":final-reduction", "every fast-path result is below p: tested ret < p, or p subtracted once after the folding loop", okRed && nFast >= 3, strings.Join(details, "\n"), P.Pos(fn.Pos()))
}

func safeprimeGenerateRule19(P *Program, R *Report) {
	probablySafePrimeRule(P, R, "C19.h")
	if g := P.Func(kSPGen); g != nil && !disabledStub(P, R, "C19.h", kSPGen, g) {
		candidateSizeRule(P, R, "C19.h", g)
	}
	// caller's round count is used for both tests
	if ps := P.Func("safeprime.ProbablySafePrime"); ps != nil {
		n, ok := 0, true
		for _, c := range callsIn(ps) {
			if bigMethod(c) == "ProbablyPrime" {
				n++
				if desc(callArgs(c)[1]) != "arg#1" {
					ok = false
				}
			}
		}
		R.decide("C19.h", "safeprime.ProbablySafePrime:rounds", "both primality tests use the caller's round count", ok && n == 2, fmt.Sprintf("%d tests", n), P.Pos(ps.Pos()))
	}
}

func groupExpRule(P *Program, R *Report) {
	rule := "C19.i"
	const k = "zkproof.(*Group).Exp"
	fn := mustFunc(P, R, rule, k)
	if fn == nil {
		return
	}
	be := P.bigEval(fn)
	ord := "<zkproof.Group>.Order"
	// the folding add
	var add *ssa.Call
	for _, c := range callsIn(fn) {
		call, isC := c.(*ssa.Call)
		if !isC || bigMethod(c) != "Add" {
			continue
		}
		ts := be.at(call)
		if len(ts) == 3 && ((ts[1].equal(tsym("arg#3")) && ts[2].equal(tsym(ord))) || (ts[2].equal(tsym("arg#3")) && ts[1].equal(tsym(ord)))) {
			add = call
		}
	}
	okNeg := false
	if add != nil {
		for _, a := range controllingConds(add.Block()) {
			if g, ok := parseGuard(normAtom(a), be); ok && g.Kind == "big" && g.Subject == "arg#3" && g.Rel == "<" && g.Bound.equal(tconst(0)) {
				okNeg = true
			}
		}
	}
	R.decide(rule, k+":negative-folded", "a negative exponent is replaced by exponent + Order", okNeg, "", P.Pos(fn.Pos()))
	// the table exponentiation uses exp or the folded value, after the bound test
	var texp *ssa.Call
	for _, c := range callsIn(fn) {
		if call, isC := c.(*ssa.Call); isC && strings.HasSuffix(calleeName(c), "Table).Exp") {
			texp = call
		}
	}
	if texp == nil {
		R.bad(rule, k+":table-exp", "the table exponentiation was found", "no call", P.Pos(fn.Pos()))
		return
	}
	// exponent argument: .Go() of phi(arg#3 | folded)
	var expV ssa.Value
	if g, ok := callArgs(texp)[len(callArgs(texp))-1].(*ssa.Call); ok && bigMethod(g) == "Go" {
		expV = callArgs(g)[0]
	}
	okSrc := false
	if expV != nil && add != nil {
		leaves := map[ssa.Value]bool{}
		var walk func(v ssa.Value)
		walk = func(v ssa.Value) {
			if leaves[v] {
				return
			}
			if p, ok := v.(*ssa.Phi); ok {
				leaves[v] = true
				for _, e := range p.Edges {
					walk(e)
				}
				return
			}
			leaves[siteOf(v)] = true
		}
		walk(expV)
		n := 0
		okSrc = true
		for v := range leaves {
			if _, isPhi := v.(*ssa.Phi); isPhi {
				continue
			}
			n++
			if desc(v) != "arg#3" && v != siteOf(callArgs(add)[0]) {
				okSrc = false
			}
		}
		okSrc = okSrc && n == 2
	}
	R.decide(rule, k+":exponent-source", "the exponent used is the argument or its folded value, nothing else", okSrc, "", P.Pos(texp.Pos()))
	mp0 := &MustPass{P: P, Match: func(a Atom) bool {
		// exp < Order, whichever operand the comparison is written on (exp.Cmp(order) < 0, order.Cmp(exp) > 0, negated forms)
		g, ok := P.guardOf(a)
		if !ok || g.Kind != "big" || g.Call == nil || len(callArgs(g.Call)) != 2 {
			return false
		}
		ar := callArgs(g.Call)
		var rel string
		switch {
		case ar[0] == expV && desc(ar[1]) == ord:
			rel = g.Rel
			if g.SubjV != ar[0] {
				rel = relFlip[rel]
			}
		case ar[1] == expV && desc(ar[0]) == ord:
			rel = g.Rel
			if g.SubjV != ar[1] {
				rel = relFlip[rel]
			}
		default:
			return false
		}
		return rel == "<"
	}}
	mp0.init()
	res := mp0.search(fn, AcceptAny(), 0, searchOpts{startAt: []*mpState{{b: texp.Block(), note: "table exponentiation at " + P.Pos(texp.Pos())}}, startInstr: texp})
	R.decide(rule, k+":bounded", "the exponent was tested below the group order before the table exponentiation", res.Holds, res.Path, P.Pos(texp.Pos()))
}

// pureInputsRule: the number-theoretic helpers leave their inputs unchanged: no exported function of internal/common
// mutates in place a *big.Int it was handed, except the tabled result parameters. (A helper that "saves a copy" by
// negating or reducing its argument in place changes the caller's signature, key or proof object.)
var outParams = map[string]map[int]string{
	"common.(*FastMod).Mod": {1: "ret: the documented result object"},
	// a and b are placed in the list that is hashed; the one element of that list that is incremented in place is the
	// counter, a fresh integer at the last position (C15.b:counter decides exactly that)
	"common.GetHashNumber": {0: "only put into the hashed list", 1: "only put into the hashed list"},
}

func pureInputsRule(P *Program, R *Report, rule string) {
	n := 0
	for _, fn := range P.AllFuncs {
		if fn.Pkg == nil || fn.Pkg.Pkg.Name() != "common" || fn.Blocks == nil || fn.Parent() != nil || fn.Object() == nil || !fn.Object().Exported() {
			continue
		}
		key := FuncKey(fn)
		for k, p := range fn.Params {
			if !isBigIntPtr(p.Type()) {
				continue
			}
			if fn.Signature.Recv() != nil && k == 0 {
				continue
			}
			if outParams[key][k] != "" {
				continue
			}
			n++
			R.seen(key)
			mut := P.mutatesParam(fn, k, 0)
			R.decide(rule, fmt.Sprintf("%s:input(%s)", key, p.Name()), "the helper does not modify the integer it is given (math/big mutators write their receiver)", !mut, "parameter "+p.Name()+" is written in place or stored", P.Pos(fn.Pos()))
		}
	}
	R.decide(rule, "common:inputs:count", "integer parameters of the exported helpers were examined (>= 15)", n >= 15, fmt.Sprintf("%d", n), "")
}
