package main

import (
	"go/types"
	"reflect"
	"fmt"
	"go/token"
	"regexp"
	"sort"
	"strings"

	"golang.org/x/tools/go/ssa"
)

var bigEvalCache = map[string]*BigEval{}

func (P *Program) bigEval(fn *ssa.Function) *BigEval {
	key := fmt.Sprintf("%p", fn) + bindingSig(fn)
	if bindStructParams {
		key += "|S"
	}
	if walkStartMax != 0 {
		key += "|W"
	}
	if descReroot {
		key += "|R" // terms name their symbols by descriptors: a different naming mode is a different evaluation
	}
	if be, ok := bigEvalCache[key]; ok {
		return be
	}
	be := NewBigEval(P, fn)
	bigEvalCache[key] = be
	return be
}

// at / ret / use: term lookups that follow the instruction into its own function (a matcher written for
// function F may be evaluated on an atom inside a helper that F calls).
func (be *BigEval) at(c *ssa.Call) []Term {
	if c == nil {
		return nil
	}
	if c.Parent() == be.Fn {
		return be.At[c]
	}
	return be.P.bigEval(c.Parent()).At[c]
}

func (be *BigEval) ret(c *ssa.Call) (Term, bool) {
	if c == nil {
		return Term{}, false
	}
	if c.Parent() == be.Fn {
		t, ok := be.Ret[c]
		return t, ok
	}
	t, ok := be.P.bigEval(c.Parent()).Ret[c]
	return t, ok
}

func (be *BigEval) forFn(fn *ssa.Function) *BigEval {
	if fn == nil || fn == be.Fn {
		return be
	}
	return be.P.bigEval(fn)
}

// guardOf parses the atom as a guard with terms evaluated in the atom's function.
func (P *Program) guardOf(a Atom) (Guard, bool) {
	return parseGuard(a, P.bigEval(a.Fn))
}

// parseEq: the atom establishes x == y (value equality of big.Ints, byte slices or plain values).
func parseEq(a Atom) (x, y ssa.Value, ok bool) {
	switch v := a.V.(type) {
	case *ssa.BinOp:
		rel := tokRel(v.Op)
		if rel == "" || (a.Want != True && a.Want != False) {
			return nil, nil, false
		}
		if a.Want == False {
			rel = relNeg[rel]
		}
		L, R := stripConv(v.X), stripConv(v.Y)
		if _, isC := L.(*ssa.Const); isC {
			L, R = R, L
			rel = relFlip[rel]
		}
		if c, isCall := L.(*ssa.Call); isCall {
			if m := bigMethod(c); m == "Cmp" {
				if k, okk := constInt(R); okk && cmpOutcomeRel(rel, k) == "==" {
					return callArgs(c)[0], callArgs(c)[1], true
				}
				return nil, nil, false
			}
			if isCallTo(c, "crypto/subtle.ConstantTimeCompare") {
				if k, okk := constInt(R); okk && ((rel == "==" && k == 1) || (rel == "!=" && k == 0)) {
					return callArgs(c)[0], callArgs(c)[1], true
				}
				return nil, nil, false
			}
		}
		if rel == "==" {
			if _, isC := R.(*ssa.Const); !isC {
				return L, R, true
			}
		}
	case *ssa.Call:
		if a.Want == True && isCallTo(v, "bytes.Equal", "slices.Equal", "reflect.DeepEqual") {
			return callArgs(v)[0], callArgs(v)[1], true
		}
	}
	return nil, nil, false
}

// eqMatcher: atom proves equality between a value whose descriptor satisfies xp and one satisfying yp.
func eqMatcher(xp, yp func(string) bool) func(Atom) bool {
	return func(a Atom) bool {
		x, y, ok := parseEq(a)
		if !ok {
			return false
		}
		dx, dy := desc(x), desc(y)
		if (xp(dx) && yp(dy)) || (xp(dy) && yp(dx)) {
			return true
		}
		if isBigIntPtr(x.Type()) && isBigIntPtr(y.Type()) {
			// Cmp dereferences both operands: a helper's result stands for its non-nil value
			dx, dy = descNN(x), descNN(y)
			return (xp(dx) && yp(dy)) || (xp(dy) && yp(dx))
		}
		return false
	}
}

func is(s string) func(string) bool       { return func(d string) bool { return d == s } }
func isAny(ss ...string) func(string) bool { return func(d string) bool { for _, s := range ss { if d == s { return true } }; return false } }
func contains(s string) func(string) bool { return func(d string) bool { return strings.Contains(d, s) } }
func matches(re string) func(string) bool {
	r := regexp.MustCompile(re)
	return func(d string) bool { return r.MatchString(d) }
}

// callAtom: the atom is "call to one of names returned want" (result index idx, -1 = any).
func callAtom(a Atom, want Pred, names ...string) (*ssa.Call, bool) {
	if a.Want != want {
		return nil, false
	}
	c, _ := callAndResult(a.V)
	if c == nil {
		return nil, false
	}
	n := calleeName(c)
	for _, x := range names {
		if sameFn(n, x) {
			return c, true
		}
	}
	return nil, false
}

// anyOf combines matchers.
func anyOf(ms ...func(Atom) bool) func(Atom) bool {
	return func(a Atom) bool {
		for _, m := range ms {
			if m != nil && m(a) {
				return true
			}
		}
		return false
	}
}

// mustFunc resolves an anchor or records an anchor-unresolved violation.
func mustFunc(P *Program, R *Report, rule, key string) *ssa.Function {
	f := P.Func(key)
	if f == nil || f.Blocks == nil {
		R.und(rule, key+":anchor", "anchored function exists", "reason=anchor-unresolved: "+key+" not found in the type-checked program", "")
		return nil
	}
	R.seen(key)
	return f
}

// mp runs a must-pass query and records the obligation.
func mp(P *Program, R *Report, rule, construct, what string, fn *ssa.Function, acc Accept, q *MustPass) bool {
	if fn == nil {
		return false
	}
	q.P = P
	r := q.Check(fn, acc)
	for _, v := range q.Visited() {
		R.seen(v)
	}
	if r.Holds && r.NAcc == 0 && acc.Kind != "any" {
		R.und(rule, construct, what, "function has no accepting exit of kind "+acc.Kind, P.Pos(fn.Pos()))
		return false
	}
	o := R.decide(rule, construct, what, r.Holds, r.Path, P.Pos(fn.Pos()))
	o.Analysed = q.Visited()
	return r.Holds
}

// mpEither: obligation holds if it is passed on every accepting path of at least one of the given
// (function, accept) pairs — used where a verification is split into two calls that the composite
// entry points both make (ChallengeContribution / VerifyWithChallenge).
type fnAcc struct {
	fn  *ssa.Function
	acc Accept
}

func mpEither(P *Program, R *Report, rule, construct, what string, mk func() *MustPass, parts ...fnAcc) bool {
	var paths []string
	var analysed []string
	for _, p := range parts {
		if p.fn == nil {
			continue
		}
		q := mk()
		q.P = P
		r := q.Check(p.fn, p.acc)
		analysed = append(analysed, q.Visited()...)
		for _, v := range q.Visited() {
			R.seen(v)
		}
		if r.Holds && r.NAcc > 0 {
			o := R.ok(rule, construct, what)
			o.Detail = "established on every accepting path of " + FuncKey(p.fn)
			o.Analysed = analysed
			o.Pos = P.Pos(p.fn.Pos())
			return true
		}
		paths = append(paths, r.Path)
	}
	pos := ""
	if len(parts) > 0 && parts[0].fn != nil {
		pos = P.Pos(parts[0].fn.Pos())
	}
	R.bad(rule, construct, what, "no part of the verification establishes it; uncovered accepting paths:\n"+strings.Join(paths, "\n"), pos)
	return false
}

// returnsOf returns the Return instructions of fn.
func returnsOf(fn *ssa.Function) []*ssa.Return {
	var out []*ssa.Return
	for _, b := range fn.Blocks {
		if fn.Recover != nil && b == fn.Recover {
			continue // not a normal exit
		}
		if len(b.Instrs) > 0 {
			if r, ok := b.Instrs[len(b.Instrs)-1].(*ssa.Return); ok {
				out = append(out, r)
			}
		}
	}
	return out
}

// ---- interprocedural dependence ------------------------------------------------

// depsIP: like deps, but descends into module-internal callees: a call's result depends on the
// callee's returned values (and, as in deps, on its arguments).
func depsIP(P *Program, roots []ssa.Value, maxDepth int) map[ssa.Value]bool {
	seen := map[ssa.Value]bool{}
	type item struct {
		v ssa.Value
		d int
	}
	var work []item
	push := func(v ssa.Value, d int) {
		if v == nil || seen[v] {
			return
		}
		seen[v] = true
		work = append(work, item{v, d})
	}
	for _, r := range roots {
		push(r, 0)
	}
	for len(work) > 0 {
		it := work[len(work)-1]
		work = work[:len(work)-1]
		local := deps(P, it.v)
		for x := range local {
			if !seen[x] {
				seen[x] = true
			}
			var c *ssa.Call
			switch y := x.(type) {
			case *ssa.Call:
				c = y
			}
			if c == nil || it.d >= maxDepth {
				continue
			}
			for _, g := range P.callees(c) {
				if !inModuleFn(g) || g.Blocks == nil {
					continue
				}
				for _, ret := range returnsOf(g) {
					for _, rv := range ret.Results {
						if !seen[rv] {
							push(rv, it.d+1)
						}
					}
				}
				// out-parameters: pointer params mutated inside g
			}
		}
	}
	return seen
}

func descSet(vals map[ssa.Value]bool) map[string]bool {
	out := map[string]bool{}
	for x := range vals {
		switch x.(type) {
		case *ssa.Parameter, *ssa.FieldAddr, *ssa.Field, *ssa.Global, *ssa.Call, *ssa.Lookup, *ssa.Extract, *ssa.Const, *ssa.IndexAddr, *ssa.Index, *ssa.FreeVar, *ssa.UnOp:
			out[desc(x)] = true
		}
	}
	return out
}

func sortedKeys(m map[string]bool) []string {
	out := make([]string, 0, len(m))
	for k := range m {
		out = append(out, k)
	}
	sort.Strings(out)
	return out
}

// requireDeps records one obligation per required descriptor predicate.
type depReq struct {
	name string
	pred func(string) bool
	why  string
}

func requireDeps(P *Program, R *Report, rule, constructPrefix string, fn *ssa.Function, roots []ssa.Value, depth int, reqs []depReq) {
	ds := descSet(depsIP(P, roots, depth))
	for _, rq := range reqs {
		found := false
		for d := range ds {
			if rq.pred(d) {
				found = true
				break
			}
		}
		what := fmt.Sprintf("%s: value is data-dependent on %s (%s)", FuncKey(fn), rq.name, rq.why)
		R.decide(rule, constructPrefix+":dep:"+rq.name, what, found,
			fmt.Sprintf("no value matching %s in the backward dependence closure (%d descriptors)", rq.name, len(ds)), P.Pos(fn.Pos()))
	}
}

// nonErrorReturnValues: result[idx] of every return of fn whose error result (errIdx, -1 = none) may be nil.
func nonErrorReturnValues(fn *ssa.Function, idx, errIdx int) []ssa.Value {
	var out []ssa.Value
	for _, r := range returnsOf(fn) {
		if idx >= retCount(r) {
			continue
		}
		if errIdx >= 0 && errIdx < retCount(r) {
			if _, isMI := retValue(r, errIdx).(*ssa.MakeInterface); isMI {
				continue
			}
			if c, ok := retValue(r, errIdx).(*ssa.Call); ok && nonNilErrCalls[calleeName(c)] {
				continue
			}
			if isNilConst(retValue(r, idx)) {
				continue
			}
		}
		out = append(out, retValue(r, idx))
	}
	return out
}

// dominatingIf returns the If conditions (with polarity) that control block b: walks up the
// dominator tree and reports every (cond, polarity) such that b is reachable only through that edge.
func controllingConds(b *ssa.BasicBlock) []Atom {
	var out []Atom
	fn := b.Parent()
	for cur := b; cur != nil; cur = cur.Idom() {
		id := cur.Idom()
		if id == nil {
			break
		}
		iff, ok := id.Instrs[len(id.Instrs)-1].(*ssa.If)
		if !ok {
			continue
		}
		// cur is controlled by id's branch if exactly one successor of id dominates/reaches cur exclusively
		s0, s1 := id.Succs[0], id.Succs[1]
		// the edge id->s controls cur if s is reached only through that edge and dominates cur
		ctl := func(s *ssa.BasicBlock) bool {
			return len(s.Preds) == 1 && s.Preds[0] == id && (s == cur || s.Dominates(cur))
		}
		d0, d1 := ctl(s0), ctl(s1)
		if d0 && !d1 {
			out = append(out, Atom{Fn: fn, V: iff.Cond, Want: True})
		} else if d1 && !d0 {
			out = append(out, Atom{Fn: fn, V: iff.Cond, Want: False})
		}
	}
	return out
}

// flattenConds expands conjunctions that SSA encodes as nested branches: returns atoms unchanged
// (SSA already splits && and ||), but strips negations.
func normAtom(a Atom) Atom {
	for {
		if u, ok := a.V.(*ssa.UnOp); ok && u.Op == token.NOT {
			a = Atom{Fn: a.Fn, V: u.X, Want: a.Want.neg()}
			continue
		}
		return a
	}
}

// condText: the text and polarity of a branch condition with `!` stripped, `x != y` read as `x == y` with the
// opposite polarity, and a constant/nil left operand moved to the right - so that a rule that names a condition
// does not depend on which of the equivalent spellings (and which branch order) the code uses.
func condText(a Atom) (string, Pred) {
	a = normAtom(a)
	bo, ok := a.V.(*ssa.BinOp)
	if !ok {
		return desc(a.V), a.Want
	}
	x, y, op := bo.X, bo.Y, bo.Op
	isConst := func(v ssa.Value) bool { _, c := stripConv(v).(*ssa.Const); return c }
	if isConst(x) && !isConst(y) {
		x, y = y, x
		switch op {
		case token.LSS:
			op = token.GTR
		case token.GTR:
			op = token.LSS
		case token.LEQ:
			op = token.GEQ
		case token.GEQ:
			op = token.LEQ
		}
	}
	want := a.Want
	if op == token.NEQ && (want == True || want == False) {
		op = token.EQL
		want = want.neg()
	}
	return "(" + desc(x) + op.String() + desc(y) + ")", want
}

var stringListCache map[string][]string

// globalStringLists: package-level []string variables initialised from a literal of string constants.
func (P *Program) globalStringLists() map[string][]string {
	if stringListCache != nil {
		return stringListCache
	}
	stringListCache = map[string][]string{}
	for _, fn := range P.AllFuncs {
		if !strings.HasPrefix(fn.Name(), "init") {
			continue
		}
		allInstrs(fn, func(i ssa.Instruction) {
			st, ok := i.(*ssa.Store)
			if !ok {
				return
			}
			g, ok := st.Addr.(*ssa.Global)
			if !ok {
				return
			}
			seq, ok := seqOf(st.Val)
			if !ok || len(seq) == 0 {
				return
			}
			var names []string
			for _, e := range seq {
				if e.Kind != "elem" || !strings.HasPrefix(e.D, "\"") {
					return
				}
				names = append(names, strings.Trim(e.D, "\""))
			}
			stringListCache[desc(g)] = names
		})
	}
	return stringListCache
}

// notDecodableRule: each tabled field carries verifier-derived state; it must not be settable by decoding a
// message: either unexported, or tagged json:"-" (the cbor codec used here honours json tags) and not tagged for cbor.
func notDecodableRule(P *Program, R *Report, rule string, fields [][2]string) {
	for _, tf := range fields {
		st := structOf(P, tf[0])
		c := tf[0] + "." + tf[1] + ":not-decodable"
		if st == nil {
			R.und(rule, c, "type found", "", "")
			continue
		}
		found := false
		for i := 0; i < st.NumFields(); i++ {
			f := st.Field(i)
			if f.Name() != tf[1] {
				continue
			}
			found = true
			tag := reflect.StructTag(st.Tag(i))
			j, hasJ := tag.Lookup("json")
			cb, hasC := tag.Lookup("cbor")
			ok := !f.Exported() || (hasJ && strings.Split(j, ",")[0] == "-" && (!hasC || strings.Split(cb, ",")[0] == "-"))
			R.decide(rule, c, "the field holds state derived by the verifier and cannot be supplied in a decoded message (unexported or json:\"-\")", ok, "tag: `"+st.Tag(i)+"`", "")
		}
		if !found {
			// the field may have been regrouped into a struct value nested in the owner (fieldalias.go): it cannot be
			// supplied by a decoder if any step of the path is hidden from the codecs (unexported and not embedded -
			// encoding/json promotes the exported fields of an embedded unexported struct - or tagged "-")
			for path, name := range fieldAlias {
				if name != tf[1] || !strings.HasPrefix(path, tf[0]+".") {
					continue
				}
				cur := st
				hidden := false
				resolved := true
				for _, step := range strings.Split(strings.TrimPrefix(path, tf[0]+"."), ".") {
					if cur == nil {
						resolved = false
						break
					}
					var next *types.Struct
					stepFound := false
					for i := 0; i < cur.NumFields(); i++ {
						f := cur.Field(i)
						if f.Name() != step {
							continue
						}
						stepFound = true
						tag := reflect.StructTag(cur.Tag(i))
						j, hasJ := tag.Lookup("json")
						cb, hasC := tag.Lookup("cbor")
						if (!f.Exported() && !f.Embedded()) || (hasJ && strings.Split(j, ",")[0] == "-" && (!hasC || strings.Split(cb, ",")[0] == "-")) {
							hidden = true
						}
						next, _ = f.Type().Underlying().(*types.Struct)
					}
					if !stepFound {
						resolved = false
					}
					cur = next
				}
				if resolved {
					found = true
					R.decide(rule, c, "the field holds state derived by the verifier and cannot be supplied in a decoded message (unexported or json:\"-\")", hidden, "now at "+path, "")
				}
			}
		}
		if !found {
			R.und(rule, c, "field found", "", "")
		}
	}
}

// anyOfStr combines descriptor predicates.
func anyOfStr(ps ...func(string) bool) func(string) bool {
	return func(d string) bool {
		for _, p := range ps {
			if p(d) {
				return true
			}
		}
		return false
	}
}

// mpQuiet runs a must-pass query without recording an obligation.
func mpQuiet(P *Program, fn *ssa.Function, acc Accept, q *MustPass) mpResult {
	q.P = P
	return q.Check(fn, acc)
}


// ownerOf: the function a piece of code belongs to for the purpose of "who may do this": a local closure belongs to
// its enclosing function, and an unexported function with exactly one static call site in the module belongs to its
// caller (an exported entry point split into a thin wrapper and a worker is still that entry point).
var ownerMemo = map[*ssa.Function]*ssa.Function{}
var callSiteCount map[*ssa.Function][]*ssa.Function

func ownerOf(P *Program, fn *ssa.Function) *ssa.Function {
	if o, ok := ownerMemo[fn]; ok {
		return o
	}
	ownerMemo[fn] = fn // cycles
	res := fn
	if fn.Parent() != nil {
		res = ownerOf(P, fn.Parent())
	} else if fn.Object() != nil && !fn.Object().Exported() && inModuleFn(fn) {
		if callSiteCount == nil {
			callSiteCount = map[*ssa.Function][]*ssa.Function{}
			for _, g := range P.AllFuncs {
				for _, c := range callsIn(g) {
					if h := staticCallee(c); h != nil {
						callSiteCount[h] = append(callSiteCount[h], g)
					}
				}
			}
		}
		if cs := callSiteCount[fn]; len(cs) == 1 && cs[0] != fn {
			res = ownerOf(P, cs[0])
		}
	}
	ownerMemo[fn] = res
	return res
}

// conjunctsOf: a condition that was computed into a boolean before it is tested (`c := a && b; if c`) is true only
// if every operand is: the operands of a true conjunction, each with its polarity (the atom itself otherwise).
func conjunctsOf(a Atom) []Atom {
	a = normAtom(a)
	phi, ok := a.V.(*ssa.Phi)
	if !ok || a.Want != True || !isBoolType(phi.Type()) {
		return []Atom{a}
	}
	var out []Atom
	for i, e := range phi.Edges {
		if bc, isB := boolConst(e); isB {
			if bc {
				return []Atom{a} // a disjunction: true for several reasons
			}
			continue
		}
		out = append(out, conjunctsOf(Atom{Fn: a.Fn, V: e, Want: True})...)
		// the block this edge comes from is entered only when the earlier operands were true
		p := phi.Block().Preds[i]
		for depth := 0; depth < 4 && len(p.Preds) == 1; depth++ {
			q := p.Preds[0]
			if iff, isIf := q.Instrs[len(q.Instrs)-1].(*ssa.If); isIf {
				want := True
				if q.Succs[1] == p {
					want = False
				}
				out = append(out, conjunctsOf(Atom{Fn: a.Fn, V: iff.Cond, Want: want})...)
			}
			if q == phi.Block() || phi.Block().Dominates(q) {
				break
			}
			p = q
			if len(q.Instrs) > 0 {
				if _, isIf := q.Instrs[len(q.Instrs)-1].(*ssa.If); isIf {
					break
				}
			}
		}
	}
	if len(out) == 0 {
		return []Atom{a}
	}
	return out
}
