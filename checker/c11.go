package main

import (
	"os"
	"regexp"
	"fmt"
	"go/types"
	"sort"
	"strings"

	"golang.org/x/tools/go/ssa"
)

const (
	kRevVWC      = "revocation.(*Proof).VerifyWithChallenge"
	kSetExpected = "revocation.(*Proof).SetExpected"
	kNewPC       = "revocation.NewProofCommit"
	kPCUpdate    = "revocation.(*ProofCommit).Update"
	kUpdCommit   = "gabi.(*NonRevocationProofBuilder).UpdateCommit"
	revP         = "<revocation.Proof>"
	pdNR         = "<gabi.ProofD>.NonRevocationProof"
)

// revocationIndexDesc: the descriptor, in fn, of "the revocation attribute index": the result of the unexported
// helper (method or function, whatever its name) that finds it by scanning the proof's hidden responses and that
// fn uses to index <gabi.ProofD>.AResponses.
func revocationIndexDesc(P *Program, fn *ssa.Function) string {
	def := "call:gabi.revocationAttrIndex(<gabi.ProofD>)"
	found := ""
	allInstrs(fn, func(i ssa.Instruction) {
		lk, ok := i.(*ssa.Lookup)
		if !ok || desc(lk.X) != "<gabi.ProofD>.AResponses" {
			return
		}
		c, isCall := lk.Index.(*ssa.Call)
		if !isCall {
			return
		}
		g := staticCallee(c)
		if g == nil || g.Blocks == nil || g.Pkg != fn.Pkg || g.Object() == nil || g.Object().Exported() {
			return
		}
		scans := false
		bindCall(c, g, func() { scans = len(rangeLoopsOver(g, is("<gabi.ProofD>.AResponses"))) > 0 })
		if scans {
			found = desc(c)
		}
	})
	if found != "" {
		return found
	}
	return def
}

// witRoots: the names under which the witness of a proof commitment is visible (the caller's object, the
// per-proof copy, the same seen as a parameter of a helper).
var witRoots = map[string]bool{"new:revocation.Witness": true, "<revocation.Witness>": true, "<revocation.witness>": true}

func init() {
	register("C11",
		Rule{ID: "C11.a", Explain: "ProofD.VerifyWithChallenge: accept with a non-revocation part => a hidden index was selected and its response is non-nil, NonRevocationProof.VerifyWithChallenge(pk, challenge) was true, and Responses[\"alpha\"] compared equal to that hidden response.",
			Run: func(P *Program, R *Report) {
				fn := mustFunc(P, R, "C11.a", kProofDVWC)
				if fn == nil {
					return
				}
				none := func(a Atom) bool {
					if c, ok := callAtom(a, False, "gabi.(*ProofD).HasNonRevocationProof"); ok && c != nil {
						return true
					}
					return desc(a.V) == pdNR && a.Want == Nil
				}
				idx := revocationIndexDesc(P, fn)
				mp(P, R, "C11.a", kProofDVWC+":nonrev-verified", "accept with nonrev part => NonRevocationProof.VerifyWithChallenge(pk, challenge) was true", fn, AcceptTrue(0), &MustPass{Exempt: none, Match: func(a Atom) bool {
					c, ok := callAtom(a, True, kRevVWC)
					return ok && desc(callArgs(c)[0]) == pdNR && desc(callArgs(c)[1]) == pkD && desc(callArgs(c)[2]) == "arg#2"
				}})
				mp(P, R, "C11.a", kProofDVWC+":alpha-bound", "accept with nonrev part => the proven witness value alpha equals the credential's hidden response at the revocation index", fn, AcceptTrue(0),
					&MustPass{Exempt: none, Match: eqMatcher(is(pdNR+`.Responses["alpha"]`), is("<gabi.ProofD>.AResponses["+idx+"]"))})
				mp(P, R, "C11.a", kProofDVWC+":index-found", "accept with nonrev part => a revocation attribute index was found (>= 0)", fn, AcceptTrue(0), &MustPass{Exempt: none, Match: func(a Atom) bool {
					g, ok := parseGuard(a, nil)
					return ok && g.Kind == "int" && g.Subject == idx && g.Rel == ">=" && g.BoundA.String() == "0"
				}})
			}},
		Rule{ID: "C11.b", Explain: "revocation.Proof.VerifyWithChallenge: accept => structure validated, alpha <= B*2^(k'+k''+1) (symbolic bound from the package initialiser), SignedAccumulator.UnmarshalVerify(pk) nil, p.Nu equals the verified accumulator's Nu, p.Challenge equals the parameter.",
			Run: func(P *Program, R *Report) { revocationVerifyRule(P, R) }},
		Rule{ID: "C11.c", Explain: "SetExpected installs Nu from the VERIFIED accumulator, Challenge and alpha from its parameters; ProofD.ChallengeContribution calls it with (pk, p.C, hidden response at the revocation index) and appends the non-revocation contributions, which depend on Cr, Cu, Nu, all responses and G, H, N.",
			Run: func(P *Program, R *Report) { setExpectedRule(P, R) }},
		Rule{ID: "C11.d", Explain: "NewProofCommit returns commitments only if u^e == nu held for the witness/accumulator pair that is used for the commitments.",
			Run: func(P *Program, R *Report) {
				fn := mustFunc(P, R, "C11.d", kNewPC)
				if fn == nil {
					return
				}
				// the witness object X the relation is tested for (the per-proof copy; in NewProofCommit itself or in a
				// helper it hands the copy to): isTrue(X, X's accumulator Nu, key.N), bases over that Nu, secrets = X
				witX := ""
				mp(P, R, "C11.d", kNewPC+":relation", "commitments returned => isTrue(witness copy, its accumulator's Nu, key.N)", fn, AcceptNilErr(2), &MustPass{Match: func(a Atom) bool {
					c, ok := callAtom(a, True, "revocation.isTrue")
					if !ok {
						return false
					}
					// X: the per-proof copy (possibly produced by a helper); its accumulator is the caller's witness'
					// accumulator (the copy is shallow), so Nu may be read through either
					x := desc(callArgs(c)[1])
					if !witRoots[descNN(callArgs(c)[1])] {
						if os.Getenv("GABILINT_DEBUG") != "" {
							fmt.Println("DEBUG witX", descNN(callArgs(c)[1]))
						}
						return false
					}
					nuD := desc(callArgs(c)[2])
					okNu := nuD == x+".SignedAccumulator.Accumulator.Nu"
					for r := range witRoots {
						if nuD == r+".SignedAccumulator.Accumulator.Nu" {
							okNu = true
						}
					}
					if okNu && desc(callArgs(c)[3]) == pkD+".N" {
						witX = x
						return true
					}
					return false
				}})
				nuOf := func(d string) bool {
					if d == witX+".SignedAccumulator.Accumulator.Nu" {
						return true
					}
					for r := range witRoots {
						if d == r+".SignedAccumulator.Accumulator.Nu" {
							return true
						}
					}
					return false
				}
				okBase, okSecrets := false, false
				deepVisit(P, fn, 1, func(g *ssa.Function) {
					for _, s := range sinksOf(g) {
						if s.target == "new:revocation.Accumulator.Nu" && witX != "" && nuOf(desc(s.val)) {
							okBase = true
						}
					}
					for _, c := range callsIn(g) {
						if isCallTo(c, "revocation.commitmentsFromSecrets") {
							args := callArgs(c)
							okSecrets = witX != "" && desc(args[len(args)-1]) == witX
						}
					}
				})
				R.decide("C11.d", kNewPC+":same-nu", "the commitments are computed over that same Nu and that same witness", okBase && okSecrets, fmt.Sprintf("bases over its Nu: %v, secrets are the witness: %v", okBase, okSecrets), P.Pos(fn.Pos()))
				if it := mustFunc(P, R, "C11.d", "revocation.isTrue"); it != nil {
					be := P.bigEval(it)
					mp(P, R, "C11.d", FuncKey(it)+":relation", "isTrue is true only if u^alpha mod n compared equal to nu", it, AcceptTrue(0), &MustPass{Match: func(a Atom) bool {
						t0, t1, ok := eqTerms(a, be)
						if !ok {
							return false
						}
						for _, pr := range [][2]Term{{t0, t1}, {t1, t0}} {
							n := pr[0].opaqueName()
							if strings.HasPrefix(n, "Exp(") && strings.Contains(n, `"u")`) && strings.Contains(n, `"alpha")`) && strings.HasSuffix(n, ", arg#3)") &&
								strings.Index(n, `"u")`) < strings.Index(n, `"alpha")`) && pr[1].equal(tsym("arg#2")) {
								return true
							}
						}
						return false
					}})
				}
			}},
		Rule{ID: "C11.e", Explain: "refresh agreement: ProofCommit.Update re-derives exactly what commitmentsFromSecrets derived from the witness/accumulator (cu, nu, sacc and list positions 1, 2, 4); BuildProof embeds the commit's sacc; UpdateCommit refreshes only forward and records the new index.",
			Run: func(P *Program, R *Report) { refreshAgreementRule(P, R) }},
		Rule{ID: "C11.f", Explain: "the revocation attribute's randomiser in the disclosure proof is the prepared commitment's randomiser (C07.b).",
			Run: func(P *Program, R *Report) {
				sub := newReport(R.Prop, R.Tier, P)
				attrRandomizerWritesRule(P, sub)
				for _, o := range sub.Obls {
					o.Rule = "C11.f"
					R.add(o)
				}
			}},
		Rule{ID: "C11.h", Explain: "the values the verifier derives itself cannot be supplied by the prover: revocation.Proof.Nu / Challenge, the verified Accumulator memo of SignedAccumulator and the proof's acc pointer are excluded from decoding.",
			Run: func(P *Program, R *Report) {
				notDecodableRule(P, R, "C11.h", [][2]string{{"revocation.Proof", "Nu"}, {"revocation.Proof", "Challenge"}, {"revocation.Proof", "acc"}, {"revocation.SignedAccumulator", "Accumulator"}})
			}},
		Rule{ID: "C11.i", Explain: "the 'if' direction: a proof from a valid witness verifies - the verification call tree has no rejecting branch besides the specified reasons, and the prover's non-revocation path refuses only for the specified reasons (tree 'prove').",
			Run: func(P *Program, R *Report) {
				treeRejectionsRule(P, R, "C11.i", "show", "the verification call tree")
				treeRejectionsRule(P, R, "C11.i", "prove", "the proving call tree")
			}},
		Rule{ID: "C11.j", Explain: "aliasing discipline: verification and proof construction leave the non-revocation proof, the witness and the accumulator unchanged - no function mutates in place a big.Int it reached through revocation.Proof / revocation.Witness / revocation.Accumulator (math/big mutators write their receiver), except the tabled merge/refresh functions.",
			Run: func(P *Program, R *Report) { inPlaceDisciplineRule(P, R, "C11.j", "revocation.Proof", "revocation.Witness", "revocation.Accumulator") }},
		Rule{ID: "C11.g", Explain: "determinism: on the verifier path no loop over a map returns a value that depends on which qualifying key was met first. revocationAttrIndex does (known finding K2).",
			Run: func(P *Program, R *Report) { mapOrderVerdictRule(P, R) }},
		Rule{ID: "C11.k", Explain: "the commitments C_r and C_u of a non-revocation proof are bases of the verified relations: VerifyWithChallenge accepts only if both are units modulo N - C > 0 and gcd(C, N) = 1 tested (with C_r = C_u = 0 mod N all reconstructed commitments are zero whatever the responses, so that a proof made without a witness verifies). No upper bound is demanded: ProofCommit.Update leaves C_u unreduced, and C11.i reports a verifier that refuses such a proof.",
			Run: func(P *Program, R *Report) { revocationGroupElementsRule(P, R, "C11.k") }},
		Rule{ID: "C11.l", Explain: "the by-name lookups through which the proof machinery reads the secrets, randomisers, responses and bases of the non-revocation proof (proofCommit.Secret/Randomizer/Base, proof.ProofResult, witness.Secret/Randomizer, accumulator.Base) answer each name with that name's own value: every return is the map lookup under the requested name, or - under a test name == k - the value tabled for k; every tabled name is answered; anything else returns nil. (A lookup that answers \"delta\" with beta's randomiser is used consistently by prover commitment and response, so every proof still verifies, while two responses share one randomiser.)",
			Run: func(P *Program, R *Report) { lookupFaithfulRule(P, R, "C11.l", revocationLookups) }},
		Rule{ID: "C11.m", Explain: "the accumulator a non-revocation proof is verified against is authentic: SignedAccumulator.UnmarshalVerify returns (and caches) an accumulator only after the key counter matched and the signature verified, each result inspected before it is overwritten (the obligations of C10.b, same rule; the open finding K1 stays listed under C10.b).",
			Run: func(P *Program, R *Report) {
				sharedRule(P, R, "C10", "C10.b", "C11.m", func(c string) bool { return !strings.Contains(c, "memo-ignores-pk-and-data") })
			}},
		Rule{ID: "C11.n", Explain: "no failure is dropped while making and checking non-revocation proofs and witnesses (revocation/proof.go and the non-revocation parts of credential.go) (same rule as C08.g: the error a call returns has a use - a nil test or a return - before it is overwritten, shadowed or left behind).",
			Run: func(P *Program, R *Report) { errorResultsUsedRule(P, R, "C11.n", inFiles(P, "revocation/proof.go", "credential.go"), nil, 10) }},
		Rule{ID: "C11.o", Explain: "a prepared commitment follows a re-signed accumulator of the same index: NonRevocationProofBuilder.UpdateCommit leaves the commitment (and the signed accumulator it carries into the proof) alone unless the witness' index grew, so Witness.Update may replace the witness' SignedAccumulator pointer only where the index changed; a same-index refresh writes through the existing pointer, which the prepared commitment shares.",
			Run: func(P *Program, R *Report) { sameIndexRefreshRule(P, R, "C11.o") }},
	)
}

var indexDiffers = regexp.MustCompile(`^(ourAcc|newAcc)\.Index(\+1)?\|int\|(!=|<|>)\|(ourAcc|newAcc)\.Index(\+1)?$`)

func sameIndexRefreshRule(P *Program, R *Report, rule string) {
	uc := mustFunc(P, R, rule, "gabi.(*NonRevocationProofBuilder).UpdateCommit")
	fn := mustFunc(P, R, rule, kWitUpdate)
	if uc == nil || fn == nil {
		return
	}
	// does UpdateCommit have a quiet path (nil without ProofCommit.Update)?
	refresh := (&MustPass{P: P, Instr: func(_ *ssa.Function, i ssa.Instruction) bool {
		c, ok := i.(*ssa.Call)
		return ok && calleeIs(c, "revocation.(*ProofCommit).Update")
	}})
	r := refresh.Check(uc, AcceptNilErr(0))
	if r.Holds {
		R.decide(rule, "gabi.(*NonRevocationProofBuilder).UpdateCommit:always-refreshes", "UpdateCommit refreshes the commitment on every successful call: no pairing obligation", true, "", P.Pos(uc.Pos()))
		return
	}
	R.decide(rule, "gabi.(*NonRevocationProofBuilder).UpdateCommit:skips-unless-index-grew", "UpdateCommit has a quiet path (the pairing below is what keeps the carried accumulator current on it)", true, r.Path, P.Pos(uc.Pos()))
	be := P.bigEval(fn)
	canon := func(a Atom) string {
		_, t := reasonOf(a, be)
		t = newAccCall.ReplaceAllString(t, "newAcc")
		return strings.ReplaceAll(t, "<revocation.Witness>.SignedAccumulator.Accumulator", "ourAcc")
	}
	n := 0
	replacesPointer := func(i ssa.Instruction) bool {
		st, ok := i.(*ssa.Store)
		if !ok || desc(st.Addr) != "<revocation.Witness>.SignedAccumulator" {
			return false
		}
		_, isPtr := st.Val.Type().Underlying().(*types.Pointer)
		return isPtr
	}
	allInstrs(fn, func(i ssa.Instruction) {
		site := replacesPointer(i)
		// the commit moved into a helper of the package: the call is the site
		if c, isCall := i.(*ssa.Call); isCall && !site {
			if g := c.Call.StaticCallee(); g != nil && g != fn && inModuleFn(g) && g.Blocks != nil {
				allInstrs(g, func(j ssa.Instruction) {
					if replacesPointer(j) {
						site = true
					}
				})
			}
		}
		if !site {
			return
		}
		n++
		q := (&MustPass{P: P, NoInterproc: true, Match: func(a Atom) bool { return indexDiffers.MatchString(canon(a)) }}).MustReach(fn, i)
		R.decide(rule, kWitUpdate+":pointer-replaced-only-when-index-changed", "the witness' SignedAccumulator pointer is replaced only on paths where the accumulator index changed (same index: the pointee is overwritten, so that a prepared commitment sharing it reads the new signature and time)", q.Holds, q.Path, P.Pos(i.Pos()))
	})
	R.decide(rule, kWitUpdate+":pointer-stores", "stores of a new SignedAccumulator pointer into the witness were found (>= 1)", n >= 1, fmt.Sprintf("%d", n), P.Pos(fn.Pos()))
}

func revocationVerifyRule(P *Program, R *Report) {
	rule := "C11.b"
	fn := mustFunc(P, R, rule, kRevVWC)
	if fn == nil {
		return
	}
	acc := AcceptTrue(0)
	mp(P, R, rule, kRevVWC+":structure", "accept => verifyProofStructure passed", fn, acc, &MustPass{Match: func(a Atom) bool {
		_, ok := callAtom(a, True, "revocation.verifyProofStructure")
		return ok
	}})
	// the bound
	want := termTop()
	if ini := P.Func("revocation.init#1"); ini != nil {
		if t, ok := P.bigEval(ini).Glob["global:revocation.Parameters.bTwoZk"]; ok {
			want = t
		}
	}
	spec := pow2("global:revocation.Parameters.AttributeSize+global:revocation.Parameters.ChallengeLength+global:revocation.Parameters.ZkStat+1")
	R.decide(rule, "revocation.Parameters.bTwoZk", "bTwoZk = 2^(AttributeSize + ChallengeLength + ZkStat + 1)", want.equal(spec), "got "+want.String(), "")
	mp(P, R, rule, kRevVWC+":alpha-size", "accept => alpha <= bTwoZk was tested", fn, acc, &MustPass{Match: func(a Atom) bool {
		g, ok := P.guardOf(a)
		if !ok || g.Kind != "big" {
			return false
		}
		if !(strings.Contains(g.Subject, `"alpha"`)) {
			return false
		}
		t, ok := g.exclusiveUpper()
		return ok && t.equal(tsum(tsym("global:revocation.Parameters.bTwoZk"), tconst(1)))
	}})
	var accCall *ssa.Call
	mp(P, R, rule, kRevVWC+":accumulator-signed", "accept => SignedAccumulator.UnmarshalVerify(pk) returned nil", fn, acc, &MustPass{Match: func(a Atom) bool {
		c, idx := callAndResult(a.V)
		if c != nil && calleeIs(c, kSaccVerify) && idx == 1 && a.Want == Nil && desc(callArgs(c)[0]) == revP+".SignedAccumulator" && desc(callArgs(c)[1]) == pkD {
			accCall = c
			return true
		}
		return false
	}})
	mp(P, R, rule, kRevVWC+":Nu==verified", "accept => p.Nu compared equal to the verified accumulator's Nu", fn, acc, &MustPass{Match: func(a Atom) bool {
		x, y, ok := parseEq(a)
		if !ok {
			return false
		}
		isNu := func(v ssa.Value) bool { return desc(v) == revP+".Nu" }
		isAcc := func(v ssa.Value) bool {
			d := desc(v)
			return d == revP+".acc.Nu" || (accCall != nil && d == desc(accCall)+"#0.Nu")
		}
		return (isNu(x) && isAcc(y)) || (isNu(y) && isAcc(x))
	}})
	// p.acc is the verified accumulator
	okAcc := false
	for _, s := range sinksOf(fn) {
		if s.target == revP+".acc" {
			okAcc = strings.HasPrefix(desc(s.val), "call:"+kSaccVerify+"(")
		}
	}
	R.decide(rule, kRevVWC+":acc-source", "p.acc is the accumulator returned by UnmarshalVerify", okAcc, "", P.Pos(fn.Pos()))
	mp(P, R, rule, kRevVWC+":challenge", "accept => p.Challenge compared equal to the challenge parameter", fn, acc, &MustPass{Match: eqMatcher(is(revP+".Challenge"), is("arg#2"))})
}

func setExpectedRule(P *Program, R *Report) {
	rule := "C11.c"
	fn := mustFunc(P, R, rule, kSetExpected)
	if fn != nil {
		want := map[string]string{
			revP + ".Nu":                  "call:" + kSaccVerify + "(" + revP + ".SignedAccumulator," + pkD + ")#0.Nu",
			revP + ".Challenge":           "arg#2",
			revP + `.Responses["alpha"]`: "arg#3",
		}
		for target, src := range want {
			var st ssa.Instruction
			got := ""
			for _, s := range sinksOf(fn) {
				t := s.target
				if s.key != "" {
					t += "[" + s.key + "]"
				}
				if t == target {
					st, got = s.ins, desc(s.val)
				}
			}
			if st == nil {
				R.bad(rule, kSetExpected+":"+target, "SetExpected installs "+target, "no assignment found", P.Pos(fn.Pos()))
				continue
			}
			R.decide(rule, kSetExpected+":"+target, "SetExpected installs "+target+" from "+src, got == src, "got "+got, P.Pos(st.Pos()))
			// unconditional: every nil-error return passes the assignment
			target := target
			mp(P, R, rule, kSetExpected+":"+target+":always", "a nil error is returned only after "+target+" was (re)assigned - a value shipped inside the proof is never kept", fn, AcceptNilErr(0), &MustPass{Instr: func(_ *ssa.Function, i ssa.Instruction) bool { return i == st }})
		}
		mp(P, R, rule, kSetExpected+":verified-first", "values are installed only after the accumulator's signature verified", fn, AcceptNilErr(0), &MustPass{Match: func(a Atom) bool {
			c, idx := callAndResult(a.V)
			return c != nil && calleeIs(c, kSaccVerify) && idx == 1 && a.Want == Nil
		}})
	}
	cc := mustFunc(P, R, rule, kProofDCC)
	if cc == nil {
		return
	}
	idx := revocationIndexDesc(P, cc)
	none := func(a Atom) bool { return desc(a.V) == pdNR && a.Want == Nil }
	mp(P, R, rule, kProofDCC+":SetExpected-args", "contribution with a nonrev part => SetExpected(pk, p.C, AResponses[revocation index]) returned nil", cc, AcceptNilErr(1), &MustPass{Exempt: none, Match: func(a Atom) bool {
		c, ok := callAtom(a, Nil, kSetExpected)
		if !ok {
			return false
		}
		ar := callArgs(c)
		return desc(ar[0]) == pdNR && desc(ar[1]) == pkD && desc(ar[2]) == "<gabi.ProofD>.C" && descNN(ar[3]) == "<gabi.ProofD>.AResponses["+idx+"]"
	}})
	mp(P, R, rule, kProofDCC+":response-present", "contribution with a nonrev part => the hidden response at the revocation index is non-nil", cc, AcceptNilErr(1), &MustPass{Exempt: none, Match: func(a Atom) bool {
		return desc(a.V) == "<gabi.ProofD>.AResponses["+idx+"]" && a.Want == NonNil
	}})
	// the contributions are appended
	roots := nonErrorReturnValues(cc, 0, 1)
	found := false
	// (computed in this function or in a helper whose result it appends)
	for x := range depsIP(P, roots, 1) {
		if c, ok := x.(*ssa.Call); ok && calleeIs(c, "revocation.(*Proof).ChallengeContributions") {
			found = true
		}
	}
	R.decide(rule, kProofDCC+":appended", "the non-revocation contributions are part of the returned challenge contribution", found, "", P.Pos(cc.Pos()))
	if cf := mustFunc(P, R, rule, "revocation.commitmentsFromProof"); cf != nil {
		var rv []ssa.Value
		for _, r := range returnsOf(cf) {
			rv = append(rv, r.Results...)
		}
		requireDeps(P, R, rule, FuncKey(cf), cf, rv, 4, []depReq{
			{"Cr", is(revP + ".Cr"), "commitment"}, {"Cu", is(revP + ".Cu"), "commitment"}, {"Nu", is(revP + ".Nu"), "accumulator"},
			{"challenge", is("arg#3"), "challenge"}, {"responses", contains(".ProofResult("), "all responses through the lookup"},
		})
		// the proof's own Cr, Cu, Nu are hashed as they are (not a reduced or otherwise recomputed value: the prover
		// hashed the integers it sent), and they are the bases of the relations
		okVerbatim := false
		gotV := ""
		allInstrs(cf, func(i ssa.Instruction) {
			c, ok := i.(*ssa.Call)
			if !ok || !isCallTo(c, "builtin:append") {
				return
			}
			if tail, okT := seqTail(callArgs(c)[1], 0, map[ssa.Value]bool{}); okT && len(tail) == 3 {
				gotV = seqString(tail)
				okVerbatim = tail[0].D == revP+".Cr" && tail[1].D == revP+".Cu" && tail[2].D == revP+".Nu" &&
					tail[0].Kind == "elem" && tail[1].Kind == "elem" && tail[2].Kind == "elem"
				for _, e := range tail {
					if _, isLoad := e.V.(*ssa.UnOp); !isLoad {
						okVerbatim = false // a computed value (e.g. new(big.Int).Mod(proof.Cr, N)) has the field's name but is not the field
					}
				}
			}
		})
		R.decide(rule, FuncKey(cf)+":verbatim", "the values Cr, Cu, Nu carried by the proof are appended to the hashed list unchanged", okVerbatim, "got "+gotV, P.Pos(cf.Pos()))
		okBases := false
		for f, st := range litFieldStores(cf, "new:revocation.ProofCommit") {
			_ = f
			_ = st
		}
		fs := litFieldStores(cf, "new:revocation.ProofCommit")
		if len(fs) == 0 {
			fs = litFieldStores(cf, "new:revocation.proofCommit")
		}
		if fs["cr"] != nil && fs["cu"] != nil && fs["nu"] != nil {
			isField := func(st *ssa.Store, d string) bool {
				_, isLoad := st.Val.(*ssa.UnOp)
				return isLoad && desc(st.Val) == d
			}
			okBases = isField(fs["cr"], revP+".Cr") && isField(fs["cu"], revP+".Cu") && isField(fs["nu"], revP+".Nu")
		}
		R.decide(rule, FuncKey(cf)+":bases", "the relations are reconstructed over the proof's own Cr, Cu, Nu", okBases, "", P.Pos(cf.Pos()))
		// the three relations in order cr, nu, one
		var order []string
		for _, c := range callsIn(cf) {
			if isCallTo(c, "zkproof.(*QrRepresentationProofStructure).CommitmentsFromProof") {
				d := desc(callArgs(c)[0])
				order = append(order, d[strings.LastIndex(d, ".")+1:])
			}
		}
		R.decide(rule, FuncKey(cf)+":relations", "the contributions of the relations cr, nu, one follow Cr, Cu, Nu in this order", strings.Join(order, ",") == "cr,nu,one", strings.Join(order, ","), P.Pos(cf.Pos()))
	}
	if cs := mustFunc(P, R, rule, "revocation.commitmentsFromSecrets"); cs != nil {
		var order []string
		for _, c := range callsIn(cs) {
			if isCallTo(c, "zkproof.(*QrRepresentationProofStructure).CommitmentsFromSecrets") {
				d := desc(callArgs(c)[0])
				order = append(order, d[strings.LastIndex(d, ".")+1:])
			}
		}
		R.decide(rule, FuncKey(cs)+":relations", "the prover commits to the relations in the same order cr, nu, one", strings.Join(order, ",") == "cr,nu,one", strings.Join(order, ","), P.Pos(cs.Pos()))
	}
}

func refreshAgreementRule(P *Program, R *Report) {
	rule := "C11.e"
	pc := "<revocation.ProofCommit>"
	wit := "<revocation.Witness>"
	fn := mustFunc(P, R, rule, kPCUpdate)
	if fn != nil {
		got := map[string]string{}
		for _, st := range receiverStores(fn) {
			got[desc(st.Addr)] = desc(st.Val)
		}
		want := map[string]string{
			pc + ".nu":   wit + ".SignedAccumulator.Accumulator.Nu",
			pc + ".sacc": wit + ".SignedAccumulator",
		}
		for f, w := range want {
			R.decide(rule, kPCUpdate+":"+f, "Update refreshes "+f+" from the (updated) witness", got[f] == w, "got "+got[f], P.Pos(fn.Pos()))
		}
		_, hasCu := got[pc+".cu"]
		R.decide(rule, kPCUpdate+":cu", "Update recomputes cu", hasCu, "", P.Pos(fn.Pos()))
		// cu = H^epsilon * U
		be := P.bigEval(fn)
		okCu := false
		gotT := ""
		for _, s := range sinksOf(fn) {
			if st, ok := s.ins.(*ssa.Store); ok && s.target == "arg#1[1]" {
				t := be.Use[st][st.Val]
				gotT = t.String()
				okCu = strings.Contains(gotT, "Exp("+pc+".g.H, "+pc+`.secrets["epsilon"], `+pc+".g.N)") && strings.Contains(gotT, wit+".U")
			}
		}
		R.decide(rule, kPCUpdate+":commitments[1]", "list position 1 becomes cu = H^r2 * u of the updated witness", okCu, "got "+gotT, P.Pos(fn.Pos()))
		pos := map[string]string{}
		for _, s := range sinksOf(fn) {
			if strings.HasPrefix(s.target, "arg#1[") {
				pos[s.target] = desc(s.val)
			}
		}
		R.decide(rule, kPCUpdate+":commitments[2]", "list position 2 becomes the new Nu", pos["arg#1[2]"] == wit+".SignedAccumulator.Accumulator.Nu", pos["arg#1[2]"], P.Pos(fn.Pos()))
		R.decide(rule, kPCUpdate+":commitments[4]", "list position 4 becomes the recomputed commitment of the nu relation", strings.Contains(pos["arg#1[4]"], "CommitmentsFromSecrets(global:revocation.proofstructure.nu"), pos["arg#1[4]"], P.Pos(fn.Pos()))
		R.decide(rule, kPCUpdate+":positions", "exactly positions 1, 2 and 4 are refreshed", len(pos) == 3, fmt.Sprint(len(pos)), P.Pos(fn.Pos()))
	}
	// commitmentsFromSecrets list layout: [.., cr, cu, nu, cr-rel, nu-rel, one-rel]
	if cs := P.Func("revocation.commitmentsFromSecrets"); cs != nil {
		okLayout := false
		for _, c := range callsIn(cs) {
			if call, ok := c.(*ssa.Call); ok && isCallTo(call, "builtin:append") {
				if tail, ok := seqTail(callArgs(call)[1], 0, map[ssa.Value]bool{}); ok && len(tail) == 3 {
					okLayout = strings.HasSuffix(tail[0].D, ".cr") && strings.HasSuffix(tail[1].D, ".cu") && strings.HasSuffix(tail[2].D, ".nu")
				}
			}
		}
		R.decide(rule, FuncKey(cs)+":layout", "the commitment list starts with cr, cu, nu (so positions 1, 2 are cu, nu and 4 is the nu relation)", okLayout, "", P.Pos(cs.Pos()))
	}
	if npc := P.Func(kNewPC); npc != nil {
		ok := false
		deepVisit(P, npc, 1, func(g *ssa.Function) {
			for _, s := range sinksOf(g) {
				if strings.HasSuffix(s.target, ".sacc") {
					d := desc(s.val)
					ok = false
					for r := range witRoots {
						if d == r+".SignedAccumulator" {
							ok = true
						}
					}
					// ... or of the per-proof copy a helper produced
					if u, isLoad := s.val.(*ssa.UnOp); isLoad && !ok {
						if fa, isFA := u.X.(*ssa.FieldAddr); isFA && faName(fa) == "SignedAccumulator" {
							ok = witRoots[descNN(fa.X)]
						}
					}
				}
			}
		})
		R.decide(rule, kNewPC+":sacc", "a new commitment records the witness' signed accumulator", ok, "", P.Pos(npc.Pos()))
	}
	if bp := mustFunc(P, R, rule, "revocation.(*ProofCommit).BuildProof"); bp != nil {
		fs := litFieldStores(bp, "new:revocation.Proof")
		g := map[string]string{}
		for f, st := range fs {
			g[f] = desc(st.Val)
		}
		R.decide(rule, FuncKey(bp)+":fields", "the proof embeds the commit's cr, cu, nu, sacc and the challenge",
			g["Cr"] == pc+".cr" && g["Cu"] == pc+".cu" && g["Nu"] == pc+".nu" && g["SignedAccumulator"] == pc+".sacc" && g["Challenge"] == "arg#1", fmt.Sprint(g), P.Pos(bp.Pos()))
	}
	if uc := mustFunc(P, R, rule, kUpdCommit); uc != nil {
		nb := "<gabi.NonRevocationProofBuilder>"
		var upd *ssa.Call
		for _, c := range callsIn(uc) {
			if isCallTo(c, kPCUpdate) {
				upd = c.(*ssa.Call)
			}
		}
		if upd == nil {
			R.bad(rule, kUpdCommit+":refresh", "UpdateCommit refreshes the commit", "no call to ProofCommit.Update", P.Pos(uc.Pos()))
			return
		}
		ar := callArgs(upd)
		R.decide(rule, kUpdCommit+":args", "the builder's own commit and commitment list are refreshed from the given witness", desc(ar[0]) == nb+".commit" && desc(ar[1]) == nb+".commitments" && desc(ar[2]) == "<revocation.Witness>", "", P.Pos(upd.Pos()))
		q := &MustPass{P: P, Match: func(a Atom) bool {
			g, ok := parseGuard(a, nil)
			if !ok {
				return false
			}
			rel, ok := g.intRel(nb+".index", "<revocation.Witness>.SignedAccumulator.Accumulator.Index")
			return ok && rel == "<"
		}}
		r := q.MustReach(uc, upd)
		R.decide(rule, kUpdCommit+":forward-only", "the commit is refreshed only when the witness' accumulator index is greater than the recorded one", r.Holds, r.Path, P.Pos(upd.Pos()))
		okIdx, okWit := false, false
		for _, st := range receiverStores(uc) {
			if desc(st.Addr) == nb+".index" && desc(st.Val) == "<revocation.Witness>.SignedAccumulator.Accumulator.Index" {
				okIdx = true
			}
			if desc(st.Addr) == nb+".witness" && desc(st.Val) == "<revocation.Witness>" {
				okWit = true
			}
		}
		R.decide(rule, kUpdCommit+":records", "the new index and witness are recorded", okIdx && okWit, "", P.Pos(uc.Pos()))
		// the index is recorded only after the refresh it stands for (recorded first, the forward-only guard that reads it
		// always says "nothing to do" and the commitment is never refreshed)
		okOrder, why := true, ""
		for _, st := range receiverStores(uc) {
			if desc(st.Addr) != nb+".index" {
				continue
			}
			q := &MustPass{P: P, NoInterproc: true, Instr: func(_ *ssa.Function, i ssa.Instruction) bool { return i == ssa.Instruction(upd) }}
			if r := q.MustReach(uc, st); !r.Holds {
				okOrder, why = false, r.Path
			}
		}
		R.decide(rule, kUpdCommit+":index-after-refresh", "the recorded index changes only after ProofCommit.Update ran", okOrder, why, P.Pos(uc.Pos()))
	}
}

// mapOrderVerdictRule: loops over maps on the verifier path that return a key/value-dependent result.
func mapOrderVerdictRule(P *Program, R *Report) {
	rule := "C11.g"
	fns := P.reachableFuncs(c08Entries(P)...)
	n := 0
	var found []string
	for _, fn := range fns {
		for _, b := range fn.Blocks {
			for _, ins := range b.Instrs {
				nx, ok := ins.(*ssa.Next)
				if !ok {
					continue
				}
				rg, ok := nx.Iter.(*ssa.Range)
				if !ok || !isMapType(rg.X.Type()) {
					continue
				}
				l := findLoop(b)
				if l == nil {
					continue
				}
				n++
				md := desc(rg.X)
				for _, bb := range fn.Blocks {
					ret, isRet := bb.Instrs[len(bb.Instrs)-1].(*ssa.Return)
					if !isRet || l.Body[bb] || !l.Header.Dominates(bb) {
						continue
					}
					// an exit taken from inside the body (not the normal loop exit)
					fromBody := false
					for _, p := range bb.Preds {
						if l.Body[p] && p != l.Header {
							fromBody = true
						}
					}
					if !fromBody {
						continue
					}
					for i := range ret.Results {
						if isErrorType(retValue(ret, i).Type()) {
							continue // which element's error is reported may vary; the verdict (rejection) does not
						}
						d := desc(retValue(ret, i))
						if (strings.Contains(d, "rangekey("+md+")") || strings.Contains(d, md+"[*]")) && onlyPicksMessage(P, fn, i) {
							continue // the callers use it only to choose between rejections (which offender is named may vary, the verdict does not)
						}
						if strings.Contains(d, "rangekey("+md+")") || strings.Contains(d, md+"[*]") {
							key := FuncKey(fn)
							found = append(found, key)
							// the construct is the map ranged over, named in the terms of the verifier entry that
							// reaches the loop (a helper taking the map as a parameter is the same construct)
							mdE := md
							if strings.Contains(md, "arg#") {
								seenD := map[string]bool{}
								for _, caller := range fns {
									for _, c := range callsTo(caller, fn) {
										bindCall(c, fn, func() { seenD[desc(rg.X)] = true })
									}
								}
								if len(seenD) == 1 {
									for d2 := range seenD {
										mdE = d2
									}
								}
							}
							R.seen(key)
							R.bad(rule, "verifier:range("+mdE+")", "a verifier-side result does not depend on map iteration order", "returns "+d+" for the first qualifying entry met while ranging over the map", P.Pos(ret.Pos()))
						}
					}
				}
			}
		}
	}
	sort.Strings(found)
	R.decide(rule, "maploops:count", "map-range loops on the verifier path were inspected (>= 6)", n >= 6, fmt.Sprintf("%d loops, %d order-dependent results", n, len(found)), "")
}

func isMapType(t types.Type) bool { _, ok := t.Underlying().(*types.Map); return ok }


func revocationGroupElementsRule(P *Program, R *Report, rule string) {
	const key = "revocation.(*Proof).VerifyWithChallenge"
	fn := mustFunc(P, R, rule, key)
	if fn == nil {
		return
	}
	for _, f := range []string{"Cr", "Cu"} {
		f := f
		// tested on the field itself, or in a loop over a literal list of the two (`for _, c := range []*big.Int{p.Cr, p.Cu}`)
		subj := func(d string) bool { return d == revP+"."+f }
		lower, _ := groupElementMatchers(P, subj, pkD+".N")
		upper := invertibleMatcher(P, subj, pkD+".N")
		for _, side := range []struct {
			name, what string
			m          func(a Atom) bool
		}{{"positive", "0 < " + f, lower}, {"invertible", "gcd(" + f + ", N) = 1", upper}} {
			side := side
			ok := mpQuiet(P, fn, AcceptTrue(0), &MustPass{Match: side.m})
			detail := ""
			if !ok.Holds {
				// the loop form: every element of a literal list that contains the field is tested
				elem := func(d string) bool { return strings.HasSuffix(d, "[#i]") || strings.HasSuffix(d, "[*]") }
				lowerE, _ := groupElementMatchers(P, elem, pkD+".N")
				me := lowerE
				if side.name == "invertible" {
					me = invertibleMatcher(P, elem, pkD+".N")
				}
				fa := &ForAll{P: P, Spec: ForAllSpec{Coll: func(d string) bool { return strings.HasPrefix(d, "new:[") }, Body: func(fn2 *ssa.Function, l *Loop) *MustPass {
					return &MustPass{Match: me}
				}}}
				m := fa.OnAccept(fn, AcceptTrue(0))
				inList := false
				// the literal must contain the field
				allInstrs(fn, func(i ssa.Instruction) {
					if st, isSt := i.(*ssa.Store); isSt {
						if ia, isIA := st.Addr.(*ssa.IndexAddr); isIA && strings.HasPrefix(desc(ia.X), "new:[") && desc(st.Val) == revP+"."+f {
							inList = true
						}
					}
				})
				ok.Holds = m.Holds && inList
				detail = ok.Path + " | loop form: " + m.Path
			}
			R.decide(rule, key+":"+f+":"+side.name, "accept => "+side.what+" (the commitment is a unit modulo N)", ok.Holds, detail, P.Pos(fn.Pos()))
		}
	}
}

// lookupRow: what a by-name lookup returns. generic: the descriptor returned for an arbitrary name ("" = none);
// byKey: the descriptor returned for a particular name; keys: the names that must be answered.
type lookupRow struct {
	fn      string
	generic string
	byKey   map[string]string
	keys    []string
}

var revocationSecretNames = []string{"alpha", "beta", "delta", "epsilon", "zeta"}

var revocationLookups = []lookupRow{
	{fn: "revocation.(*proofCommit).Secret", generic: "<revocation.ProofCommit>.secrets[arg#1]", keys: revocationSecretNames},
	{fn: "revocation.(*proofCommit).Randomizer", generic: "<revocation.ProofCommit>.randomizers[arg#1]", keys: revocationSecretNames},
	{fn: "revocation.(*proof).ProofResult", generic: "<revocation.Proof>.Responses[arg#1]", keys: revocationSecretNames},
	{fn: "revocation.(*proofCommit).Base", byKey: map[string]string{"cu": "<revocation.ProofCommit>.cu", "cr": "<revocation.ProofCommit>.cr", "nu": "<revocation.ProofCommit>.nu", "one": "call:big.NewInt(1)"}, keys: []string{"cu", "cr", "nu", "one"}},
	{fn: "revocation.(*witness).Secret", byKey: map[string]string{"alpha": "<revocation.Witness>.E", "u": "<revocation.Witness>.U"}, keys: []string{"alpha", "u"}},
	{fn: "revocation.(*witness).Randomizer", byKey: map[string]string{"alpha": "<revocation.Witness>.randomizer"}, keys: []string{"alpha"}},
	{fn: "revocation.(accumulator).Base", byKey: map[string]string{"nu": "<revocation.Accumulator>.Nu"}, keys: []string{"nu"}},
}

// lookupFaithfulRule: the by-name lookups through which zkproof reads secrets, randomisers, responses and bases answer
// each name with that name's own value: every return is the generic lookup under the requested name, or - under a
// test `name == "k"` - the value tabled for k; every tabled name is answered; anything else returns nil.
func lookupFaithfulRule(P *Program, R *Report, rule string, rows []lookupRow) {
	for _, row := range rows {
		fn := mustFunc(P, R, rule, row.fn)
		if fn == nil {
			continue
		}
		answered := map[string]bool{}
		genericSeen := false
		ok := true
		var notes []string
		for _, r := range returnsOf(fn) {
			v := retValue(r, 0)
			d := desc(v)
			if isNilConst(v) {
				d = "nil"
			}
			k := "*"
			for _, a := range controllingConds(r.Block()) {
				t, want := condText(a)
				if want == True && strings.HasPrefix(t, "(arg#1==\"") && strings.HasSuffix(t, "\")") {
					k = strings.TrimSuffix(strings.TrimPrefix(t, "(arg#1==\""), "\")")
				}
			}
			if k == "*" {
				if row.generic != "" && d == row.generic {
					genericSeen = true
					continue
				}
				// a table of per-name functions: each entry is that name's answer
				if tab := dispatchTable(P, v); tab != nil {
					for tk, td := range tab {
						want, has := row.byKey[tk]
						if !has && row.generic != "" {
							want, has = strings.ReplaceAll(row.generic, "arg#1", "\""+tk+"\""), true
						}
						if !has {
							want = "nil"
						}
						if td != want {
							ok = false
							notes = append(notes, fmt.Sprintf("table entry %q -> %s (want %s)", tk, td, want))
						} else {
							answered[tk] = true
						}
					}
					continue
				}
				if d != "nil" {
					ok = false
					notes = append(notes, "any name -> "+d)
				}
				continue
			}
			want, has := row.byKey[k]
			if !has && row.generic != "" {
				want, has = strings.ReplaceAll(row.generic, "arg#1", "\""+k+"\""), true
			}
			if !has {
				want = "nil"
			}
			if d != want {
				ok = false
				notes = append(notes, fmt.Sprintf("%q -> %s (want %s)", k, d, want))
			} else {
				answered[k] = true
			}
		}
		if !genericSeen {
			for _, k := range row.keys {
				if !answered[k] {
					ok = false
					notes = append(notes, fmt.Sprintf("%q is not answered", k))
				}
			}
		}
		R.decide(rule, row.fn+":lookup", "the by-name lookup answers every name with that name's own value", ok, strings.Join(notes, "; "), P.Pos(fn.Pos()))
	}
}

// dispatchTable: v is the result of calling a function looked up by the name parameter in a package-level map
// literal (`if f, ok := table[name]; ok { return f(c) }`): for every key of the literal, what that entry's function
// returns with its parameters bound to the call's arguments. nil if v is not of that form.
func dispatchTable(P *Program, v ssa.Value) map[string]string {
	c, ok := v.(*ssa.Call)
	if !ok || c.Call.IsInvoke() || c.Call.StaticCallee() != nil {
		return nil
	}
	fv := c.Call.Value
	if ex, isEx := fv.(*ssa.Extract); isEx {
		fv = ex.Tuple
	}
	lk, ok := fv.(*ssa.Lookup)
	if !ok || desc(lk.Index) != "arg#1" {
		return nil
	}
	ld, ok := lk.X.(*ssa.UnOp)
	if !ok {
		return nil
	}
	g, ok := ld.X.(*ssa.Global)
	if !ok || g.Pkg == nil {
		return nil
	}
	init := g.Pkg.Func("init")
	if init == nil {
		return nil
	}
	// the global is assigned once, in the package initialiser, a map literal
	var mk *ssa.MakeMap
	n := 0
	for _, fn := range P.AllFuncs {
		if fn.Blocks == nil {
			continue
		}
		allInstrs(fn, func(i ssa.Instruction) {
			if st, isSt := i.(*ssa.Store); isSt && st.Addr == ssa.Value(g) {
				n++
				if fn == init {
					mk, _ = st.Val.(*ssa.MakeMap)
				}
			}
		})
	}
	if n != 1 || mk == nil {
		return nil
	}
	out := map[string]string{}
	okAll := true
	for _, r := range referrersOf(mk) {
		switch u := r.(type) {
		case *ssa.MapUpdate:
			k, isC := u.Key.(*ssa.Const)
			if !isC || k.Value == nil || u.Map != ssa.Value(mk) {
				okAll = false
				continue
			}
			key := strings.Trim(k.Value.ExactString(), "\"")
			var fn *ssa.Function
			switch f := u.Value.(type) {
			case *ssa.Function:
				fn = f
			case *ssa.MakeClosure:
				if len(f.Bindings) == 0 {
					fn, _ = f.Fn.(*ssa.Function)
				}
			}
			if fn == nil || fn.Blocks == nil || len(returnsOf(fn)) != 1 {
				okAll = false
				continue
			}
			bindCall(c, fn, func() {
				rv := retValue(returnsOf(fn)[0], 0)
				out[key] = desc(rv)
				if isNilConst(rv) {
					out[key] = "nil"
				}
			})
		case *ssa.Store, *ssa.DebugRef:
		default:
			okAll = false
		}
	}
	if !okAll || len(out) == 0 {
		return nil
	}
	return out
}

// onlyPicksMessage: result k of the unexported helper fn is used by its callers only in comparisons both of whose
// outcomes reject at once, or in the text of an error (or not at all).
func onlyPicksMessage(P *Program, fn *ssa.Function, k int) bool {
	if fn.Object() == nil || fn.Object().Exported() {
		return false
	}
	nCalls := 0
	for _, caller := range P.AllFuncs {
		if caller.Blocks == nil {
			continue
		}
		sp := rejectSpec{Fn: FuncKey(caller), Err: -1, Bool: -1}
		res := caller.Signature.Results()
		for i := 0; i < res.Len(); i++ {
			if isErrorType(res.At(i).Type()) {
				sp.Err = i
			} else if isBoolType(res.At(i).Type()) && sp.Bool < 0 {
				sp.Bool = i
			}
		}
		for _, ci := range callsTo(caller, fn) {
			c, ok := ci.(*ssa.Call)
			if !ok {
				return false
			}
			nCalls++
			var vals []ssa.Value
			if fn.Signature.Results().Len() == 1 {
				vals = []ssa.Value{c}
			} else {
				for _, r := range referrersOf(c) {
					if ex, isEx := r.(*ssa.Extract); isEx && ex.Index == k {
						vals = append(vals, ex)
					}
				}
			}
			for _, v := range vals {
				for _, r := range referrersOf(v) {
					switch u := r.(type) {
					case *ssa.DebugRef:
					case *ssa.BinOp:
						for _, rr := range referrersOf(u) {
							iff, isIf := rr.(*ssa.If)
							if _, isDbg := rr.(*ssa.DebugRef); isDbg {
								continue
							}
							if !isIf || !rejectsAtOnce(iff.Block().Succs[0], sp) || !rejectsAtOnce(iff.Block().Succs[1], sp) {
								return false
							}
						}
					case *ssa.MakeInterface:
						for _, rr := range referrersOf(u) {
							switch w := rr.(type) {
							case *ssa.DebugRef:
							case *ssa.Store:
								// an element of the variadic argument list of an error constructor
								if _, isIA := w.Addr.(*ssa.IndexAddr); !isIA {
									return false
								}
							default:
								return false
							}
						}
					default:
						return false
					}
				}
			}
		}
	}
	return nCalls > 0
}
