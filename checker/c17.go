package main

import (
	"fmt"
	"go/token"
	"go/types"
	"sort"
	"strings"

	"golang.org/x/tools/go/ssa"
)

const (
	kVKVerify = "keyproof.(*ValidKeyProofStructure).VerifyProof"
	kVKBuild  = "keyproof.(*ValidKeyProofStructure).BuildProof"
	kQSPPVer  = "keyproof.quasiSafePrimeProductVerifyProof"
	vkp       = "<keyproof.ValidKeyProof>"
	vks       = "<keyproof.ValidKeyProofStructure>"
)

func init() {
	register("C17",
		Rule{ID: "C17.a", Explain: "ValidKeyProofStructure.VerifyProof: accept => GroupPrime present, long enough (|n| + 2*epsilon + 10 bits) and, with its half, probably prime (k >= 20); every field of ValidKeyProof (enumerated from the type) passed a structure check or nil test; Challenge compared equal to HashCommit(list, false); quasiSafePrimeProductVerifyProof(s.n, Challenge, QSPPproof) true.",
			Run: func(P *Program, R *Report) { validKeyVerifyRule(P, R) }},
		Rule{ID: "C17.b", Explain: "authentication: every field of ValidKeyProof influences the hashed list or a directly verified predicate; prover and verifier append the sub-structures' contributions to the list in the same order.",
			Run: func(P *Program, R *Report) { validKeyListRule(P, R) }},
		Rule{ID: "C17.c", Explain: "quasiSafePrimeProductVerifyProof: accept => N mod 8 == 5, gcd(N, i) == 1 for all 2 <= i < minimumFactor, and all four component verifiers true with pairwise distinct index constants; every component verifier checks as many iterations as its structure check demands responses (loop bound == enforced slice length).",
			Run: func(P *Program, R *Report) { quasiSafePrimeRule(P, R) }},
		Rule{ID: "C17.d", Explain: "OR-compositions: the structure checks of expStep and primeProof accept only if the two sub-challenges XOR to the challenge, and the sub-proofs' commitments are rebuilt with exactly those sub-challenges.",
			Run: func(P *Program, R *Report) { orCompositionRule(P, R) }},
		Rule{ID: "C17.e", Explain: "range proofs of the key proof: every secret of the structure has a result list of length rangeProofIters with non-nil entries, range-secret results are below 2^(l2 + epsilon + 2), and commitmentsFromProof runs rangeProofIters rounds with the per-round challenge bit over the structure's own names only.",
			Run: func(P *Program, R *Report) { keyRangeProofRule(P, R) }},
		Rule{ID: "C17.f", Explain: "nil/length safety of the key-proof verifier (same validated-before-use typestate as C08, entry point VerifyProof) and: every slice field of every proof type is length-checked and every one of its elements structure-checked by the corresponding structure check (a loop over that very field).",
			Run: func(P *Program, R *Report) { keyproofSafetyRule(P, R) }},
		Rule{ID: "C17.h", Explain: "good keys are accepted: VerifyProof rejects for the specified reasons only - a missing component, a group prime that is too SHORT or not a safe prime, a failed structure check, a group that cannot be built, a challenge mismatch - and otherwise returns the verdict of the quasi-safe-prime-product proof; any other rejecting branch (e.g. an upper bound on the group prime, which the prover legitimately exceeds when it uses a precomputed prime) is reported.",
			Run: func(P *Program, R *Report) {
				validKeyRejectionsRule(P, R)
				treeRejectionsRule(P, R, "C17.h", "keyproof", "the key-proof verification call tree")
			}},
		Rule{ID: "C17.i", Explain: "aliasing discipline: verifying a key proof leaves the proof and the structure unchanged - no function mutates in place a big.Int it reached through keyproof.ValidKeyProof / keyproof.ValidKeyProofStructure / keyproof.PedersenProof / keyproof.RangeProof / keyproof.Proof (math/big mutators write their receiver), except the tabled merge/refresh functions.",
			Run: func(P *Program, R *Report) { inPlaceDisciplineRule(P, R, "C17.i", "keyproof.ValidKeyProof", "keyproof.ValidKeyProofStructure", "keyproof.PedersenProof", "keyproof.RangeProof", "keyproof.Proof") }},
		Rule{ID: "C17.j", Explain: "range parameters: every range-proof structure built in keyproof (newPedersenRangeProofStructure calls and rangeProofStructure literals) has l1 = 0 and l2 = exactly one bit-length quantity (a bitlen parameter or field, or |N|) - never a widened expression; the four copies of the generator range structure in the prime proof (prover, fake prover, structure check, commitments) agree.",
			Run: func(P *Program, R *Report) { rangeParametersRule(P, R) }},
		Rule{ID: "C17.k", Explain: "sub-structures are complete: in package keyproof every slice made with a computed length and filed in a struct field (the per-square, per-bit and per-step sub-structures, commitments and proofs) has every element visited by a full walk - a loop from 0 by 1 over a collection of that length or up to that count - that stores into or hands out element i. A walk that starts at 1 leaves element 0 at its zero value: an empty relation that nobody proves or checks (for instance the representation proof of the first square), while every honest proof still verifies.",
			Run: func(P *Program, R *Report) { madeSlicesFilledRule(P, R, "C17.k", "keyproof", 0) }},
		Rule{ID: "C17.l", Explain: "the group prime of a key proof is what the table says: findConvenientPrime returns 2^Exp - Diff with Exp and Diff taken from the same chosen row (symbolic term of the returned integer) - with another field in Diff's place the number has the right size and is not a safe prime, and proofs for the production key sizes, which all take their group prime from the table, cannot be built.",
			Run: func(P *Program, R *Report) { convenientPrimeRule(P, R, "C17.l") }},
		Rule{ID: "C17.m", Explain: "a proof structure keeps its own copy of every integer it is given: in the structure constructors of package keyproof no *big.Int parameter (or element of a slice parameter) is stored as it is into the structure under construction - the structure's N feeds the hashed list, the group-prime size and the modulus of the quasi-safe-prime-product check, so an aliased N makes the verdict on one and the same proof depend on what the caller does with its integer afterwards.",
			Run: func(P *Program, R *Report) { structuresCopyRule(P, R, "C17.m") }},
		Rule{ID: "C17.g", Explain: "CanProve tests the residue conditions and safe primality (C16.f).",
			Run: func(P *Program, R *Report) { canProveRule(P, R, "C17.g") }},
		Rule{ID: "C17.n", Explain: "the challenges of the key-proof components are a function of (a, b, index, bitlen) alone: GetHashNumber builds its list afresh with the counter starting at 0 (the obligations of C15.b, same rule) - a pooled scratch list that keeps the counter makes every challenge longer than one block depend on earlier calls, and honest key proofs fail.",
			Run: func(P *Program, R *Report) { sharedRule(P, R, "C15", "C15.b", "C17.n", nil) }},
	)
}

func validKeyVerifyRule(P *Program, R *Report) {
	rule := "C17.a"
	fn := mustFunc(P, R, rule, kVKVerify)
	if fn == nil {
		return
	}
	acc := AcceptTrue(0)
	gp := vkp + ".GroupPrime"
	mp(P, R, rule, kVKVerify+":GroupPrime-present", "accept => GroupPrime != nil", fn, acc, &MustPass{Match: func(a Atom) bool { return desc(a.V) == gp && a.Want == NonNil }})
	mp(P, R, rule, kVKVerify+":GroupPrime-size", "accept => GroupPrime.BitLen() >= |n| + 2*rangeProofEpsilon + 10", fn, acc, &MustPass{Match: func(a Atom) bool {
		g, ok := parseGuard(a, nil)
		if !ok || g.Kind != "bitlen" || g.Subject != gp || g.Rel != ">=" {
			return false
		}
		return g.BoundA.String() == parseAffine("bitlen("+vks+".n)+522").String()
	}})
	be := P.bigEval(fn)
	for _, half := range []bool{false, true} {
		half := half
		name := "GroupPrime-prime"
		what := "accept => GroupPrime.ProbablyPrime(k >= 20)"
		if half {
			name, what = "GroupPrime-half-prime", "accept => (GroupPrime >> 1).ProbablyPrime(k >= 20)"
		}
		mp(P, R, rule, kVKVerify+":"+name, what, fn, acc, &MustPass{Match: func(a Atom) bool {
			c, _ := callAndResult(a.V)
			if c == nil || bigMethod(c) != "ProbablyPrime" || a.Want != True {
				return false
			}
			k, ok := constInt(callArgs(c)[1])
			if !ok || k < 20 {
				return false
			}
			ts := be.at(c)
			if len(ts) < 1 {
				return false
			}
			if half {
				return ts[0].equal(termFn("Rsh", tsym(gp), tconst(1)))
			}
			return ts[0].equal(tsym(gp))
		}})
	}
	// every field of the proof type
	st := structOf(P, "keyproof.ValidKeyProof")
	if st == nil {
		R.und(rule, "keyproof.ValidKeyProof", "type found", "", "")
		return
	}
	n := 0
	for i := 0; i < st.NumFields(); i++ {
		f := st.Field(i).Name()
		fd := vkp + "." + f
		n++
		if isBigIntPtr(st.Field(i).Type()) {
			mp(P, R, rule, kVKVerify+":field:"+f, "accept => "+f+" != nil", fn, acc, &MustPass{Match: func(a Atom) bool { return desc(a.V) == fd && a.Want == NonNil }})
			continue
		}
		mp(P, R, rule, kVKVerify+":field:"+f, "accept => a structure check of "+f+" succeeded", fn, acc, &MustPass{Match: func(a Atom) bool {
			c, _ := callAndResult(a.V)
			if c == nil || a.Want != True {
				return false
			}
			name := calleeName(c)
			if !strings.Contains(strings.ToLower(name), "structure") {
				return false
			}
			for _, ar := range callArgs(c) {
				if desc(ar) == fd {
					return true
				}
			}
			return false
		}})
	}
	R.decide(rule, "keyproof.ValidKeyProof:fields", "the fields of ValidKeyProof were enumerated (>= 10)", n >= 10, fmt.Sprintf("%d", n), "")
	var hc *ssa.Call
	for _, c := range callsIn(fn) {
		if isCallTo(c, "common.HashCommit") {
			hc = c.(*ssa.Call)
		}
	}
	mp(P, R, rule, kVKVerify+":challenge", "accept => Challenge compared equal to HashCommit(rebuilt list, false)", fn, acc, &MustPass{Match: func(a Atom) bool {
		x, y, ok := parseEq(a)
		if !ok || hc == nil {
			return false
		}
		return (desc(x) == vkp+".Challenge" && y == ssa.Value(hc)) || (desc(y) == vkp+".Challenge" && x == ssa.Value(hc))
	}})
	if hc != nil {
		R.decide(rule, kVKVerify+":issig", "the key proof is hashed without the signature-session marker", desc(callArgs(hc)[1]) == "false", "", P.Pos(hc.Pos()))
	}
	mp(P, R, rule, kVKVerify+":QSPP", "accept => quasiSafePrimeProductVerifyProof(s.n, Challenge, QSPPproof) true", fn, acc, &MustPass{Match: func(a Atom) bool {
		c, ok := callAtom(a, True, kQSPPVer)
		return ok && desc(callArgs(c)[0]) == vks+".n" && desc(callArgs(c)[1]) == vkp+".Challenge" && desc(callArgs(c)[2]) == vkp+".QSPPproof"
	}})
	mp(P, R, rule, kVKVerify+":group", "accept => BuildGroup(GroupPrime) succeeded", fn, acc, &MustPass{Match: func(a Atom) bool {
		c, idx := callAndResult(a.V)
		return c != nil && calleeIs(c, "zkproof.BuildGroup") && idx == 1 && a.Want == True && desc(callArgs(c)[0]) == gp
	}})
}

// listChain walks backwards from a list value through `list = f(..., list, ...)` / append steps and
// returns the contributing step names in program order.
func listChain(v ssa.Value) []string {
	var steps []string
	seen := map[ssa.Value]bool{}
	for v != nil && !seen[v] {
		seen[v] = true
		switch x := v.(type) {
		case *ssa.Extract:
			v = x.Tuple
			continue
		case *ssa.Call:
			if isCallTo(x, "builtin:append") {
				// one step per appended element: append(l, a, b) is append(l, a) followed by append(l, b)
				t, _ := seqTail(callArgs(x)[1], 0, map[ssa.Value]bool{})
				var names []string
				for _, e := range t {
					names = append(names, "append("+seqString([]SeqElem{e})+")")
				}
				if len(t) == 0 {
					names = []string{"append([])"}
				}
				steps = append(names, steps...)
				v = callArgs(x)[0]
				continue
			}
			// a call taking the previous list as an argument
			var prev ssa.Value
			args := callArgs(x)
			for _, a := range args {
				if sl, ok := a.Type().Underlying().(*types.Slice); ok && isBigIntPtr(sl.Elem()) {
					prev = a
					break
				}
			}
			name := calleeName(x)
			if len(args) > 0 {
				d := desc(args[0])
				if i := strings.LastIndex(d, "."); i >= 0 && strings.HasPrefix(d, "<keyproof.ValidKeyProofStructure>") {
					name = d[i+1:]
				} else if strings.HasPrefix(name, "keyproof.") {
					name = strings.TrimPrefix(name, "keyproof.")
				}
			}
			steps = append([]string{name}, steps...)
			v = prev
			continue
		}
		break
	}
	return steps
}

func validKeyListRule(P *Program, R *Report) {
	rule := "C17.b"
	vf := mustFunc(P, R, rule, kVKVerify)
	bf := mustFunc(P, R, rule, kVKBuild)
	if vf == nil || bf == nil {
		return
	}
	find := func(fn *ssa.Function) *ssa.Call {
		for _, c := range callsIn(fn) {
			if isCallTo(c, "common.HashCommit") {
				return c.(*ssa.Call)
			}
		}
		return nil
	}
	vh, bh := find(vf), find(bf)
	if vh == nil || bh == nil {
		R.bad(rule, "hash", "both sides hash a commitment list", "HashCommit call missing", "")
		return
	}
	norm := func(steps []string) []string {
		var out []string
		for _, s := range steps {
			s = strings.TrimPrefix(s, "quasiSafePrimeProduct")
			switch {
			case strings.HasPrefix(s, "BuildCommitments"), strings.HasPrefix(s, "ExtractCommitments"):
				s = "QSPP"
			case strings.Contains(s, "GroupPrime"), strings.HasPrefix(s, "append([call:keyproof.findSafePrime("):
				s = "append(GroupPrime)"
			case strings.HasSuffix(s, ".n])"):
				s = "append(n)"
			}
			out = append(out, s)
		}
		return out
	}
	vs, bs := norm(listChain(callArgs(vh)[0])), norm(listChain(callArgs(bh)[0]))
	R.decide(rule, "order-agreement", "prover and verifier append the sub-structures' contributions in the same order", strings.Join(vs, ",") == strings.Join(bs, ",") && len(vs) >= 12,
		"verifier: "+strings.Join(vs, ",")+"\nprover:   "+strings.Join(bs, ","), P.Pos(vh.Pos()))
	// every field influences the list or a verified predicate
	st := structOf(P, "keyproof.ValidKeyProof")
	ds := descSet(depsIP(P, []ssa.Value{callArgs(vh)[0]}, 1))
	for i := 0; st != nil && i < st.NumFields(); i++ {
		f := st.Field(i).Name()
		if f == "Challenge" || f == "QSPPproof" {
			continue // compared / verified directly (C17.a)
		}
		found := false
		for d := range ds {
			if d == vkp+"."+f || strings.HasPrefix(d, vkp+"."+f+".") || strings.Contains(d, "("+vkp+"."+f+")") || strings.Contains(d, ","+vkp+"."+f+")") || strings.Contains(d, ","+vkp+"."+f+",") {
				found = true
			}
		}
		R.decide(rule, kVKVerify+":authenticated:"+f, "field "+f+" of the proof influences the hashed list", found, "", P.Pos(vf.Pos()))
	}
	// the prover publishes the very group prime it hashed
	pub := false
	allInstrs(bf, func(i ssa.Instruction) {
		if st, ok := i.(*ssa.Store); ok {
			if fa, ok := st.Addr.(*ssa.FieldAddr); ok && faName(fa) == "GroupPrime" && strings.HasPrefix(desc(st.Val), "call:keyproof.findSafePrime(") {
				pub = true
			}
		}
	})
	R.decide(rule, kVKBuild+":GroupPrime", "the prover publishes the group prime it generated and hashed", pub, "", P.Pos(bf.Pos()))
	asppCommitmentsHashedRule(P, R, rule)
	pedersenCommitHashedRule(P, R, rule)
	// n and GroupPrime in the list on both sides
	R.decide(rule, "list:n-and-group", "the modulus n and the group prime are part of the hashed list on both sides",
		strings.Contains(strings.Join(vs, ","), "append(GroupPrime),append(n)") && strings.Contains(strings.Join(bs, ","), "append(GroupPrime),append(n)"), "", "")
}

func loopConstBound(fn *ssa.Function) []int64 {
	var out []int64
	allInstrs(fn, func(i ssa.Instruction) {
		b, ok := i.(*ssa.BinOp)
		if !ok || b.Op != token.LSS {
			return
		}
		if _, isPhi := stripConv(b.X).(*ssa.Phi); !isPhi {
			if bb, ok := b.X.(*ssa.BinOp); !ok || bb.Op != token.ADD {
				return
			}
		}
		if c, ok := constInt(b.Y); ok {
			out = append(out, c)
		}
	})
	return out
}

func quasiSafePrimeRule(P *Program, R *Report) {
	rule := "C17.c"
	fn := mustFunc(P, R, rule, kQSPPVer)
	if fn == nil {
		return
	}
	acc := AcceptTrue(0)
	be := P.bigEval(fn)
	mp(P, R, rule, kQSPPVer+":N-mod-8", "accept => N mod 8 == 5", fn, acc, &MustPass{Match: func(a Atom) bool {
		_, _, ok := parseEq(a)
		if !ok {
			return false
		}
		bo, _ := a.V.(*ssa.BinOp)
		if bo == nil {
			return false
		}
		c, isC := stripConv(bo.X).(*ssa.Call)
		if !isC {
			return false
		}
		ts := be.at(c)
		return len(ts) == 2 && ((ts[0].equal(termFn("Mod", tsym("arg#0"), tconst(8))) && ts[1].equal(tconst(5))) || (ts[1].equal(termFn("Mod", tsym("arg#0"), tconst(8))) && ts[0].equal(tconst(5))))
	}})
	// trial division loop: 2 <= i < minimumFactor (1024), gcd(N, i) == 1
	okLoop := false
	for _, b := range fn.Blocks {
		for _, ins := range b.Instrs {
			if phi, ok := ins.(*ssa.Phi); ok {
				// counting up from 2 below 1024, or down from 1023 to 2: the same set of divisors (the verdict is false if
				// any of them divides, so the order is immaterial)
				if lo, hi, ok := countedRange(phi); ok && lo == 2 && hi == 1023 {
					okLoop = true
				}
			}
		}
	}
	R.decide(rule, kQSPPVer+":trial-range", "the trial divisors are all i with 2 <= i < 1024 (minimumFactor)", okLoop, "", P.Pos(fn.Pos()))
	// inside the loop: gcd == 1 or reject
	var loops []*Loop
	for _, b := range fn.Blocks {
		if l := findLoop(b); l != nil {
			loops = append(loops, l)
		}
	}
	okGcd := false
	for _, l := range loops {
		q := &MustPass{P: P, Match: func(a Atom) bool {
			x, y, ok := parseEq(a)
			if !ok {
				return false
			}
			bo, _ := a.V.(*ssa.BinOp)
			if bo == nil {
				return false
			}
			cmp, _ := stripConv(bo.X).(*ssa.Call)
			if cmp == nil {
				cmp, _ = stripConv(bo.Y).(*ssa.Call)
			}
			if cmp == nil || bigMethod(cmp) != "Cmp" {
				return false
			}
			ts := P.bigEval(cmp.Parent()).at(cmp)
			for k, pr := range [][2]ssa.Value{{x, y}, {y, x}} {
				// one operand is the result of GCD(_, _, N, i) computed in this iteration: the call itself, or the object
				// it wrote (its receiver) with no later writer before the comparison
				g := lastWriterBefore(pr[0], cmp)
				if g == nil || bigMethod(g) != "GCD" || desc(callArgs(g)[3]) != "arg#0" || !l.Body[g.Block()] {
					continue
				}
				// the other is the constant one
				if len(ts) == 2 && ts[1-k].equal(tconst(1)) {
					return true
				}
			}
			return false
		}}
		if r := q.ForAllBody(fn, l, acc, true); r.Holds {
			okGcd = true
		}
	}
	R.decide(rule, kQSPPVer+":no-small-factor", "accept => for every trial divisor gcd(N, i) == 1", okGcd, "", P.Pos(fn.Pos()))
	// four components with distinct indices
	comps := []string{"squareFree", "primePowerProduct", "disjointPrimeProduct", "almostSafePrimeProduct"}
	idxSeen := map[int64]string{}
	for _, cn := range comps {
		cn := cn
		vname := "keyproof." + cn + "VerifyProof"
		var idx int64 = -1
		mp(P, R, rule, kQSPPVer+":component:"+cn, "accept => "+cn+"VerifyProof(N, challenge, index, its proof) true", fn, acc, &MustPass{Match: func(a Atom) bool {
			c, ok := callAtom(a, True, vname)
			if !ok || desc(callArgs(c)[0]) != "arg#0" || desc(callArgs(c)[1]) != "arg#1" {
				return false
			}
			if k, isK := callArgs(c)[2].(*ssa.Call); isK && isCallTo(k, "big.NewInt") {
				if v, okv := constInt(callArgs(k)[0]); okv {
					idx = v
				}
			}
			return strings.HasPrefix(desc(callArgs(c)[3]), "<keyproof.QuasiSafePrimeProductProof>.")
		}})
		if prev, dup := idxSeen[idx]; dup || idx < 0 {
			R.bad(rule, kQSPPVer+":index:"+cn, "each component derives its challenges under its own index constant", fmt.Sprintf("index %d also used by %s", idx, prev), P.Pos(fn.Pos()))
		} else {
			idxSeen[idx] = cn
			R.ok(rule, kQSPPVer+":index:"+cn, fmt.Sprintf("component index constant %d is unique", idx))
		}
		// the component's own precondition on N (where it has one): it bounds the error of one iteration
		if vf0 := P.Func(vname); vf0 != nil {
			switch cn {
			case "almostSafePrimeProduct":
				be := P.bigEval(vf0)
				mp(P, R, rule, vname+":N-mod-3", "accept => N mod 3 == 1 was tested (keeps the error of one iteration at 4/5)", vf0, AcceptTrue(0),
					&MustPass{Match: eqTermMatcher(be, termFn("Mod", tsym("arg#0"), tconst(3)), tconst(1))})
			case "disjointPrimeProduct":
				mp(P, R, rule, vname+":N-not-prime", "accept => N.ProbablyPrime(k >= 20) was false (a Fermat prime passes the per-iteration test)", vf0, AcceptTrue(0), &MustPass{Match: func(a Atom) bool {
					c, _ := callAndResult(a.V)
					if c == nil || a.Want != False || bigMethod(c) != "ProbablyPrime" || desc(callArgs(c)[0]) != "arg#0" {
						return false
					}
					k, ok := constInt(callArgs(c)[1])
					return ok && k >= 20
				}})
			}
		}
		// iterations: verifier loop bound == structure-enforced length
		vf := mustFunc(P, R, rule, vname)
		sf := mustFunc(P, R, rule, "keyproof."+cn+"VerifyStructure")
		if vf == nil || sf == nil {
			continue
		}
		// enforced lengths in the structure check
		lens := map[int64]bool{}
		allInstrs(sf, func(i ssa.Instruction) {
			bo, ok := i.(*ssa.BinOp)
			if !ok || (bo.Op != token.NEQ && bo.Op != token.EQL) {
				return
			}
			if c, isC := bo.X.(*ssa.Call); isC && isCallTo(c, "builtin:len") {
				if k, okk := constInt(bo.Y); okk {
					lens[k] = true
				}
			}
		})
		bounds := loopConstBound(vf)
		okIt := len(bounds) >= 1 && len(lens) >= 1
		for _, b := range bounds {
			if !lens[b] {
				okIt = false
			}
		}
		var ls []string
		for k := range lens {
			ls = append(ls, fmt.Sprint(k))
		}
		sort.Strings(ls)
		R.decide(rule, vname+":iterations", "the verifier checks as many iterations as the structure check demands responses", okIt, fmt.Sprintf("loop bounds %v, enforced lengths %v", bounds, ls), P.Pos(vf.Pos()))
		// the per-iteration test rejects on failure: no accepting exit from inside the loop and every iteration has a rejecting branch
		for _, b := range vf.Blocks {
			if l := findLoop(b); l != nil {
				counted := false
				for bb := range l.Body {
					for _, ins := range bb.Instrs {
						if bo, ok := ins.(*ssa.BinOp); ok && bo.Op == token.LSS {
							if _, isK := constInt(bo.Y); isK {
								counted = true
							}
						}
					}
				}
				if !counted {
					continue
				}
				hasReject := false
				for bb := range l.Body {
					if iff, ok := bb.Instrs[len(bb.Instrs)-1].(*ssa.If); ok {
						for _, s := range iff.Block().Succs {
							if ret, isRet := s.Instrs[len(s.Instrs)-1].(*ssa.Return); isRet && !l.Body[s] {
								if bc, okb := boolConst(retValue(ret, 0)); okb && !bc {
									hasReject = true
								}
							}
						}
					}
				}
				R.decide(rule, fmt.Sprintf("%s:loop@b%d:rejects", vname, b.Index), "each iteration can reject (a failed relation returns false)", hasReject, "", P.Pos(vf.Pos()))
			}
		}
	}
}

func orCompositionRule(P *Program, R *Report) {
	rule := "C17.d"
	for _, k := range []struct{ fn, typ, a, b string }{
		{"keyproof.(*expStepStructure).verifyProofStructure", "<keyproof.ExpStepProof>", "Achallenge", "Bchallenge"},
		{"keyproof.(*primeProofStructure).verifyProofStructure", "<keyproof.PrimeProof>", "PreaModAplus1Challenge", "PreaModAmin1Challenge"},
	} {
		fn := mustFunc(P, R, rule, k.fn)
		if fn == nil {
			continue
		}
		// discover the two challenge fields: *big.Int fields whose names end in "hallenge"
		st := structOf(P, strings.Trim(k.typ, "<>"))
		var chal []string
		for i := 0; st != nil && i < st.NumFields(); i++ {
			if isBigIntPtr(st.Field(i).Type()) && strings.HasSuffix(strings.ToLower(st.Field(i).Name()), "challenge") {
				chal = append(chal, st.Field(i).Name())
			}
		}
		if len(chal) != 2 {
			R.und(rule, k.fn+":fields", "the two sub-challenge fields were found", fmt.Sprint(chal), P.Pos(fn.Pos()))
			continue
		}
		be := P.bigEval(fn)
		x0, x1 := k.typ+"."+chal[0], k.typ+"."+chal[1]
		mp(P, R, rule, k.fn+":xor", "accept => challenge == "+chal[0]+" XOR "+chal[1], fn, AcceptTrue(0), &MustPass{Match: func(a Atom) bool {
			_, _, ok := parseEq(a)
			if !ok {
				return false
			}
			bo, _ := a.V.(*ssa.BinOp)
			if bo == nil {
				return false
			}
			c, isC := stripConv(bo.X).(*ssa.Call)
			if !isC || bigMethod(c) != "Cmp" {
				return false
			}
			// one side is the challenge parameter, the other a fresh Xor of the two fields
			for _, pr := range [][2]int{{0, 1}, {1, 0}} {
				if desc(callArgs(c)[pr[0]]) != "arg#1" {
					continue
				}
				if x, isX := siteCall(callArgs(c)[pr[1]]); isX && bigMethod(x) == "Xor" {
					d1, d2 := desc(callArgs(x)[1]), desc(callArgs(x)[2])
					if (d1 == x0 && d2 == x1) || (d1 == x1 && d2 == x0) {
						return true
					}
				}
			}
			_ = be
			return false
		}})
		for _, c := range chal {
			c := c
			mp(P, R, rule, k.fn+":"+c+"-present", "accept => "+c+" != nil", fn, AcceptTrue(0), &MustPass{Match: func(a Atom) bool { return desc(a.V) == k.typ+"."+c && a.Want == NonNil }})
		}
		// commitmentsFromProof uses the split challenges for the sub-proofs
		cf := mustFunc(P, R, rule, strings.Replace(k.fn, "verifyProofStructure", "commitmentsFromProof", 1))
		if cf == nil {
			continue
		}
		used := map[string]bool{}
		for _, c := range callsIn(cf) {
			for _, a := range callArgs(c) {
				d := desc(a)
				if d == x0 || d == x1 {
					used[d] = true
				}
			}
		}
		R.decide(rule, FuncKey(cf)+":split-challenges", "the sub-proofs' commitments are rebuilt with the two sub-challenges carried in the proof", used[x0] && used[x1], fmt.Sprint(sortedKeys(used)), P.Pos(cf.Pos()))
	}
}

// siteCall: the mutator call that produced the value (x = new(big.Int).Xor(a, b)).
func siteCall(v ssa.Value) (*ssa.Call, bool) {
	c, ok := v.(*ssa.Call)
	return c, ok
}

func keyRangeProofRule(P *Program, R *Report) {
	rule := "C17.e"
	const vs = "keyproof.(*rangeProofStructure).verifyProofStructure"
	fn := mustFunc(P, R, rule, vs)
	if fn == nil {
		return
	}
	acc := AcceptTrue(0)
	rp := "<keyproof.RangeProof>"
	rs := "<keyproof.rangeProofStructure>"
	name := rs + ".RepresentationProofStructure.Rhs[#i].Secret"
	fa := func(m func(a Atom) bool) forAllMemo {
		f := &ForAll{P: P, Spec: ForAllSpec{Coll: is(rs + ".RepresentationProofStructure.Rhs"), Body: func(_ *ssa.Function, l *Loop) *MustPass {
			return &MustPass{Match: m}
		}}}
		return f.inFn(fn, acc)
	}
	m1 := fa(func(a Atom) bool { return desc(a.V) == "has("+rp+".Results["+name+"])" && a.Want == True })
	R.decide(rule, vs+":each-present", "accept => every secret named by the structure has a result list", m1.holds, m1.detail, P.Pos(fn.Pos()))
	m2 := fa(func(a Atom) bool {
		g, ok := parseGuard(a, nil)
		return ok && g.Kind == "int" && g.Subject == "len("+rp+".Results["+name+"])" && g.Rel == "==" && g.BoundA.String() == "80"
	})
	R.decide(rule, vs+":each-length", "accept => each list has rangeProofIters (80) entries", m2.holds, m2.detail, P.Pos(fn.Pos()))
	// entries non-nil: inner loop over the list
	inner := loopOver(fn, is(rp+".Results["+name+"]"))
	okNil := false
	if inner != nil {
		q := &MustPass{P: P, Match: func(a Atom) bool { return desc(a.V) == rp+".Results["+name+"][#j]" && a.Want == NonNil }}
		okNil = q.ForAllBody(fn, inner, acc, false).Holds
	}
	R.decide(rule, vs+":entries-non-nil", "accept => every entry of every list is non-nil", okNil, "", P.Pos(fn.Pos()))
	// range-secret size
	be := P.bigEval(fn)
	sz := &ForAll{P: P, Spec: ForAllSpec{Coll: is(rp + ".Results[" + rs + ".rangeSecret]"), Body: func(_ *ssa.Function, l *Loop) *MustPass {
		return &MustPass{Match: func(a Atom) bool {
			g, ok := parseGuard(a, be)
			if !ok || g.Kind != "big" || g.Subject != rp+".Results["+rs+".rangeSecret][#i]" {
				return false
			}
			t, ok := g.exclusiveUpper()
			return ok && t.equal(pow2(rs+".l2+258"))
		}}
	}}}
	m3 := sz.inFn(fn, acc)
	R.decide(rule, vs+":range-size", "accept => every range-secret result < 2^(l2 + rangeProofEpsilon + 2)", m3.holds, m3.detail, P.Pos(fn.Pos()))
	// commitmentsFromProof: rounds and names
	const cfp = "keyproof.(*rangeProofStructure).commitmentsFromProof"
	cf := mustFunc(P, R, rule, cfp)
	if cf == nil {
		return
	}
	bounds := loopConstBound(cf)
	R.decide(rule, cfp+":rounds", "commitments are rebuilt for rangeProofIters (80) rounds", len(bounds) == 1 && bounds[0] == 80, fmt.Sprint(bounds), P.Pos(cf.Pos()))
	// only the structure's own names are read from the (untrusted) result map: no range over proof.Results
	overMap := false
	allInstrs(cf, func(i ssa.Instruction) {
		if r, ok := i.(*ssa.Range); ok && desc(r.X) == rp+".Results" {
			overMap = true
		}
	})
	R.decide(rule, cfp+":own-names-only", "only the result lists named by the structure (which were validated) are indexed, not every entry of the attacker-supplied map", !overMap, "ranges over proof.Results", P.Pos(cf.Pos()))
	okBit := false
	for _, c := range callsIn(cf) {
		if isCallTo(c, "zkproof.(*RepresentationProofStructure).CommitmentsFromProof") {
			d := desc(callArgs(c)[3])
			okBit = strings.Contains(d, "big.(*Int).Bit(arg#3,#i)")
		}
	}
	R.decide(rule, cfp+":challenge-bit", "round i uses bit i of the challenge", okBit, "", P.Pos(cf.Pos()))
}

// structureCheckers: the structure-check functions of keyproof that take a value of the named proof type.
func structureCheckers(P *Program, sp *ssa.Package, tn string) []*ssa.Function {
	var out []*ssa.Function
	for _, fn := range P.AllFuncs {
		if fn.Pkg != sp || fn.Parent() != nil || fn.Blocks == nil {
			continue
		}
		ln := strings.ToLower(fn.Name())
		if !strings.Contains(ln, "structure") || !strings.Contains(ln, "verify") {
			continue
		}
		for _, p := range fn.Params {
			if typeKey(p.Type()) == "keyproof."+tn {
				out = append(out, fn)
				break
			}
		}
	}
	sort.Slice(out, func(i, j int) bool { return FuncKey(out[i]) < FuncKey(out[j]) })
	return out
}

func isStructureCallOn(a Atom, argDescs ...string) bool {
	cc, _ := callAndResult(a.V)
	if cc == nil || a.Want != True {
		return false
	}
	ln := strings.ToLower(calleeName(cc))
	if !strings.Contains(ln, "structure") || !strings.Contains(ln, "verify") {
		return false
	}
	for _, ar := range callArgs(cc) {
		d := desc(ar)
		for _, w := range argDescs {
			if d == w {
				return true
			}
		}
	}
	return false
}

func isProofTypeName(n string) bool { return strings.HasSuffix(n, "Proof") }

// lastWriterBefore: the big.Int mutator call that last wrote the object v denotes before instruction `at`: v itself
// when v is such a call's result, else the closest earlier mutator of the same object in at's block.
func lastWriterBefore(v ssa.Value, at ssa.Instruction) *ssa.Call {
	if c, ok := v.(*ssa.Call); ok && bigMethod(c) != "" && bigMutators[bigMethod(c)] {
		return c
	}
	site := siteOf(v)
	var last *ssa.Call
	for _, i := range at.Block().Instrs {
		if i == at {
			break
		}
		if c, ok := i.(*ssa.Call); ok && bigMethod(c) != "" && bigMutators[bigMethod(c)] && len(callArgs(c)) > 0 && siteOf(callArgs(c)[0]) == site {
			last = c
		}
	}
	return last
}

func keyproofSafetyRule(P *Program, R *Report) {
	rule := "C17.f"
	sp := P.PkgByName["keyproof"]
	if sp == nil {
		R.und(rule, "keyproof", "package found", "", "")
		return
	}
	nSlices, nNullable, nSub := 0, 0, 0
	// the proof types are the struct types below ValidKeyProof
	root := structOf(P, "keyproof.ValidKeyProof")
	if root == nil {
		R.und(rule, "keyproof.ValidKeyProof", "type found", "", "")
		return
	}
	tree := map[string]*types.Struct{}
	var walkT func(t types.Type)
	walkT = func(t types.Type) {
		switch u := t.(type) {
		case *types.Named:
			if stt, ok := u.Underlying().(*types.Struct); ok && u.Obj().Pkg() == sp.Pkg {
				if _, seen := tree[u.Obj().Name()]; seen {
					return
				}
				tree[u.Obj().Name()] = stt
				for i := 0; i < stt.NumFields(); i++ {
					walkT(stt.Field(i).Type())
				}
			}
		case *types.Slice:
			walkT(u.Elem())
		case *types.Pointer:
			walkT(u.Elem())
		case *types.Map:
			walkT(u.Elem())
		}
	}
	for i := 0; i < root.NumFields(); i++ {
		walkT(root.Field(i).Type())
	}
	var tnames []string
	for n := range tree {
		tnames = append(tnames, n)
	}
	sort.Strings(tnames)
	for _, tn := range tnames {
		st := tree[tn]
		pd := "<keyproof." + tn + ">"
		checkers := structureCheckers(P, sp, tn)
		if len(checkers) == 0 {
			R.bad(rule, "keyproof."+tn+":checker", "a structure check for this proof type exists", "none found", "")
			continue
		}
		some := func(f func(fn *ssa.Function, acc Accept) (bool, string)) (bool, string) {
			var details []string
			for _, fn := range checkers {
				acc, okAcc := accOfFn(fn, True)
				if !okAcc {
					continue
				}
				ok, d := f(fn, acc)
				if ok {
					return true, FuncKey(fn)
				}
				if d != "" {
					details = append(details, FuncKey(fn)+": "+d)
				}
			}
			return false, strings.Join(details, "\n")
		}
		// length bound of a slice field in a checker: E such that accept => len(field) == E
		lenBound := func(fn *ssa.Function, acc Accept, fd string) string {
			cands := map[string]bool{}
			allInstrs(fn, func(i ssa.Instruction) {
				if bo, ok := i.(*ssa.BinOp); ok && (bo.Op == token.EQL || bo.Op == token.NEQ) {
					if g, ok := parseGuard(Atom{V: bo, Want: True}, nil); ok && g.Kind == "int" && g.Subject == "len("+fd+")" {
						cands[g.BoundA.String()] = true
					}
				}
			})
			for _, e := range sortedKeys(cands) {
				q := &MustPass{P: P, Match: func(a Atom) bool {
					g, ok := parseGuard(a, nil)
					return ok && g.Kind == "int" && g.Rel == "==" && g.Subject == "len("+fd+")" && g.BoundA.String() == e
				}}
				if r := q.Check(fn, acc); r.Holds && r.NAcc > 0 {
					return e
				}
			}
			return ""
		}
		for i := 0; i < st.NumFields(); i++ {
			f := st.Field(i).Name()
			ft := st.Field(i).Type()
			fd := pd + "." + f
			c := "keyproof." + tn + "." + f
			switch u := ft.Underlying().(type) {
			case *types.Pointer, *types.Map:
				nNullable++
				ok, d := some(func(fn *ssa.Function, acc Accept) (bool, string) {
					q := &MustPass{P: P, Match: func(a Atom) bool { return desc(a.V) == fd && a.Want == NonNil }}
					r := q.Check(fn, acc)
					return r.Holds && r.NAcc > 0, r.Path
				})
				R.decide(rule, c+":present", "accept of the structure check => "+f+" != nil", ok, d, "")
			case *types.Struct:
				if n, isN := ft.(*types.Named); !isN || tree[n.Obj().Name()] == nil {
					continue
				}
				nSub++
				ok, d := some(func(fn *ssa.Function, acc Accept) (bool, string) {
					q := &MustPass{P: P, Match: func(a Atom) bool { return isStructureCallOn(a, fd) }}
					r := q.Check(fn, acc)
					return r.Holds && r.NAcc > 0, r.Path
				})
				R.decide(rule, c+":checked", "accept of the structure check => the structure check of sub-proof "+f+" succeeded", ok, d, "")
			case *types.Slice:
				nSlices++
				okLen, _ := some(func(fn *ssa.Function, acc Accept) (bool, string) { return lenBound(fn, acc, fd) != "", "" })
				R.decide(rule, c+":length", "accept of the structure check => the length of "+f+" was tested equal to a bound", okLen, "", "")
				okElem, d := some(func(fn *ssa.Function, acc Accept) (bool, string) {
					ex := lenBound(fn, acc, fd)
					if ex == "" {
						return false, "no length bound"
					}
					// collections with as many elements: the field itself, a sibling field tested against the same
					// bound, or the collection whose length is the bound
					same := map[string]bool{fd: true}
					for j := 0; j < st.NumFields(); j++ {
						if _, isSl := st.Field(j).Type().Underlying().(*types.Slice); isSl && j != i {
							yd := pd + "." + st.Field(j).Name()
							if lenBound(fn, acc, yd) == ex {
								same[yd] = true
							}
						}
					}
					fa := &ForAll{P: P, Spec: ForAllSpec{Coll: func(d string) bool { return same[d] || "len("+d+")" == ex }, Body: func(_ *ssa.Function, l *Loop) *MustPass {
						return &MustPass{Match: func(a Atom) bool {
							if isBigIntPtr(u.Elem()) {
								d := desc(a.V)
								return (d == fd+"[#i]" || d == fd+"[*]") && a.Want == NonNil
							}
							return isStructureCallOn(a, fd+"[#i]", fd+"[*]")
						}}
					}}}
					m := fa.inFn(fn, acc)
					if !m.holds && isBigIntPtr(u.Elem()) {
						// `if slices.Contains(field, nil) { return false }`: no element of the whole slice is nil
						q := &MustPass{P: P, Match: func(a Atom) bool {
							cc, ok := callAtom(a, False, "slices.Contains")
							return ok && len(callArgs(cc)) == 2 && desc(callArgs(cc)[0]) == fd && isNilConst(callArgs(cc)[1])
						}}
						if r := q.Check(fn, acc); r.Holds && r.NAcc > 0 {
							return true, "slices.Contains(" + fd + ", nil) is false on every accepting path"
						}
					}
					return m.holds, m.detail
				})
				R.decide(rule, c+":elements", "accept of the structure check => every element of "+f+" was checked, in a loop with as many iterations as the field has elements", okElem, d, "")
			}
		}
	}
	R.decide(rule, "keyproof:fields", "fields of the proof types were enumerated (>= 16 slices, >= 8 nullable, >= 30 sub-proofs)", nSlices >= 16 && nNullable >= 8 && nSub >= 30, fmt.Sprintf("%d slices, %d nullable, %d sub-proofs", nSlices, nNullable, nSub), "")

	// (2) use after check in VerifyProof: every use of a proof field follows its structure / nil check
	useAfterCheckRule(P, R, rule)
}

// vkFieldCheck: the atom that validates field f of ValidKeyProof in VerifyProof.
func vkFieldCheck(st *types.Struct, i int) func(Atom) bool {
	fd := vkp + "." + st.Field(i).Name()
	if isBigIntPtr(st.Field(i).Type()) {
		return func(a Atom) bool { return desc(a.V) == fd && a.Want == NonNil }
	}
	return func(a Atom) bool { return isStructureCallOn(a, fd) }
}

func useAfterCheckRule(P *Program, R *Report, rule string) {
	fn := mustFunc(P, R, rule, kVKVerify)
	st := structOf(P, "keyproof.ValidKeyProof")
	if fn == nil || st == nil {
		return
	}
	uses := 0
	for i := 0; i < st.NumFields(); i++ {
		f := st.Field(i).Name()
		fd := vkp + "." + f
		match := vkFieldCheck(st, i)
		ok := true
		var details []string
		n := 0
		for _, c := range callsIn(fn) {
			call, isCall := c.(*ssa.Call)
			if !isCall {
				continue
			}
			used := false
			for _, a := range callArgs(c) {
				if d := desc(a); d == fd || strings.HasPrefix(d, fd+".") {
					used = true
				}
			}
			if !used {
				continue
			}
			// the check itself
			if isStructureCallOn(Atom{V: call, Want: True}, fd) {
				continue
			}
			n++
			q := &MustPass{P: P, Match: match}
			q.init()
			r := q.search(fn, AcceptAny(), 0, searchOpts{startAt: []*mpState{{b: call.Block(), note: "use at " + P.Pos(call.Pos())}}, startInstr: call})
			if !r.Holds {
				ok = false
				details = append(details, P.Pos(call.Pos())+": "+calleeName(c)+" uses "+f+" on a path without its check: "+r.Path)
			}
		}
		uses += n
		R.decide(rule, kVKVerify+":use-after-check:"+f, fmt.Sprintf("every use of proof.%s (%d call sites) is preceded on all paths by its nil / structure check", f, n), ok, strings.Join(details, "\n"), P.Pos(fn.Pos()))
	}
	R.decide(rule, kVKVerify+":uses", "uses of proof fields in VerifyProof were found (>= 20)", uses >= 20, fmt.Sprintf("%d", uses), "")
}

// countedRange: phi is the counter of a loop with a constant start, a step of +1 or -1 and a constant bound tested
// in the loop header; returns the inclusive range of values the body sees.
func countedRange(phi *ssa.Phi) (lo, hi int64, ok bool) {
	if len(phi.Edges) != 2 {
		return 0, 0, false
	}
	var start, step int64
	haveStart, haveStep := false, false
	for _, e := range phi.Edges {
		if c, isC := constInt(e); isC {
			start, haveStart = c, true
			continue
		}
		if bo, isB := e.(*ssa.BinOp); isB && bo.X == ssa.Value(phi) {
			if c, isC := constInt(bo.Y); isC && c == 1 {
				switch bo.Op {
				case token.ADD:
					step, haveStep = 1, true
				case token.SUB:
					step, haveStep = -1, true
				}
			}
		}
	}
	if !haveStart || !haveStep {
		return 0, 0, false
	}
	for _, j := range phi.Block().Instrs {
		bo, isB := j.(*ssa.BinOp)
		if !isB {
			continue
		}
		iff, isIf := phi.Block().Instrs[len(phi.Block().Instrs)-1].(*ssa.If)
		if !isIf || iff.Cond != ssa.Value(bo) {
			continue
		}
		op := bo.Op
		var bound int64
		switch {
		case bo.X == ssa.Value(phi):
			c, isC := constInt(bo.Y)
			if !isC {
				continue
			}
			bound = c
		case bo.Y == ssa.Value(phi):
			c, isC := constInt(bo.X)
			if !isC {
				continue
			}
			bound = c
			switch op {
			case token.LSS:
				op = token.GTR
			case token.LEQ:
				op = token.GEQ
			case token.GTR:
				op = token.LSS
			case token.GEQ:
				op = token.LEQ
			}
		default:
			continue
		}
		switch {
		case step == 1 && op == token.LSS:
			return start, bound - 1, true
		case step == 1 && op == token.LEQ:
			return start, bound, true
		case step == -1 && op == token.GTR:
			return bound + 1, start, true
		case step == -1 && op == token.GEQ:
			return bound, start, true
		}
	}
	return 0, 0, false
}

func validKeyRejectionsRule(P *Program, R *Report) {
	rule := "C17.h"
	fn := mustFunc(P, R, rule, kVKVerify)
	if fn == nil {
		return
	}
	be := P.bigEval(fn)
	classify := func(a Atom) (string, bool) {
		a = normAtom(a)
		if bo, ok := a.V.(*ssa.BinOp); ok && (isNilConst(bo.Y) || isNilConst(bo.X)) {
			x := bo.X
			if isNilConst(x) {
				x = bo.Y
			}
			return "nil test of " + desc(x), strings.HasPrefix(desc(x), vkp+".")
		}
		if g, ok := parseGuard(a, be); ok {
			switch {
			case g.Kind == "bitlen" && g.Subject == vkp+".GroupPrime" && (g.Rel == "<" || g.Rel == "<="):
				return "group prime too short", true
			case g.Kind == "big" && g.Rel == "!=" && (g.Subject == vkp+".Challenge" || strings.HasPrefix(g.Subject, "call:common.HashCommit")):
				return "challenge mismatch", true
			}
			return fmt.Sprintf("size/order test of %s (%s %s)", g.Subject, g.Kind, g.Rel), false
		}
		if c, idx := callAndResult(a.V); c != nil {
			switch {
			case bigMethod(c) == "ProbablyPrime" && a.Want == False:
				return "primality test", true
			case isStructureCallOn(Atom{V: a.V, Want: True}) || (strings.Contains(strings.ToLower(calleeName(c)), "structure") && a.Want == False):
				return "structure check " + calleeName(c), true
			case calleeIs(c, "zkproof.BuildGroup") && idx == 1 && a.Want == False:
				return "group cannot be built", true
			case calleeIs(c, "keyproof.quasiSafePrimeProductVerifyProof") && a.Want == False:
				// the final verdict: the composite sub-proof fails (its own rejections are C17.c's)
				return "quasi-safe-prime-product proof fails", true
			}
			return "call " + calleeName(c), false
		}
		return "condition " + desc(a.V), false
	}
	n := enumerateRejections(P, R, rule, kVKVerify, fn, classify)
	R.decide(rule, kVKVerify+":rejections", "the rejecting branches were enumerated (>= 10)", n >= 10, fmt.Sprintf("%d", n), P.Pos(fn.Pos()))
}

func rangeParametersRule(P *Program, R *Report) {
	rule := "C17.j"
	sp := P.PkgByName["keyproof"]
	if sp == nil {
		R.und(rule, "keyproof", "package found", "", "")
		return
	}
	n := 0
	perFn := map[string][]string{}
	check := func(fn *ssa.Function, pos token.Pos, l1, l2 ssa.Value, what string) {
		n++
		c := fmt.Sprintf("%s:%s#%d", FuncKey(fn), what, len(perFn[FuncKey(fn)]))
		z, isZ := constInt(l1)
		a, okA := affineOf(l2)
		single := okA && a.C == 0 && len(a.S) == 1
		if single {
			for _, k := range a.S {
				single = k == 1
			}
		}
		perFn[FuncKey(fn)] = append(perFn[FuncKey(fn)], a.String())
		R.decide(rule, c, "l1 = 0 and l2 is one plain bit-length quantity", isZ && z == 0 && single, fmt.Sprintf("l1=%s l2=%s", desc(l1), desc(l2)), P.Pos(pos))
	}
	for _, fn := range P.AllFuncs {
		if fn.Pkg != sp || fn.Blocks == nil || strings.HasSuffix(fn.Name(), "_test") {
			continue
		}
		if FuncKey(fn) == "keyproof.newPedersenRangeProofStructure" {
			continue // forwards its own parameters
		}
		lits := map[ssa.Value]map[string]ssa.Value{}
		var order []ssa.Value
		allInstrs(fn, func(i ssa.Instruction) {
			switch x := i.(type) {
			case *ssa.Call:
				if calleeIs(x, "keyproof.newPedersenRangeProofStructure") {
					check(fn, x.Pos(), callArgs(x)[1], callArgs(x)[2], "range-structure")
				}
			case *ssa.Store:
				fa, ok := x.Addr.(*ssa.FieldAddr)
				if !ok || faType(fa) != "keyproof.rangeProofStructure" {
					return
				}
				f := faName(fa)
				if f != "l1" && f != "l2" {
					return
				}
				if lits[fa.X] == nil {
					lits[fa.X] = map[string]ssa.Value{}
					order = append(order, fa.X)
				}
				lits[fa.X][f] = x.Val
			}
		})
		for _, o := range order {
			if lits[o]["l1"] != nil && lits[o]["l2"] != nil {
				check(fn, o.Pos(), lits[o]["l1"], lits[o]["l2"], "range-literal")
			}
		}
	}
	R.decide(rule, "keyproof:range-structures", "range-proof structure constructions were found (>= 12)", n >= 12, fmt.Sprintf("%d", n), "")
	// the copies in the prime proof agree
	var gen []string
	for k, v := range perFn {
		if strings.HasPrefix(k, "keyproof.(*primeProofStructure).") {
			for _, s := range v {
				if strings.Contains(s, "primeProofStructure>.bitlen") {
					gen = append(gen, s)
				}
			}
		}
	}
	same := len(gen) >= 4
	for _, g := range gen {
		if g != gen[0] {
			same = false
		}
	}
	R.decide(rule, "keyproof.primeProofStructure:generator-range-copies", "the prover's, the simulator's and the verifier's copies of the generator range structure use the same l2", same, strings.Join(gen, " | "), "")
}

// asppCommitmentsHashedRule (part of C17.b): the first messages of the almost-safe-prime-product proof are bound
// by the Fiat-Shamir challenge on both sides: the verifier appends every element of proof.Commitments to the
// hashed list, the prover appends each commitment it later publishes, and what it publishes is that list.
func asppCommitmentsHashedRule(P *Program, R *Report, rule string) {
	const kx, kb, kp = "keyproof.almostSafePrimeProductExtractCommitments", "keyproof.almostSafePrimeProductBuildCommitments", "keyproof.almostSafePrimeProductBuildProof"
	ap := "<keyproof.AlmostSafePrimeProductProof>"
	if fx := mustFunc(P, R, rule, kx); fx != nil {
		ok := false
		for _, r := range returnsOf(fx) {
			if c, isC := retValue(r, 0).(*ssa.Call); isC && isCallTo(c, "builtin:append") && desc(callArgs(c)[0]) == "arg#0" && desc(callArgs(c)[1]) == ap+".Commitments" {
				ok = true
			} else {
				ok = false
				break
			}
		}
		R.decide(rule, kx+":all-commitments", "the verifier appends every commitment of the proof to the hashed list", ok, "", P.Pos(fx.Pos()))
	}
	if fq := mustFunc(P, R, rule, "keyproof.quasiSafePrimeProductExtractCommitments"); fq != nil {
		ok := false
		for _, c := range callsIn(fq) {
			if calleeName(c) == kx && desc(callArgs(c)[0]) == "arg#0" && desc(callArgs(c)[1]) == "<keyproof.QuasiSafePrimeProductProof>.ASPPproof" {
				for _, r := range returnsOf(fq) {
					if retValue(r, 0) == c.Value() {
						ok = true
					}
				}
			}
		}
		R.decide(rule, FuncKey(fq)+":forwards", "the quasi-safe-prime-product step forwards the list extended by the ASPP commitments", ok, "", P.Pos(fq.Pos()))
	}
	if fb := mustFunc(P, R, rule, kb); fb != nil {
		// in one loop: list = append(list, com) and commit.commitments = append(commit.commitments, com) with the same com
		var listElem, pubElem ssa.Value
		var listLoop, pubLoop *ssa.BasicBlock
		for _, c := range callsIn(fb) {
			call, isC := c.(*ssa.Call)
			if !isC || !isCallTo(call, "builtin:append") {
				continue
			}
			elem := appendedSingle(call)
			if elem == nil {
				continue
			}
			l := innermostLoopOf(call.Block())
			if l == nil {
				continue
			}
			roots := sliceRoots(callArgs(call)[0])
			isList := false
			for _, r := range roots {
				if desc(r) == "arg#0" {
					isList = true
				}
			}
			if isList {
				listElem, listLoop = elem, l.Header
			} else if strings.Contains(desc(callArgs(call)[0]), "commitments") {
				pubElem, pubLoop = elem, l.Header
			}
		}
		R.decide(rule, kb+":hashed-is-published", "each commitment the prover hashes is the one it stores for publication (same value, same loop)", listElem != nil && pubElem != nil && siteOf(listElem) == siteOf(pubElem) && listLoop == pubLoop,
			fmt.Sprintf("hashed %s, published %s", descOrNil(listElem), descOrNil(pubElem)), P.Pos(fb.Pos()))
		bounds := loopConstBound(fb)
		R.decide(rule, kb+":iterations", "the prover commits almostSafePrimeProductIters (250) times", len(bounds) == 1 && bounds[0] == 250, fmt.Sprint(bounds), P.Pos(fb.Pos()))
	}
	if fp := mustFunc(P, R, rule, kp); fp != nil {
		ok := false
		allInstrs(fp, func(i ssa.Instruction) {
			if st, isSt := i.(*ssa.Store); isSt {
				if fa, isFA := st.Addr.(*ssa.FieldAddr); isFA && faType(fa) == "keyproof.AlmostSafePrimeProductProof" && faName(fa) == "Commitments" {
					ok = strings.HasSuffix(desc(st.Val), ".commitments")
				}
			}
		})
		R.decide(rule, kp+":publishes-hashed", "the proof's Commitments are the commitments recorded while hashing", ok, "", P.Pos(fp.Pos()))
	}
}

// pedersenCommitHashedRule: the Pedersen commitment is part of the hashed list on both sides.
func pedersenCommitHashedRule(P *Program, R *Report, rule string) {
	for _, k := range []struct{ fn, want, what string }{
		{"keyproof.(*pedersenStructure).commitmentsFromProof", "<keyproof.PedersenProof>.Commit", "the verifier appends the proof's Commit to the hashed list"},
		{"keyproof.(*pedersenStructure).commitmentsFromSecrets", "new:keyproof.pedersenCommit.commit", "the prover appends its commitment to the hashed list"},
	} {
		fn := mustFunc(P, R, rule, k.fn)
		if fn == nil {
			continue
		}
		// (in the function itself, or in an unexported helper that finishes the commitment on its behalf and whose
		// result the function returns - examined with the helper's parameters bound to the call's arguments)
		ok, okFwd := false, false
		deepVisit(P, fn, 1, func(g *ssa.Function) {
			passesFresh := false
			if g != fn {
				returned := false
				for _, r := range returnsOf(fn) {
					if c, _ := callAndResult(retValue(r, 0)); c != nil && staticCallee(c) == g {
						returned = true
						// (inside the helper the commitment object is a parameter: the function hands it its own new object)
						for _, a := range callArgs(c) {
							if strings.HasPrefix(k.want, desc(a)+".") {
								passesFresh = true
							}
						}
					}
				}
				if !returned {
					return
				}
			}
			okG := false
			for _, c := range callsIn(g) {
				call, isC := c.(*ssa.Call)
				if !isC || !isCallTo(call, "builtin:append") {
					continue
				}
				if e := appendedSingle(call); e != nil && (desc(e) == k.want || (g != fn && desc(e) == canonOwner(k.want) && passesFresh)) {
					for _, r := range sliceRoots(callArgs(call)[0]) {
						if strings.HasPrefix(desc(r), "arg#") {
							okG = true
						}
					}
				}
			}
			// ... and the extended list is what the representation proof continues from
			okFwdG := false
			for _, r := range returnsOf(g) {
				if c, _ := callAndResult(retValue(r, 0)); c != nil {
					for _, a := range callArgs(c) {
						if ap, isAp := a.(*ssa.Call); isAp && isCallTo(ap, "builtin:append") {
							okFwdG = true
						}
					}
				}
			}
			if okG && okFwdG {
				ok, okFwd = true, true
			}
		})
		R.decide(rule, k.fn+":commit-hashed", k.what+" and continues from the extended list", ok && okFwd, "", P.Pos(fn.Pos()))
	}
}

func descOrNil(v ssa.Value) string {
	if v == nil {
		return "<none>"
	}
	return desc(v)
}

// appendedSingle: append(s, x) with exactly one appended element x.
func appendedSingle(c *ssa.Call) ssa.Value {
	sl, ok := callArgs(c)[1].(*ssa.Slice)
	if !ok {
		return nil
	}
	arr, ok := sl.X.(*ssa.Alloc)
	if !ok {
		return nil
	}
	var elem ssa.Value
	n := 0
	for _, r := range referrersOf(arr) {
		if ia, ok := r.(*ssa.IndexAddr); ok {
			for _, rr := range referrersOf(ia) {
				if st, ok := rr.(*ssa.Store); ok {
					elem = st.Val
					n++
				}
			}
		}
	}
	if n != 1 {
		return nil
	}
	return elem
}

// loopTrip: what a full walk `for i := 0; i < bound; i++` / `for i := range coll` of l runs over: the collection's
// descriptor (kind "coll") or the bound's descriptor (kind "count"); "" when l is not a walk from 0 by 1.
func loopTrip(l *Loop) (kind, d string) {
	blocks := append([]*ssa.BasicBlock{l.Header}, l.Latch...)
	for b := range l.Body {
		for _, ins := range b.Instrs {
			if nx, ok := ins.(*ssa.Next); ok && (b == l.Header || l.Header.Dominates(b)) {
				if r, ok := nx.Iter.(*ssa.Range); ok && innermostLoopOf(b) != nil && innermostLoopOf(b).Header == l.Header {
					return "coll", desc(r.X)
				}
			}
		}
	}
	for _, b := range blocks {
		for _, ins := range b.Instrs {
			bo, ok := ins.(*ssa.BinOp)
			if !ok || bo.Op != token.LSS {
				continue
			}
			x := stripConv(bo.X)
			if add, isAdd := x.(*ssa.BinOp); isAdd && add.Op == token.ADD {
				if k, isC := constInt(add.Y); isC && k == 1 {
					x = add.X // rotated form / range index: i+1 < bound
				}
			}
			ph, isPhi := x.(*ssa.Phi)
			if !isPhi || !isInduction(ph) || !l.Body[ph.Block()] {
				continue
			}
			if c, ok := bo.Y.(*ssa.Call); ok && isCallTo(c, "builtin:len") {
				return "coll", desc(callArgs(c)[0])
			}
			return "count", desc(bo.Y)
		}
	}
	return "", ""
}

// fieldKeyOf: "pkg.T.F" for the descriptors "<pkg.T>.F" and "new:pkg.T.F" of a direct field; "" otherwise.
func fieldKeyOf(d string) string {
	if strings.HasPrefix(d, "new:") {
		d = strings.TrimPrefix(d, "new:")
	} else if strings.HasPrefix(d, "<") && strings.Contains(d, ">.") {
		d = strings.Replace(strings.TrimPrefix(d, "<"), ">.", ".", 1)
	} else {
		return ""
	}
	if strings.ContainsAny(d, "[]()<>#") || strings.Count(d, ".") != 2 {
		return ""
	}
	return d
}

// madeSlicesFilledRule: in package pkg, every slice that is made with a computed length and filed in a struct field
// has its elements visited by a full walk - a loop from 0 by 1 over a collection of that length or up to that very
// count - that stores into, or hands out the address of, element i. Lengths are compared by class: a field's class is
// the length it is made with (program-wide: `rootsRange: make([]T, len(Squares))` puts rootsRange, and every field
// made with len(s.rootsRange) or len(s.squares) anywhere, in the class of the constructor's Squares). A walk that
// starts later leaves the first element at its zero value: for the sub-structures of a key proof, a relation nobody
// checks.
func madeSlicesFilledRule(P *Program, R *Report, rule, pkg string, floor int) {
	type made struct {
		fn     *ssa.Function
		target string
		lenV   ssa.Value
		st     *ssa.Store
		class  string
	}
	var mades []*made
	for _, fn := range P.AllFuncs {
		if fn.Blocks == nil || fn.Pkg == nil || shortPkg(fn.Pkg.Pkg.Path()) != pkg || strings.HasSuffix(P.Pos(fn.Pos()), "_test.go") {
			continue
		}
		allInstrs(fn, func(i ssa.Instruction) {
			st, ok := i.(*ssa.Store)
			if !ok {
				return
			}
			ms, ok := st.Val.(*ssa.MakeSlice)
			if !ok {
				return
			}
			if _, isFA := st.Addr.(*ssa.FieldAddr); !isFA {
				return
			}
			if _, isC := constInt(ms.Len); isC || ms.Len != ms.Cap {
				return // fixed size, or made empty with a capacity (filled by append)
			}
			mades = append(mades, &made{fn: fn, target: desc(st.Addr), lenV: ms.Len, st: st})
		})
	}
	fieldClass := map[string]string{}
	local := func(fn *ssa.Function, d string) string {
		if strings.Contains(d, "arg#") || !strings.HasPrefix(d, "<") {
			return d + "@" + FuncKey(fn)
		}
		return d
	}
	collClass := func(fn *ssa.Function, d string) string {
		if k := fieldKeyOf(d); k != "" {
			if c, ok := fieldClass[k]; ok {
				return c
			}
		}
		return "coll:" + local(fn, d)
	}
	lenClass := func(fn *ssa.Function, v ssa.Value) string {
		if c, ok := v.(*ssa.Call); ok && isCallTo(c, "builtin:len") {
			return collClass(fn, desc(callArgs(c)[0]))
		}
		return "count:" + local(fn, desc(v))
	}
	for pass := 0; pass < 4; pass++ {
		for _, m := range mades {
			m.class = lenClass(m.fn, m.lenV)
			if k := fieldKeyOf(m.target); k != "" {
				fieldClass[k] = m.class
			}
		}
	}
	for _, m := range mades {
		fn := m.fn
		visited := false
		var partial []string
		scan := func(i ssa.Instruction) {
			ia, ok := i.(*ssa.IndexAddr)
			if !ok || (desc(ia.X) != m.target && ia.X != m.st.Val && desc(ia.X) != desc(m.st.Val)) {
				return
			}
			l := innermostLoopOf(ia.Block())
			for l != nil && desc(ia.Index) != inductionName(l.Header) {
				// (the element may be addressed in a loop nested inside the walk)
				var outer *Loop
				for h := l.Header.Idom(); h != nil; h = h.Idom() {
					if o := findLoop(h); o != nil && len(o.Latch) > 0 && o.Body[l.Header] {
						outer = o
						break
					}
				}
				l = outer
			}
			if l == nil {
				return
			}
			kind, d := loopTrip(l)
			c := ""
			switch kind {
			case "coll":
				c = collClass(fn, d)
				if d == m.target || d == desc(m.st.Val) {
					c = m.class
				}
			case "count":
				c = "count:" + local(fn, d)
			}
			if c != "" && c == m.class {
				visited = true
			} else {
				partial = append(partial, fmt.Sprintf("%s: walk of class %q, made with %q", P.Pos(ia.Pos()), c, m.class))
			}
		}
		allInstrs(fn, scan)
		// ... or by an unexported helper that is handed the slice and fills it (seen with its parameters bound to the
		// call's arguments, so that the slice and the collections it walks read in this function's terms)
		for _, ci := range callsIn(fn) {
			g := staticCallee(ci)
			if g == nil || g.Blocks == nil || !inModuleFn(g) || g.Object() == nil || g.Object().Exported() || g.Parent() != nil || g == fn {
				continue
			}
			handed := false
			for _, a := range callArgs(ci) {
				if desc(a) == m.target || a == m.st.Val {
					handed = true
				}
			}
			if handed {
				bindCall(ci, g, func() { allInstrs(g, scan) })
			}
		}
		R.decide(rule, FuncKey(fn)+":filled("+m.target+")", "every element of the made slice is visited by a full walk (from 0 by 1, over a collection of the made length)", visited, strings.Join(partial, "; "), P.Pos(m.st.Pos()))
	}
	R.decide(rule, pkg+":made-slices", fmt.Sprintf("made slices filed in struct fields were found (>= %d)", floor), len(mades) >= floor, fmt.Sprintf("%d", len(mades)), "")
}

// convenientPrimeRule: the table-driven group prime is 2^Exp - Diff of ONE row of the table (C17.l).
func convenientPrimeRule(P *Program, R *Report, rule string) {
	fn := mustFunc(P, R, rule, "keyproof.findConvenientPrime")
	if fn == nil {
		return
	}
	// ret := 1 << row.Exp; diff := row.Diff; ret -= diff; return &ret  (value-typed locals: matched on the calls)
	var shiftObj, diffObj, subRecv, subArg *ssa.Alloc
	var got []string
	// (in the function itself, or in the new unexported helper / method on the table row that it returns the result of)
	body := fn
	for _, ci := range callsIn(fn) {
		if g := staticCallee(ci); g != nil && g.Blocks != nil && newHelper(g) {
			for _, r := range returnsOf(fn) {
				if retValue(r, 0) == ci.Value() {
					body = g
				}
			}
		}
	}
	for _, ci := range callsIn(body) {
		c, isC := ci.(*ssa.Call)
		if !isC {
			continue
		}
		ar := callArgs(c)
		switch bigMethod(c) {
		case "Lsh":
			if len(ar) == 3 && strings.HasSuffix(desc(ar[2]), ".Exp") {
				shiftObj = rootAlloc(ar[0])
			}
			got = append(got, "Lsh by "+desc(ar[2]))
		case "SetUint64":
			if len(ar) == 2 && strings.HasSuffix(desc(ar[1]), ".Diff") {
				diffObj = rootAlloc(ar[0])
			}
			got = append(got, "SetUint64("+desc(ar[1])+")")
		case "Sub":
			if len(ar) == 3 && rootAlloc(ar[0]) == rootAlloc(ar[1]) {
				subRecv, subArg = rootAlloc(ar[0]), rootAlloc(ar[2])
			}
		}
	}
	ok := shiftObj != nil && diffObj != nil && subRecv == shiftObj && subArg == diffObj
	n := 0
	for _, r := range returnsOf(body) {
		if v := retValue(r, 0); !isNilConst(v) {
			n++
			if rootAlloc(v) != shiftObj {
				ok = false
			}
		}
	}
	R.decide(rule, "keyproof.findConvenientPrime:value", "the prime taken from the table is 2^Exp - Diff of the row that was chosen", ok && n >= 1, strings.Join(got, " | "), P.Pos(fn.Pos()))
}

// structuresCopyRule (C17.m): a proof structure keeps its own copy of every integer it is given: in the constructors
// of package keyproof (new...Structure / New...Structure) no *big.Int parameter is stored as it is into the
// structure under construction (`s.n = N`): the caller's integer may change later, and the structure's verdict on a
// proof with it.
func structuresCopyRule(P *Program, R *Report, rule string) {
	n := 0
	for _, fn := range P.AllFuncs {
		if fn.Blocks == nil || fn.Pkg == nil || shortPkg(fn.Pkg.Pkg.Path()) != "keyproof" || strings.HasSuffix(P.Pos(fn.Pos()), "_test.go") {
			continue
		}
		name := strings.ToLower(fn.Name())
		if !strings.HasPrefix(name, "new") || !strings.HasSuffix(name, "structure") {
			continue
		}
		n++
		var bad []string
		allInstrs(fn, func(i ssa.Instruction) {
			st, ok := i.(*ssa.Store)
			if !ok || !isBigIntPtr(st.Val.Type()) {
				return
			}
			switch st.Addr.(type) {
			case *ssa.FieldAddr, *ssa.IndexAddr:
			default:
				return
			}
			v := st.Val
			if ct, isCT := v.(*ssa.ChangeType); isCT {
				v = ct.X
			}
			if p, isP := v.(*ssa.Parameter); isP {
				bad = append(bad, fmt.Sprintf("%s = parameter %s at %s", desc(st.Addr), p.Name(), P.Pos(st.Pos())))
			}
			// an element of a slice parameter stored as it is
			if ld, isLd := v.(*ssa.UnOp); isLd && ld.Op == token.MUL {
				if ia, isIA := ld.X.(*ssa.IndexAddr); isIA {
					if _, isP := ia.X.(*ssa.Parameter); isP {
						bad = append(bad, fmt.Sprintf("%s = element of a parameter at %s", desc(st.Addr), P.Pos(st.Pos())))
					}
				}
			}
		})
		R.decide(rule, FuncKey(fn)+":copies", "integers handed to the constructor are copied, not kept", len(bad) == 0, strings.Join(bad, "; "), P.Pos(fn.Pos()))
	}
	R.decide(rule, "keyproof:constructors", "structure constructors were found (>= 8)", n >= 8, fmt.Sprintf("%d", n), "")
}
