package main

import (
	"os"
	"fmt"
	"go/token"
	"go/types"
	"sort"
	"strings"

	"golang.org/x/tools/go/ssa"
)

var approvedGenerators = map[string]bool{
	"common.RandomBigInt": true, "common.FastRandomBigInt": true, "big.RandInt": true, "revocation.NewProofRandomizer": true,
	"common.RandomPrimeInRange": true, "gabi.randomElementMultiplicativeGroup": true,
}

// genCallOf: v is the (first) result of a call to an approved generator.
func genCallOf(v ssa.Value) *ssa.Call {
	c, idx := callAndResult(v)
	if c == nil || idx != 0 || !approvedGenerators[calleeName(c)] {
		return nil
	}
	return c
}

// uniformDraw recognises a draw of a uniformly random integer below 2^bits from the system source: the
// library's RandomBigInt(bits), or its body written out, big.RandInt(crypto/rand.Reader, 2^bits).
func uniformDraw(P *Program, c *ssa.Call) (Affine, bool) {
	switch calleeName(c) {
	case "common.RandomBigInt":
		return affineOf(callArgs(c)[0])
	case "big.RandInt":
		if len(callArgs(c)) != 2 || desc(callArgs(c)[0]) != "global:crypto/rand.Reader" {
			return Affine{}, false
		}
		ts := P.bigEval(c.Parent()).at(c)
		if len(ts) != 2 || ts[1].Top || len(ts[1].norm().M) != 1 {
			return Affine{}, false
		}
		for _, m := range ts[1].norm().M {
			if len(m.syms) == 0 && m.coef.Cmp(bigOneM) == 0 {
				return m.exp, true
			}
		}
	}
	return Affine{}, false
}

// randRow: one tabled randomiser: in function Fn, the sink (store / map update) whose target descriptor
// matches Sink gets the result of Gen called with a length/limit whose descriptor is Arg.
type randRow struct {
	Fn, Name string
	Sink     func(targetDesc, keyDesc string) bool
	Gen      string
	Arg      string // expected affine string of the length argument ("" = not checked); for FastRandomBigInt the term of the limit
	InLoop   bool   // sink is per-element: generator call must be inside the same loop
	// Slot, when set, discovers the sink instead of naming it: the builder field that plays the randomiser's role in
	// the response the proving method stores into the named proof field (so regrouping or renaming unexported
	// builder fields does not move the obligation, and a randomiser drawn into a field the response does not use is
	// not mistaken for it). It falls back to Sink when nothing is discovered.
	Slot func(P *Program) string
}

// responseRandomizerSlot: in fnKey, the value stored into proof field respField is rnd + challenge*(...); returns the
// descriptor of rnd (the one monomial that is a plain symbol with coefficient 1 and does not mention the challenge).
func responseRandomizerSlot(fnKey, respField string) func(P *Program) string {
	return func(P *Program) string {
		fn := P.Func(fnKey)
		if fn == nil {
			return ""
		}
		be := P.bigEval(fn)
		slot := ""
		allInstrs(fn, func(i ssa.Instruction) {
			st, ok := i.(*ssa.Store)
			if !ok || !strings.HasSuffix(desc(st.Addr), "."+respField) || !strings.HasPrefix(desc(st.Addr), "new:") {
				return
			}
			t := be.Use[st][st.Val]
			if t.Top {
				return
			}
			n := 0
			cand := ""
			for _, m := range t.M {
				if m.syms["arg#1"] > 0 {
					continue
				}
				n++
				if len(m.syms) == 1 && m.coef.Cmp(bigOneM) == 0 && m.exp.isConst() && m.exp.C == 0 {
					for sname, pw := range m.syms {
						if pw == 1 {
							cand = sname
						}
					}
				}
			}
			if n == 1 && cand != "" {
				slot = cand
			}
		})
		return slot
	}
}

func fieldSink(d string) func(string, string) bool {
	return func(t, _ string) bool { return t == d || t == canonOwner(d) }
}
func mapSink(m, k string) func(string, string) bool {
	return func(t, key string) bool {
		return (t == m || t == canonOwner(m)) && (k == "" || key == k || key == canonOwner(k))
	}
}

// canonOwner: a freshly created object of a module type and a received one have the same owner type
// (`new:pkg.T.f` and `<pkg.T>.f`): inside a helper method the builder under construction is the receiver.
func canonOwner(d string) string {
	if strings.HasPrefix(d, "new:") {
		rest := d[4:]
		end := len(rest)
		// the type name ends at the first '.' after the package qualifier or at '['
		dot := strings.Index(rest, ".")
		if dot >= 0 {
			j := dot + 1
			for j < len(rest) && rest[j] != '.' && rest[j] != '[' {
				j++
			}
			end = j
		}
		return "<" + rest[:end] + ">" + rest[end:]
	}
	return d
}

var nbD = "new:gabi.DisclosureProofBuilder"

var randTable = []randRow{
	{Fn: kCredBuilder, Name: "eCommit", Sink: fieldSink(nbD + ".eCommit"), Gen: "common.RandomBigInt", Arg: "LeCommit", Slot: responseRandomizerSlot(kDPBCreateProof, "EResponse")},
	{Fn: kCredBuilder, Name: "vCommit", Sink: fieldSink(nbD + ".vCommit"), Gen: "common.RandomBigInt", Arg: "LvCommit", Slot: responseRandomizerSlot(kDPBCreateProof, "VResponse")},
	{Fn: kCredBuilder, Name: "attrRandomizers[hidden]", Sink: mapSink(nbD+".attrRandomizers", nbD+".undisclosedAttributes[#i]"), Gen: "common.RandomBigInt", Arg: "LmCommit", InLoop: true},
	{Fn: kNewCB, Name: "vPrime", Sink: fieldSink("new:gabi.CredentialBuilder.vPrime"), Gen: "common.RandomBigInt", Arg: "LvPrime", InLoop: false},
	{Fn: kNewCB, Name: "vPrimeCommit", Sink: fieldSink("new:gabi.CredentialBuilder.vPrimeCommit"), Gen: "common.RandomBigInt", Arg: "LvPrimeCommit", Slot: responseRandomizerSlot("gabi.(*CredentialBuilder).CreateProof", "VPrimeResponse")},
	{Fn: kNewCB, Name: "mUser[i+1]", Sink: mapSink("makemap", "(arg#5[#i]+1)"), Gen: "common.RandomBigInt", Arg: "Lm-1", InLoop: true},
	{Fn: kNewCB, Name: "mUserCommit[i]", Sink: mapSink("makemap", "rangekey(makemap)"), Gen: "common.RandomBigInt", Arg: "LmCommit", InLoop: true},
	{Fn: "gabi.(*Credential).NonrevBuildProofBuilder", Name: "nonrev randomizer", Sink: fieldSink("new:gabi.NonRevocationProofBuilder.randomizer"), Gen: "revocation.NewProofRandomizer", Arg: "", InLoop: false},
	{Fn: kSignCommit, Name: "issuer blind share", Sink: mapSink("makemap", "(arg#3[#i]+1)"), Gen: "common.RandomBigInt", Arg: "Lm-1", InLoop: true},
	{Fn: "rangeproof.(*ProofStructure).CommitmentsFromSecrets", Name: "dRandomizers[i]", Sink: func(t, k string) bool { return strings.HasSuffix(t, ".dRandomizers[#i]") }, Gen: "common.RandomBigInt", Arg: "<rangeproof.ProofStructure>.ld+Lh+Lstatzk", InLoop: true},
	{Fn: "rangeproof.(*ProofStructure).CommitmentsFromSecrets", Name: "v[i]", Sink: func(t, k string) bool { return strings.HasSuffix(t, ".v[#i]") }, Gen: "common.RandomBigInt", Arg: "Lm", InLoop: true},
	{Fn: "rangeproof.(*ProofStructure).CommitmentsFromSecrets", Name: "vRandomizers[i]", Sink: func(t, k string) bool { return strings.HasSuffix(t, ".vRandomizers[#i]") }, Gen: "common.RandomBigInt", Arg: "Lh+Lm+Lstatzk", InLoop: true},
	{Fn: "rangeproof.(*ProofStructure).CommitmentsFromSecrets", Name: "v5Randomizer", Sink: func(t, k string) bool { return strings.HasSuffix(t, ".v5Randomizer") }, Gen: "common.RandomBigInt", Arg: "<rangeproof.ProofStructure>.ld+Lh+Lm+Lstatzk+2", InLoop: false},
}

func init() {
	register("C07",
		Rule{ID: "C07.n", Explain: "generator state is neither shared without a lock nor copied (the rules of C20.l and C20.n with this property's entry points): a copy of the CPRNG (value receiver, dereference) or a second generator keyed from a copy replays the keystream, i.e. repeats randomizers across proofs.",
			Run: func(P *Program, R *Report) {
				packageStateRule(P, R, "C07.n", []string{"gabi.(*Credential).CreateDisclosureProof", "common.FastRandomBigInt", "common.RandomBigInt", "gabi.(*Credential).NonrevPrepareCache"}, 1)
				pooledAndCopiedRule(P, R, "C07.n")
			}},
		Rule{ID: "C07.a", Explain: "source: every tabled randomiser is the direct result of its own call to an approved generator with the specified length, made in the constructing function (inside the loop for per-element randomisers); no two randomisers share one generator call.",
			Run: func(P *Program, R *Report) { randomizerSourceRule(P, R) }},
		Rule{ID: "C07.b", Explain: "override discipline: the only writes to a disclosure builder's attrRandomizers are the constructor loop, index 0 <- randomizers[\"secretkey\"] in Commit, and the revocation index <- the randomiser of the builder obtained from nonrevConsumeBuilder in the same constructor call.",
			Run: func(P *Program, R *Report) { attrRandomizerWritesRule(P, R) }},
		Rule{ID: "C07.c", Explain: "no escape: objects that hold randomisers are never stored into package-level variables or fields of long-lived objects (only sent on Credential.nonrevCache); NewProofCommit and its callees do not write through the *Witness parameter; Witness.randomizer is written only on a local copy.",
			Run: func(P *Program, R *Report) { noEscapeRule(P, R) }},
		Rule{ID: "C07.d", Explain: "consume-once typestate of the prepared non-revocation commitment: only nonrevConsumeBuilder and NonrevPrepareCache touch the channel; a received builder is returned or sent back at most once; one send site; capacity 1; the consumed builder is stored only into the new DisclosureProofBuilder.",
			Run: func(P *Program, R *Report) { cacheProtocolRule(P, R) }},
		Rule{ID: "C07.e", Explain: "CPRNG: the counter is touched only by one sync/atomic.AddUint64 per Read; the first block index is that result minus the reserved count; the reserved count is (len(buf)-1)/16+1; every loop iteration encrypts the current index once and advances it by exactly one.",
			Run: func(P *Program, R *Report) { cprngRule(P, R, "C07.e") }},
		Rule{ID: "C07.f", Explain: "memoised commitments are per object: the caches of NonRevocationProofBuilder.Commit and rangeproof CommitmentsFromSecrets live in the receiver, and the single caller of the latter passes attribute and randomiser of the same builder and index.",
			Run: func(P *Program, R *Report) { memoPerObjectRule(P, R) }},
		Rule{ID: "C07.h", Explain: "aliasing discipline: randomisers and commitments held by builders are not overwritten in place (a response is computed into a fresh integer) - no function mutates in place a big.Int it reached through gabi.DisclosureProofBuilder / gabi.CredentialBuilder / gabi.NonRevocationProofBuilder / revocation.ProofCommit (math/big mutators write their receiver), except the tabled merge/refresh functions.",
			Run: func(P *Program, R *Report) { inPlaceDisciplineRule(P, R, "C07.h", "gabi.DisclosureProofBuilder", "gabi.CredentialBuilder", "gabi.NonRevocationProofBuilder", "revocation.ProofCommit") }},
		Rule{ID: "C07.i", Explain: "the randomised signature of every proof uses a fresh exponent of full length: Randomize draws r as one uniform LRA-bit value in the call and computes A' = A*S^r, V' = V - E*r from it (a short r makes A' repeat between proofs; same rule as C05.e).",
			Run: func(P *Program, R *Report) { randomizeRuleAs(P, R, "C07.i") }},
		Rule{ID: "C07.g", Explain: "the revocation proof commitment draws r2, r3 and the four non-shared randomisers from distinct generator calls with the specified limits (symbolic terms); the shared alpha randomiser comes from the caller.",
			Run: func(P *Program, R *Report) { revocationRandomizersRule(P, R) }},
		Rule{ID: "C07.j", Explain: "each drawn randomiser is the one used under its name: the by-name lookups of the non-revocation proof commitment (Secret, Randomizer) answer every name with that name's own entry (same rule as C11.l); a lookup that answers one name with another's randomiser leaves a drawn randomiser unused and lets two responses share one.",
			Run: func(P *Program, R *Report) { lookupFaithfulRule(P, R, "C07.j", revocationLookups[:2]) }},
		Rule{ID: "C07.k", Explain: "a failed generator is noticed: the error of every call to RandomBigInt / RandomPrimeInRange / RandInt / io.ReadFull / rand.Read in the module is looked at, so that no randomiser is nil or left over from an earlier call (same rule as C08.g: the error a call returns has a use - a nil test or a return - before it is overwritten, shadowed or left behind).",
			Run: func(P *Program, R *Report) { errorResultsUsedRule(P, R, "C07.k", func(fn *ssa.Function) bool { return true }, func(n string) bool { return strings.Contains(n, "RandomBigInt") || strings.Contains(n, "RandomPrimeInRange") || strings.Contains(n, "RandInt") || strings.Contains(n, "ReadFull") || strings.HasSuffix(n, "rand.Read") || strings.Contains(n, "RandomQR") || strings.Contains(n, "NewCPRNG") }, 15) }},
		Rule{ID: "C07.l", Explain: "key-stream blocks are private to the call that reserved them: CPRNG.Read keeps its cipher input and output blocks in locals - no scratch buffer in the shared generator object (the escape obligations of C20.i, same rule) - shared scratch lets concurrent callers receive the same blocks, i.e. the same randomisers.",
			Run: func(P *Program, R *Report) { sharedRule(P, R, "C20", "C20.i", "C07.l", nil) }},
		Rule{ID: "C07.m", Explain: "every commitment uses the secret-key randomiser it is given for this proof: Commit of both builders takes randomizers[\"secretkey\"] unconditionally (the takes-shared obligations of C03.d, same rule) - keeping the previous proof's randomiser when none is passed makes two proofs of one builder share it.",
			Run: func(P *Program, R *Report) { sharedRule(P, R, "C03", "C03.d", "C07.m", func(c string) bool { return strings.Contains(c, "takes-shared") }) }},
	)
}

type sinkInfo struct {
	ins         ssa.Instruction
	target, key string
	val         ssa.Value
	// captured while the helper's parameters were bound to the call's arguments:
	genArg   string // affine form of the first argument when val is the result of a generator call
	loopColl string // descriptor of the collection the innermost enclosing loop walks ("" if none)
	valDesc  string
}

// sinksOf: the stores and map updates of fn and of the same-package helpers it calls (a constructor's
// randomiser loop may have been extracted into a helper). Targets inside a helper are described in the
// caller's terms: plain parameters are bound to the call's arguments, and a container that the helper
// creates and returns is named after the place the caller stores it in.
func sinksOf(fn *ssa.Function) []sinkInfo { return sinksDirect(fn) }

func sinksOfDeep(fn *ssa.Function) []sinkInfo { return sinksDeep(fn, 2, map[*ssa.Function]bool{}) }

func sinksDirect(fn *ssa.Function) []sinkInfo {
	var out []sinkInfo
	allInstrs(fn, func(i ssa.Instruction) {
		var s sinkInfo
		switch x := i.(type) {
		case *ssa.Store:
			s = sinkInfo{ins: x, target: desc(x.Addr), val: x.Val}
			// an entry of a record that stands for a map with constant keys (see recordForMap): the map update
			if fa, isFA := x.Addr.(*ssa.FieldAddr); isFA {
				if rec, key, ok := recordEntry(fa); ok {
					s = sinkInfo{ins: x, target: desc(rec), key: "\"" + key + "\"", val: x.Val}
				}
			}
		case *ssa.MapUpdate:
			s = sinkInfo{ins: x, target: desc(x.Map), key: desc(x.Key), val: x.Value}
		default:
			return
		}
		s.valDesc = desc(s.val)
		if g := genCallOf(s.val); g != nil && len(callArgs(g)) > 0 {
			if a, ok := affineOf(callArgs(g)[0]); ok {
				s.genArg = a.String()
			}
		}
		if l := innermostLoopOf(i.Block()); l != nil {
			s.loopColl = loopCollectionDesc(l)
		}
		out = append(out, s)
		// `x.part = part{a: v, b: w}` (a struct value built here and assigned as a whole): also one sink per field
		if st, isSt := i.(*ssa.Store); isSt {
			for _, fs := range structCopyFields(st) {
				out = append(out, sinkInfo{ins: st, target: fs.target, val: fs.val, valDesc: desc(fs.val)})
			}
		}
		// `x.list = append(x.list, v)` in a loop that starts from an empty list files v as element i of the list, like
		// `x.list[i] = v` into a list of full length: also reported as the per-element sink
		if st, isSt := i.(*ssa.Store); isSt {
			if e, l := appendedElement(st); e != nil {
				es := sinkInfo{ins: st, target: desc(st.Addr) + "[" + inductionName(l.Header) + "]", val: e, valDesc: desc(e), loopColl: loopCollectionDesc(l)}
				if g := genCallOf(e); g != nil && len(callArgs(g)) > 0 {
					if a, ok := affineOf(callArgs(g)[0]); ok {
						es.genArg = a.String()
					}
				}
				out = append(out, es)
			}
		}
	})
	return out
}

// appendedElement: st is `addr = append(*addr, e)` with one element, inside a loop, and the list is empty when the loop
// is entered (its only other assignment in the function is an empty make/literal/nil); returns e and the loop.
func appendedElement(st *ssa.Store) (ssa.Value, *Loop) {
	c, ok := st.Val.(*ssa.Call)
	if !ok || !isCallTo(c, "builtin:append") {
		return nil, nil
	}
	l := innermostLoopOf(st.Block())
	if l == nil {
		return nil, nil
	}
	ld, ok := callArgs(c)[0].(*ssa.UnOp)
	if !ok || ld.Op != token.MUL || desc(ld.X) != desc(st.Addr) {
		return nil, nil
	}
	tail, ok := seqTail(callArgs(c)[1], 0, map[ssa.Value]bool{})
	if !ok || len(tail) != 1 || tail[0].Kind != "elem" || tail[0].V == nil {
		return nil, nil
	}
	// every other store to the same place lies outside the loop and stores an empty list
	d := desc(st.Addr)
	okInit := true
	allInstrs(st.Parent(), func(i ssa.Instruction) {
		o, isSt := i.(*ssa.Store)
		if !isSt || o == st || desc(o.Addr) != d {
			return
		}
		if l.Body[o.Block()] {
			okInit = false
			return
		}
		switch v := o.Val.(type) {
		case *ssa.MakeSlice:
			if n, isC := constInt(v.Len); !isC || n != 0 {
				okInit = false
			}
		case *ssa.Const:
			if v.Value != nil {
				okInit = false
			}
		case *ssa.Slice:
			if al, isAl := v.X.(*ssa.Alloc); !isAl || !strings.HasPrefix(typeStr(al.Type()), "*[0]") {
				okInit = false
			}
		default:
			okInit = false
		}
	})
	if !okInit {
		return nil, nil
	}
	return tail[0].V, l
}

// loopCollectionDesc: the collection a loop walks: `range X` or `i < len(X)`; a counted loop `i < n` gives "#n".
func loopCollectionDesc(l *Loop) string {
	for b := range l.Body {
		for _, ins := range b.Instrs {
			if nx, ok := ins.(*ssa.Next); ok && (b == l.Header || l.Header.Dominates(b)) {
				if r, ok := nx.Iter.(*ssa.Range); ok && innermostLoopOf(b) != nil && innermostLoopOf(b).Header == l.Header {
					return desc(r.X)
				}
			}
		}
	}
	for _, ins := range l.Header.Instrs {
		if bo, ok := ins.(*ssa.BinOp); ok && bo.Op == token.LSS {
			if c, ok := bo.Y.(*ssa.Call); ok && isCallTo(c, "builtin:len") {
				return desc(callArgs(c)[0])
			}
		}
	}
	// rotated loops test at the latch
	for _, lb := range l.Latch {
		for _, ins := range lb.Instrs {
			if bo, ok := ins.(*ssa.BinOp); ok && bo.Op == token.LSS {
				if c, ok := bo.Y.(*ssa.Call); ok && isCallTo(c, "builtin:len") {
					return desc(callArgs(c)[0])
				}
			}
		}
	}
	return ""
}

func sinksDeep(fn *ssa.Function, depth int, seen map[*ssa.Function]bool) []sinkInfo {
	if fn == nil || fn.Blocks == nil || seen[fn] {
		return nil
	}
	seen[fn] = true
	defer delete(seen, fn)
	out := sinksDirect(fn)
	if depth <= 0 {
		return out
	}
	for _, c := range callsIn(fn) {
		h := staticCallee(c)
		if h == nil || !inModuleFn(h) || h.Blocks == nil || h.Pkg != fn.Pkg || isBigWrapperFn(h) || h == fn {
			continue
		}
		if h.Object() != nil && h.Object().Exported() && h.Parent() == nil {
			continue
		}
		// where does the caller put what the helper returns?
		retTarget := map[int]string{}
		if call, ok := c.(*ssa.Call); ok {
			for _, r := range referrersOf(call) {
				switch u := r.(type) {
				case *ssa.Store:
					if u.Val == ssa.Value(call) {
						retTarget[0] = desc(u.Addr)
					}
				case *ssa.Extract:
					for _, rr := range referrersOf(u) {
						if st, ok := rr.(*ssa.Store); ok && st.Val == ssa.Value(u) {
							retTarget[u.Index] = desc(st.Addr)
						}
					}
				}
			}
		}
		bindCall(c, h, func() {
			sub := sinksDeep(h, depth-1, seen)
			// containers created in the helper and returned
			rename := map[string]string{}
			for _, r := range returnsOf(h) {
				for k, v := range r.Results {
					if t, ok := retTarget[k]; ok {
						switch o := origin(v).(type) {
						case *ssa.MakeMap, *ssa.MakeSlice, *ssa.Alloc:
							rename[desc(o.(ssa.Value))] = t
						}
					}
				}
			}
			for _, s := range sub {
				for from, to := range rename {
					if s.target == from || strings.HasPrefix(s.target, from+".") || strings.HasPrefix(s.target, from+"[") {
						s.target = to + strings.TrimPrefix(s.target, from)
					}
				}
				out = append(out, s)
			}
		})
	}
	return out
}

func innermostLoopOf(b *ssa.BasicBlock) *Loop {
	// nearest dominating header whose loop contains b
	for h := b; h != nil; h = h.Idom() {
		if l := findLoop(h); l != nil && l.Body[b] {
			return l
		}
	}
	return nil
}

func randomizerSourceRule(P *Program, R *Report) {
	rule := "C07.a"
	genUse := map[*ssa.Call][]string{}
	for _, row := range randTable {
		fn := mustFunc(P, R, rule, row.Fn)
		if fn == nil {
			continue
		}
		n := 0
		sink := row.Sink
		if row.Slot != nil {
			if slot := row.Slot(P); slot != "" {
				sink = fieldSink(slot)
				if os.Getenv("GABIDBG") != "" {
					fmt.Println("DBG slot", row.Name, slot)
					for _, s := range sinksOfDeep(fn) {
						fmt.Println("DBG   sink", s.target, s.key)
					}
				}
			}
		}
		for _, s := range sinksOfDeep(fn) {
			if !sink(canonOwner(s.target), canonOwner(s.key)) && !sink(s.target, s.key) {
				continue
			}
			n++
			c := fmt.Sprintf("%s:%s", row.Fn, row.Name)
			g := genCallOf(s.val)
			if g == nil {
				R.bad(rule, c, "randomiser is the direct result of an approved generator call", "value is "+desc(s.val), P.Pos(s.ins.Pos()))
				continue
			}
			ok := calleeName(g) == row.Gen
			detail := "generator " + calleeName(g)
			if row.Arg != "" && ok {
				ok = s.genArg == parseAffine(row.Arg).String()
				detail += " length " + s.genArg + " want " + parseAffine(row.Arg).String()
			}
			if ok && g.Parent() != fn && g.Parent() != s.ins.Parent() {
				ok, detail = false, "generator call is in another function"
			}
			if ok && row.InLoop {
				l := innermostLoopOf(s.ins.Block())
				if l == nil || !l.Body[g.Block()] {
					ok, detail = false, "per-element randomiser but the generator call is outside the loop (one value for all elements)"
				}
			}
			R.decide(rule, c, "randomiser "+row.Name+" = fresh "+row.Gen+"("+row.Arg+") drawn in "+row.Fn, ok, detail, P.Pos(s.ins.Pos()))
			genUse[g] = append(genUse[g], c)
		}
		if n == 0 {
			R.bad(rule, fmt.Sprintf("%s:%s", row.Fn, row.Name), "tabled randomiser sink exists", "no store/map update matches the table row (renamed or removed?)", P.Pos(fn.Pos()))
		}
	}
	shared := []string{}
	for g, uses := range genUse {
		if len(uses) > 1 {
			sort.Strings(uses)
			shared = append(shared, P.Pos(g.Pos())+" feeds "+strings.Join(uses, ", "))
		}
	}
	sort.Strings(shared)
	R.decide(rule, "distinct-generator-calls", "no generator call result is stored in two randomisers", len(shared) == 0, strings.Join(shared, "; "), "")

	// randomizers passed by value: sCommit of proveCommitment, the shared secretkey randomiser, keyshare randomiser, eCommit of proveSignature
	if fn := mustFunc(P, R, rule, "gabi.(*CredentialBuilder).CommitToSecretAndProve"); fn != nil {
		ok := false
		for _, s := range sinksOfDeep(fn) {
			if s.key == `"secretkey"` {
				if g := genCallOf(s.val); g != nil && calleeIs(g, "common.RandomBigInt") {
					ok = genLenAffine(P, fn, g) == "LsCommit"
				}
			}
		}
		R.decide(rule, FuncKey(fn)+":sCommit", "the issuance secret-key randomiser is a fresh RandomBigInt(LsCommit)", ok, "", P.Pos(fn.Pos()))
	}
	if fn := mustFunc(P, R, rule, "gabi.NewProofRandomizers"); fn != nil {
		ok := false
		for _, s := range sinksOfDeep(fn) {
			if s.key == `"secretkey"` {
				if g := genCallOf(s.val); g != nil && calleeIs(g, "common.RandomBigInt") {
					ok = genLenAffine(P, fn, g) == "LmCommit@1024"
				}
			}
		}
		R.decide(rule, FuncKey(fn)+":secretkey", "the shared secret-key randomiser is a fresh RandomBigInt(LmCommit of the 1024-bit parameters)", ok, "", P.Pos(fn.Pos()))
	}
	if fn := mustFunc(P, R, rule, "gabi.NewKeyshareCommitments"); fn != nil {
		ok := false
		for _, r := range returnsOf(fn) {
			if g := genCallOf(retValue(r, 0)); g != nil && calleeIs(g, "common.RandomBigInt") && g.Parent() == fn {
				ok = true
			}
		}
		R.decide(rule, FuncKey(fn)+":randomizer", "the keyshare server's randomiser is a fresh RandomBigInt drawn in this call", ok, "", P.Pos(fn.Pos()))
	}
	// generator integrity: RandomBigInt reads crypto/rand with the requested bit length
	if fn := mustFunc(P, R, rule, "common.RandomBigInt"); fn != nil {
		ok := false
		for _, c := range callsIn(fn) {
			if isCallTo(c, "big.RandInt") {
				call := c.(*ssa.Call)
				t := P.bigEval(fn).At[call]
				ok = desc(callArgs(call)[0]) == "global:crypto/rand.Reader" && len(t) == 2 && t[1].equal(pow2("arg#0"))
			}
		}
		R.decide(rule, "common.RandomBigInt:source", "RandomBigInt(n) = RandInt(crypto/rand.Reader, 2^n)", ok, "", P.Pos(fn.Pos()))
	}
}

func attrRandomizerWritesRule(P *Program, R *Report) {
	rule := "C07.b"
	n := 0
	dpbC := "<gabi.DisclosureProofBuilder>"
	// the helpers of the constructor (if any) are visited from it, with their parameters bound
	viaConstructor := map[ssa.Instruction]sinkInfo{}
	if cf := P.Func(kCredBuilder); cf != nil {
		for _, s := range sinksOfDeep(cf) {
			viaConstructor[s.ins] = s
		}
	}
	for _, fn := range P.AllFuncs {
		for _, s0 := range sinksOf(fn) {
			s := s0
			if v, ok := viaConstructor[s.ins]; ok {
				s = v // described in the constructor's terms
			}
			if !strings.HasSuffix(s.target, ".attrRandomizers") || s.key == "" {
				continue
			}
			n++
			key := FuncKey(fn)
			_, inCtor := viaConstructor[s.ins]
			c := fmt.Sprintf("%s:attrRandomizers[%s]", key, canonOwner(s.key))
			ok, why := false, "untabled write to attrRandomizers: value "+s.valDesc
			ck := canonOwner(s.key)
			switch {
			case inCtor && (ck == dpbC+".undisclosedAttributes[#i]" || ck == dpbC+".undisclosedAttributes[*]"):
				ok = genCallOf(s.val) != nil
				why = "constructor loop"
			case key == kDPBCommit && s.key == "0":
				ok = s.valDesc == `arg#1["secretkey"]`
				why = "shared secret-key randomiser, got " + s.valDesc
			case inCtor && s.key == "call:gabi.(*Credential).NonrevIndex(<gabi.Credential>)#0":
				ok = canonOwner(s.valDesc) == dpbC+".nonrevBuilder.randomizer"
				why = "revocation attribute randomiser, got " + s.valDesc
			}
			R.decide(rule, c, "write to attrRandomizers is one of the three tabled ones", ok, why, P.Pos(s.ins.Pos()))
		}
	}
	// a map built by a helper and installed as attrRandomizers as a whole
	for _, s := range viaConstructor {
		if _, isMU := s.ins.(*ssa.MapUpdate); isMU && strings.HasSuffix(s.target, ".attrRandomizers") && s.ins.Parent() != P.Func(kCredBuilder) {
			if _, counted := s.ins.(*ssa.MapUpdate); counted && !strings.HasSuffix(desc(s.ins.(*ssa.MapUpdate).Map), ".attrRandomizers") {
				n++
				ck := canonOwner(s.key)
				ok := (ck == dpbC+".undisclosedAttributes[#i]" || ck == dpbC+".undisclosedAttributes[*]") && genCallOf(s.val) != nil
				R.decide(rule, fmt.Sprintf("%s:attrRandomizers[%s]", FuncKey(s.ins.Parent()), ck), "write to attrRandomizers is one of the three tabled ones", ok, "map built for the constructor: value "+s.valDesc, P.Pos(s.ins.Pos()))
			}
		}
	}
	R.decide(rule, "writes:count", "the three tabled writes exist", n >= 3, fmt.Sprintf("%d writes", n), "")
	// nonrevBuilder comes from nonrevConsumeBuilder in the same constructor
	if fn := P.Func(kCredBuilder); fn != nil {
		ok := false
		for _, s := range sinksOf(fn) {
			if s.target == nbD+".nonrevBuilder" {
				ok = desc(s.val) == "call:gabi.nonrevConsumeBuilder(<gabi.Credential>)#0"
			}
		}
		R.decide(rule, kCredBuilder+":nonrevBuilder-source", "the builder's non-revocation part is obtained through nonrevConsumeBuilder in this constructor call", ok, "", P.Pos(fn.Pos()))
	}
}

var longLived = map[string]bool{"gabi.Credential": true, "revocation.Witness": true, "gabikeys.PublicKey": true, "gabikeys.PrivateKey": true,
	"gabi.Issuer": true, "revocation.SignedAccumulator": true, "revocation.Accumulator": true}
var randomizerHolders = map[string]bool{"gabi.DisclosureProofBuilder": true, "gabi.CredentialBuilder": true, "gabi.NonRevocationProofBuilder": true,
	"revocation.ProofCommit": true, "rangeproof.ProofCommit": true, "revocation.proofCommit": true, "rangeproof.proofCommit": true}

func typeKey(t types.Type) string {
	if n := namedOf(t); n != nil && n.Obj().Pkg() != nil {
		k := shortPkg(n.Obj().Pkg().Path()) + "." + n.Obj().Name()
		if a, ok := typeNameAlias[k]; ok {
			return a
		}
		return k
	}
	return ""
}

// rootOfAddr walks an address expression back to its root value.
func rootOfAddr(v ssa.Value) ssa.Value {
	for i := 0; i < 30; i++ {
		switch x := v.(type) {
		case *ssa.FieldAddr:
			v = x.X
		case *ssa.IndexAddr:
			v = x.X
		case *ssa.UnOp:
			if x.Op == token.MUL {
				v = x.X
			} else {
				return v
			}
		case *ssa.ChangeType:
			v = x.X
		default:
			return v
		}
	}
	return v
}

func noEscapeRule(P *Program, R *Report) {
	rule := "C07.c"
	nStores := 0
	var offenders []string
	for _, fn := range P.AllFuncs {
		for _, s := range sinksOf(fn) {
			vt := typeKey(s.val.Type())
			if !randomizerHolders[vt] {
				// slices/maps of holders
				continue
			}
			nStores++
			st, ok := s.ins.(*ssa.Store)
			if !ok {
				continue
			}
			// target: global or field of long-lived type
			if g, isG := rootOfAddr(st.Addr).(*ssa.Global); isG {
				offenders = append(offenders, fmt.Sprintf("%s stores %s into package variable %s at %s", FuncKey(fn), vt, g.Name(), P.Pos(st.Pos())))
				continue
			}
			if fa, isFA := st.Addr.(*ssa.FieldAddr); isFA {
				if owner := faType(fa); longLived[owner] {
					offenders = append(offenders, fmt.Sprintf("%s stores %s into %s.%s at %s", FuncKey(fn), vt, owner, faName(fa), P.Pos(st.Pos())))
				}
			}
		}
	}
	sort.Strings(offenders)
	R.decide(rule, "holders-not-stored-in-long-lived-state", "no randomiser-holding object is stored into a package variable or a field of a long-lived object", len(offenders) == 0, strings.Join(offenders, "; "), "")
	R.decide(rule, "holder-stores:count", "stores of randomiser-holding objects were found and inspected (>= 5)", nStores >= 5, fmt.Sprintf("%d", nStores), "")

	// fields of long-lived types whose type can hold a builder: only Credential.nonrevCache (a channel)
	var holderFields []string
	for _, p := range P.SSA.AllPackages() {
		if !inModule(p.Pkg) {
			continue
		}
		for _, n := range p.Pkg.Scope().Names() {
			tn, ok := p.Pkg.Scope().Lookup(n).(*types.TypeName)
			if !ok {
				continue
			}
			st, ok := tn.Type().Underlying().(*types.Struct)
			if !ok || !longLived[shortPkg(p.Pkg.Path())+"."+n] {
				continue
			}
			for i := 0; i < st.NumFields(); i++ {
				if mentionsHolder(st.Field(i).Type(), 0) {
					tk := shortPkg(p.Pkg.Path()) + "." + n
					holderFields = append(holderFields, tk+"."+refFieldName(tk, st.Field(i).Name()))
				}
			}
		}
	}
	sort.Strings(holderFields)
	R.decide(rule, "long-lived-fields", "the only field of a long-lived type that can carry a randomiser-holding object is Credential.nonrevCache", strings.Join(holderFields, ",") == "gabi.Credential.nonrevCache",
		"fields: "+strings.Join(holderFields, ","), "")

	// NewProofCommit: no store through the *Witness parameter, here or in callees
	if fn := mustFunc(P, R, rule, "revocation.NewProofCommit"); fn != nil {
		var bad []string
		for _, g := range P.reachableFuncs(fn) {
			for _, s := range sinksOf(g) {
				st, ok := s.ins.(*ssa.Store)
				if !ok {
					continue
				}
				root := rootOfAddr(st.Addr)
				if p, isP := root.(*ssa.Parameter); isP {
					tk := typeKey(p.Type())
					if tk == "revocation.Witness" || tk == "revocation.witness" {
						if _, isPtr := p.Type().(*types.Pointer); isPtr && g == fn {
							bad = append(bad, fmt.Sprintf("%s writes %s at %s", FuncKey(g), s.target, P.Pos(st.Pos())))
						}
						if g != fn {
							bad = append(bad, fmt.Sprintf("%s writes %s at %s", FuncKey(g), s.target, P.Pos(st.Pos())))
						}
					}
				}
			}
		}
		R.decide(rule, "revocation.NewProofCommit:witness-read-only", "NewProofCommit and its callees perform no store through the (shared) witness", len(bad) == 0, strings.Join(bad, "; "), P.Pos(fn.Pos()))
	}
	// Witness.randomizer writes: only on a local copy
	var rw []string
	nrw := 0
	for _, fn := range P.AllFuncs {
		for _, s := range sinksOf(fn) {
			st, ok := s.ins.(*ssa.Store)
			if !ok {
				continue
			}
			fa, ok := st.Addr.(*ssa.FieldAddr)
			if !ok || faType(fa) != "revocation.Witness" || faName(fa) != "randomizer" {
				continue
			}
			nrw++
			if _, isAlloc := fa.X.(*ssa.Alloc); !isAlloc {
				rw = append(rw, fmt.Sprintf("%s at %s writes %s", FuncKey(fn), P.Pos(st.Pos()), s.target))
			}
		}
	}
	R.decide(rule, "revocation.Witness.randomizer:local-only", "the per-proof randomiser is written only into a local copy of the witness", len(rw) == 0 && nrw >= 1, strings.Join(rw, "; "), "")
}

func mentionsHolder(t types.Type, d int) bool {
	if d > 6 {
		return false
	}
	switch x := t.(type) {
	case *types.Pointer:
		return mentionsHolder(x.Elem(), d+1)
	case *types.Slice:
		return mentionsHolder(x.Elem(), d+1)
	case *types.Chan:
		return mentionsHolder(x.Elem(), d+1)
	case *types.Map:
		return mentionsHolder(x.Elem(), d+1)
	case *types.Named:
		return randomizerHolders[typeKey(x)]
	}
	return false
}

type chanOp struct {
	fn   *ssa.Function // the function that operates on the channel; for an operation made by an unexported helper that
	// was handed the channel as an argument: the function that handed it over (via = that call)
	kind string // send, recv, make, close
	val  ssa.Value
	ins  ssa.Instruction
	via  ssa.CallInstruction
}

func chanOpsOn(P *Program, match func(chDesc string) bool) []chanOp {
	var out []chanOp
	var scan func(fn, owner *ssa.Function, via ssa.CallInstruction, depth int)
	scan = func(scanned, owner *ssa.Function, via ssa.CallInstruction, depth int) {
		fn := owner
		// operations of a local closure are its enclosing function's; a captured channel is the value it captured
		for fn.Parent() != nil && via == nil {
			fn = fn.Parent()
		}
		matchV := func(v ssa.Value) bool {
			if match(desc(v)) {
				return true
			}
			var fv *ssa.FreeVar
			switch x := v.(type) {
			case *ssa.FreeVar:
				fv = x
			case *ssa.UnOp:
				if x.Op == token.MUL {
					fv, _ = x.X.(*ssa.FreeVar)
				}
			}
			if fv != nil {
				if cv, ok := capturedValue(fv); ok && cv != nil {
					return match(desc(cv))
				}
			}
			// in the enclosing function the captured variable lives in a cell
			if ld, ok := v.(*ssa.UnOp); ok && ld.Op == token.MUL {
				if al, isAl := ld.X.(*ssa.Alloc); isAl {
					if cv, ok := cellValueAt(al, ld); ok && cv != nil {
						return match(desc(cv))
					}
				}
			}
			return false
		}
		n0 := len(out)
		defer func() {
			for k := n0; k < len(out); k++ {
				if out[k].via == nil {
					out[k].via = via
				}
			}
		}()
		// the channel handed to an unexported helper: the helper's operations are its caller's
		if depth < 2 {
			for _, c := range callsIn(scanned) {
				g := staticCallee(c)
				if g == nil || g == scanned || !inModuleFn(g) || g.Blocks == nil || g.Parent() != nil || (g.Object() != nil && g.Object().Exported()) {
					continue
				}
				passes := false
				for _, a := range callArgs(c) {
					if _, isChan := a.Type().Underlying().(*types.Chan); isChan && matchV(a) {
						passes = true
					}
				}
				if passes {
					cc := c
					bindCall(cc, g, func() { scan(g, owner, cc, depth+1) })
				}
			}
		}
		allInstrs(scanned, func(i ssa.Instruction) {
			switch x := i.(type) {
			case *ssa.Send:
				if matchV(x.Chan) {
					out = append(out, chanOp{fn: fn, kind: "send", val: x.X, ins: x})
				}
			case *ssa.UnOp:
				if x.Op == token.ARROW && matchV(x.X) {
					out = append(out, chanOp{fn: fn, kind: "recv", val: x, ins: x})
				}
			case *ssa.Select:
				for idx, st := range x.States {
					if !matchV(st.Chan) {
						continue
					}
					if st.Dir == types.SendOnly {
						out = append(out, chanOp{fn: fn, kind: "send", val: st.Send, ins: x})
					} else {
						// received value: extract #(2+k)
						var rv ssa.Value
						k := 0
						for j := 0; j < idx; j++ {
							if x.States[j].Dir == types.RecvOnly {
								k++
							}
						}
						for _, r := range referrersOf(x) {
							if ex, ok := r.(*ssa.Extract); ok && ex.Index == 2+k {
								rv = ex
							}
						}
						out = append(out, chanOp{fn: fn, kind: "recv", val: rv, ins: x})
					}
				}
			case *ssa.Store:
				if mc, ok := x.Val.(*ssa.MakeChan); ok && matchV(x.Addr) {
					out = append(out, chanOp{fn: fn, kind: "make", val: mc, ins: x})
				}
			case *ssa.Call:
				if isCallTo(x, "builtin:close") && matchV(callArgs(x)[0]) {
					out = append(out, chanOp{fn: fn, kind: "close", val: callArgs(x)[0], ins: x})
				}
			}
		})
	}
	for _, fn := range P.AllFuncs {
		scan(fn, fn, nil, 0)
	}
	return out
}

func cacheProtocolRule(P *Program, R *Report) {
	rule := "C07.d"
	ops := chanOpsOn(P, func(d string) bool {
		return strings.HasSuffix(d, ".nonrevCache") || strings.HasPrefix(d, "call:gabi.nonrevCacheChan(")
	})
	per := map[string]map[string]int{}
	for _, o := range ops {
		k := FuncKey(o.fn)
		if per[k] == nil {
			per[k] = map[string]int{}
		}
		per[k][o.kind]++
		R.seen(k)
	}
	const consume, prepare = "gabi.nonrevConsumeBuilder", "gabi.(*Credential).NonrevPrepareCache"
	var others []string
	for k, m := range per {
		if k != consume && k != prepare {
			// creating the channel elsewhere is fine (a synchronised lazy initialiser); using it is not
			if m["send"] == 0 && m["recv"] == 0 && m["close"] == 0 {
				continue
			}
			others = append(others, k)
		}
	}
	sort.Strings(others)
	R.decide(rule, "nonrevCache:owners", "only nonrevConsumeBuilder and NonrevPrepareCache operate on the cache channel", len(others) == 0, "also: "+strings.Join(others, ","), "")
	R.decide(rule, consume+":ops", "nonrevConsumeBuilder only receives (exactly once) and never sends", per[consume]["recv"] == 1 && per[consume]["send"] == 0 && per[consume]["close"] == 0,
		fmt.Sprint(per[consume]), "")
	R.decide(rule, prepare+":ops", "NonrevPrepareCache receives at most once and has exactly one send site", per[prepare]["recv"] == 1 && per[prepare]["send"] == 1 && per[prepare]["close"] == 0,
		fmt.Sprint(per[prepare]), "")
	// capacity
	capOK := false
	for _, o := range ops {
		if o.kind == "make" {
			if mc, ok := o.val.(*ssa.MakeChan); ok {
				if c, ok := constInt(mc.Size); ok && c == 1 {
					capOK = true
				} else {
					capOK = false
				}
			}
		}
	}
	R.decide(rule, "nonrevCache:capacity", "the cache holds at most one prepared commitment (capacity 1)", capOK, "", "")
	// flows of the received value
	for _, o := range ops {
		if o.kind != "recv" || o.val == nil {
			continue
		}
		k := FuncKey(o.fn)
		var uses []string
		okFlow := true
		seen := map[ssa.Value]bool{}
		var walk func(v ssa.Value)
		walk = func(v ssa.Value) {
			if seen[v] {
				return
			}
			seen[v] = true
			for _, r := range referrersOf(v) {
				switch u := r.(type) {
				case *ssa.Phi:
					walk(u)
				case *ssa.Return:
					if o.via != nil && u.Parent() != o.fn {
						// returned by the helper that received it: the flow continues at the caller's use of the result
						if call, isCall := o.via.(*ssa.Call); isCall {
							for j, rv := range u.Results {
								if rv != v {
									continue
								}
								if retCount(u) == 1 {
									walk(call)
								}
								for _, rr := range referrersOf(call) {
									if ex, isEx := rr.(*ssa.Extract); isEx && ex.Index == j {
										walk(ex)
									}
								}
							}
						}
						continue
					}
					uses = append(uses, "return")
					if k != consume {
						okFlow = false
					}
				case *ssa.Call:
					n := calleeName(u)
					// handed to a local closure or unexported helper of the package (e.g. `offer(b)` doing the non-blocking
					// put-back): the flow continues at that function's parameter
					if g := staticCallee(u); g != nil && inModuleFn(g) && g.Blocks != nil && (g.Parent() != nil || (g.Object() != nil && !g.Object().Exported())) && n != "gabi.(*NonRevocationProofBuilder).UpdateCommit" {
						followed := false
						for ai, a := range callArgsRaw(u) {
							if a == v && ai < len(g.Params) {
								walk(g.Params[ai])
								followed = true
							}
						}
						if followed {
							continue
						}
					}
					uses = append(uses, "call "+n)
					if n != "gabi.(*NonRevocationProofBuilder).UpdateCommit" {
						okFlow = false
					}
				case *ssa.Select:
					uses = append(uses, "send")
					if k != prepare {
						okFlow = false
					}
				case *ssa.Send:
					uses = append(uses, "send")
					okFlow = false
				case *ssa.Store, *ssa.MapUpdate:
					uses = append(uses, "store")
					okFlow = false
				case *ssa.BinOp, *ssa.If, *ssa.FieldAddr, *ssa.DebugRef:
				default:
					uses = append(uses, fmt.Sprintf("%T", r))
				}
			}
		}
		walk(o.val)
		sort.Strings(uses)
		R.decide(rule, k+":received-builder-flow", "a builder taken from the cache is only refreshed (UpdateCommit) and then either returned to the caller or put back once", okFlow, strings.Join(uses, ", "), P.Pos(o.ins.Pos()))
	}
	// a cached builder is put back only after its refresh succeeded: every path to a send passes "UpdateCommit
	// returned nil" (the builder came from the cache) or "NonrevBuildProofBuilder returned no error" (a new one) - a
	// builder published before or without a successful refresh is shared while it is still being written, or stale
	for _, o := range ops {
		if o.kind != "send" {
			continue
		}
		fresh := func(a Atom) bool {
			c, idx := callAndResult(a.V)
			if c == nil {
				return false
			}
			if calleeIs(c, "gabi.(*NonRevocationProofBuilder).UpdateCommit") && a.Want == Nil {
				return true
			}
			return calleeIs(c, "gabi.(*Credential).NonrevBuildProofBuilder") && idx == 1 && a.Want == Nil
		}
		// the send may sit in a helper or a local closure: the obligation is then on every call of it
		type site struct {
			fn  *ssa.Function
			ins ssa.Instruction
		}
		sites := []site{{o.ins.Parent(), o.ins}}
		if o.via != nil {
			sites = []site{{o.via.Parent(), o.via}}
		} else if par := o.ins.Parent().Parent(); par != nil {
			sites = nil
			for _, c := range callsIn(par) {
				if staticCallee(c) == o.ins.Parent() {
					sites = append(sites, site{par, c})
				} else if cl, isCl := c.Common().Value.(*ssa.MakeClosure); isCl && cl.Fn == ssa.Value(o.ins.Parent()) {
					sites = append(sites, site{par, c})
				} else if origin(c.Common().Value) != nil {
					if cl, isCl := origin(c.Common().Value).(*ssa.MakeClosure); isCl && cl.Fn == ssa.Value(o.ins.Parent()) {
						sites = append(sites, site{par, c})
					}
				}
			}
		}
		okAll := len(sites) > 0
		var why []string
		for _, st := range sites {
			r := (&MustPass{P: P, Match: fresh}).MustReach(st.fn, st.ins)
			if !r.Holds {
				okAll = false
				why = append(why, r.Path)
			}
		}
		R.decide(rule, FuncKey(o.fn)+":put-back-after-refresh", "a builder is put into the cache only after UpdateCommit (or building it) succeeded", okAll, strings.Join(why, "\n"), P.Pos(o.ins.Pos()))
	}
	// consumers of nonrevConsumeBuilder
	cons := P.Func(consume)
	if cons != nil {
		var sites []string
		ok := true
		for _, fn := range P.AllFuncs {
			for _, c := range callsIn(fn) {
				if staticCallee(c) != cons {
					continue
				}
				// (a new helper with one call site that only hands the builder on belongs to the function that calls it)
				sites = append(sites, FuncKey(ownerOf(P, fn)))
				if FuncKey(ownerOf(P, fn)) != kCredBuilder {
					ok = false
				}
				call := c.(*ssa.Call)
				for _, r := range referrersOf(call) {
					ex, isEx := r.(*ssa.Extract)
					if !isEx || ex.Index != 0 {
						continue
					}
					for _, u := range usesThroughReturns(P, ex, 2) {
						switch w := u.(type) {
						case *ssa.Store:
							if desc(w.Addr) != nbD+".nonrevBuilder" {
								ok = false
							}
						case *ssa.DebugRef:
						default:
							ok = false
						}
					}
				}
			}
		}
		R.decide(rule, consume+":consumers", "the consumed builder is stored only into the new DisclosureProofBuilder of the constructor that took it", ok && len(sites) == 1, strings.Join(sites, ","), "")
	}
}

func isAtomicCall(c ssa.CallInstruction) bool {
	n := calleeName(c)
	return strings.HasPrefix(n, "sync/atomic.") || strings.HasPrefix(n, "(*sync/atomic.")
}

func cprngRule(P *Program, R *Report, rule string) {
	// all accesses to CPRNG.counter
	var nonAtomic []string
	nAtomic := 0
	for _, fn := range P.AllFuncs {
		allInstrs(fn, func(i ssa.Instruction) {
			fa, ok := i.(*ssa.FieldAddr)
			if !ok || faType(fa) != "common.CPRNG" || faName(fa) != "counter" {
				return
			}
			if strings.HasPrefix(typeStr(fa.Type()), "*sync/atomic.") {
				// a typed atomic has no non-atomic access: only its methods (go vet's copylocks covers copying it)
				for _, r := range referrersOf(fa) {
					if u, isCall := r.(*ssa.Call); isCall && isAtomicCall(u) {
						nAtomic++
					} else if _, isDbg := r.(*ssa.DebugRef); !isDbg {
						nonAtomic = append(nonAtomic, fmt.Sprintf("%s: %T on the typed atomic", FuncKey(fn), r))
					}
				}
				return
			}
			for _, r := range referrersOf(fa) {
				switch u := r.(type) {
				case *ssa.Call:
					if strings.HasPrefix(calleeName(u), "sync/atomic.") {
						nAtomic++
						continue
					}
					nonAtomic = append(nonAtomic, FuncKey(fn)+": "+calleeName(u))
				case *ssa.Store:
					// initialisation of a fresh object in the constructor
					if _, fresh := fa.X.(*ssa.Alloc); fresh && desc(u.Val) == "0" {
						continue
					}
					nonAtomic = append(nonAtomic, FuncKey(fn)+": plain store at "+P.Pos(u.Pos()))
				case *ssa.UnOp:
					nonAtomic = append(nonAtomic, FuncKey(fn)+": plain load at "+P.Pos(u.Pos()))
				case *ssa.DebugRef:
				default:
					nonAtomic = append(nonAtomic, fmt.Sprintf("%s: %T", FuncKey(fn), r))
				}
			}
		})
	}
	R.decide(rule, "common.CPRNG.counter:atomic-only", "the counter is accessed only through sync/atomic", len(nonAtomic) == 0 && nAtomic >= 1, strings.Join(nonAtomic, "; "), "")
	fn := mustFunc(P, R, rule, "common.(*CPRNG).Read")
	if fn == nil {
		return
	}
	// (in Read, or in an unexported helper it reserves through - seen with the helper's parameters bound)
	var atomics []*ssa.Call
	var addD, nD string
	var nA Affine
	deepVisit(P, fn, 1, func(g *ssa.Function) {
		for _, c := range callsIn(g) {
			if isAtomicCall(c) {
				cc, isC := c.(*ssa.Call)
				if !isC {
					continue
				}
				atomics = append(atomics, cc)
				if len(callArgs(cc)) == 2 {
					addD, nD = desc(cc), desc(callArgs(cc)[1])
					nA, _ = affineOf(callArgs(cc)[1])
				}
			}
		}
	})
	// (the function form on a plain word or the method form on the typed atomic: both are one indivisible add)
	if len(atomics) != 1 || (calleeName(atomics[0]) != "sync/atomic.AddUint64" && calleeName(atomics[0]) != "(*sync/atomic.Uint64).Add") {
		names := []string{}
		for _, a := range atomics {
			names = append(names, calleeName(a))
		}
		R.bad(rule, "common.(*CPRNG).Read:single-reservation", "Read reserves its blocks with exactly one atomic.AddUint64 (load-then-add or load-then-store lets two readers start at the same block)", "atomic operations: "+strings.Join(names, ","), P.Pos(fn.Pos()))
		return
	}
	add := atomics[0]
	R.ok(rule, "common.(*CPRNG).Read:single-reservation", "Read reserves its blocks with exactly one atomic.AddUint64")
	n := nA
	R.decide(rule, "common.(*CPRNG).Read:reserved-count", "the reserved count is (len(buf)-1)/16 + 1", n.String() == "(len(arg#1)-1)/16+1" || n.String() == "1+(len(arg#1)-1)/16", "got "+n.String(), P.Pos(add.Pos()))
	// iv0 = add - nBlocks ; plaintext index phi(iv0, iv+1)
	var ivPhi *ssa.Phi
	allInstrs(fn, func(i ssa.Instruction) {
		if c, ok := i.(*ssa.Call); ok && strings.HasSuffix(calleeName(c), ".PutUint64") {
			args := callArgs(c)
			if p, ok := args[len(args)-1].(*ssa.Phi); ok {
				ivPhi = p
			}
		}
	})
	ok := false
	detail := "no PutUint64 of a loop-carried index"
	if ivPhi != nil {
		init, step := false, false
		for _, e := range ivPhi.Edges {
			// the start value, computed here or handed back by the reserving helper
			if desc(e) == "("+addD+"-"+nD+")" {
				init = true
			}
			if b, isB := e.(*ssa.BinOp); isB {
				if b.Op == token.SUB && b.X == ssa.Value(add) && b.Y == callArgs(add)[1] {
					init = true
				}
				if b.Op == token.ADD && b.X == ssa.Value(ivPhi) {
					if c, okc := constInt(b.Y); okc && c == 1 {
						step = true
					}
				}
			}
		}
		ok = init && step && len(ivPhi.Edges) == 2
		detail = fmt.Sprintf("init-from-reservation=%v step+1=%v edges=%d", init, step, len(ivPhi.Edges))
	}
	R.decide(rule, "common.(*CPRNG).Read:index", "the encrypted index starts at (AddUint64 result - reserved count) and advances by exactly one per iteration", ok, detail, P.Pos(fn.Pos()))
	// each Encrypt uses the plaintext buffer; at most one Encrypt per iteration path; direct writes advance buf by 16
	nEnc := 0
	advOK := true
	allInstrs(fn, func(i ssa.Instruction) {
		c, okc := i.(*ssa.Call)
		if !okc || !c.Call.IsInvoke() || c.Call.Method.Name() != "Encrypt" {
			return
		}
		nEnc++
		if strings.HasPrefix(desc(callArgs(c)[0]), "phi(") || desc(callArgs(c)[0]) == "arg#1" || strings.Contains(desc(callArgs(c)[0]), "arg#1") {
			// direct into buf: the same block must advance buf by 16
			adv := false
			for _, j := range c.Block().Instrs {
				if sl, oks := j.(*ssa.Slice); oks && sl.X == callArgs(c)[0] && sl.Low != nil {
					if k, okk := constInt(sl.Low); okk && k == 16 {
						adv = true
					}
				}
			}
			if !adv {
				advOK = false
			}
		}
	})
	R.decide(rule, "common.(*CPRNG).Read:encrypts", "two Encrypt sites (whole block / final partial block); a direct write advances the output by 16 bytes", nEnc == 2 && advOK, fmt.Sprintf("%d Encrypt calls, advance ok=%v", nEnc, advOK), P.Pos(fn.Pos()))
	// the global generator is created once, in package initialisation
	var writers []string
	for _, f := range P.AllFuncs {
		for _, s := range sinksOf(f) {
			if s.target == "global:common.globalCprng" {
				writers = append(writers, FuncKey(f))
			}
		}
	}
	R.decide(rule, "common.globalCprng:init-only", "the process-wide generator is assigned only during package initialisation", len(writers) == 1 && strings.HasPrefix(writers[0], "common.init"), strings.Join(writers, ","), "")
	// ... from a seed that crypto/rand filled: the buffer handed to NewCPRNG is the very buffer the system generator
	// wrote (a copy passed by value to a helper that fills it leaves the seed all zero)
	cprngSeedRule(P, R, rule)
}

func memoPerObjectRule(P *Program, R *Report) {
	rule := "C07.f"
	if fn := mustFunc(P, R, rule, "gabi.(*NonRevocationProofBuilder).Commit"); fn != nil {
		ok := true
		n := 0
		for _, s := range sinksOf(fn) {
			if _, isSt := s.ins.(*ssa.Store); isSt && !strings.HasPrefix(s.target, "new:") {
				n++
				if !strings.HasPrefix(s.target, "<gabi.NonRevocationProofBuilder>.") {
					ok = false
				}
			}
		}
		R.decide(rule, FuncKey(fn)+":cache-in-receiver", "the memoised commitment is stored only in the builder it was computed for", ok && n >= 2, fmt.Sprintf("%d stores", n), P.Pos(fn.Pos()))
		// computed from the builder's own pk/witness/randomizer
		argsOK := false
		for _, c := range callsIn(fn) {
			if isCallTo(c, "revocation.NewProofCommit") {
				a := callArgs(c)
				argsOK = desc(a[0]) == "<gabi.NonRevocationProofBuilder>.pk" && desc(a[1]) == "<gabi.NonRevocationProofBuilder>.witness" && desc(a[2]) == "<gabi.NonRevocationProofBuilder>.randomizer"
			}
		}
		R.decide(rule, FuncKey(fn)+":inputs", "it is computed from the builder's own key, witness and randomiser", argsOK, "", P.Pos(fn.Pos()))
	}
	const cfs = "rangeproof.(*ProofStructure).CommitmentsFromSecrets"
	if fn := mustFunc(P, R, rule, cfs); fn != nil {
		ok := true
		for _, s := range sinksOf(fn) {
			if _, isSt := s.ins.(*ssa.Store); isSt && !strings.HasPrefix(s.target, "new:") && !strings.HasPrefix(s.target, "makeslice") {
				if !strings.HasPrefix(s.target, "<rangeproof.ProofStructure>.") {
					ok = false
				}
			}
		}
		R.decide(rule, cfs+":cache-in-receiver", "the memoised range-proof commitment is stored only in the structure it was computed for", ok, "", P.Pos(fn.Pos()))
		// call sites: the memo ignores m/mRandomizer, so every caller must pass the same builder's values for the structure's own index
		n := 0
		for _, g := range P.AllFuncs {
			for _, c := range callsIn(g) {
				if staticCallee(c) != fn {
					continue
				}
				n++
				a := callArgs(c)
				idx := "#i"
				good := FuncKey(g) == kDPBCommit && desc(a[1]) == dpb+".pk" && desc(a[2]) == dpb+".attributes["+idx+"]" && desc(a[3]) == dpb+".attrRandomizers["+idx+"]" &&
					strings.HasPrefix(desc(a[0]), dpb+".rpStructures["+idx+"]")
				R.decide(rule, FuncKey(g)+":CommitmentsFromSecrets-args", "the caller passes attribute and randomiser of the same builder and of the index the structure is filed under", good,
					fmt.Sprintf("structure=%s m=%s rand=%s", desc(a[0]), desc(a[2]), desc(a[3])), P.Pos(c.Pos()))
			}
		}
		R.decide(rule, cfs+":callers", "the memoising committer has exactly one caller", n == 1, fmt.Sprintf("%d", n), "")
	}
}

func revocationRandomizersRule(P *Program, R *Report) {
	rule := "C07.g"
	const key = "revocation.commitmentsFromSecrets"
	fn := mustFunc(P, R, rule, key)
	if fn == nil {
		return
	}
	be := P.bigEval(fn)
	N := tsym(pkD + ".N")
	nDiv4 := termFn("Div", N, tconst(4))
	twoZk := tsym("global:revocation.Parameters.twoZk")
	b := tsym("global:revocation.Parameters.b")
	want := map[string]Term{
		`"beta"`: tmul(tmul(nDiv4, twoZk), b), `"delta"`: tmul(tmul(nDiv4, twoZk), b),
		`"epsilon"`: tmul(nDiv4, twoZk), `"zeta"`: tmul(nDiv4, twoZk),
	}
	gens := map[*ssa.Call]string{}
	// (a map written as a literal is filled before it is stored into the commit's field: its entries are that field's)
	fieldOfMap := func(s sinkInfo) string {
		mu, ok := s.ins.(*ssa.MapUpdate)
		if !ok {
			return s.target
		}
		mk, ok := mu.Map.(*ssa.MakeMap)
		if !ok {
			return s.target
		}
		for _, r := range referrersOf(mk) {
			if st, isSt := r.(*ssa.Store); isSt && st.Val == ssa.Value(mk) {
				if _, isFA := st.Addr.(*ssa.FieldAddr); isFA {
					return desc(st.Addr)
				}
			}
		}
		return s.target
	}
	for _, s := range sinksOf(fn) {
		if !strings.HasSuffix(fieldOfMap(s), ".randomizers") || s.key == "" {
			continue
		}
		c := key + ":randomizers[" + s.key + "]"
		if s.key == `"alpha"` {
			R.decide(rule, c, "the alpha randomiser is the caller-supplied shared one", strings.Contains(desc(s.val), "Randomizer(arg#4,\"alpha\")"), desc(s.val), P.Pos(s.ins.Pos()))
			continue
		}
		g := genCallOf(s.val)
		if g == nil || !calleeIs(g, "common.FastRandomBigInt") {
			R.bad(rule, c, "randomiser is a fresh FastRandomBigInt", "value "+desc(s.val), P.Pos(s.ins.Pos()))
			continue
		}
		if prev, dup := gens[g]; dup {
			R.bad(rule, c, "own generator call", "shares the call with "+prev, P.Pos(s.ins.Pos()))
			continue
		}
		gens[g] = s.key
		t := be.at(g)
		w, has := want[s.key]
		ok := has && len(t) == 1 && t[0].equal(w)
		got := ""
		if len(t) == 1 {
			got = t[0].String()
		}
		R.decide(rule, c, "limit of the randomiser is the specified product", ok, "got "+got+" want "+w.String(), P.Pos(s.ins.Pos()))
	}
	// r2, r3: secrets epsilon/zeta are distinct FastRandomBigInt(N/4)
	r := map[string]*ssa.Call{}
	for _, s := range sinksOf(fn) {
		if strings.HasSuffix(fieldOfMap(s), ".secrets") && (s.key == `"epsilon"` || s.key == `"zeta"`) {
			g := genCallOf(s.val)
			ok := g != nil && calleeIs(g, "common.FastRandomBigInt")
			if ok {
				t := be.at(g)
				ok = len(t) == 1 && t[0].equal(nDiv4)
				r[s.key] = g
			}
			R.decide(rule, key+":secrets["+s.key+"]", "the hider is a fresh FastRandomBigInt(N/4)", ok, desc(s.val), P.Pos(s.ins.Pos()))
		}
	}
	R.decide(rule, key+":r2!=r3", "r2 and r3 come from two distinct generator calls", len(r) == 2 && r[`"epsilon"`] != r[`"zeta"`], "", P.Pos(fn.Pos()))
	// derived parameters of the package
	if initFn := P.Func("revocation.init#1"); initFn != nil {
		bi := P.bigEval(initFn)
		exp := map[string]Term{
			"global:revocation.Parameters.b":      pow2("global:revocation.Parameters.AttributeSize"),
			"global:revocation.Parameters.twoZk":  pow2("global:revocation.Parameters.ChallengeLength+global:revocation.Parameters.ZkStat"),
			"global:revocation.Parameters.bTwoZk": pow2("global:revocation.Parameters.AttributeSize+global:revocation.Parameters.ChallengeLength+global:revocation.Parameters.ZkStat+1"),
		}
		for g, w := range exp {
			got, has := bi.Glob[g]
			R.decide(rule, "revocation.init:"+strings.TrimPrefix(g, "global:revocation.Parameters."), "derived revocation parameter has its specified value", has && got.equal(w), "got "+got.String()+" want "+w.String(), P.Pos(initFn.Pos()))
		}
	} else {
		R.und(rule, "revocation.init", "package initialiser found", "revocation.init#1 not found", "")
	}
	if np := mustFunc(P, R, rule, "revocation.NewProofRandomizer"); np != nil {
		ok := false
		for _, c := range callsIn(np) {
			if isCallTo(c, "common.FastRandomBigInt") {
				t := P.bigEval(np).At[c.(*ssa.Call)]
				ok = len(t) == 1 && t[0].equal(tmul(tsym("global:revocation.Parameters.b"), tsym("global:revocation.Parameters.twoZk")))
			}
		}
		R.decide(rule, "revocation.NewProofRandomizer:limit", "the shared alpha randomiser is FastRandomBigInt(b * twoZk)", ok, "", P.Pos(np.Pos()))
	}
}


// rootAlloc follows an address or slice back to the local it lives in, through the parameters of helpers that are
// examined on behalf of a call (paramBindV).
func rootAlloc(v ssa.Value) *ssa.Alloc {
	for i := 0; i < 20 && v != nil; i++ {
		switch x := v.(type) {
		case *ssa.Alloc:
			return x
		case *ssa.Slice:
			v = x.X
		case *ssa.FieldAddr:
			v = x.X
		case *ssa.IndexAddr:
			v = x.X
		case *ssa.ChangeType:
			v = x.X
		case *ssa.Convert:
			v = x.X
		case *ssa.SliceToArrayPointer:
			v = x.X
		case *ssa.Parameter:
			b, ok := paramBindV[x]
			if !ok || b == nil {
				return nil
			}
			v = b
		default:
			return nil
		}
	}
	return nil
}

func cprngSeedRule(P *Program, R *Report, rule string) {
	var initFn *ssa.Function
	for _, f := range P.AllFuncs {
		for _, s := range sinksOf(f) {
			if s.target == "global:common.globalCprng" {
				initFn = f
			}
		}
	}
	if initFn == nil {
		return
	}
	var seeds, filled []*ssa.Alloc
	nNew, nRead := 0, 0
	deepVisit(P, initFn, 2, func(g *ssa.Function) {
		for _, c := range callsIn(g) {
			switch {
			case isCallTo(c, "common.NewCPRNG"):
				nNew++
				if a := rootAlloc(callArgs(c)[0]); a != nil {
					seeds = append(seeds, a)
				}
			case isCallTo(c, "crypto/rand.Read"), isCallTo(c, "io.ReadFull"), c.Common().IsInvoke() && c.Common().Method.Name() == "Read" && desc(c.Common().Value) == "global:crypto/rand.Reader":
				args := callArgs(c)
				buf := args[len(args)-1]
				if isCallTo(c, "io.ReadFull") && desc(args[0]) != "global:crypto/rand.Reader" {
					continue
				}
				nRead++
				if a := rootAlloc(buf); a != nil {
					filled = append(filled, a)
				}
			}
		}
	})
	ok := nNew >= 1 && len(seeds) == nNew
	for _, sd := range seeds {
		hit := false
		for _, f := range filled {
			if f == sd {
				hit = true
			}
		}
		if !hit {
			ok = false
		}
	}
	R.decide(rule, "common.globalCprng:seed-from-system", "the seed given to NewCPRNG is the buffer that crypto/rand filled (the same local, not a copy)", ok,
		fmt.Sprintf("%d NewCPRNG calls, %d seeds located, %d system reads into %d located buffers", nNew, len(seeds), nRead, len(filled)), P.Pos(initFn.Pos()))
}

// structCopyFields: st assigns a struct value that was built in a local of this function (field by field, each
// field once) to a struct-typed place: per field of the local, the place's field (as desc names it) and the value.
type copiedField struct {
	target string
	val    ssa.Value
	field  int
}

func structCopyFields(st *ssa.Store) []copiedField {
	ld, ok := st.Val.(*ssa.UnOp)
	if !ok || ld.Op != token.MUL {
		return nil
	}
	al, ok := ld.X.(*ssa.Alloc)
	if !ok {
		return nil
	}
	stt, ok := ld.Type().Underlying().(*types.Struct)
	if !ok {
		return nil
	}
	if n, isNamed := ld.Type().(*types.Named); !isNamed || n.Obj().Pkg() == nil || !inModule(n.Obj().Pkg()) {
		return nil
	}
	if nestedLiteralDest(al) != nil {
		return nil // the local of a nested literal: its field stores are already named after the destination
	}
	var out []copiedField
	for j := 0; j < stt.NumFields(); j++ {
		if v := structFieldValue(ld, j); v != nil {
			out = append(out, copiedField{target: desc(&ssa.FieldAddr{X: st.Addr, Field: j}), val: v, field: j})
		}
	}
	return out
}

// usesThroughReturns: the instructions that use v, where a `return` of v from a new unexported helper (one the
// reference tree does not have) is replaced by the uses of that result at the helper's call sites.
func usesThroughReturns(P *Program, v ssa.Value, depth int) []ssa.Instruction {
	var out []ssa.Instruction
	for _, r := range referrersOf(v) {
		ret, isRet := r.(*ssa.Return)
		g := r.Parent()
		if !isRet || depth <= 0 || !newHelper(g) {
			out = append(out, r)
			continue
		}
		k := -1
		for i, rv := range ret.Results {
			if rv == v {
				k = i
			}
		}
		if k < 0 {
			out = append(out, r)
			continue
		}
		for _, caller := range P.AllFuncs {
			if caller.Blocks == nil {
				continue
			}
			for _, ci := range callsTo(caller, g) {
				c, ok := ci.(*ssa.Call)
				if !ok {
					out = append(out, ci.(ssa.Instruction))
					continue
				}
				if g.Signature.Results().Len() == 1 {
					out = append(out, usesThroughReturns(P, c, depth-1)...)
					continue
				}
				for _, rr := range referrersOf(c) {
					if ex, isEx := rr.(*ssa.Extract); isEx && ex.Index == k {
						out = append(out, usesThroughReturns(P, ex, depth-1)...)
					}
				}
			}
		}
	}
	return out
}

// genLenAffine: the length argument of generator call g as an affine form; when g sits in a helper that takes the
// length as a parameter, the form of what the call sites below fn pass for it (if they agree).
func genLenAffine(P *Program, fn *ssa.Function, g *ssa.Call) string {
	v := callArgs(g)[0]
	if p, ok := v.(*ssa.Parameter); ok && p.Parent() != fn {
		h := p.Parent()
		idx := -1
		for k, q := range h.Params {
			if q == p {
				idx = k
			}
		}
		vals := map[string]bool{}
		for _, f := range P.reachableFuncs(fn) {
			if f.Blocks == nil {
				continue
			}
			for _, ci := range callsIn(f) {
				if staticCallee(ci) == h && idx >= 0 && idx < len(ci.Common().Args) {
					a, _ := affineOf(ci.Common().Args[idx])
					vals[a.String()] = true
				}
			}
		}
		if len(vals) == 1 {
			for k := range vals {
				return k
			}
		}
	}
	a, _ := affineOf(v)
	return a.String()
}
