package main

import (
	_ "embed"
	"fmt"
	"go/token"
	"go/types"
	"regexp"
	"sort"
	"strings"

	"golang.org/x/tools/go/ssa"
)

// Field aliases. The rule tables name unexported struct fields as they are called on the reference tree
// (head_fields.txt: owner type, field name, field type, generated with `-dump headfields`). Unexported fields are
// free to be renamed or regrouped into nested/embedded unexported structs without any change of behaviour, so
// before the rules run, every reference field that is no longer a direct field of its owner is looked for among the
// owner's current leaf fields (direct fields, and fields of struct values nested in it whose type is new or
// embedded): first by equal name and type (promotion through an embedded struct), then by equal type in
// declaration order, and only if that leaves no ambiguity (as many unmatched reference fields of a type as
// unmatched current leaves of it). Descriptors and owner/field lookups then use the reference name. A field that
// cannot be matched keeps its current name: the rule that names it reports "missing", never a wrong match.
//
//go:embed head_fields.txt
var headFieldsTxt string

type headField struct{ name, typ string }

// fieldAlias: "<typeKey>.<path.to.leaf>" -> reference field name
var fieldAlias = map[string]string{}

var headTypeSet map[string]bool

// headTypeKnown: the unexported type exists on the reference tree.
func headTypeKnown(tk string) bool {
	if headTypeSet == nil {
		headTypeSet = map[string]bool{}
		for _, ln := range strings.Split(headTypesTxt, "\n") {
			if p := strings.SplitN(ln, "\t", 2); len(p) == 2 {
				headTypeSet[p[0]] = true
			}
		}
	}
	return headTypeSet[tk]
}

func typeStr(t types.Type) string {
	return aliasTypeNames(types.TypeString(t, func(p *types.Package) string { return shortPkg(p.Path()) }))
}

func moduleStructs(P *Program, f func(tk string, n *types.Named, st *types.Struct)) {
	for _, pkg := range P.Pkgs {
		if pkg.Types == nil || !inModule(pkg.Types) {
			continue
		}
		sc := pkg.Types.Scope()
		names := sc.Names()
		sort.Strings(names)
		for _, name := range names {
			// a package-level variable of an anonymous struct type owns its fields under "var:pkg.Name"
			if v, ok := sc.Lookup(name).(*types.Var); ok {
				if st, ok := v.Type().(*types.Struct); ok {
					f("var:"+shortPkg(pkg.Types.Path())+"."+name, nil, st)
				}
				continue
			}
			tn, ok := sc.Lookup(name).(*types.TypeName)
			if !ok {
				continue
			}
			n, ok := tn.Type().(*types.Named)
			if !ok {
				continue
			}
			st, ok := n.Underlying().(*types.Struct)
			if !ok {
				continue
			}
			f(typeKey(n), n, st)
		}
	}
}

func dumpHeadFields(P *Program) {
	moduleStructs(P, func(tk string, n *types.Named, st *types.Struct) {
		for i := 0; i < st.NumFields(); i++ {
			f := st.Field(i)
			if f.Exported() {
				continue
			}
			fmt.Printf("%s\t%s\t%s\n", tk, f.Name(), typeStr(f.Type()))
		}
	})
}

// recordForMap: owner type key + "." + field: the reference tree keeps a map[string]T there, this tree a struct of Ts.
var recordForMap = map[string]bool{}

// recordEntry: fa addresses a field of such a record: the record's own address and the entry's key.
func recordEntry(fa *ssa.FieldAddr) (*ssa.FieldAddr, string, bool) {
	if len(recordForMap) == 0 {
		return nil, "", false
	}
	inner, ok := fa.X.(*ssa.FieldAddr)
	if !ok {
		if al, isAl := fa.X.(*ssa.Alloc); isAl {
			if dst, isFA := nestedLiteralDest(al).(*ssa.FieldAddr); isFA {
				inner, ok = dst, true
			}
		}
	}
	if !ok {
		return nil, "", false
	}
	if !recordForMap[typeKey(inner.X.Type())+"."+fieldName(inner.X.Type(), inner.Field)] {
		return nil, "", false
	}
	return inner, fieldName(fa.X.Type(), fa.Field), true
}

func computeFieldAliases(P *Program) {
	fieldAlias = map[string]string{}
	recordForMap = map[string]bool{}
	head := map[string][]headField{}
	for _, ln := range strings.Split(headFieldsTxt, "\n") {
		p := strings.Split(ln, "\t")
		if len(p) != 3 || strings.HasPrefix(ln, "#") {
			continue
		}
		dup := false
		for _, h := range head[p[0]] {
			if h.name == p[1] {
				dup = true // (an alias declaration lists its struct twice)
			}
		}
		if !dup {
			head[p[0]] = append(head[p[0]], headField{p[1], p[2]})
		}
	}
	done := map[string]bool{}
	moduleStructs(P, func(tk string, n *types.Named, st *types.Struct) {
		hf := head[tk]
		if len(hf) == 0 || done[tk] {
			return
		}
		done[tk] = true
		direct := map[string]string{}
		for i := 0; i < st.NumFields(); i++ {
			direct[st.Field(i).Name()] = typeStr(st.Field(i).Type())
		}
		var missing []headField
		isHead := map[string]bool{}
		for _, h := range hf {
			if direct[h.name] == h.typ {
				isHead[h.name] = true
			} else {
				missing = append(missing, h)
			}
		}
		if len(missing) == 0 {
			return
		}
		// a map with constant string keys kept as a record instead (`secrets map[string]*big.Int` becomes
		// `secrets struct{ alpha, beta *big.Int }`): the record's fields are the map's entries
		for _, h := range missing {
			if !strings.HasPrefix(h.typ, "map[string]") {
				continue
			}
			for i := 0; i < st.NumFields(); i++ {
				f := st.Field(i)
				if f.Name() != h.name {
					continue
				}
				rs, ok := f.Type().Underlying().(*types.Struct)
				if !ok || rs.NumFields() == 0 {
					continue
				}
				all := true
				for j := 0; j < rs.NumFields(); j++ {
					if typeStr(rs.Field(j).Type()) != strings.TrimPrefix(h.typ, "map[string]") {
						all = false
					}
				}
				if all {
					recordForMap[tk+"."+h.name] = true
				}
			}
		}
		type leaf struct{ path, name, typ string }
		var leaves []leaf
		var flatten func(s *types.Struct, prefix string, depth int)
		flatten = func(s *types.Struct, prefix string, depth int) {
			for i := 0; i < s.NumFields(); i++ {
				f := s.Field(i)
				if prefix == "" && isHead[f.Name()] {
					continue
				}
				path := f.Name()
				if prefix != "" {
					path = prefix + "." + f.Name()
				}
				if fn, ok := f.Type().(*types.Named); ok && depth < 3 {
					if fs, ok := fn.Underlying().(*types.Struct); ok && fn.Obj().Pkg() != nil && inModule(fn.Obj().Pkg()) {
						_, known := head[typeKey(fn)]
						if fn.Obj().Exported() || headTypeKnown(typeKey(fn)) {
							known = true // (a type without unexported fields has no rows in the field table)
						}
						if !known || f.Embedded() {
							// a struct value of a type the reference tree does not have (or an embedded one): its fields are
							// the owner's fields
							flatten(fs, path, depth+1)
							continue
						}
					}
				}
				if prefix == "" && f.Exported() {
					continue
				}
				leaves = append(leaves, leaf{path, f.Name(), typeStr(f.Type())})
			}
		}
		flatten(st, "", 0)
		used := map[int]bool{}
		matched := map[string]bool{}
		for _, m := range missing {
			for k, l := range leaves {
				if !used[k] && l.name == m.name && l.typ == m.typ {
					used[k] = true
					matched[m.name] = true
					if l.path != m.name {
						fieldAlias[tk+"."+l.path] = m.name
					}
					break
				}
			}
		}
		byTypeM := map[string][]headField{}
		byTypeL := map[string][]leaf{}
		for _, m := range missing {
			if !matched[m.name] {
				byTypeM[m.typ] = append(byTypeM[m.typ], m)
			}
		}
		for k, l := range leaves {
			if !used[k] {
				byTypeL[l.typ] = append(byTypeL[l.typ], l)
			}
		}
		for t, ms := range byTypeM {
			ls := byTypeL[t]
			if len(ls) != len(ms) {
				continue
			}
			for k := range ms {
				fieldAlias[tk+"."+ls[k].path] = ms[k].name
			}
		}
	})
}

// ownerFieldBase resolves a field address to (object the field belongs to, its type key, the field's reference name),
// looking through struct values nested in the owner when the path is an alias of a reference field.
func ownerFieldBase(fa *ssa.FieldAddr) (ssa.Value, string, string) {
	name := fieldName(fa.X.Type(), fa.Field)
	if len(fieldAlias) > 0 {
		path := name
		cur := fa
		for k := 0; k < 4; k++ {
			tk := typeKey(cur.X.Type())
			if g, isG := cur.X.(*ssa.Global); isG && tk == "" && g.Pkg != nil {
				tk = "var:" + shortPkg(g.Pkg.Pkg.Path()) + "." + g.Name()
			}
			if a, ok := fieldAlias[tk+"."+path]; ok {
				return cur.X, tk, a
			}
			inner, ok := cur.X.(*ssa.FieldAddr)
			if !ok {
				// the local of a nested struct literal stands for the field it is copied into
				if al, isAl := cur.X.(*ssa.Alloc); isAl {
					if dst, isFA := nestedLiteralDest(al).(*ssa.FieldAddr); isFA {
						inner, ok = dst, true
					}
				}
			}
			if !ok {
				break
			}
			path = fieldName(inner.X.Type(), inner.Field) + "." + path
			cur = inner
		}
	}
	return fa.X, typeKey(fa.X.Type()), name
}

// refFieldName: the reference name of a direct field of a struct type.
func refFieldName(tk, name string) string {
	if a, ok := fieldAlias[tk+"."+name]; ok {
		return a
	}
	return name
}

func faType(fa *ssa.FieldAddr) string { _, t, _ := ownerFieldBase(fa); return t }
func faName(fa *ssa.FieldAddr) string { _, _, n := ownerFieldBase(fa); return n }

// Parameter order. The rules name the plain parameters of a function by position ("arg#2") and read call arguments
// by position. Unexported functions are free to reorder their parameters (all call sites change with them), so
// positions always mean the positions on the reference tree (head_params.txt: function, index, name, type,
// generated with `-dump headparams`): when an unexported function has the reference tree's parameters in another
// order - the same types, each matched by its type where that is unambiguous and by type and name otherwise -
// paramIndex, paramAt and callArgs translate to the reference order. Anything else (a parameter added, removed or
// retyped) is left as it is and the rules that look at the function see the difference.
//
//go:embed head_params.txt
var headParamsTxt string

type headParam struct{ name, typ, sig string }

// vparam: where a reference parameter lives now - the current parameter cur as a whole (field < 0) or field `field`
// of the current parameter cur, a struct value that bundles several reference parameters (a "parameter object").
type vparam struct{ cur, field int }

// paramPerm: function -> for every reference index its current place (nil: same parameters in the same order)
var paramPerm = map[*ssa.Function][]vparam{}

func reorderable(f *ssa.Function) bool {
	return f != nil && f.Parent() == nil && f.Synthetic == "" && f.Object() != nil && !f.Object().Exported() && f.Blocks != nil && inModuleFn(f)
}

func dumpHeadParams(P *Program) {
	var lines []string
	for _, f := range P.AllFuncs {
		if !reorderable(f) || len(f.Params) < 2 {
			continue
		}
		for i, p := range f.Params {
			lines = append(lines, fmt.Sprintf("%s\t%d\t%s\t%s\t%s", FuncKey(f), i, p.Name(), typeStr(p.Type()), paramUseSig(p)))
		}
	}
	sort.Strings(lines)
	for _, l := range lines {
		fmt.Println(l)
	}
}

// paramUseSig: how a parameter is used directly - the fields it is stored in and the functions it is handed to
// (through integer conversions), sorted. Tells same-typed parameters apart when their names changed too.
func paramUseSig(p *ssa.Parameter) string {
	uses := map[string]bool{}
	var walk func(v ssa.Value, depth int)
	walk = func(v ssa.Value, depth int) {
		for _, r := range referrersOf(v) {
			switch u := r.(type) {
			case *ssa.Convert:
				if depth < 2 {
					walk(u, depth+1)
				}
			case *ssa.ChangeType:
				if depth < 2 {
					walk(u, depth+1)
				}
			case *ssa.Store:
				if u.Val == v {
					if fa, ok := u.Addr.(*ssa.FieldAddr); ok {
						uses["field:"+fieldName(fa.X.Type(), fa.Field)] = true
					}
				}
			case ssa.CallInstruction:
				if g := u.Common().StaticCallee(); g != nil {
					uses["call:"+g.Name()] = true
				}
			}
		}
	}
	walk(p, 0)
	return strings.Join(sortedKeys(uses), ",")
}

func computeParamPerms(P *Program) {
	paramPerm = map[*ssa.Function][]vparam{}
	head := map[string][]headParam{}
	for _, ln := range strings.Split(headParamsTxt, "\n") {
		p := strings.Split(ln, "\t")
		if (len(p) != 4 && len(p) != 5) || strings.HasPrefix(ln, "#") {
			continue
		}
		var idx int
		fmt.Sscanf(p[1], "%d", &idx)
		for len(head[p[0]]) <= idx {
			head[p[0]] = append(head[p[0]], headParam{})
		}
		head[p[0]][idx] = headParam{name: p[2], typ: p[3]}
		if len(p) == 5 {
			head[p[0]][idx].sig = p[4]
		}
	}
	knownStruct := map[string]bool{}
	for _, ln := range strings.Split(headFieldsTxt, "\n") {
		if p := strings.Split(ln, "\t"); len(p) == 3 {
			knownStruct[p[0]] = true
		}
	}
	for _, f := range P.AllFuncs {
		if !reorderable(f) {
			continue
		}
		h := head[FuncKey(f)]
		if len(h) == 0 || len(f.Params) > len(h) {
			continue
		}
		// the current parameters, a struct value of a type the reference tree does not have expanded into its fields
		type slot struct {
			v         vparam
			name, typ string
		}
		var slots []slot
		for i, p := range f.Params {
			if len(f.Params) < len(h) {
				if n, ok := p.Type().(*types.Named); ok && n.Obj().Pkg() != nil && inModule(n.Obj().Pkg()) && !n.Obj().Exported() && !knownStruct[typeKey(n)] {
					if st, ok := n.Underlying().(*types.Struct); ok {
						for j := 0; j < st.NumFields(); j++ {
							slots = append(slots, slot{vparam{i, j}, st.Field(j).Name(), typeStr(st.Field(j).Type())})
						}
						continue
					}
				}
			}
			slots = append(slots, slot{vparam{i, -1}, p.Name(), typeStr(p.Type())})
		}
		if len(slots) != len(h) {
			continue
		}
		same := true
		nTyp := map[string]int{}
		for _, sl := range slots {
			nTyp[sl.typ]++
		}
		for i, sl := range slots {
			if sl.typ != h[i].typ || sl.v.field >= 0 || sl.v.cur != i {
				same = false
			}
			// (same-typed parameters that were renamed may have changed places: decided by name and use below)
			if nTyp[sl.typ] > 1 && sl.name != h[i].name && h[i].sig != "" {
				same = false
			}
		}
		if same {
			continue
		}
		perm := make([]vparam, len(h))
		used := map[int]bool{}
		ok := true
		for i := range h {
			var cands []int
			for j, sl := range slots {
				if !used[j] && sl.typ == h[i].typ {
					cands = append(cands, j)
				}
			}
			pick := -1
			if len(cands) == 1 {
				pick = cands[0]
			} else {
				for _, j := range cands {
					if slots[j].name == h[i].name {
						pick = j
					}
				}
				// renamed as well: the parameter that is used the way the reference parameter is (filed in the same fields,
				// handed to the same functions), when exactly one candidate is
				if pick < 0 && h[i].sig != "" {
					n := 0
					for _, j := range cands {
						if slots[j].v.field < 0 && paramUseSig(f.Params[slots[j].v.cur]) == h[i].sig {
							pick = j
							n++
						}
					}
					if n != 1 {
						pick = -1
					}
				}
			}
			if pick < 0 {
				ok = false
				break
			}
			used[pick] = true
			perm[i] = slots[pick].v
		}
		if ok {
			paramPerm[f] = perm
		}
	}
}

// structFieldValue: the value of field j of a struct value that was built as a literal at the call site
// (`stmt := T{a: x, b: y}; f(stmt)`: go/ssa fills a local and loads it once); nil if it is not of that form.
func structFieldValue(v ssa.Value, j int) ssa.Value {
	ld, ok := v.(*ssa.UnOp)
	if !ok || ld.Op != token.MUL {
		return nil
	}
	al, ok := ld.X.(*ssa.Alloc)
	if !ok {
		return nil
	}
	var val ssa.Value
	n := 0
	for _, r := range referrersOf(al) {
		fa, ok := r.(*ssa.FieldAddr)
		if !ok || fa.Field != j {
			continue
		}
		for _, rr := range referrersOf(fa) {
			if st, ok := rr.(*ssa.Store); ok && st.Addr == ssa.Value(fa) {
				val = st.Val
				n++
			}
		}
	}
	if n != 1 {
		return nil
	}
	return val
}

// virtualParam: v reads a field of a parameter object (the struct parameter itself, or the local it is spilled to);
// returns the function, the reference index that field stands for and the struct parameter.
func virtualParam(v ssa.Value) (*ssa.Function, int, *ssa.Parameter, bool) {
	if len(paramPerm) == 0 {
		return nil, 0, nil, false
	}
	var p *ssa.Parameter
	field := -1
	switch x := v.(type) {
	case *ssa.Field:
		p, _ = x.X.(*ssa.Parameter)
		field = x.Field
	case *ssa.FieldAddr:
		if al, ok := x.X.(*ssa.Alloc); ok {
			n := 0
			for _, r := range referrersOf(al) {
				if st, ok := r.(*ssa.Store); ok && st.Addr == ssa.Value(al) {
					n++
					p, _ = st.Val.(*ssa.Parameter)
				}
			}
			if n != 1 {
				p = nil
			}
		}
		field = x.Field
	}
	if p == nil {
		return nil, 0, nil, false
	}
	f := p.Parent()
	perm := paramPerm[f]
	if perm == nil {
		return nil, 0, nil, false
	}
	cur := -1
	for i, q := range f.Params {
		if q == p {
			cur = i
		}
	}
	for h, vp := range perm {
		if vp.cur == cur && vp.field == field {
			return f, h, p, true
		}
	}
	return nil, 0, nil, false
}

// paramAt: the parameter that stands at position k on the reference tree.
func paramAt(f *ssa.Function, k int) *ssa.Parameter {
	if perm := paramPerm[f]; perm != nil && k < len(perm) {
		return f.Params[perm[k].cur] // (for a bundled parameter: the parameter object that carries it)
	}
	return f.Params[k]
}

// Names of unexported types and functions. Rule tables refer to unexported types ("revocation.compressedUpdate")
// and functions ("gabi.createChallenge") by the names they have on the reference tree (head_types.txt,
// head_funcs.txt: `-dump headtypes`, `-dump headfuncs`). An unexported identifier can be renamed without any change
// of behaviour, so before anything else is keyed: a reference type that no longer exists in its package is matched
// with the one new unexported type of the package that has the same structure (underlying type, with references to
// unexported module types anonymised), and a reference function that no longer exists with the one new unexported
// function of the package that has the same signature (receiver included). typeShort/typeStr/typeKey and FuncKey
// then render the reference name. No match, or more than one candidate: no alias, and the rules that name the
// identifier report it as missing.
//
//go:embed head_types.txt
var headTypesTxt string

//go:embed head_funcs.txt
var headFuncsTxt string

var (
	typeNameAlias = map[string]string{} // "pkg.current" -> "pkg.reference"
	funcAlias     = map[*ssa.Function]string{}
	qualTypeRe    = regexp.MustCompile(`\b([a-z][a-zA-Z0-9]*)\.([a-z_][A-Za-z0-9_]*)\b`)
)

func aliasTypeNames(s string) string {
	if len(typeNameAlias) == 0 {
		return s
	}
	return qualTypeRe.ReplaceAllStringFunc(s, func(m string) string {
		if a, ok := typeNameAlias[m]; ok {
			return a
		}
		return m
	})
}

func rawTypeStr(t types.Type) string {
	return types.TypeString(t, func(p *types.Package) string {
		if inModule(p) {
			return shortPkg(p.Path())
		}
		return p.Path()
	})
}

// anonStructure: the underlying type with every reference to an unexported module type written pkg.?
func anonStructure(t types.Type, unexported map[string]bool) string {
	return qualTypeRe.ReplaceAllStringFunc(rawTypeStr(t), func(m string) string {
		if unexported[m] {
			return m[:strings.Index(m, ".")] + ".?"
		}
		return m
	})
}

func unexportedTypesOf(pkgs []*types.Package) (map[string]bool, map[string]*types.Named) {
	set := map[string]bool{}
	byName := map[string]*types.Named{}
	for _, pk := range pkgs {
		if pk == nil || !inModule(pk) {
			continue
		}
		for _, name := range pk.Scope().Names() {
			tn, ok := pk.Scope().Lookup(name).(*types.TypeName)
			if !ok || tn.Exported() || tn.IsAlias() {
				continue
			}
			n, ok := tn.Type().(*types.Named)
			if !ok {
				continue
			}
			k := shortPkg(pk.Path()) + "." + name
			set[k] = true
			byName[k] = n
		}
	}
	return set, byName
}

func dumpHeadTypes(P *Program) {
	var tp []*types.Package
	for _, p := range P.Pkgs {
		tp = append(tp, p.Types)
	}
	set, byName := unexportedTypesOf(tp)
	var lines []string
	for k, n := range byName {
		lines = append(lines, k+"\t"+anonStructure(n.Underlying(), set))
	}
	sort.Strings(lines)
	for _, l := range lines {
		fmt.Println(l)
	}
}

func computeTypeAliases(pkgs []*types.Package) {
	typeNameAlias = map[string]string{}
	head := map[string]string{}
	for _, ln := range strings.Split(headTypesTxt, "\n") {
		if p := strings.SplitN(ln, "\t", 2); len(p) == 2 && !strings.HasPrefix(ln, "#") {
			head[p[0]] = p[1]
		}
	}
	set, byName := unexportedTypesOf(pkgs)
	// anonymise with the union of reference and current unexported names, so that both sides agree
	all := map[string]bool{}
	for k := range set {
		all[k] = true
	}
	for k := range head {
		all[k] = true
	}
	reanon := func(s string) string {
		return qualTypeRe.ReplaceAllStringFunc(s, func(m string) string {
			if all[m] {
				return m[:strings.Index(m, ".")] + ".?"
			}
			return m
		})
	}
	missing := map[string][]string{} // pkg|structure -> reference names gone
	for k, st := range head {
		if !set[k] {
			pk := k[:strings.Index(k, ".")]
			missing[pk+"|"+reanon(st)] = append(missing[pk+"|"+reanon(st)], k)
		}
	}
	fresh := map[string][]string{}
	for k, n := range byName {
		if _, known := head[k]; !known {
			pk := k[:strings.Index(k, ".")]
			key := pk + "|" + reanon(anonStructure(n.Underlying(), set))
			fresh[key] = append(fresh[key], k)
		}
	}
	matchedRef, matchedCur := map[string]bool{}, map[string]bool{}
	for key, ms := range missing {
		if fs := fresh[key]; len(ms) == 1 && len(fs) == 1 {
			typeNameAlias[fs[0]] = ms[0]
			matchedRef[ms[0]], matchedCur[fs[0]] = true, true
		}
	}
	// second pass: a struct type renamed together with its (unexported) fields - same field types in the same order
	fieldTypesOnly := func(s string) string { return structFieldRe.ReplaceAllString(s, "$1") }
	missing2, fresh2 := map[string][]string{}, map[string][]string{}
	for key, ms := range missing {
		for _, m := range ms {
			if !matchedRef[m] && strings.Contains(key, "|struct{") {
				k2 := key[:strings.Index(key, "|")+1] + fieldTypesOnly(key[strings.Index(key, "|")+1:])
				missing2[k2] = append(missing2[k2], m)
			}
		}
	}
	for key, fs := range fresh {
		for _, f := range fs {
			if !matchedCur[f] && strings.Contains(key, "|struct{") {
				k2 := key[:strings.Index(key, "|")+1] + fieldTypesOnly(key[strings.Index(key, "|")+1:])
				fresh2[k2] = append(fresh2[k2], f)
			}
		}
	}
	for key, ms := range missing2 {
		if fs := fresh2[key]; len(ms) == 1 && len(fs) == 1 {
			typeNameAlias[fs[0]] = ms[0]
		}
	}
}

// structFieldRe drops the names of unexported fields in a struct type string ("issuer string; counter uint").
var structFieldRe = regexp.MustCompile(`\b[a-z_][A-Za-z0-9_]* ((?:\*|\[\]|map\[|chan |func\(|[A-Za-z]))`)

func funcSigKey(f *ssa.Function) string {
	s := ""
	if r := f.Signature.Recv(); r != nil {
		s = "(" + typeStr(r.Type()) + ")"
	}
	var ps, rs []string
	for i := 0; i < f.Signature.Params().Len(); i++ {
		ps = append(ps, typeStr(f.Signature.Params().At(i).Type()))
	}
	for i := 0; i < f.Signature.Results().Len(); i++ {
		rs = append(rs, typeStr(f.Signature.Results().At(i).Type()))
	}
	v := ""
	if f.Signature.Variadic() {
		v = "..."
	}
	return s + "(" + strings.Join(ps, ",") + v + ")(" + strings.Join(rs, ",") + ")"
}

func aliasableFunc(f *ssa.Function) bool {
	if f == nil || f.Parent() != nil || f.Synthetic != "" || f.Object() == nil || f.Object().Exported() {
		return false
	}
	if o := f.Origin(); o != nil && o != f {
		return false
	}
	var pk *types.Package
	if f.Pkg != nil {
		pk = f.Pkg.Pkg
	} else {
		pk = f.Object().Pkg()
	}
	return inModule(pk)
}

func dumpHeadFuncs(P *Program) {
	var lines []string
	for _, f := range P.AllFuncs {
		if aliasableFunc(f) {
			lines = append(lines, FuncKey(f)+"\t"+funcSigKey(f))
		}
	}
	sort.Strings(lines)
	for _, l := range lines {
		fmt.Println(l)
	}
}

// headFuncKeys: the unexported functions of the reference tree (by key).
var headFuncKeys = map[string]bool{}

// newHelper: an unexported function that the reference tree does not have (after renames are accounted for): code
// that was moved out of a function the rules know, to be read as if it still stood at its call site.
func newHelper(f *ssa.Function) bool {
	if f == nil || f.Object() == nil || f.Object().Exported() || len(headFuncKeys) == 0 {
		return false
	}
	return !headFuncKeys[FuncKey(f)]
}

func computeFuncAliases(all map[*ssa.Function]bool) {
	funcAlias = map[*ssa.Function]string{}
	head := map[string]string{}
	for _, ln := range strings.Split(headFuncsTxt, "\n") {
		if p := strings.SplitN(ln, "\t", 2); len(p) == 2 && !strings.HasPrefix(ln, "#") {
			head[p[0]] = p[1]
			headFuncKeys[p[0]] = true
		}
	}
	if len(head) == 0 {
		return
	}
	cur := map[string]bool{}
	var fs []*ssa.Function
	for f := range all {
		if aliasableFunc(f) {
			cur[FuncKey(f)] = true
			fs = append(fs, f)
		}
	}
	pkgOf := func(k string) string { return k[:strings.Index(k, ".")] }
	missing := map[string][]string{}
	for k, sig := range head {
		if !cur[k] {
			missing[pkgOf(k)+"|"+sig] = append(missing[pkgOf(k)+"|"+sig], k)
		}
	}
	if len(missing) == 0 {
		return
	}
	fresh := map[string][]*ssa.Function{}
	for _, f := range fs {
		k := FuncKey(f)
		if _, known := head[k]; !known {
			key := pkgOf(k) + "|" + funcSigKey(f)
			fresh[key] = append(fresh[key], f)
		}
	}
	for key, ms := range missing {
		if cands := fresh[key]; len(ms) == 1 && len(cands) == 1 {
			funcAlias[cands[0]] = ms[0]
		}
	}
}

// Unexported package-level variables go by their reference names too (head_globals.txt: `-dump headglobals`): a
// reference variable that no longer exists is the one new unexported variable of the package with the same type.
//
//go:embed head_globals.txt
var headGlobalsTxt string

var globalAlias = map[string]string{} // "pkg.current" -> reference name (without package)

func dumpHeadGlobals(P *Program) {
	var lines []string
	for _, sp := range P.SSA.AllPackages() {
		if sp.Pkg == nil || !inModule(sp.Pkg) {
			continue
		}
		for name, m := range sp.Members {
			g, ok := m.(*ssa.Global)
			if !ok || g.Object() == nil || g.Object().Exported() || strings.HasPrefix(name, "init$") {
				continue
			}
			lines = append(lines, shortPkg(sp.Pkg.Path())+"."+name+"\t"+typeStr(g.Type()))
		}
	}
	sort.Strings(lines)
	for _, l := range lines {
		fmt.Println(l)
	}
}

func computeGlobalAliases(prog *ssa.Program) {
	globalAlias = map[string]string{}
	head := map[string]string{}
	for _, ln := range strings.Split(headGlobalsTxt, "\n") {
		if p := strings.SplitN(ln, "\t", 2); len(p) == 2 && !strings.HasPrefix(ln, "#") {
			head[p[0]] = p[1]
		}
	}
	if len(head) == 0 {
		return
	}
	cur := map[string]string{}
	for _, sp := range prog.AllPackages() {
		if sp.Pkg == nil || !inModule(sp.Pkg) {
			continue
		}
		for name, m := range sp.Members {
			if g, ok := m.(*ssa.Global); ok && g.Object() != nil && !g.Object().Exported() {
				cur[shortPkg(sp.Pkg.Path())+"."+name] = typeStr(g.Type())
			}
		}
	}
	missing := map[string][]string{}
	for k, t := range head {
		if _, ok := cur[k]; !ok {
			pk := k[:strings.Index(k, ".")]
			missing[pk+"|"+t] = append(missing[pk+"|"+t], k)
		}
	}
	fresh := map[string][]string{}
	for k, t := range cur {
		if _, known := head[k]; !known {
			pk := k[:strings.Index(k, ".")]
			fresh[pk+"|"+t] = append(fresh[pk+"|"+t], k)
		}
	}
	for key, ms := range missing {
		if fs := fresh[key]; len(ms) == 1 && len(fs) == 1 {
			globalAlias[fs[0]] = ms[0][strings.Index(ms[0], ".")+1:]
		}
	}
}

// globalName: the reference name of a package-level variable.
func globalName(g *ssa.Global) string {
	if len(globalAlias) > 0 && g.Pkg != nil {
		if a, ok := globalAlias[shortPkg(g.Pkg.Pkg.Path())+"."+g.Name()]; ok {
			return a
		}
	}
	return g.Name()
}

// Result objects. Like parameter objects: when an unexported function now returns a struct value of a new
// unexported type in place of several reference results (same types in the same order once the struct is expanded
// into its fields), result positions mean the reference tree's positions: `call#h` in descriptors (a field read of
// the returned struct is the reference result), retValue/retCount for the function's own returns, callAndResult.
var resPerm = map[*ssa.Function][]vparam{}

func splitTopLevel(s string) []string {
	var out []string
	d, cur := 0, ""
	for _, ch := range s {
		switch ch {
		case '(', '[', '{':
			d++
		case ')', ']', '}':
			d--
		}
		if ch == ',' && d == 0 {
			out = append(out, cur)
			cur = ""
			continue
		}
		cur += string(ch)
	}
	if cur != "" {
		out = append(out, cur)
	}
	return out
}

func computeResPerms(P *Program) {
	resPerm = map[*ssa.Function][]vparam{}
	head := map[string][]string{}
	for _, ln := range strings.Split(headFuncsTxt, "\n") {
		p := strings.SplitN(ln, "\t", 2)
		if len(p) != 2 || strings.HasPrefix(ln, "#") {
			continue
		}
		sig := p[1]
		// "...)(r1,r2)" : the last parenthesised group
		if !strings.HasSuffix(sig, ")") {
			continue
		}
		d, i := 0, len(sig)-1
		for ; i >= 0; i-- {
			if sig[i] == ')' {
				d++
			} else if sig[i] == '(' {
				d--
				if d == 0 {
					break
				}
			}
		}
		if i < 0 {
			continue
		}
		head[p[0]] = splitTopLevel(sig[i+1 : len(sig)-1])
	}
	knownStruct := map[string]bool{}
	for _, ln := range strings.Split(headFieldsTxt, "\n") {
		if p := strings.Split(ln, "\t"); len(p) == 3 {
			knownStruct[p[0]] = true
		}
	}
	for _, ln := range strings.Split(headTypesTxt, "\n") {
		if p := strings.SplitN(ln, "\t", 2); len(p) == 2 {
			knownStruct[p[0]] = true
		}
	}
	for _, f := range P.AllFuncs {
		if !reorderable(f) {
			continue
		}
		h, ok := head[FuncKey(f)]
		res := f.Signature.Results()
		if !ok || res.Len() >= len(h) || res.Len() == 0 {
			continue
		}
		var slots []vparam
		var typs []string
		expanded := false
		for i := 0; i < res.Len(); i++ {
			t := res.At(i).Type()
			if n, isN := t.(*types.Named); isN && n.Obj().Pkg() != nil && inModule(n.Obj().Pkg()) && !n.Obj().Exported() && !knownStruct[typeKey(n)] {
				if st, isS := n.Underlying().(*types.Struct); isS {
					for j := 0; j < st.NumFields(); j++ {
						slots = append(slots, vparam{i, j})
						typs = append(typs, typeStr(st.Field(j).Type()))
					}
					expanded = true
					continue
				}
			}
			slots = append(slots, vparam{i, -1})
			typs = append(typs, typeStr(t))
		}
		if !expanded || len(typs) != len(h) {
			continue
		}
		same := true
		for i := range h {
			if h[i] != typs[i] {
				same = false
			}
		}
		if same {
			resPerm[f] = slots
		}
	}
}

func calleeResPerm(c *ssa.Call) []vparam {
	if len(resPerm) == 0 || c == nil {
		return nil
	}
	f := c.Call.StaticCallee()
	if f == nil {
		return nil
	}
	if o := f.Origin(); o != nil {
		f = o
	}
	return resPerm[f]
}

// refResultIndex: the reference position of result cur (as a whole) of call c.
func refResultIndex(c *ssa.Call, cur int) int {
	if perm := calleeResPerm(c); perm != nil {
		for h, vp := range perm {
			if vp.cur == cur && vp.field < 0 {
				return h
			}
		}
	}
	return cur
}

// bundledResult: v reads field j of the struct that call c returns at position i (directly, or from the local the
// result was put into): the call and the reference result position.
func bundledResult(v ssa.Value) (*ssa.Call, int, bool) {
	if len(resPerm) == 0 {
		return nil, 0, false
	}
	var src ssa.Value
	field := -1
	switch x := v.(type) {
	case *ssa.Field:
		src, field = x.X, x.Field
	case *ssa.FieldAddr:
		al, ok := x.X.(*ssa.Alloc)
		if !ok {
			return nil, 0, false
		}
		n := 0
		for _, r := range referrersOf(al) {
			if st, ok := r.(*ssa.Store); ok && st.Addr == ssa.Value(al) {
				n++
				src = st.Val
			}
		}
		if n != 1 {
			return nil, 0, false
		}
		field = x.Field
	default:
		return nil, 0, false
	}
	var c *ssa.Call
	cur := 0
	switch s := src.(type) {
	case *ssa.Call:
		c = s
	case *ssa.Extract:
		c, _ = s.Tuple.(*ssa.Call)
		cur = s.Index
	}
	perm := calleeResPerm(c)
	if perm == nil {
		return nil, 0, false
	}
	for h, vp := range perm {
		if vp.cur == cur && vp.field == field {
			return c, h, true
		}
	}
	return nil, 0, false
}

// retCount / refRetValue: the returns of a function in reference positions.
func retCount(ret *ssa.Return) int {
	if perm := resPerm[ret.Parent()]; perm != nil {
		return len(perm)
	}
	return len(ret.Results)
}

func refRetRaw(ret *ssa.Return, h int) ssa.Value {
	perm := resPerm[ret.Parent()]
	if perm == nil || h >= len(perm) {
		return ret.Results[h]
	}
	vp := perm[h]
	v := ret.Results[vp.cur]
	if vp.field < 0 {
		return v
	}
	if fv := structFieldValue(v, vp.field); fv != nil {
		return fv
	}
	// the zero value of the struct (`return T{}, err`): the field's zero value
	if ld, ok := v.(*ssa.UnOp); ok && ld.Op == token.MUL {
		if al, ok := ld.X.(*ssa.Alloc); ok {
			written := false
			for _, r := range referrersOf(al) {
				if fa, ok := r.(*ssa.FieldAddr); ok && fa.Field == vp.field {
					written = true
				}
				if st, ok := r.(*ssa.Store); ok && st.Addr == ssa.Value(al) {
					written = true
				}
			}
			if !written {
				if st, ok := al.Type().(*types.Pointer).Elem().Underlying().(*types.Struct); ok {
					return ssa.NewConst(nil, st.Field(vp.field).Type())
				}
			}
		}
	}
	if c, ok := v.(*ssa.Const); ok && c.Value == nil {
		if st, ok := c.Type().Underlying().(*types.Struct); ok {
			return ssa.NewConst(nil, st.Field(vp.field).Type())
		}
	}
	return v
}
