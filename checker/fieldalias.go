package main

import (
	_ "embed"
	"fmt"
	"go/token"
	"go/types"
	"sort"
	"strings"

	"golang.org/x/tools/go/ssa"
)

// Field aliases. The rule tables name unexported struct fields as they are called on the reference tree
// (head_fields.txt: owner type, field name, field type, generated with `-dump headfields`). Unexported fields are
// free to be renamed or regrouped into nested/embedded unexported structs without any change of behaviour, so
// before the rules run, every reference field that is no longer a direct field of its owner is looked for among the
// owner's current leaf fields (direct fields, and fields of struct values nested in it whose type is new or
// embedded): first by equal name and type (promotion through an embedded struct), then by equal type in
// declaration order, and only if that leaves no ambiguity (as many unmatched reference fields of a type as
// unmatched current leaves of it). Descriptors and owner/field lookups then use the reference name. A field that
// cannot be matched keeps its current name: the rule that names it reports "missing", never a wrong match.
//
//go:embed head_fields.txt
var headFieldsTxt string

type headField struct{ name, typ string }

// fieldAlias: "<typeKey>.<path.to.leaf>" -> reference field name
var fieldAlias = map[string]string{}

func typeStr(t types.Type) string {
	return types.TypeString(t, func(p *types.Package) string { return shortPkg(p.Path()) })
}

func moduleStructs(P *Program, f func(tk string, n *types.Named, st *types.Struct)) {
	for _, pkg := range P.Pkgs {
		if pkg.Types == nil || !inModule(pkg.Types) {
			continue
		}
		sc := pkg.Types.Scope()
		names := sc.Names()
		sort.Strings(names)
		for _, name := range names {
			tn, ok := sc.Lookup(name).(*types.TypeName)
			if !ok {
				continue
			}
			n, ok := tn.Type().(*types.Named)
			if !ok {
				continue
			}
			st, ok := n.Underlying().(*types.Struct)
			if !ok {
				continue
			}
			f(typeKey(n), n, st)
		}
	}
}

func dumpHeadFields(P *Program) {
	moduleStructs(P, func(tk string, n *types.Named, st *types.Struct) {
		for i := 0; i < st.NumFields(); i++ {
			f := st.Field(i)
			if f.Exported() {
				continue
			}
			fmt.Printf("%s\t%s\t%s\n", tk, f.Name(), typeStr(f.Type()))
		}
	})
}

func computeFieldAliases(P *Program) {
	fieldAlias = map[string]string{}
	head := map[string][]headField{}
	for _, ln := range strings.Split(headFieldsTxt, "\n") {
		p := strings.Split(ln, "\t")
		if len(p) != 3 || strings.HasPrefix(ln, "#") {
			continue
		}
		head[p[0]] = append(head[p[0]], headField{p[1], p[2]})
	}
	moduleStructs(P, func(tk string, n *types.Named, st *types.Struct) {
		hf := head[tk]
		if len(hf) == 0 {
			return
		}
		direct := map[string]string{}
		for i := 0; i < st.NumFields(); i++ {
			direct[st.Field(i).Name()] = typeStr(st.Field(i).Type())
		}
		var missing []headField
		isHead := map[string]bool{}
		for _, h := range hf {
			if direct[h.name] == h.typ {
				isHead[h.name] = true
			} else {
				missing = append(missing, h)
			}
		}
		if len(missing) == 0 {
			return
		}
		type leaf struct{ path, name, typ string }
		var leaves []leaf
		var flatten func(s *types.Struct, prefix string, depth int)
		flatten = func(s *types.Struct, prefix string, depth int) {
			for i := 0; i < s.NumFields(); i++ {
				f := s.Field(i)
				if prefix == "" && isHead[f.Name()] {
					continue
				}
				path := f.Name()
				if prefix != "" {
					path = prefix + "." + f.Name()
				}
				if fn, ok := f.Type().(*types.Named); ok && depth < 3 {
					if fs, ok := fn.Underlying().(*types.Struct); ok && fn.Obj().Pkg() != nil && inModule(fn.Obj().Pkg()) {
						if _, known := head[typeKey(fn)]; !known || f.Embedded() {
							// a struct value of a type the reference tree does not have (or an embedded one): its fields are
							// the owner's fields
							flatten(fs, path, depth+1)
							continue
						}
					}
				}
				if prefix == "" && f.Exported() {
					continue
				}
				leaves = append(leaves, leaf{path, f.Name(), typeStr(f.Type())})
			}
		}
		flatten(st, "", 0)
		used := map[int]bool{}
		matched := map[string]bool{}
		for _, m := range missing {
			for k, l := range leaves {
				if !used[k] && l.name == m.name && l.typ == m.typ {
					used[k] = true
					matched[m.name] = true
					if l.path != m.name {
						fieldAlias[tk+"."+l.path] = m.name
					}
					break
				}
			}
		}
		byTypeM := map[string][]headField{}
		byTypeL := map[string][]leaf{}
		for _, m := range missing {
			if !matched[m.name] {
				byTypeM[m.typ] = append(byTypeM[m.typ], m)
			}
		}
		for k, l := range leaves {
			if !used[k] {
				byTypeL[l.typ] = append(byTypeL[l.typ], l)
			}
		}
		for t, ms := range byTypeM {
			ls := byTypeL[t]
			if len(ls) != len(ms) {
				continue
			}
			for k := range ms {
				fieldAlias[tk+"."+ls[k].path] = ms[k].name
			}
		}
	})
}

// ownerFieldBase resolves a field address to (object the field belongs to, its type key, the field's reference name),
// looking through struct values nested in the owner when the path is an alias of a reference field.
func ownerFieldBase(fa *ssa.FieldAddr) (ssa.Value, string, string) {
	name := fieldName(fa.X.Type(), fa.Field)
	if len(fieldAlias) > 0 {
		path := name
		cur := fa
		for k := 0; k < 4; k++ {
			tk := typeKey(cur.X.Type())
			if a, ok := fieldAlias[tk+"."+path]; ok {
				return cur.X, tk, a
			}
			inner, ok := cur.X.(*ssa.FieldAddr)
			if !ok {
				// the local of a nested struct literal stands for the field it is copied into
				if al, isAl := cur.X.(*ssa.Alloc); isAl {
					if dst, isFA := nestedLiteralDest(al).(*ssa.FieldAddr); isFA {
						inner, ok = dst, true
					}
				}
			}
			if !ok {
				break
			}
			path = fieldName(inner.X.Type(), inner.Field) + "." + path
			cur = inner
		}
	}
	return fa.X, typeKey(fa.X.Type()), name
}

func faType(fa *ssa.FieldAddr) string { _, t, _ := ownerFieldBase(fa); return t }
func faName(fa *ssa.FieldAddr) string { _, _, n := ownerFieldBase(fa); return n }

// Parameter order. The rules name the plain parameters of a function by position ("arg#2") and read call arguments
// by position. Unexported functions are free to reorder their parameters (all call sites change with them), so
// positions always mean the positions on the reference tree (head_params.txt: function, index, name, type,
// generated with `-dump headparams`): when an unexported function has the reference tree's parameters in another
// order - the same types, each matched by its type where that is unambiguous and by type and name otherwise -
// paramIndex, paramAt and callArgs translate to the reference order. Anything else (a parameter added, removed or
// retyped) is left as it is and the rules that look at the function see the difference.
//
//go:embed head_params.txt
var headParamsTxt string

type headParam struct{ name, typ string }

// vparam: where a reference parameter lives now - the current parameter cur as a whole (field < 0) or field `field`
// of the current parameter cur, a struct value that bundles several reference parameters (a "parameter object").
type vparam struct{ cur, field int }

// paramPerm: function -> for every reference index its current place (nil: same parameters in the same order)
var paramPerm = map[*ssa.Function][]vparam{}

func reorderable(f *ssa.Function) bool {
	return f != nil && f.Parent() == nil && f.Synthetic == "" && f.Object() != nil && !f.Object().Exported() && f.Blocks != nil && inModuleFn(f)
}

func dumpHeadParams(P *Program) {
	var lines []string
	for _, f := range P.AllFuncs {
		if !reorderable(f) || len(f.Params) < 2 {
			continue
		}
		for i, p := range f.Params {
			lines = append(lines, fmt.Sprintf("%s\t%d\t%s\t%s", FuncKey(f), i, p.Name(), typeStr(p.Type())))
		}
	}
	sort.Strings(lines)
	for _, l := range lines {
		fmt.Println(l)
	}
}

func computeParamPerms(P *Program) {
	paramPerm = map[*ssa.Function][]vparam{}
	head := map[string][]headParam{}
	for _, ln := range strings.Split(headParamsTxt, "\n") {
		p := strings.Split(ln, "\t")
		if len(p) != 4 || strings.HasPrefix(ln, "#") {
			continue
		}
		var idx int
		fmt.Sscanf(p[1], "%d", &idx)
		for len(head[p[0]]) <= idx {
			head[p[0]] = append(head[p[0]], headParam{})
		}
		head[p[0]][idx] = headParam{p[2], p[3]}
	}
	knownStruct := map[string]bool{}
	for _, ln := range strings.Split(headFieldsTxt, "\n") {
		if p := strings.Split(ln, "\t"); len(p) == 3 {
			knownStruct[p[0]] = true
		}
	}
	for _, f := range P.AllFuncs {
		if !reorderable(f) {
			continue
		}
		h := head[FuncKey(f)]
		if len(h) == 0 || len(f.Params) > len(h) {
			continue
		}
		// the current parameters, a struct value of a type the reference tree does not have expanded into its fields
		type slot struct {
			v         vparam
			name, typ string
		}
		var slots []slot
		for i, p := range f.Params {
			if len(f.Params) < len(h) {
				if n, ok := p.Type().(*types.Named); ok && n.Obj().Pkg() != nil && inModule(n.Obj().Pkg()) && !n.Obj().Exported() && !knownStruct[typeKey(n)] {
					if st, ok := n.Underlying().(*types.Struct); ok {
						for j := 0; j < st.NumFields(); j++ {
							slots = append(slots, slot{vparam{i, j}, st.Field(j).Name(), typeStr(st.Field(j).Type())})
						}
						continue
					}
				}
			}
			slots = append(slots, slot{vparam{i, -1}, p.Name(), typeStr(p.Type())})
		}
		if len(slots) != len(h) {
			continue
		}
		same := true
		for i, sl := range slots {
			if sl.typ != h[i].typ || sl.v.field >= 0 || sl.v.cur != i {
				same = false
			}
		}
		if same {
			continue
		}
		perm := make([]vparam, len(h))
		used := map[int]bool{}
		ok := true
		for i := range h {
			var cands []int
			for j, sl := range slots {
				if !used[j] && sl.typ == h[i].typ {
					cands = append(cands, j)
				}
			}
			pick := -1
			if len(cands) == 1 {
				pick = cands[0]
			} else {
				for _, j := range cands {
					if slots[j].name == h[i].name {
						pick = j
					}
				}
			}
			if pick < 0 {
				ok = false
				break
			}
			used[pick] = true
			perm[i] = slots[pick].v
		}
		if ok {
			paramPerm[f] = perm
		}
	}
}

// structFieldValue: the value of field j of a struct value that was built as a literal at the call site
// (`stmt := T{a: x, b: y}; f(stmt)`: go/ssa fills a local and loads it once); nil if it is not of that form.
func structFieldValue(v ssa.Value, j int) ssa.Value {
	ld, ok := v.(*ssa.UnOp)
	if !ok || ld.Op != token.MUL {
		return nil
	}
	al, ok := ld.X.(*ssa.Alloc)
	if !ok {
		return nil
	}
	var val ssa.Value
	n := 0
	for _, r := range referrersOf(al) {
		fa, ok := r.(*ssa.FieldAddr)
		if !ok || fa.Field != j {
			continue
		}
		for _, rr := range referrersOf(fa) {
			if st, ok := rr.(*ssa.Store); ok && st.Addr == ssa.Value(fa) {
				val = st.Val
				n++
			}
		}
	}
	if n != 1 {
		return nil
	}
	return val
}

// virtualParam: v reads a field of a parameter object (the struct parameter itself, or the local it is spilled to);
// returns the function, the reference index that field stands for and the struct parameter.
func virtualParam(v ssa.Value) (*ssa.Function, int, *ssa.Parameter, bool) {
	if len(paramPerm) == 0 {
		return nil, 0, nil, false
	}
	var p *ssa.Parameter
	field := -1
	switch x := v.(type) {
	case *ssa.Field:
		p, _ = x.X.(*ssa.Parameter)
		field = x.Field
	case *ssa.FieldAddr:
		if al, ok := x.X.(*ssa.Alloc); ok {
			n := 0
			for _, r := range referrersOf(al) {
				if st, ok := r.(*ssa.Store); ok && st.Addr == ssa.Value(al) {
					n++
					p, _ = st.Val.(*ssa.Parameter)
				}
			}
			if n != 1 {
				p = nil
			}
		}
		field = x.Field
	}
	if p == nil {
		return nil, 0, nil, false
	}
	f := p.Parent()
	perm := paramPerm[f]
	if perm == nil {
		return nil, 0, nil, false
	}
	cur := -1
	for i, q := range f.Params {
		if q == p {
			cur = i
		}
	}
	for h, vp := range perm {
		if vp.cur == cur && vp.field == field {
			return f, h, p, true
		}
	}
	return nil, 0, nil, false
}

// paramAt: the parameter that stands at position k on the reference tree.
func paramAt(f *ssa.Function, k int) *ssa.Parameter {
	if perm := paramPerm[f]; perm != nil && k < len(perm) {
		return f.Params[perm[k].cur] // (for a bundled parameter: the parameter object that carries it)
	}
	return f.Params[k]
}
