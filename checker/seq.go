package main

import (
	"fmt"
	"go/token"
	"go/types"
	"sort"
	"strings"

	"golang.org/x/tools/go/ssa"
)

// SeqElem is one segment of an abstractly evaluated slice: a single element, the whole of another
// slice ("spread"), or a repeated group (loop appends).
type SeqElem struct {
	Kind string // "elem" | "spread" | "star"
	D    string // descriptor of the element / spread slice
	V    ssa.Value
	Sub  []SeqElem // for star
}

func (e SeqElem) String() string {
	switch e.Kind {
	case "elem":
		return e.D
	case "spread":
		return e.D + "..."
	default:
		parts := make([]string, len(e.Sub))
		for i, x := range e.Sub {
			parts[i] = x.String()
		}
		return "(" + strings.Join(parts, ", ") + ")*"
	}
}

func seqString(s []SeqElem) string {
	parts := make([]string, len(s))
	for i, e := range s {
		parts[i] = e.String()
	}
	return "[" + strings.Join(parts, ", ") + "]"
}

// ---- specialisation on a boolean input ----------------------------------------------------------------
//
// assume: truth values assumed for conditions, keyed by their descriptor (so that the assumption follows a
// flag into helpers, where it is a bound parameter). Under an assumption the successors not taken at every
// branch on such a condition are dead; blocks reachable only through dead edges are dead; a phi with a
// single live incoming edge is that edge.
var assume = map[string]bool{}

func assumeSig() string {
	if len(assume) == 0 {
		return ""
	}
	var ks []string
	for k, v := range assume {
		ks = append(ks, fmt.Sprintf("%s=%v", k, v))
	}
	sort.Strings(ks)
	return strings.Join(ks, ";")
}

var deadCache = map[string]map[*ssa.BasicBlock]bool{}

// deadEdge: the edge b -> b.Succs[k] is not taken under the current assumptions.
func deadEdge(b *ssa.BasicBlock, k int) bool {
	if len(assume) == 0 {
		return false
	}
	iff, ok := b.Instrs[len(b.Instrs)-1].(*ssa.If)
	if !ok {
		return false
	}
	cond := iff.Cond
	neg := false
	for {
		if u, ok := cond.(*ssa.UnOp); ok && u.Op == token.NOT {
			cond, neg = u.X, !neg
			continue
		}
		break
	}
	v, known := assume[desc(cond)]
	if !known {
		return false
	}
	if neg {
		v = !v
	}
	// Succs[0] is taken when the condition is true
	return (k == 0 && !v) || (k == 1 && v)
}

func deadBlocks(fn *ssa.Function) map[*ssa.BasicBlock]bool {
	if len(assume) == 0 || fn == nil || fn.Blocks == nil {
		return nil
	}
	key := fmt.Sprintf("%p|%s|%s", fn, bindingSig(fn), assumeSig())
	if d, ok := deadCache[key]; ok {
		return d
	}
	live := map[*ssa.BasicBlock]bool{fn.Blocks[0]: true}
	work := []*ssa.BasicBlock{fn.Blocks[0]}
	for len(work) > 0 {
		b := work[len(work)-1]
		work = work[:len(work)-1]
		for k, s := range b.Succs {
			if deadEdge(b, k) || live[s] {
				continue
			}
			live[s] = true
			work = append(work, s)
		}
	}
	dead := map[*ssa.BasicBlock]bool{}
	for _, b := range fn.Blocks {
		if !live[b] {
			dead[b] = true
		}
	}
	deadCache[key] = dead
	return dead
}

// livePhiEdge: under the current assumptions exactly one incoming edge of the phi can be taken.
func livePhiEdge(phi *ssa.Phi) (ssa.Value, bool) {
	if len(assume) == 0 {
		return nil, false
	}
	b := phi.Block()
	dead := deadBlocks(b.Parent())
	var v ssa.Value
	n := 0
	for i, p := range b.Preds {
		if dead[p] {
			continue
		}
		// the particular edge p -> b
		edgeDead := false
		for k, s := range p.Succs {
			if s == b && deadEdge(p, k) {
				// dead only if no other live edge from p leads to b
				other := false
				for k2, s2 := range p.Succs {
					if k2 != k && s2 == b && !deadEdge(p, k2) {
						other = true
					}
				}
				edgeDead = !other
			}
		}
		if edgeDead {
			continue
		}
		n++
		v = phi.Edges[i]
	}
	if n == 1 {
		return v, true
	}
	return nil, false
}

func instrDead(i ssa.Instruction) bool {
	if len(assume) == 0 || i.Block() == nil {
		return false
	}
	return deadBlocks(i.Block().Parent())[i.Block()]
}

// seqOf evaluates a slice-typed SSA value to its abstract sequence. ok=false if an idiom is not recognised.
func seqOf(v ssa.Value) ([]SeqElem, bool) { return seqD(v, 0, map[ssa.Value]bool{}) }

func seqD(v ssa.Value, depth int, inprog map[ssa.Value]bool) ([]SeqElem, bool) {
	if depth > 30 {
		return nil, false
	}
	switch x := v.(type) {
	case *ssa.Const:
		if x.Value == nil {
			return nil, true
		}
	case *ssa.ChangeType:
		return seqD(x.X, depth+1, inprog)
	case *ssa.Slice:
		// slice of an array literal: new [n]T (slicelit) + stores at constant indexes
		if al, ok := x.X.(*ssa.Alloc); ok && x.Low == nil && x.High == nil {
			// an array variable initialised from an array literal (`a := [n]T{...}; f(a[:])`): go/ssa fills a local and
			// copies it once into the variable - the literal's elements are the variable's, if nothing else writes it
			if src := arrayLiteralSource(al); src != nil {
				al = src
			}
			if arr, ok := al.Type().(*types.Pointer).Elem().Underlying().(*types.Array); ok {
				elems := make([]SeqElem, arr.Len())
				filled := make([]bool, arr.Len())
				for _, r := range referrersOf(al) {
					ia, ok := r.(*ssa.IndexAddr)
					if !ok {
						continue
					}
					idx, ok := constInt(ia.Index)
					if !ok || idx < 0 || idx >= arr.Len() {
						return nil, false
					}
					for _, rr := range referrersOf(ia) {
						if st, ok := rr.(*ssa.Store); ok && st.Addr == ia {
							elems[idx] = SeqElem{Kind: "elem", D: desc(st.Val), V: st.Val}
							filled[idx] = true
						}
					}
				}
				for _, f := range filled {
					if !f {
						return nil, false
					}
				}
				return elems, true
			}
		}
		// full reslice s[:] / s[0:len]
		if x.Low == nil && x.High == nil {
			return seqD(x.X, depth+1, inprog)
		}
		return []SeqElem{{Kind: "spread", D: desc(x), V: x}}, true
	case *ssa.Call:
		if isCallTo(x, "builtin:append") {
			base, ok := seqD(callArgs(x)[0], depth+1, inprog)
			if !ok {
				return nil, false
			}
			tail, ok := seqTail(callArgs(x)[1], depth+1, inprog)
			if !ok {
				return nil, false
			}
			return append(append([]SeqElem(nil), base...), tail...), true
		}
		// slices.Sorted(maps.Keys(m)): every key of m, once
		if m := sortedKeysOf(x); m != nil {
			return []SeqElem{{Kind: "star", Sub: []SeqElem{{Kind: "elem", D: "rangekey(" + desc(m) + ")"}}}}, true
		}
		// slices.Concat(a, b, c): the concatenation of its arguments' sequences
		if n := calleeName(x); n == "slices.Concat" && len(callArgs(x)) == 1 {
			parts, ok := seqD(callArgs(x)[0], depth+1, inprog)
			if !ok {
				return nil, false
			}
			var out []SeqElem
			for _, p := range parts {
				if p.Kind != "elem" || p.V == nil {
					return nil, false
				}
				s, ok := seqD(p.V, depth+1, inprog)
				if !ok {
					return nil, false
				}
				out = append(out, s...)
			}
			return out, true
		}
		// a module-internal helper that builds and returns the slice: evaluate its returns in its own
		// context, with its parameters described as this call's arguments
		if g := staticCallee(x); g != nil && inModuleFn(g) && !isBigWrapperFn(g) && g.Blocks != nil && g.Signature.Results().Len() == 1 && !inprog[x] {
			inprog[x] = true
			defer delete(inprog, x)
			var res []SeqElem
			okAll, n := true, 0
			bindCall(x, g, func() {
				dead := deadBlocks(g)
				for _, r := range returnsOf(g) {
					if dead[r.Block()] {
						continue
					}
					s, ok := seqD(retValue(r, 0), depth+1, inprog)
					if !ok {
						okAll = false
						return
					}
					if n > 0 && seqString(s) != seqString(res) {
						okAll = false
						return
					}
					res, n = s, n+1
				}
			})
			if okAll && n > 0 {
				return res, true
			}
		}
		return []SeqElem{{Kind: "spread", D: desc(x), V: x}}, true
	case *ssa.MakeSlice:
		return seqOfMake(x)
	case *ssa.Phi:
		if e, ok := livePhiEdge(x); ok {
			return seqD(e, depth+1, inprog)
		}
		if inprog[x] {
			return []SeqElem{{Kind: "elem", D: "@self", V: x}}, true
		}
		inprog[x] = true
		defer delete(inprog, x)
		// loop accumulation: phi(base, append(phi, tail...))
		var base []SeqElem
		var haveBase bool
		var star []SeqElem
		for _, e := range x.Edges {
			s, ok := seqD(e, depth+1, inprog)
			if !ok {
				return nil, false
			}
			if len(s) > 0 && s[0].D == "@self" {
				if star != nil && seqString(star) != seqString(s[1:]) {
					return nil, false
				}
				star = s[1:]
				continue
			}
			if haveBase && seqString(base) != seqString(s) {
				return nil, false
			}
			base, haveBase = s, true
		}
		if !haveBase {
			return nil, false
		}
		if star != nil {
			return append(append([]SeqElem(nil), base...), SeqElem{Kind: "star", Sub: star}), true
		}
		return base, true
	case *ssa.Parameter:
		// a slice handed to a helper that is examined on behalf of its caller: the caller's construction
		if b, ok := paramBindV[x]; ok && b != nil && !inprog[x] {
			switch b.(type) {
			case *ssa.MakeSlice, *ssa.Call, *ssa.Slice, *ssa.Phi:
				inprog[x] = true
				defer delete(inprog, x)
				if s, ok := seqD(b, depth+1, inprog); ok {
					return s, true
				}
			}
		}
		return []SeqElem{{Kind: "spread", D: desc(v), V: v}}, true
	case *ssa.Extract, *ssa.UnOp, *ssa.FieldAddr, *ssa.Field, *ssa.Lookup, *ssa.Index:
		return []SeqElem{{Kind: "spread", D: desc(v), V: v}}, true
	}
	return nil, false
}

// seqTail evaluates the second argument of append.
func seqTail(v ssa.Value, depth int, inprog map[ssa.Value]bool) ([]SeqElem, bool) {
	if sl, ok := v.(*ssa.Slice); ok {
		if _, isAlloc := sl.X.(*ssa.Alloc); isAlloc {
			return seqD(v, depth, inprog)
		}
	}
	if c, ok := v.(*ssa.Const); ok && c.Value == nil {
		return nil, true
	}
	// `append(a, b...)` with b a slice built here: its elements
	switch v.(type) {
	case *ssa.MakeSlice, *ssa.Phi, *ssa.Call:
		if s, ok := seqD(v, depth+1, inprog); ok {
			return s, true
		}
	}
	return []SeqElem{{Kind: "spread", D: desc(v), V: v}}, true
}

// seqOfMake: make([]T, L) followed by indexed stores and copy() calls that tile [0, L) exactly.
func arrayLiteralSource(al *ssa.Alloc) *ssa.Alloc {
	var src *ssa.Alloc
	for _, r := range referrersOf(al) {
		switch u := r.(type) {
		case *ssa.Store:
			if u.Addr != ssa.Value(al) || src != nil {
				return nil
			}
			ld, ok := u.Val.(*ssa.UnOp)
			if !ok || ld.Op != token.MUL {
				return nil
			}
			s, ok := ld.X.(*ssa.Alloc)
			if !ok || s.Comment != "complit" {
				return nil
			}
			src = s
		case *ssa.Slice, *ssa.DebugRef:
		case *ssa.IndexAddr:
			for _, rr := range referrersOf(u) {
				if _, isSt := rr.(*ssa.Store); isSt {
					return nil // also written element-wise
				}
			}
		default:
			return nil
		}
	}
	return src
}

func seqOfMake(ms *ssa.MakeSlice) ([]SeqElem, bool) {
	L, ok := affineOf(ms.Len)
	if !ok {
		return nil, false
	}
	type write struct {
		lo, hi Affine
		e      SeqElem
	}
	var ws []write
	refs := append([]ssa.Instruction(nil), referrersOf(ms)...)
	for phi, e := range phiEnv {
		if e == ssa.Value(ms) {
			refs = append(refs, referrersOf(phi)...)
		}
	}
	// uses through phis that, under the current assumptions, are this very slice
	seenPhi := map[*ssa.Phi]bool{}
	for k := 0; k < len(refs); k++ {
		if phi, ok := refs[k].(*ssa.Phi); ok && !seenPhi[phi] {
			seenPhi[phi] = true
			if e, ok := livePhiEdge(phi); ok && (e == ssa.Value(ms) || isPhiOf(e, ms, seenPhi)) {
				refs = append(refs, referrersOf(phi)...)
			}
		}
	}
	for _, r := range refs {
		switch u := r.(type) {
		case *ssa.IndexAddr:
			idx, ok := affineOf(u.Index)
			if !ok {
				return nil, false
			}
			for _, rr := range referrersOf(u) {
				if st, ok := rr.(*ssa.Store); ok && st.Addr == u {
					if instrDead(st) {
						continue
					}
					if idx.S["#i"] == 1 {
						// tmp[i+k] = f(X[i]) in an index loop over X: fills [k, k+len(X))
						d := desc(st.Val)
						coll := loopCollection(d)
						if coll == "" {
							// the stored value does not mention the collection (a literal built per iteration): the loop says
							// what is walked
							if l := innermostLoopOf(st.Block()); l != nil {
								coll = loopCollectionDesc(l)
							}
						}
						if coll == "" {
							return nil, false
						}
						lo := idx.clone()
						delete(lo.S, "#i")
						if d == coll+"[#i]" {
							// dst[i+k] = X[i] for every i: the elements of X as they are (what copy(dst[k:], X) does)
							ws = append(ws, write{lo, lo.add(affSym("len(" + coll + ")")), SeqElem{Kind: "spread", D: coll}})
							continue
						}
						ws = append(ws, write{lo, lo.add(affSym("len(" + coll + ")")), SeqElem{Kind: "star", Sub: []SeqElem{{Kind: "elem", D: d, V: st.Val}}}})
						continue
					}
					ws = append(ws, write{idx, idx.add(affConst(1)), SeqElem{Kind: "elem", D: desc(st.Val), V: st.Val}})
				}
			}
		case *ssa.Slice:
			lo := affConst(0)
			if u.Low != nil {
				if lo, ok = affineOf(u.Low); !ok {
					return nil, false
				}
			}
			hi := L
			if u.High != nil {
				if hi, ok = affineOf(u.High); !ok {
					return nil, false
				}
			}
			for _, rr := range referrersOf(u) {
				if c, ok := rr.(*ssa.Call); ok && isCallTo(c, "builtin:copy") && callArgs(c)[0] == u {
					if instrDead(c) {
						continue
					}
					src := callArgs(c)[1]
					// copy fills min(len(dst), len(src)) elements: all of src when len(dst) - len(src) is a known
					// non-negative constant (`copy(buf[1:], src)` into a buffer of len(src)+2)
					srcLen := affSym("len(" + desc(src) + ")")
					room := hi.add(lo.scale(-1)).add(srcLen.scale(-1))
					if !room.isConst() || room.C < 0 {
						return nil, false
					}
					ws = append(ws, write{lo, lo.add(srcLen), SeqElem{Kind: "spread", D: desc(src), V: src}})
				}
			}
		}
	}
	if L.String() == "0" && len(ws) == 0 {
		return nil, true
	}
	// tile
	pos := affConst(0)
	var out []SeqElem
	used := make([]bool, len(ws))
	for steps := 0; steps <= len(ws); steps++ {
		if pos.String() == L.String() {
			for _, u := range used {
				if !u {
					return nil, false
				}
			}
			return out, true
		}
		found := false
		for i, w := range ws {
			if !used[i] && w.lo.String() == pos.String() {
				used[i] = true
				out = append(out, w.e)
				pos = w.hi
				found = true
				break
			}
		}
		if !found {
			return nil, false
		}
	}
	return nil, false
}

// substArgs rewrites a callee-relative descriptor into the caller's terms: "arg#k" -> desc(actual k).
func substArgs(d string, call ssa.CallInstruction) string {
	args := callArgs(call)
	if call.Common().IsInvoke() {
		args = append([]ssa.Value{call.Common().Value}, args...)
	}
	for i := len(args) - 1; i >= 0; i-- {
		d = strings.ReplaceAll(d, fmt.Sprintf("arg#%d", i), "\x00"+fmt.Sprint(i)+"\x00")
	}
	for i := range args {
		d = strings.ReplaceAll(d, "\x00"+fmt.Sprint(i)+"\x00", desc(args[i]))
	}
	return d
}

// isInduction reports whether phi is a simple induction variable (const start, +1 step), which desc renders as "#i".
// walkStartMax: the latest index at which a walk may start and still count as a walk over "every i" (0; a rule
// whose statement is trivial for the first element - "for every i > 0" - raises it to 1 while it runs).
var walkStartMax int64 = 0

func isInduction(phi *ssa.Phi) bool {
	if len(phi.Edges) < 2 {
		return false
	}
	nConst, nStep := 0, 0
	for _, e := range phi.Edges {
		if _, ok := e.(*ssa.Const); ok {
			// the walk starts at the first element: 0 (-1 for the pre-incremented index of a range loop); a loop that
			// starts elsewhere does not visit "every i" and its variable is not the induction symbol
			c, isInt := constInt(e)
			if !isInt || !((c >= 0 && c <= walkStartMax) || (c == -1 && phi.Comment == "rangeindex")) {
				return false
			}
			nConst++
			continue
		}
		if b, ok := e.(*ssa.BinOp); ok && b.Op == token.ADD {
			if b.X == phi {
				if c, ok := constInt(b.Y); ok && c == 1 {
					nStep++
					continue
				}
			}
		}
		return false
	}
	return nConst == 1 && nStep >= 1
}

// loopCollection extracts X from a descriptor containing "X[#i]" (the collection an index loop walks).
func loopCollection(d string) string {
	i := strings.Index(d, "[#i]")
	if i < 0 {
		return ""
	}
	// walk back to the start of the path expression
	j := i
	depth := 0
	for j > 0 {
		c := d[j-1]
		if c == ')' || c == ']' {
			depth++
		} else if c == '(' || c == '[' {
			if depth == 0 {
				break
			}
			depth--
		} else if c == ',' && depth == 0 {
			break
		}
		j--
	}
	return d[j:i]
}

func isPhiOf(v ssa.Value, ms *ssa.MakeSlice, seen map[*ssa.Phi]bool) bool {
	phi, ok := v.(*ssa.Phi)
	if !ok || !seen[phi] {
		return false
	}
	e, ok := livePhiEdge(phi)
	return ok && e == ssa.Value(ms)
}
