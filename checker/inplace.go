package main

import (
	"fmt"
	"strings"

	"golang.org/x/tools/go/ssa"
)

// ---- aliasing discipline: big.Ints that belong to somebody else's object are not mutated in place -----
//
// math/big mutators write their receiver. A function that calls one on an integer it loaded from an
// object it was handed (a proof, a credential, a witness, an event, a key, a signature) changes that
// object for every other holder of it: later verifications see other values, shared histories are
// corrupted, concurrent readers race. The places where the library does this on purpose are few and are
// tabled; any other such site is reported under the property that owns the object's type.

var inPlaceAllowed = map[string]string{
	"gabi.(*ProofD).MergeProofP|<gabi.ProofD>.C":                  "merging the keyshare server's contribution into the proof is the purpose of the function",
	"gabi.(*ProofD).MergeProofP|<gabi.ProofD>.AResponses[0]":       "same",
	"gabi.(*ProofU).MergeProofP|<gabi.ProofU>.C":                   "same",
	"gabi.(*ProofU).MergeProofP|<gabi.ProofU>.SResponse":           "same",
	"gabi.(*ProofU).MergeProofP|<gabi.ProofU>.U":                   "same",
	"gabi.(*ProofU).RemoveKeyshareP|<gabi.ProofU>.U":               "legacy protocol: removes the server's factor from U, documented as modifying the proof",
	"revocation.(*EventList).uncompress|<revocation.EventList>.product": "the list's own product accumulator, created in the same call",
	"revocation.(*ProofCommit).Update|<revocation.ProofCommit>.cu":  "the commitment state is refreshed against the new witness (C11.e)",
	"common.(*FastMod).Set|<common.FastMod>.p":                     "initialisation of the reducer's own fields",
	"common.(*FastMod).Set|<common.FastMod>.c":                     "same",
	"common.(*FastMod).Set|<common.FastMod>.mask":                  "same",
}

// inPlaceDisciplineRule reports in-place mutations of integers reached through an object of one of the given types.
func inPlaceDisciplineRule(P *Program, R *Report, rule string, types ...string) {
	nUses, nAllowed := 0, 0
	bad := map[string]string{}
	rooted := func(d string) bool {
		for _, t := range types {
			if strings.HasPrefix(d, "<"+t+">") {
				return true
			}
		}
		return false
	}
	for _, fn := range P.AllFuncs {
		if fn.Blocks == nil {
			continue
		}
		allInstrs(fn, func(i ssa.Instruction) {
			c, ok := i.(*ssa.Call)
			if !ok {
				return
			}
			m := bigMethod(c)
			if m == "" || len(callArgs(c)) == 0 {
				return
			}
			for k, a := range callArgs(c) {
				if !isBigIntPtr(a.Type()) {
					continue
				}
				site := siteOf(a)
				if _, fresh := site.(*ssa.Alloc); fresh {
					continue
				}
				d := desc(site)
				if !rooted(d) {
					continue
				}
				nUses++
				if k != 0 || !bigMutators[m] {
					continue
				}
				key := FuncKey(fn) + "|" + d
				if _, ok := inPlaceAllowed[key]; ok {
					nAllowed++
					continue
				}
				bad[FuncKey(fn)+":in-place("+d+")"] = fmt.Sprintf("%s: %s.%s(...) overwrites an integer of an object the function was handed", P.Pos(c.Pos()), d, m)
			}
		})
	}
	what := "objects of type " + strings.Join(types, ", ")
	R.decide(rule, "in-place:uses("+strings.Join(types, ",")+")", "uses of integers belonging to "+what+" as big.Int operands were found (>= 3)", nUses >= 3, fmt.Sprintf("%d uses, %d tabled in-place updates", nUses, nAllowed), "")
	for _, k := range sortedKeys(boolSet(bad)) {
		R.bad(rule, k, "an integer that belongs to a caller's object is not mutated in place (outside the tabled functions)", bad[k], "")
	}
	if len(bad) == 0 {
		R.ok(rule, "in-place:none("+strings.Join(types, ",")+")", fmt.Sprintf("no untabled in-place mutation among %d operand uses", nUses))
	}
}

// sharedConstantsRule: package-level *big.Int variables (bigONE, bigZERO, two, ...) are process-wide constants.
// They are never the receiver of a mutating method outside package initialisation, never returned to a
// caller and never stored into a structure (an escaped constant is modified in place by the next
// `x.Lsh(x, k)` of its new owner and with it every later computation in the process).
func sharedConstantsRule(P *Program, R *Report, rule string) {
	isGlobalBig := func(v ssa.Value) (string, bool) {
		seen := map[ssa.Value]bool{}
		var walk func(x ssa.Value) (string, bool)
		walk = func(x ssa.Value) (string, bool) {
			if seen[x] {
				return "", false
			}
			seen[x] = true
			switch y := x.(type) {
			case *ssa.UnOp:
				if g, ok := y.X.(*ssa.Global); ok && isBigIntPtr(y.Type()) && inModule(g.Pkg.Pkg) {
					return g.Pkg.Pkg.Name() + "." + g.Name(), true
				}
			case *ssa.Phi:
				for _, e := range y.Edges {
					if s, ok := walk(e); ok {
						return s, true
					}
				}
			case *ssa.ChangeType:
				return walk(y.X)
			case *ssa.Call:
				if m := bigMethod(y); m != "" && bigMutators[m] && len(callArgs(y)) > 0 {
					return walk(callArgs(y)[0])
				}
			}
			return "", false
		}
		return walk(v)
	}
	nUses := 0
	bad := map[string]string{}
	for _, fn := range P.AllFuncs {
		if fn.Blocks == nil || fn.Name() == "init" || strings.HasPrefix(fn.Name(), "init#") {
			continue
		}
		allInstrs(fn, func(i ssa.Instruction) {
			switch x := i.(type) {
			case *ssa.Call:
				m := bigMethod(x)
				for k, a := range callArgs(x) {
					if g, ok := isGlobalBig(a); ok {
						nUses++
						if m != "" && k == 0 && bigMutators[m] {
							bad[FuncKey(fn)+":in-place("+g+")"] = fmt.Sprintf("%s: %s.%s(...) overwrites a process-wide constant", P.Pos(x.Pos()), g, m)
						}
					}
				}
			case *ssa.Return:
				for _, v := range x.Results {
					if !isBigIntPtr(v.Type()) {
						continue
					}
					if g, ok := isGlobalBig(v); ok {
						bad[FuncKey(fn)+":returns("+g+")"] = fmt.Sprintf("%s: the shared constant %s is handed to the caller, who owns and may modify what a function returns", P.Pos(x.Pos()), g)
					}
				}
			case *ssa.Store:
				if !isBigIntPtr(x.Val.Type()) {
					return
				}
				if _, toGlobal := x.Addr.(*ssa.Global); toGlobal {
					return
				}
				if g, ok := isGlobalBig(x.Val); ok {
					if _, local := rootOfAddr(x.Addr).(*ssa.Alloc); local {
						return // a local variable or the function's own copy of a by-value parameter
					}
					bad[FuncKey(fn)+":stores("+g+")"] = fmt.Sprintf("%s: the shared constant %s is stored into %s", P.Pos(x.Pos()), g, desc(x.Addr))
				}
			}
		})
	}
	R.decide(rule, "shared-constants:uses", "uses of package-level big.Int constants were found (>= 10)", nUses >= 10, fmt.Sprintf("%d", nUses), "")
	for _, k := range sortedKeys(boolSet(bad)) {
		R.bad(rule, k, "package-level big.Int constants are only read", bad[k], "")
	}
	if len(bad) == 0 {
		R.ok(rule, "shared-constants:read-only", fmt.Sprintf("none of %d uses mutates, returns or stores a package-level constant", nUses))
	}
}
