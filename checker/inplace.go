package main

import (
	"fmt"
	"strings"

	"golang.org/x/tools/go/ssa"
)

// ---- aliasing discipline: big.Ints that belong to somebody else's object are not mutated in place -----
//
// math/big mutators write their receiver. A function that calls one on an integer it loaded from an
// object it was handed (a proof, a credential, a witness, an event, a key, a signature) changes that
// object for every other holder of it: later verifications see other values, shared histories are
// corrupted, concurrent readers race. The places where the library does this on purpose are few and are
// tabled; any other such site is reported under the property that owns the object's type.

var inPlaceAllowed = map[string]string{
	"gabi.(*ProofD).MergeProofP|<gabi.ProofD>.C":                  "merging the keyshare server's contribution into the proof is the purpose of the function",
	"gabi.(*ProofD).MergeProofP|<gabi.ProofD>.AResponses[0]":       "same",
	"gabi.(*ProofU).MergeProofP|<gabi.ProofU>.C":                   "same",
	"gabi.(*ProofU).MergeProofP|<gabi.ProofU>.SResponse":           "same",
	"gabi.(*ProofU).MergeProofP|<gabi.ProofU>.U":                   "same",
	"gabi.(*ProofU).RemoveKeyshareP|<gabi.ProofU>.U":               "legacy protocol: removes the server's factor from U, documented as modifying the proof",
	"revocation.(*EventList).uncompress|<revocation.EventList>.product": "the list's own product accumulator, created in the same call",
	"revocation.(*ProofCommit).Update|<revocation.ProofCommit>.cu":  "the commitment state is refreshed against the new witness (C11.e)",
	"common.(*FastMod).Set|<common.FastMod>.p":                     "initialisation of the reducer's own fields",
	"common.(*FastMod).Set|<common.FastMod>.c":                     "same",
	"common.(*FastMod).Set|<common.FastMod>.mask":                  "same",
}

// inPlaceDisciplineRule reports in-place mutations of integers reached through an object of one of the given types.
func inPlaceDisciplineRule(P *Program, R *Report, rule string, types ...string) {
	nUses, nAllowed := 0, 0
	bad := map[string]string{}
	rooted := func(d string) bool {
		for _, t := range types {
			if strings.HasPrefix(d, "<"+t+">") {
				return true
			}
		}
		return false
	}
	for _, fn := range P.AllFuncs {
		if fn.Blocks == nil {
			continue
		}
		allInstrs(fn, func(i ssa.Instruction) {
			c, ok := i.(*ssa.Call)
			if !ok {
				return
			}
			m := bigMethod(c)
			if m == "" || len(c.Call.Args) == 0 {
				return
			}
			for k, a := range c.Call.Args {
				if !isBigIntPtr(a.Type()) {
					continue
				}
				site := siteOf(a)
				if _, fresh := site.(*ssa.Alloc); fresh {
					continue
				}
				d := desc(site)
				if !rooted(d) {
					continue
				}
				nUses++
				if k != 0 || !bigMutators[m] {
					continue
				}
				key := FuncKey(fn) + "|" + d
				if _, ok := inPlaceAllowed[key]; ok {
					nAllowed++
					continue
				}
				bad[FuncKey(fn)+":in-place("+d+")"] = fmt.Sprintf("%s: %s.%s(...) overwrites an integer of an object the function was handed", P.Pos(c.Pos()), d, m)
			}
		})
	}
	what := "objects of type " + strings.Join(types, ", ")
	R.decide(rule, "in-place:uses("+strings.Join(types, ",")+")", "uses of integers belonging to "+what+" as big.Int operands were found (>= 3)", nUses >= 3, fmt.Sprintf("%d uses, %d tabled in-place updates", nUses, nAllowed), "")
	for _, k := range sortedKeys(boolSet(bad)) {
		R.bad(rule, k, "an integer that belongs to a caller's object is not mutated in place (outside the tabled functions)", bad[k], "")
	}
	if len(bad) == 0 {
		R.ok(rule, "in-place:none("+strings.Join(types, ",")+")", fmt.Sprintf("no untabled in-place mutation among %d operand uses", nUses))
	}
}
