package main

import (
	"sort"
	"fmt"
	"go/token"
	"go/types"
	"strings"

	"golang.org/x/tools/go/ssa"
)

const (
	kGenPair  = "gabikeys.generateSafePrimePair"
	kFindM    = "gabikeys.findMatch"
	kGenKey   = "gabikeys.GenerateKeyPair"
	kGenConc  = "safeprime.GenerateConcurrent"
	kSPGen    = "safeprime.Generate"
	kGenRevKP = "gabikeys.GenerateRevocationKeypair"
)

func init() {
	register("C16",
		Rule{ID: "C16.a", Explain: "generateSafePrimePair returns (p, q) only if (p>>1) mod 8 != 1 was tested for p, every candidate kept for later matching passed the same test, and findMatch accepted the pair; findMatch returns q only if BitLen(p*q) == Ln and p mod 8 != q mod 8 (symbolic terms of the compared values).",
			Run: func(P *Program, R *Report) { safePrimePairRule(P, R) }},
		Rule{ID: "C16.b", Explain: "safeprime.Generate returns a prime only after ProbablySafePrime(2q+1, k>=40) on the returned value; the returned value is 2*q+1 for the candidate q decoded from ceil((bitsize-1)/8) random bytes (symbolic term).",
			Run: func(P *Program, R *Report) { safeprimeGenerateRule(P, R) }},
		Rule{ID: "C16.c", Explain: "GenerateKeyPair: S is accepted only with Legendre symbol 1 modulo P and Q and S <= N; Z and every R[i] are S^x mod N for a fresh x with 2 < x < N drawn inside the loop; N = P*Q, PPrime = P>>1, QPrime = Q>>1, Order = PPrime*QPrime; Params is the caller's; the revocation key pair takes G, H from RandomQR(N) (r^2 mod n with gcd(r, n) = 1 tested) and the generated ECDSA key's public half.",
			Run: func(P *Program, R *Report) { generateKeyPairRule(P, R) }},
		Rule{ID: "C16.d", Explain: "goroutine protocol of GenerateConcurrent: every send from a worker is either a select case together with a receive on the stop signal, or a send on a channel whose capacity is the number of workers executed at most once before the worker returns; every close of the shared stop signal goes through sync.Once; workers have a return path on the stop signal; generateSafePrimePair closes the caller's stop channel on every return path and findSafePrime signals it on success.",
			Run: func(P *Program, R *Report) { goroutineProtocolRule(P, R, "C16.d") }},
		Rule{ID: "C16.e", Explain: "PrivateKey.Validate tests (P-1)/2 == PPrime, (Q-1)/2 == QPrime and safe primality of both (k >= 40).",
			Run: func(P *Program, R *Report) { validateKeyRule(P, R, "C16.e") }},
		Rule{ID: "C16.f", Explain: "keyproof.CanProve tests safe primality of both factors and the residue conditions on P, Q, PPrime, QPrime modulo 8.",
			Run: func(P *Program, R *Report) { canProveRule(P, R, "C16.f") }},
		Rule{ID: "C16.g", Explain: "no failure is dropped during key generation and validation (gabikeys/keys.go, safeprime/): a failed prime search, generator or ECDSA key step ends the call (same rule as C08.g: the error a call returns has a use - a nil test or a return - before it is overwritten, shadowed or left behind).",
			Run: func(P *Program, R *Report) { errorResultsUsedRule(P, R, "C16.g", inFiles(P, "gabikeys/keys.go", "safeprime/"), nil, 10) }},
		Rule{ID: "C16.h", Explain: "consistent derived parameters: MakeDerivedParameters computes every derived length by its specified formula (the obligations of C13.b, same rule), so that the parameter tables and the Params of every generated key agree with the specification.",
			Run: func(P *Program, R *Report) { sharedRule(P, R, "C13", "C13.b", "C16.h", func(c string) bool { return strings.Contains(c, "MakeDerivedParameters") }) }},
	)
}

func safePrimePairRule(P *Program, R *Report) {
	rule := "C16.a"
	fn := mustFunc(P, R, rule, kGenPair)
	if fn == nil {
		return
	}
	be := P.bigEval(fn)
	// the test (p>>1) mod 8 != 1 on the received prime
	var recv ssa.Value
	isTest := func(a Atom) bool {
		x, y, ok := parseEq(Atom{Fn: a.Fn, V: a.V, Want: a.Want.neg()}) // we need "!=": equality with negated polarity
		if !ok {
			return false
		}
		c, isC := a.V.(*ssa.BinOp)
		if !isC {
			return false
		}
		cmp, isCmp := stripConv(c.X).(*ssa.Call)
		if !isCmp {
			return false
		}
		ts := be.at(cmp)
		if len(ts) != 2 {
			return false
		}
		for _, pr := range [][2]int{{0, 1}, {1, 0}} {
			t, o := ts[pr[0]], ts[pr[1]]
			if o.equal(tconst(1)) {
				// t must be Mod(Rsh(p,1), 8)
				s := t.String()
				if strings.HasPrefix(s, "Mod(Rsh(") && strings.HasSuffix(s, ", 1), 8)") {
					_ = x
					_ = y
					return true
				}
			}
		}
		return false
	}
	for _, r := range returnsOf(fn) {
		if !isNilConst(retValue(r, 0)) {
			recv = retValue(r, 0)
		}
	}
	mp(P, R, rule, kGenPair+":p-residue", "(p, q) returned => (p>>1) mod 8 != 1 was tested for p", fn, AcceptNonNil(0), &MustPass{Match: isTest})
	if recv != nil {
		// the tested value is the returned p
		ok := false
		allInstrs(fn, func(i ssa.Instruction) {
			if c, isC := i.(*ssa.Call); isC && bigMethod(c) == "Rsh" && callArgs(c)[1] == recv {
				ok = true
			}
		})
		R.decide(rule, kGenPair+":p-is-tested-value", "the tested value is the received prime that is returned as p", ok, "", P.Pos(fn.Pos()))
	}
	// appends to the candidate list are reached only after the test
	n := 0
	candD := ""
	allInstrs(fn, func(i ssa.Instruction) {
		c, isC := i.(*ssa.Call)
		if !isC || !isCallTo(c, "builtin:append") {
			return
		}
		n++
		candD = desc(callArgs(c)[0])
		r := (&MustPass{P: P, Match: isTest}).MustReach(fn, c)
		R.decide(rule, kGenPair+":candidates-tested", "a prime is kept as a candidate for q only after passing the same residue test", r.Holds, r.Path, P.Pos(c.Pos()))
	})
	R.decide(rule, kGenPair+":candidate-list", "candidate primes are kept for later matching", n >= 1, fmt.Sprintf("%d appends", n), P.Pos(fn.Pos()))
	inlined := P.Func(kFindM) == nil // the matching loop written out in generateSafePrimePair itself
	if !inlined {
		mp(P, R, rule, kGenPair+":q-from-findMatch", "(p, q) returned => q is the non-nil result of findMatch(candidates, param, p, ...)", fn, AcceptNonNil(0), &MustPass{Match: func(a Atom) bool {
			c, _ := callAndResult(a.V)
			return c != nil && calleeIs(c, kFindM) && a.Want == NonNil && callArgs(c)[2] == recv
		}})
		okQ := false
		for _, r := range returnsOf(fn) {
			if !isNilConst(retValue(r, 0)) {
				if c, isC := retValue(r, 1).(*ssa.Call); isC && calleeIs(c, kFindM) {
					okQ = true
				}
			}
		}
		R.decide(rule, kGenPair+":q-returned", "the returned q is findMatch's result", okQ, "", P.Pos(fn.Pos()))
	} else if recv != nil && candD != "" {
		// same obligations in the pair function's own terms: q is an element of the candidate list for which
		// BitLen(p*q) == Ln and p mod 8 != q mod 8 were tested with the received p
		pT := be.termOf(btState{}, recv)
		isCand := func(t Term) bool {
			n := t.opaqueName()
			return n == candD+"[#i]" || n == candD+"[#j]" || n == candD+"[#k]" || n == candD+"[*]"
		}
		mp(P, R, rule, kGenPair+":modulus-length", "(p, q) returned => BitLen(p*q) == Ln was tested on the product of the received p and a candidate", fn, AcceptNonNil(0), &MustPass{Match: func(a Atom) bool {
			g, ok := parseGuard(a, nil)
			if !ok || g.Kind != "bitlen" || g.Rel != "==" || !(g.BoundA.String() == "Ln" || g.BoundA.String() == "base.Ln") || g.Call == nil {
				return false
			}
			ts := be.at(g.Call)
			if len(ts) != 1 || ts[0].Top || len(ts[0].M) != 1 {
				return false
			}
			for _, m := range ts[0].M {
				if len(m.syms) != 2 || m.coef.Cmp(bigOneM) != 0 {
					return false
				}
				okP, okQ2 := false, false
				for sname, pw := range m.syms {
					if pw != 1 {
						return false
					}
					if tsym(sname).equal(pT) {
						okP = true
					} else if isCand(tsym(sname)) {
						okQ2 = true
					}
				}
				return okP && okQ2
			}
			return false
		}})
		mp(P, R, rule, kGenPair+":residues-differ", "(p, q) returned => p mod 8 != q mod 8 was tested", fn, AcceptNonNil(0), &MustPass{Match: func(a Atom) bool {
			t0, t1, ok := eqTerms(Atom{Fn: a.Fn, V: a.V, Want: a.Want.neg()}, be)
			if !ok {
				return false
			}
			for _, pr := range [][2]Term{{t0, t1}, {t1, t0}} {
				if pr[0].equal(termFn("Mod", pT, tconst(8))) {
					n := pr[1].opaqueName()
					for _, sfx := range []string{"[#i]", "[#j]", "[#k]", "[*]"} {
						if n == "Mod("+candD+sfx+", 8)" {
							return true
						}
					}
				}
			}
			return false
		}})
		okQ := false
		for _, r := range returnsOf(fn) {
			if isNilConst(retValue(r, 0)) {
				continue
			}
			okQ = true
			for d := range phiLeaves(retValue(r, 1)) {
				if d != "nil" && !isCand(tsym(d)) {
					okQ = false
				}
			}
		}
		R.decide(rule, kGenPair+":q-returned", "the returned q is one of the kept candidates", okQ, "", P.Pos(fn.Pos()))
	} else {
		R.bad(rule, kGenPair+":q-source", "q is chosen among kept candidates by findMatch or an equivalent loop", "neither findMatch nor a candidate list was found", P.Pos(fn.Pos()))
	}
	// prime size
	okSize := false
	for _, c := range callsIn(fn) {
		if isCallTo(c, kGenConc) {
			a, _ := affineOf(callArgs(c)[0])
			okSize = a.String() == "(Ln)/2" || a.String() == "(base.Ln)/2"
		}
	}
	R.decide(rule, kGenPair+":prime-size", "safe primes of Ln/2 bits are requested", okSize, "", P.Pos(fn.Pos()))

	fm := P.Func(kFindM)
	if fm == nil {
		return
	}
	bm := P.bigEval(fm)
	mp(P, R, rule, kFindM+":modulus-length", "q returned => BitLen(p*q) == Ln was tested on the product itself", fm, AcceptNonNil(0), &MustPass{Match: func(a Atom) bool {
		g, ok := parseGuard(a, nil)
		if !ok || g.Kind != "bitlen" || g.Rel != "==" || !(g.BoundA.String() == "Ln" || g.BoundA.String() == "base.Ln") {
			return false
		}
		// subject term: p*q for the candidate q
		if g.Call == nil {
			return false
		}
		ts := bm.at(g.Call)
		return len(ts) == 1 && ts[0].equal(tmul(tsym("arg#2"), tsym("arg#0[#i]")))
	}})
	mp(P, R, rule, kFindM+":residues-differ", "q returned => p mod 8 != q mod 8 was tested", fm, AcceptNonNil(0), &MustPass{Match: func(a Atom) bool {
		bo, ok := a.V.(*ssa.BinOp)
		if !ok {
			return false
		}
		cmp, isCmp := stripConv(bo.X).(*ssa.Call)
		if !isCmp || bigMethod(cmp) != "Cmp" {
			return false
		}
		k, okk := constInt(bo.Y)
		if !okk || k != 0 {
			return false
		}
		ne := (bo.Op == token.NEQ && a.Want == True) || (bo.Op == token.EQL && a.Want == False)
		if !ne {
			return false
		}
		ts := bm.at(cmp)
		if len(ts) != 2 {
			return false
		}
		x, y := termFn("Mod", tsym("arg#2"), tconst(8)), termFn("Mod", tsym("arg#0[#i]"), tconst(8))
		return (ts[0].equal(x) && ts[1].equal(y)) || (ts[0].equal(y) && ts[1].equal(x))
	}})
	okRet := true
	for _, r := range returnsOf(fm) {
		d := desc(retValue(r, 0))
		if d != "nil" && d != "arg#0[#i]" {
			okRet = false
		}
	}
	R.decide(rule, kFindM+":returns-candidate", "findMatch returns one of the given candidates or nil", okRet, "", P.Pos(fm.Pos()))
}

func safeprimeGenerateRule(P *Program, R *Report) {
	rule := "C16.b"
	fn := mustFunc(P, R, rule, kSPGen)
	if fn == nil {
		return
	}
	if disabledStub(P, R, rule, kSPGen, fn) {
		return
	}
	be := P.bigEval(fn)
	var retV ssa.Value
	for _, r := range returnsOf(fn) {
		if !isNilConst(retValue(r, 0)) {
			retV = retValue(r, 0)
		}
	}
	if retV == nil {
		R.bad(rule, kSPGen+":result", "a prime is returned", "no non-nil return", P.Pos(fn.Pos()))
		return
	}
	mp(P, R, rule, kSPGen+":safe-prime-tested", "a prime is returned only after ProbablySafePrime(returned value, k >= 40) was true", fn, AcceptNonNil(0), &MustPass{Match: func(a Atom) bool {
		c, ok := callAtom(a, True, "safeprime.ProbablySafePrime")
		if !ok || siteOf(callArgs(c)[0]) != siteOf(retV) {
			return false
		}
		k, okk := constInt(callArgs(c)[1])
		return okk && k >= 40
	}})
	for _, r := range returnsOf(fn) {
		if isNilConst(retValue(r, 0)) {
			continue
		}
		t := be.Use[r][retValue(r, 0)]
		want := tsum(tmul(tconst(2), tsym("SetBytes(makeslice)")), tconst(1))
		R.decide(rule, kSPGen+":term", "the returned value is 2*q + 1 for the candidate q decoded from the random bytes", t.equal(want), "got "+t.String(), P.Pos(r.Pos()))
	}
	candidateSizeRule(P, R, rule, fn)
	probablySafePrimeRule(P, R, rule)
}

// probablySafePrimeRule: ProbablySafePrime is true only if x and x>>1 both pass ProbablyPrime (shared by C16.b, C19.h).
func probablySafePrimeRule(P *Program, R *Report, rule string) {
	if ps := mustFunc(P, R, rule, "safeprime.ProbablySafePrime"); ps != nil {
		mp(P, R, rule, FuncKey(ps)+":both", "ProbablySafePrime is true only if x and (x-1)/2 are both probably prime", ps, AcceptTrue(0), &MustPass{Match: func(a Atom) bool {
			c, _ := callAndResult(a.V)
			return c != nil && bigMethod(c) == "ProbablyPrime" && a.Want == True && desc(callArgs(c)[0]) == "arg#0"
		}})
		bp := P.bigEval(ps)
		mp(P, R, rule, FuncKey(ps)+":half", "…and (x-1)/2 (or x>>1) is probably prime", ps, AcceptTrue(0), &MustPass{Match: func(a Atom) bool {
			c, _ := callAndResult(a.V)
			if c == nil || bigMethod(c) != "ProbablyPrime" || a.Want != True || desc(callArgs(c)[0]) == "arg#0" {
				return false
			}
			ts := bp.at(c)
			if len(ts) < 1 {
				return false
			}
			s := ts[0].String()
			return s == "Rsh(arg#0, 1)" || s == "Div(-1 + arg#0, 2)" || s == "Rsh(-1 + arg#0, 1)"
		}})
	}
}

func generateKeyPairRule(P *Program, R *Report) {
	rule := "C16.c"
	fn := mustFunc(P, R, rule, kGenKey)
	if fn == nil {
		return
	}
	p := "call:gabikeys.generateSafePrimePair(<gabikeys.SystemParameters>)#0"
	q := "call:gabikeys.generateSafePrimePair(<gabikeys.SystemParameters>)#1"
	// the private key is built here field by field, or by a constructor of the package (NewPrivateKey) that is then
	// examined with its parameters bound to the arguments given here
	privD := "new:gabikeys.PrivateKey" // how the key object is named in GenerateKeyPair
	buildFn := fn
	run := func(f func()) { f() }
	if len(litFieldStores(fn, privD)) == 0 {
		for _, ci := range callsIn(fn) {
			c, isCall := ci.(*ssa.Call)
			g := staticCallee(ci)
			if !isCall || g == nil || g.Blocks == nil || g.Pkg != fn.Pkg || g.Signature.Results().Len() < 1 {
				continue
			}
			if typeKey(g.Signature.Results().At(0).Type()) != "gabikeys.PrivateKey" {
				continue
			}
			var n int
			bindCall(c, g, func() { n = len(litFieldStores(g, "new:gabikeys.PrivateKey")) })
			if n == 0 {
				continue
			}
			buildFn = g
			run = func(f func()) { bindCall(c, g, f) }
			privD = desc(c)
			if g.Signature.Results().Len() > 1 {
				privD += "#0"
			}
		}
	}
	want := map[string]Term{
		"P": tsym(p), "Q": tsym(q), "N": tmul(tsym(p), tsym(q)),
		"PPrime": termFn("Rsh", tsym(p), tconst(1)), "QPrime": termFn("Rsh", tsym(q), tconst(1)),
	}
	run(func() {
		priv := litFieldStores(buildFn, "new:gabikeys.PrivateKey")
		for f, w := range want {
			got := termAtStore(P, buildFn, priv[f])
			if (f == "P" || f == "Q") && priv[f] != nil {
				got = termOpaque(desc(priv[f].Val))
			}
			R.decide(rule, kGenKey+":priv."+f, "private key field "+f+" = "+w.String(), got.equal(w), "got "+got.String(), P.Pos(fn.Pos()))
		}
		// Order
		okOrder := false
		gotO := ""
		bb := P.bigEval(buildFn)
		for _, s := range sinksOf(buildFn) {
			if st, ok := s.ins.(*ssa.Store); ok && s.target == "new:gabikeys.PrivateKey.Order" {
				t := bb.Use[st][st.Val]
				gotO = t.String()
				okOrder = t.equal(tmul(termFn("Rsh", tsym(p), tconst(1)), termFn("Rsh", tsym(q), tconst(1))))
			}
		}
		R.decide(rule, kGenKey+":priv.Order", "Order = PPrime * QPrime", okOrder, "got "+gotO, P.Pos(fn.Pos()))
	})
	// public key: N, Params
	got := map[string]string{}
	for _, s := range sinksOf(fn) {
		if strings.HasPrefix(s.target, "new:gabikeys.PublicKey.") {
			got[strings.TrimPrefix(s.target, "new:gabikeys.PublicKey.")] = desc(s.val)
		}
	}
	R.decide(rule, kGenKey+":pub.N", "the public modulus is the private key's N", got["N"] == privD+".N", got["N"], P.Pos(fn.Pos()))
	R.decide(rule, kGenKey+":pub.Params", "Params is the caller's parameter set", got["Params"] == "<gabikeys.SystemParameters>", got["Params"], P.Pos(fn.Pos()))
	isN := func(t Term) bool {
		return t.equal(tsym("new:gabikeys.PublicKey.N")) || t.equal(tsym(privD+".N")) || t.equal(tmul(tsym(p), tsym(q)))
	}
	// S accepted => Legendre(S,P)==1 && Legendre(S,Q)==1 && S <= N
	var sStore *ssa.Store
	for _, s := range sinksOf(fn) {
		if st, ok := s.ins.(*ssa.Store); ok && s.target == "new:gabikeys.PublicKey.S" {
			sStore = st
		}
	}
	if sStore == nil {
		R.bad(rule, kGenKey+":S", "S is assigned", "no store", P.Pos(fn.Pos()))
	} else {
		sv := sStore.Val
		for _, f := range []string{"P", "Q"} {
			f := f
			r := (&MustPass{P: P, Match: func(a Atom) bool {
				g, ok := parseGuard(a, nil)
				if !ok || g.Kind != "int" || g.Rel != "==" || g.BoundA.String() != "1" {
					return false
				}
				c, isC := g.SubjV.(*ssa.Call)
				return isC && calleeIs(c, "common.LegendreSymbol") && sameValue(callArgs(c)[0], sv) && desc(callArgs(c)[1]) == privD+"."+f
			}}).MustReach(fn, sStore)
			R.decide(rule, kGenKey+":S-residue-mod-"+f, "S accepted => Legendre symbol of S modulo "+f+" is 1", r.Holds, r.Path, P.Pos(sStore.Pos()))
		}
		r := (&MustPass{P: P, Match: func(a Atom) bool {
			g, ok := P.guardOf(a)
			return ok && g.Kind == "big" && sameValue(g.SubjV, sv) && g.Rel == "<=" && isN(g.Bound)
		}}).MustReach(fn, sStore)
		R.decide(rule, kGenKey+":S<=N", "S accepted => S <= N", r.Holds, r.Path, P.Pos(sStore.Pos()))
		// S drawn with Ln bits
		okS := false
		if g := genCallOf(phiFirst(sv)); g != nil {
			a, _ := affineOf(callArgs(g)[0])
			okS = a.String() == "Ln" || a.String() == "base.Ln"
		}
		R.decide(rule, kGenKey+":S-source", "S is drawn as RandomBigInt(Ln)", okS, desc(sv), P.Pos(sStore.Pos()))
	}
	// Z and R[i]: Exp(S, x, N) with x fresh and 2 < x < N
	// the list that becomes pk.R (filled in place, or built as a local and assigned afterwards)
	var rList ssa.Value
	for _, s := range sinksOf(fn) {
		if s.target == "new:gabikeys.PublicKey.R" {
			rList = s.val
			if ct, ok := rList.(*ssa.ChangeType); ok {
				rList = ct.X
			}
		}
	}
	var checkPower func(name string, expCall *ssa.Call, inLoop bool)
	checkPower = func(name string, expCall *ssa.Call, inLoop bool) {
		// the whole "draw x, test it, raise S to it" may sit in an unexported helper that returns the power: then the
		// helper is examined in place of this function, with its parameters bound to the call's arguments; the call must
		// sit in the per-base loop and its error must have been tested before the result is used
		if expCall == nil {
			target := "new:gabikeys.PublicKey.Z"
			if inLoop {
				target = ""
			}
			for _, s := range sinksOf(fn) {
				isTarget := s.target == target
				if inLoop {
					if ia, ok := s.ins.(*ssa.Store); ok {
						if idx, isIA := ia.Addr.(*ssa.IndexAddr); isIA {
							x := idx.X
							if ct, ok := x.(*ssa.ChangeType); ok {
								x = ct.X
							}
							isTarget = (rList != nil && x == rList) || strings.Contains(s.target, ".R[")
						}
					}
				}
				if !isTarget {
					continue
				}
				hc, idx := callAndResult(s.val)
				if hc == nil || idx != 0 {
					continue
				}
				h := staticCallee(hc)
				if h == nil || !inModuleFn(h) || h.Blocks == nil || (h.Object() != nil && h.Object().Exported()) {
					continue
				}
				var inner *ssa.Call
				for _, ret := range returnsOf(h) {
					if c, ok := origin(retValue(ret, 0)).(*ssa.Call); ok && bigMethod(c) == "Exp" {
						inner = c
					}
				}
				if inner == nil {
					continue
				}
				if inLoop && innermostLoopOf(hc.Block()) == nil {
					R.bad(rule, kGenKey+":"+name+":fresh-x", "its exponent x is a fresh RandomBigInt drawn for this base", "the helper is called outside the loop over the bases", P.Pos(hc.Pos()))
					return
				}
				hacc, okAcc := accOfFn(h, Nil)
				checked := mpResult{}
				if okAcc {
					// (the result may be stored first and the error tested right after: what matters is that no key is
					// returned when the helper failed)
					facc, okF := accOfFn(fn, Nil)
					if okF {
						q := &MustPass{P: P, NoInterproc: true, Match: func(at Atom) bool {
							c2, i2 := callAndResult(at.V)
							return c2 == hc && i2 == hacc.Result && at.Want == Nil
						}}
						if l := innermostLoopOf(hc.Block()); inLoop && l != nil {
							checked = q.ForAllBody(fn, l, facc, false) // every iteration that goes on tested it
						} else {
							checked = q.Check(fn, facc)
						}
					}
				}
				R.decide(rule, kGenKey+":"+name+":helper-error-tested", "a key is returned only if the helper that computes "+name+" reported no error", okAcc && checked.Holds, checked.Path, P.Pos(hc.Pos()))
				outer := fn
				fn = h
				bindCall(hc, h, func() { checkPower(name, inner, false) })
				fn = outer
				return
			}
		}
		if expCall == nil {
			R.bad(rule, kGenKey+":"+name, name+" = S^x mod N", "not found", P.Pos(fn.Pos()))
			return
		}
		a := callArgs(expCall)
		okBase := desc(a[1]) == "new:gabikeys.PublicKey.S" && desc(a[3]) == "new:gabikeys.PublicKey.N"
		x := a[2]
		g := genCallOf(phiFirst(x))
		okFresh := g != nil && calleeIs(g, "common.RandomBigInt")
		if okFresh && inLoop {
			l := innermostLoopOf(expCall.Block())
			okFresh = l != nil
			// the generator must be inside the per-base loop (outer loop over the bases)
			outer := l
			for outer != nil {
				if outer.Body[g.Block()] {
					break
				}
				outer = nil
			}
			if outer == nil {
				// try enclosing loops
				okFresh = false
				for h := expCall.Block(); h != nil; h = h.Idom() {
					if ll := findLoop(h); ll != nil && ll.Body[expCall.Block()] && ll.Body[g.Block()] {
						okFresh = true
					}
				}
			}
		}
		// the exponent may be drawn by a helper (`x, err := randomExponent(bits, N)`): then the helper's successful
		// returns are RandomBigInt results that passed the range tests there, the call sits in the per-base loop,
		// and its error was tested before the power is taken
		if ex, isEx := phiFirst(x).(*ssa.Extract); isEx && g == nil {
			if hc, isCall := ex.Tuple.(*ssa.Call); isCall {
				if h := staticCallee(hc); h != nil && h.Blocks != nil && inModuleFn(h) && ex.Index == 0 {
					hacc, okAcc := accOfFn(h, Nil)
					okFresh = okAcc
					if inLoop {
						inSame := false
						for hd := expCall.Block(); hd != nil; hd = hd.Idom() {
							if ll := findLoop(hd); ll != nil && ll.Body[expCall.Block()] && ll.Body[hc.Block()] {
								inSame = true
							}
						}
						okFresh = okFresh && inSame
					}
					var lo, hi mpResult
					lo.Holds, hi.Holds = okAcc, okAcc
					bindCall(hc, h, func() {
						for _, ret := range returnsOf(h) {
							rv := retValue(ret, 0)
							if isNilConst(rv) {
								continue
							}
							if gg := genCallOf(phiFirst(rv)); gg == nil || !calleeIs(gg, "common.RandomBigInt") {
								okFresh = false
							}
							if !okAcc {
								continue
							}
							l1 := (&MustPass{P: P, Match: func(at Atom) bool {
								gd, ok := P.guardOf(at)
								return ok && gd.Kind == "big" && sameValue(gd.SubjV, rv) && gd.Rel == ">" && gd.Bound.equal(tconst(2))
							}}).MustReach(h, ret)
							h1 := (&MustPass{P: P, Match: func(at Atom) bool {
								gd, ok := P.guardOf(at)
								return ok && gd.Kind == "big" && sameValue(gd.SubjV, rv) && gd.Rel == "<" && isN(gd.Bound)
							}}).MustReach(h, ret)
							if !l1.Holds {
								lo = l1
							}
							if !h1.Holds {
								hi = h1
							}
						}
					})
					checked := (&MustPass{P: P, NoInterproc: true, Match: func(at Atom) bool {
						c2, idx := callAndResult(at.V)
						return c2 == hc && idx == hacc.Result && at.Want == Nil
					}}).MustReach(fn, expCall)
					R.decide(rule, kGenKey+":"+name+":form", name+" = S^x mod N", okBase, "", P.Pos(expCall.Pos()))
					R.decide(rule, kGenKey+":"+name+":fresh-x", "its exponent x is a fresh RandomBigInt drawn for this base", okFresh, "drawn by "+FuncKey(h), P.Pos(expCall.Pos()))
					R.decide(rule, kGenKey+":"+name+":x-range", "2 < x < N was tested", lo.Holds && hi.Holds && checked.Holds, lo.Path+hi.Path+checked.Path, P.Pos(expCall.Pos()))
					return
				}
			}
		}
		R.decide(rule, kGenKey+":"+name+":form", name+" = S^x mod N", okBase, "", P.Pos(expCall.Pos()))
		R.decide(rule, kGenKey+":"+name+":fresh-x", "its exponent x is a fresh RandomBigInt drawn for this base", okFresh, "", P.Pos(expCall.Pos()))
		lo := (&MustPass{P: P, Match: func(at Atom) bool {
			gd, ok := P.guardOf(at)
			return ok && gd.Kind == "big" && sameValue(gd.SubjV, x) && gd.Rel == ">" && gd.Bound.equal(tconst(2))
		}}).MustReach(fn, expCall)
		hi := (&MustPass{P: P, Match: func(at Atom) bool {
			gd, ok := P.guardOf(at)
			return ok && gd.Kind == "big" && sameValue(gd.SubjV, x) && gd.Rel == "<" && isN(gd.Bound)
		}}).MustReach(fn, expCall)
		R.decide(rule, kGenKey+":"+name+":x-range", "2 < x < N was tested", lo.Holds && hi.Holds, lo.Path+hi.Path, P.Pos(expCall.Pos()))
	}
	var zExp, rExp *ssa.Call
	filesIntoR := func(c *ssa.Call) bool {
		if _, isMake := rList.(*ssa.MakeSlice); !isMake {
			return false
		}
		for _, r := range referrersOf(c) {
			if st, ok := r.(*ssa.Store); ok && st.Val == ssa.Value(c) {
				if ia, ok := st.Addr.(*ssa.IndexAddr); ok {
					x := ia.X
					if ct, ok := x.(*ssa.ChangeType); ok {
						x = ct.X
					}
					if x == rList {
						return true
					}
				}
			}
		}
		return false
	}
	allInstrs(fn, func(i ssa.Instruction) {
		c, ok := i.(*ssa.Call)
		if !ok || bigMethod(c) != "Exp" {
			return
		}
		if strings.Contains(desc(callArgs(c)[0]), ".R[") || filesIntoR(c) {
			rExp = c
		} else {
			// stored to Z?
			for _, r := range referrersOf(c) {
				if st, ok := r.(*ssa.Store); ok && desc(st.Addr) == "new:gabikeys.PublicKey.Z" {
					zExp = c
				}
			}
		}
	})
	checkPower("Z", zExp, false)
	checkPower("R[i]", rExp, true)
	// R has numAttributes entries, each assigned
	okR := false
	for _, s := range sinksOf(fn) {
		if s.target == "new:gabikeys.PublicKey.R" {
			if ms, ok := s.val.(*ssa.MakeSlice); ok {
				okR = desc(ms.Len) == "arg#1"
			} else if ct, ok := s.val.(*ssa.ChangeType); ok {
				if ms, ok := ct.X.(*ssa.MakeSlice); ok {
					okR = desc(ms.Len) == "arg#1"
				}
			}
		}
	}
	R.decide(rule, kGenKey+":R-count", "R has numAttributes bases", okR, "", P.Pos(fn.Pos()))
	// revocation keypair
	if rk := mustFunc(P, R, rule, kGenRevKP); rk != nil {
		g := map[string]string{}
		for _, s := range sinksOf(rk) {
			g[s.target] = descO(s.val)
		}
		pub, prv := pkD, "<gabikeys.PrivateKey>"
		key := "call:signed.GenerateKey()#0"
		R.decide(rule, kGenRevKP+":G,H", "G and H are independent RandomQR(N) draws", g[pub+".G"] == "call:common.RandomQR("+pub+".N)" && g[pub+".H"] == "call:common.RandomQR("+pub+".N)", g[pub+".G"]+" | "+g[pub+".H"], P.Pos(rk.Pos()))
		R.decide(rule, kGenRevKP+":ECDSA", "the public ECDSA key is the public half of the generated private key", g[prv+".ECDSA"] == key && g[pub+".ECDSA"] == key+".PublicKey", g[pub+".ECDSA"], P.Pos(rk.Pos()))
		R.decide(rule, kGenRevKP+":ECDSAString", "each key carries the serialisation of its own half (private: MarshalPrivateKey(key), public: MarshalPublicKey(&key.PublicKey))",
			g[prv+".ECDSAString"] == "call:(*encoding/base64.Encoding).EncodeToString(global:encoding/base64.StdEncoding,call:signed.MarshalPrivateKey("+key+")#0)" &&
				g[pub+".ECDSAString"] == "call:(*encoding/base64.Encoding).EncodeToString(global:encoding/base64.StdEncoding,call:signed.MarshalPublicKey("+key+".PublicKey)#0)",
			g[prv+".ECDSAString"]+" | "+g[pub+".ECDSAString"], P.Pos(rk.Pos()))
		okCall := false
		for _, c := range callsIn(fn) {
			if isCallTo(c, kGenRevKP) {
				okCall = desc(callArgs(c)[0]) == privD && desc(callArgs(c)[1]) == "new:gabikeys.PublicKey"
			}
		}
		R.decide(rule, kGenKey+":revocation", "the revocation key pair is generated for this very key pair", okCall, "", P.Pos(fn.Pos()))
		mp(P, R, rule, kGenKey+":revocation-error", "a key pair is returned only if that succeeded", fn, AcceptNilErr(2), &MustPass{Match: func(a Atom) bool {
			_, ok := callAtom(a, Nil, kGenRevKP)
			return ok
		}})
	}
	if rq := mustFunc(P, R, rule, "common.RandomQR"); rq != nil {
		brq := P.bigEval(rq)
		okT := false
		gotT := ""
		for _, r := range returnsOf(rq) {
			t := brq.Use[r][retValue(r, 0)]
			gotT = t.String()
			rr := "call:common.FastRandomBigInt(arg#0)"
			okT = t.equal(termFn("Mod", tmul(tsym(rr), tsym(rr)), tsym("arg#0")))
		}
		R.decide(rule, "common.RandomQR:square", "RandomQR returns r^2 mod n", okT, "got "+gotT, P.Pos(rq.Pos()))
		rr := tsym("call:common.FastRandomBigInt(arg#0)")
		mp(P, R, rule, "common.RandomQR:unit", "…only for r with gcd(r, n) == 1", rq, AcceptAny(),
			&MustPass{Match: eqTermMatcher(brq, termFn("GCD", rr, tsym("arg#0")), tconst(1))})
	}
}

// sameValue: the two SSA values denote the same variable (through phis of a retry loop).
func sameValue(a, b ssa.Value) bool {
	if a == b || siteOf(a) == siteOf(b) {
		return true
	}
	la, lb := phiLeaves(a), phiLeaves(b)
	for d := range la {
		if lb[d] && d != "nil" {
			return true
		}
	}
	return false
}

// phiFirst returns a non-phi leaf of v (the generator result inside a retry loop).
func phiFirst(v ssa.Value) ssa.Value {
	seen := map[ssa.Value]bool{}
	for {
		p, ok := v.(*ssa.Phi)
		if !ok || seen[v] {
			return v
		}
		seen[v] = true
		next := v
		for _, e := range p.Edges {
			if _, isC := e.(*ssa.Const); isC {
				continue
			}
			if e != v {
				next = e
			}
		}
		if next == v {
			return v
		}
		v = next
	}
}

// closureFuncs returns fn's anonymous functions, recursively.
func closureFuncs(fn *ssa.Function) []*ssa.Function {
	var out []*ssa.Function
	for _, a := range fn.AnonFuncs {
		out = append(out, a)
		out = append(out, closureFuncs(a)...)
	}
	return out
}

func goroutineProtocolRule(P *Program, R *Report, rule string) {
	fn := mustFunc(P, R, rule, kGenConc)
	if fn == nil {
		return
	}
	if disabledStub(P, R, rule, kGenConc, fn) {
		return
	}
	// goroutine bodies
	var bodies []*ssa.Function
	var gos []*ssa.Go
	goOf := map[*ssa.Function]*ssa.Go{}
	inLoop := map[*ssa.Function]bool{}
	var loopBound ssa.Value
	allInstrs(fn, func(i ssa.Instruction) {
		g, ok := i.(*ssa.Go)
		if !ok {
			return
		}
		gos = append(gos, g)
		var f *ssa.Function
		if mc, ok := g.Call.Value.(*ssa.MakeClosure); ok {
			f = mc.Fn.(*ssa.Function)
		} else if sf := g.Call.StaticCallee(); sf != nil && sf.Blocks != nil && inModuleFn(sf) {
			f = sf // `go worker(args...)`: a named function of the module
		}
		if f != nil {
			goOf[f] = g
			bodies = append(bodies, f)
			if l := innermostLoopOf(g.Block()); l != nil {
				inLoop[f] = true
				for _, ins := range l.Header.Instrs {
					if b, ok := ins.(*ssa.BinOp); ok && b.Op == token.LSS {
						loopBound = b.Y
					}
				}
				for _, bb := range fn.Blocks {
					for _, ins := range bb.Instrs {
						if b, ok := ins.(*ssa.BinOp); ok && b.Op == token.LSS && loopBound == nil {
							loopBound = b.Y
						}
					}
				}
			}
		}
	})
	// at least one worker is started: the count is GOMAXPROCS(0) itself (always >= 1) or a positive constant - a count
	// that can be zero (GOMAXPROCS-1, NumCPU/2) leaves the caller waiting forever on a single-CPU machine
	okCount := false
	countD := ""
	if loopBound != nil {
		if a, ok := affineOf(loopBound); ok {
			countD = a.String()
			if a.isConst() {
				okCount = a.C >= 1
			} else if len(a.S) == 1 && a.C >= 0 {
				for sym, k := range a.S {
					okCount = k >= 1 && sym == "call:runtime.GOMAXPROCS(0)"
				}
			}
		}
	}
	R.decide(rule, kGenConc+":workers>=1", "at least one worker goroutine is started whatever the machine (count = GOMAXPROCS(0) plus a non-negative constant, or a positive constant)", okCount, "count = "+countD, P.Pos(fn.Pos()))
	R.decide(rule, kGenConc+":goroutines", "the watcher and the worker goroutines were found", len(bodies) == 2, fmt.Sprintf("%d go statements", len(bodies)), P.Pos(fn.Pos()))
	// channel capacities by variable name (captured variables) and by value (channels handed to a named worker)
	caps := map[string]ssa.Value{}
	allInstrs(fn, func(i ssa.Instruction) {
		if st, ok := i.(*ssa.Store); ok {
			if mc, ok := st.Val.(*ssa.MakeChan); ok {
				if al, ok := st.Addr.(*ssa.Alloc); ok {
					caps[al.Comment] = mc.Size
				}
			}
		}
	})
	chanName := func(v ssa.Value) string {
		if u, ok := v.(*ssa.UnOp); ok {
			if fv, ok := u.X.(*ssa.FreeVar); ok {
				return fv.Name()
			}
		}
		if p, ok := v.(*ssa.Parameter); ok {
			return p.Name()
		}
		return desc(v)
	}
	// capOf: the capacity of the channel v denotes inside goroutine body `body`
	capOf := func(body *ssa.Function, v ssa.Value) ssa.Value {
		if p, ok := v.(*ssa.Parameter); ok && p.Parent() == body && goOf[body] != nil {
			args := goOf[body].Call.Args
			for k, q := range body.Params {
				if q != p || k >= len(args) {
					continue
				}
				arg := args[k]
				for {
					if ct, ok := arg.(*ssa.ChangeType); ok { // chan T -> chan<- T
						arg = ct.X
						continue
					}
					break
				}
				switch a := arg.(type) {
				case *ssa.MakeChan:
					return a.Size
				case *ssa.UnOp:
					if al, ok := a.X.(*ssa.Alloc); ok {
						return caps[al.Comment]
					}
				}
			}
			return nil
		}
		return caps[chanName(v)]
	}
	isStop := func(n string) bool { return n == "stopped" || n == "stop" }
	// a stop signal: a channel of empty structs (closed, never sent on), whatever it is called or stored in
	isStopChan := func(v ssa.Value) bool {
		if isStop(chanName(v)) {
			return true
		}
		if ch, ok := v.Type().Underlying().(*types.Chan); ok {
			if st, ok := ch.Elem().Underlying().(*types.Struct); ok && st.NumFields() == 0 {
				return true
			}
		}
		return false
	}
	for _, body := range bodies {
		all := append([]*ssa.Function{body}, closureFuncs(body)...)
		for _, f := range all {
			allInstrs(f, func(i ssa.Instruction) {
				switch x := i.(type) {
				case *ssa.Send:
					name := chanName(x.Chan)
					c := FuncKey(f) + ":send(" + name + ")"
					// plain blocking send: capacity == number of workers and executed at most once before return
					capV := capOf(body, x.Chan)
					okCap := capV != nil && loopBound != nil && stripConv(capV) == stripConv(loopBound)
					once := !blockReaches(x.Block(), x.Block())
					R.decide(rule, c, "a worker's unconditional send cannot block: the channel has one slot per worker and the send is followed by return", okCap && once && inLoop[body],
						fmt.Sprintf("capacity==workers:%v at-most-once:%v", okCap, once), P.Pos(x.Pos()))
				case *ssa.Select:
					for _, st := range x.States {
						if st.Dir != types.SendOnly {
							continue
						}
						name := chanName(st.Chan)
						c := FuncKey(f) + ":select-send(" + name + ")"
						guarded := false
						for _, o := range x.States {
							if o.Dir == types.RecvOnly && isStopChan(o.Chan) {
								guarded = true
							}
						}
						R.decide(rule, c, "a send that may block is a select case next to a receive on the stop signal", guarded && x.Blocking, fmt.Sprintf("stop-case:%v", guarded), P.Pos(x.Pos()))
					}
				}
			})
		}
		// termination path on the stop signal
		hasStop := false
		for _, f := range all {
			allInstrs(f, func(i ssa.Instruction) {
				if sel, ok := i.(*ssa.Select); ok {
					for _, st := range sel.States {
						if st.Dir == types.RecvOnly && isStopChan(st.Chan) {
							hasStop = true
						}
					}
				}
			})
		}
		R.decide(rule, FuncKey(body)+":stoppable", "the goroutine has a return path on the stop signal", hasStop, "", P.Pos(body.Pos()))
	}
	// close sites of shared channels: in the closures of GenerateConcurrent and in the same-package functions they call
	nClose := 0
	closers := map[*ssa.Function]bool{}
	for _, f := range append([]*ssa.Function{fn}, closureFuncs(fn)...) {
		closers[f] = true
		for _, c := range callsIn(f) {
			if g := staticCallee(c); g != nil && g.Blocks != nil && g.Pkg == fn.Pkg && g != fn {
				closers[g] = true
				for _, cf := range closureFuncs(g) {
					closers[cf] = true
				}
			}
		}
	}
	var closerList []*ssa.Function
	for f := range closers {
		closerList = append(closerList, f)
	}
	sort.Slice(closerList, func(i, j int) bool { return FuncKey(closerList[i]) < FuncKey(closerList[j]) })
	for _, f := range closerList {
		f := f
		if f == fn {
			continue
		}
		allInstrs(f, func(i ssa.Instruction) {
			c, ok := i.(*ssa.Call)
			if !ok || !isCallTo(c, "builtin:close") || !isStopChan(callArgs(c)[0]) {
				return
			}
			nClose++
			// f must run under (*sync.Once).Do
			underOnce := false
			for p := f; p != nil; p = p.Parent() {
				if onceBodies(P)[p] != nil {
					underOnce = true
				}
			}
			R.decide(rule, FuncKey(f)+":close("+chanName(callArgs(c)[0])+")", "the shared stop signal is closed through sync.Once (several goroutines may want to close it)", underOnce, "close outside sync.Once.Do", P.Pos(c.Pos()))
		})
	}
	R.decide(rule, kGenConc+":close-sites", "the stop signal has a close site", nClose >= 1, fmt.Sprintf("%d", nClose), P.Pos(fn.Pos()))
	// consumers
	if gp := mustFunc(P, R, rule, kGenPair); gp != nil {
		mp(P, R, rule, kGenPair+":stops-workers", "every return path closes the stop channel handed to GenerateConcurrent", gp, AcceptAny(), &MustPass{Instr: func(_ *ssa.Function, i ssa.Instruction) bool {
			c, ok := i.(*ssa.Call)
			return ok && isCallTo(c, "builtin:close") && desc(callArgs(c)[0]) == "makechan"
		}})
	}
	if fs := mustFunc(P, R, rule, "keyproof.findSafePrime"); fs != nil {
		okSig := false
		allInstrs(fs, func(i ssa.Instruction) {
			if s, ok := i.(*ssa.Send); ok && desc(s.Chan) == "makechan" {
				okSig = true
			}
			if c, ok := i.(*ssa.Call); ok && isCallTo(c, "builtin:close") && desc(callArgs(c)[0]) == "makechan" {
				okSig = true
			}
		})
		R.decide(rule, "keyproof.findSafePrime:stops-workers", "findSafePrime signals stop after taking its prime", okSig, "", P.Pos(fs.Pos()))
	}
}

func blockReaches(from, to *ssa.BasicBlock) bool {
	seen := map[*ssa.BasicBlock]bool{}
	work := append([]*ssa.BasicBlock(nil), from.Succs...)
	for len(work) > 0 {
		b := work[len(work)-1]
		work = work[:len(work)-1]
		if b == to {
			return true
		}
		if seen[b] {
			continue
		}
		seen[b] = true
		work = append(work, b.Succs...)
	}
	return false
}

func validateKeyRule(P *Program, R *Report, rule string) {
	fn := mustFunc(P, R, rule, "gabikeys.(*PrivateKey).Validate")
	if fn == nil {
		return
	}
	be := P.bigEval(fn)
	prv := "<gabikeys.PrivateKey>"
	for _, pr := range [][2]string{{"P", "PPrime"}, {"Q", "QPrime"}} {
		pr := pr
		mp(P, R, rule, FuncKey(fn)+":"+pr[0]+"-relation", "nil => ("+pr[0]+"-1)>>1 == "+pr[1], fn, AcceptNilErr(0), &MustPass{Match: func(a Atom) bool {
			x, y, ok := parseEq(a)
			if !ok {
				return false
			}
			bo, _ := a.V.(*ssa.BinOp)
			if bo == nil {
				return false
			}
			cmp, isC := stripConv(bo.X).(*ssa.Call)
			if !isC {
				return false
			}
			ts := be.at(cmp)
			if len(ts) != 2 {
				return false
			}
			w := termFn("Rsh", tsub(tsym(prv+"."+pr[0]), tconst(1)), tconst(1))
			_ = x
			_ = y
			return (ts[0].equal(w) && ts[1].equal(tsym(prv+"."+pr[1]))) || (ts[1].equal(w) && ts[0].equal(tsym(prv+"."+pr[1])))
		}})
		mp(P, R, rule, FuncKey(fn)+":"+pr[0]+"-safe-prime", "nil => ProbablySafePrime("+pr[0]+", k >= 40)", fn, AcceptNilErr(0), &MustPass{Match: func(a Atom) bool {
			c, ok := callAtom(a, True, "safeprime.ProbablySafePrime")
			if !ok || desc(callArgs(c)[0]) != prv+"."+pr[0] {
				return false
			}
			k, okk := constInt(callArgs(c)[1])
			return okk && k >= 40
		}})
	}
}

func canProveRule(P *Program, R *Report, rule string) {
	fn := mustFunc(P, R, rule, "keyproof.CanProve")
	if fn == nil {
		return
	}
	n := 0
	for _, c := range callsIn(fn) {
		if cc, ok := c.(*ssa.Call); ok && (bigMethod(cc) == "ProbablyPrime" || isCallTo(cc, "safeprime.ProbablySafePrime")) {
			n++
		}
	}
	R.decide(rule, "keyproof.CanProve:primality", "CanProve tests primality of the factors and their halves", n >= 2, fmt.Sprintf("%d primality tests", n), P.Pos(fn.Pos()))
	// true => BOTH factors passed the safe-prime test (the one derived from Pprime and the one derived from Qprime)
	for i, which := range []string{"P", "Q"} {
		arg := fmt.Sprintf("arg#%d", i)
		mp(P, R, rule, "keyproof.CanProve:safe-prime("+which+")", "true => the factor "+which+" = 2*"+which+"prime+1 passed ProbablySafePrime (k >= 20)", fn, AcceptTrue(0), &MustPass{Match: func(a Atom) bool {
			c, _ := callAndResult(a.V)
			if c == nil || a.Want != True || !isCallTo(c, "safeprime.ProbablySafePrime") || len(callArgs(c)) != 2 {
				return false
			}
			if k, ok := constInt(callArgs(c)[1]); !ok || k < 20 {
				return false
			}
			return dependsOn(P, callArgs(c)[0], func(d string) bool { return d == arg })
		}})
	}
	// count residue comparisons (Cmp against small constants) on accepting paths
	m := 0
	allInstrs(fn, func(i ssa.Instruction) {
		if c, ok := i.(*ssa.Call); ok && bigMethod(c) == "Cmp" {
			m++
		}
	})
	R.decide(rule, "keyproof.CanProve:residues", "CanProve compares residues modulo 8 of P, Q and their halves (the six conditions are decided one by one below)", m >= 1, fmt.Sprintf("%d comparisons", m), P.Pos(fn.Pos()))
	// the six residue conditions, each between the right pair: true => X mod 8 != 1 for X in {P, Q, P', Q'},
	// P mod 8 != Q mod 8 and P' mod 8 != Q' mod 8
	be := P.bigEval(fn)
	full := func(half string) Term { return tsum(tmul(tconst(2), tsym(half)), tconst(1)) }
	res := func(t Term) Term { return termFn("Mod", t, tconst(8)) }
	pp, qp := tsym("arg#0"), tsym("arg#1")
	conds := []struct {
		name string
		x, y Term
	}{
		{"P!=1", res(full("arg#0")), tconst(1)}, {"Q!=1", res(full("arg#1")), tconst(1)},
		{"P'!=1", res(pp), tconst(1)}, {"Q'!=1", res(qp), tconst(1)},
		{"P!=Q", res(full("arg#0")), res(full("arg#1"))}, {"P'!=Q'", res(pp), res(qp)},
	}
	var seenT []string
	tableRows, tableOK := pairTableLoop(P, fn, be)
	for _, cd := range conds {
		cd := cd
		// the same tests written as a loop over a table of pairs that must differ: every row is tested (full walk, the
		// loop rejects an equal pair) and the table has this pair
		if tableOK {
			found := false
			for _, row := range tableRows {
				if (row[0].equal(cd.x) && row[1].equal(cd.y)) || (row[0].equal(cd.y) && row[1].equal(cd.x)) {
					found = true
				}
			}
			if found {
				R.ok(rule, "keyproof.CanProve:residue("+cd.name+")", "true => the residues modulo 8 satisfy "+cd.name+" (row of the table of pairs that must differ)")
				continue
			}
		}
		mp(P, R, rule, "keyproof.CanProve:residue("+cd.name+")", "true => the residues modulo 8 satisfy "+cd.name, fn, AcceptTrue(0), &MustPass{Match: func(a Atom) bool {
			a = normAtom(a)
			bo, ok := a.V.(*ssa.BinOp)
			if !ok {
				return false
			}
			c, isC := stripConv(bo.X).(*ssa.Call)
			k, isK := constInt(bo.Y)
			if !isC || !isK || k != 0 || bigMethod(c) != "Cmp" {
				return false
			}
			rel := tokRel(bo.Op)
			if a.Want == False {
				rel = relNeg[rel]
			}
			if rel != "!=" {
				return false
			}
			ts := be.at(c)
			if len(ts) != 2 {
				return false
			}
			seenT = append(seenT, ts[0].String()+" != "+ts[1].String())
			return (ts[0].equal(cd.x) && ts[1].equal(cd.y)) || (ts[0].equal(cd.y) && ts[1].equal(cd.x))
		}})
	}
	_ = seenT
}

// disabledStub: in build configurations where generation is compiled out (android, ios) the function
// consists of an unconditional panic: it never returns, starts no goroutine and the clauses about
// what it returns hold vacuously. Recorded as its own obligation so that the evidence shows it.
func disabledStub(P *Program, R *Report, rule, key string, fn *ssa.Function) bool {
	if !strings.HasPrefix(P.Config, "android/") && !strings.HasPrefix(P.Config, "ios/") {
		return false // the build constraint of the stub: anywhere else generation must be real
	}
	if len(returnsOf(fn)) != 0 || len(fn.Blocks) != 1 {
		return false
	}
	if _, ok := fn.Blocks[0].Instrs[len(fn.Blocks[0].Instrs)-1].(*ssa.Panic); !ok {
		return false
	}
	for _, c := range callsIn(fn) {
		if _, isGo := c.(*ssa.Go); isGo {
			return false
		}
	}
	R.ok(rule, key+":disabled-in-this-configuration", "the function is an unconditional panic in "+P.Config+" (generation compiled out): nothing is returned, no goroutine is started")
	return true
}

// candidateSizeRule: safeprime.Generate decodes its candidate q from ceil((bitsize-1)/8) random bytes.
func candidateSizeRule(P *Program, R *Report, rule string, fn *ssa.Function) {
	okSize := false
	allInstrs(fn, func(i ssa.Instruction) {
		if ms, ok := i.(*ssa.MakeSlice); ok {
			if a, ok := affineOf(ms.Len); ok && (a.String() == "(arg#0+6)/8" || a.String() == "(6+arg#0)/8") {
				okSize = true
			}
		}
	})
	R.decide(rule, kSPGen+":candidate-size", "q is decoded from ceil((bitsize-1)/8) bytes", okSize, "", P.Pos(fn.Pos()))
}

// pairTableLoop: fn tests a table of pairs `[...][2]*big.Int{{a, b}, ...}` in a loop `for _, p := range table { if
// p[0].Cmp(p[1]) == 0 { return false } }` that walks the whole table and returns true only after it: the terms of
// the rows. ok is false if there is no such loop or anything about it is not exactly of this form.
func pairTableLoop(P *Program, fn *ssa.Function, be *BigEval) ([][2]Term, bool) {
	valueTerm := func(v ssa.Value) Term {
		if c, ok := v.(*ssa.Call); ok {
			if t, has := be.Ret[c]; has {
				return t
			}
			if isCallTo(c, "big.NewInt") {
				if k, isK := constInt(callArgs(c)[0]); isK {
					return tconst(k)
				}
			}
		}
		return termTop()
	}
	// the table: an array local whose rows are filled from two-element array literals
	var table *ssa.Alloc
	rows := map[int64][2]ssa.Value{}
	allInstrs(fn, func(i ssa.Instruction) {
		st, ok := i.(*ssa.Store)
		if !ok {
			return
		}
		ia, ok := st.Addr.(*ssa.IndexAddr)
		if !ok {
			return
		}
		al, ok := ia.X.(*ssa.Alloc)
		r, isK := constInt(ia.Index)
		ld, isLd := st.Val.(*ssa.UnOp)
		if !ok || !isK || !isLd {
			return
		}
		rowAl, isRow := ld.X.(*ssa.Alloc)
		if !isRow || !strings.HasPrefix(typeStr(rowAl.Type()), "*[2]") {
			return
		}
		var pair [2]ssa.Value
		for _, rr := range referrersOf(rowAl) {
			if ea, isEA := rr.(*ssa.IndexAddr); isEA {
				if c, isC := constInt(ea.Index); isC && (c == 0 || c == 1) {
					for _, r2 := range referrersOf(ea) {
						if es, isES := r2.(*ssa.Store); isES && es.Addr == ssa.Value(ea) {
							pair[c] = es.Val
						}
					}
				}
			}
		}
		if pair[0] == nil || pair[1] == nil {
			return
		}
		if table == nil || table == al {
			table = al
			rows[r] = pair
		}
	})
	if table == nil || len(rows) == 0 {
		return nil, false
	}
	// the loop: rangeindex phi from -1, bound = number of rows, body compares p[0] and p[1] of row i and rejects on equal
	for _, b := range fn.Blocks {
		l := findLoop(b)
		if l == nil || len(l.Latch) == 0 {
			continue
		}
		var bound int64 = -1
		for _, ins := range l.Header.Instrs {
			if bo, ok := ins.(*ssa.BinOp); ok && bo.Op == token.LSS {
				if add, isAdd := bo.X.(*ssa.BinOp); isAdd && add.Op == token.ADD {
					if ph, isPhi := add.X.(*ssa.Phi); isPhi && isInduction(ph) {
						if k, isK := constInt(bo.Y); isK {
							bound = k
						}
					}
				}
			}
		}
		if bound != int64(len(rows)) {
			continue
		}
		// the row read in the body comes from the table
		fromTable := false
		var cmp *ssa.Call
		for bb := range l.Body {
			for _, ins := range bb.Instrs {
				if ix, ok := ins.(*ssa.Index); ok {
					if ld, isLd := ix.X.(*ssa.UnOp); isLd && ld.X == ssa.Value(table) && desc(ix.Index) == inductionName(l.Header) {
						fromTable = true
					}
				}
				if c, ok := ins.(*ssa.Call); ok && bigMethod(c) == "Cmp" {
					cmp = c
				}
			}
		}
		if !fromTable || cmp == nil {
			continue
		}
		// p[0].Cmp(p[1]) on the loop's own row variable
		elemOf := func(v ssa.Value) int64 {
			ld, ok := v.(*ssa.UnOp)
			if !ok {
				return -1
			}
			ea, ok := ld.X.(*ssa.IndexAddr)
			if !ok {
				return -1
			}
			if _, isAl := ea.X.(*ssa.Alloc); !isAl {
				return -1
			}
			k, isK := constInt(ea.Index)
			if !isK {
				return -1
			}
			return k
		}
		e0, e1 := elemOf(callArgs(cmp)[0]), elemOf(callArgs(cmp)[1])
		if !((e0 == 0 && e1 == 1) || (e0 == 1 && e1 == 0)) {
			continue
		}
		// every iteration that goes on found the pair different, and true is returned only after the loop
		q := &MustPass{P: P, NoInterproc: true, Match: func(a Atom) bool {
			a = normAtom(a)
			bo, ok := a.V.(*ssa.BinOp)
			if !ok || stripConv(bo.X) != ssa.Value(cmp) {
				return false
			}
			k, isK := constInt(bo.Y)
			if !isK || k != 0 {
				return false
			}
			rel := tokRel(bo.Op)
			if a.Want == False {
				rel = relNeg[rel]
			}
			return rel == "!="
		}}
		if r := q.ForAllBody(fn, l, AcceptTrue(0), true); !r.Holds {
			continue
		}
		var out [][2]Term
		for _, pr := range rows {
			out = append(out, [2]Term{valueTerm(pr[0]), valueTerm(pr[1])})
		}
		return out, true
	}
	return nil, false
}
