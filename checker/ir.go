package main

import (
	"fmt"
	"go/constant"
	"go/token"
	"go/types"
	"sort"
	"strings"

	"golang.org/x/tools/go/ssa"
)

// ---- callee resolution -----------------------------------------------------

// staticCallee returns the statically resolved callee (function or method, incl. closures bound directly).
func staticCallee(c ssa.CallInstruction) *ssa.Function {
	if c == nil {
		return nil
	}
	cc := c.Common()
	if f := cc.StaticCallee(); f != nil {
		if o := f.Origin(); o != nil {
			return o
		}
		return f
	}
	// a method call on an interface-typed parameter of a helper that is examined on behalf of a call which passes a
	// value of a concrete type: that type's method
	if cc.IsInvoke() {
		if f, _ := devirtualised(cc); f != nil {
			return f
		}
		return nil
	}
	// a call through a function-valued parameter of a helper that is examined on behalf of a call which passes a
	// named function: that function
	if p, ok := cc.Value.(*ssa.Parameter); ok && !cc.IsInvoke() {
		switch b := paramBindV[p].(type) {
		case *ssa.Function:
			return b
		case *ssa.MakeClosure:
			if m, _ := boundMethod(b); m != nil {
				return m
			}
			f, _ := b.Fn.(*ssa.Function)
			return f
		}
	}
	return nil
}

var typeParamBind = map[*types.TypeParam]types.Type{}

// freshFieldValue: ld reads field f of a struct that this function allocates and only fills field by field and
// returns; f is assigned exactly once, in a block that dominates the read (or earlier in the same block): the value
// assigned. Containers only (maps, slices, pointers to module structs): what is read back is the container that the
// following statements fill, not a number.
func freshFieldValue(ld *ssa.UnOp) (ssa.Value, bool) {
	fa, ok := ld.X.(*ssa.FieldAddr)
	if !ok {
		return nil, false
	}
	al, ok := fa.X.(*ssa.Alloc)
	if !ok || !containerLike(ld.Type()) {
		return nil, false
	}
	store := singleFieldStore(al, fa.Field)
	if store == nil {
		return nil, false
	}
	sb, lb := store.Block(), ld.Block()
	if sb == lb {
		for _, ins := range sb.Instrs {
			if ins == ssa.Instruction(store) {
				return store.Val, true
			}
			if ins == ssa.Instruction(ld) {
				return nil, false
			}
		}
	}
	if sb.Dominates(lb) {
		return store.Val, true
	}
	return nil, false
}

// containerLike: maps, slices and pointers other than *big.Int.
func containerLike(t types.Type) bool {
	switch t.Underlying().(type) {
	case *types.Map, *types.Slice:
		return true
	case *types.Pointer:
		return !isBigIntPtr(t)
	}
	return false
}

// singleFieldStore: the one store into field f of the fresh struct al, when al is only filled field by field and
// returned (never copied, handed to a call or stored elsewhere); nil otherwise.
func singleFieldStore(al *ssa.Alloc, f int) *ssa.Store {
	var store *ssa.Store
	for _, r := range referrersOf(al) {
		switch u := r.(type) {
		case *ssa.FieldAddr:
			if u.Field != f {
				continue
			}
			for _, rr := range referrersOf(u) {
				switch w := rr.(type) {
				case *ssa.Store:
					if w.Addr != ssa.Value(u) || store != nil {
						return nil
					}
					store = w
				case *ssa.UnOp, *ssa.DebugRef:
				default:
					return nil // the field's address goes elsewhere
				}
			}
		case *ssa.Return, *ssa.DebugRef:
		case *ssa.MakeInterface:
			for _, rr := range referrersOf(u) {
				if _, isRet := rr.(*ssa.Return); !isRet {
					if _, isDbg := rr.(*ssa.DebugRef); !isDbg {
						return nil
					}
				}
			}
		default:
			return nil // assigned as a whole, handed to a call or stored somewhere before it is complete
		}
	}
	return store
}

// helperFieldValue: ld reads field f of the struct an unexported helper of the module made, filled once and
// returned (`m, err := newMaterial(); ... m.key`): the value the helper put there.
func helperFieldValue(ld *ssa.UnOp, depth int) (ssa.Value, bool) {
	fa, ok := ld.X.(*ssa.FieldAddr)
	if !ok || !(containerLike(ld.Type()) || isStringType(ld.Type())) {
		return nil, false
	}
	if _, direct := fa.X.(*ssa.Alloc); direct {
		return nil, false
	}
	al, ok := originD(fa.X, depth+1).(*ssa.Alloc)
	if !ok || al.Parent() == ld.Parent() || !al.Heap {
		return nil, false
	}
	if g := al.Parent(); g.Object() == nil || g.Object().Exported() || g.Parent() != nil {
		return nil, false
	}
	if st := singleFieldStore(al, fa.Field); st != nil {
		return st.Val, true
	}
	return nil, false
}

// descO: desc of what v originates from (see origin), looking through fields of helper-made structs.
func descO(v ssa.Value) string {
	if fa, ok := v.(*ssa.FieldAddr); ok {
		_, _, name := ownerFieldBase(fa)
		return descO(fa.X) + "." + name
	}
	if _, isLoad := v.(*ssa.UnOp); isLoad {
		if o := origin(v); o != v && o != nil {
			return desc(o)
		}
	}
	return desc(v)
}

// virtualParamDesc: a field of a parameter object is the reference tree's plain parameter: "arg#h", or - when the
// function is examined on behalf of a call - what the call site put into that field.
func virtualParamDesc(v ssa.Value, depth int) (string, bool) {
	if c, h, ok := bundledResult(v); ok {
		return fmt.Sprintf("%s#%d", descD(c, depth+1), h), true
	}
	_, h, p, ok := virtualParam(v)
	if !ok {
		return "", false
	}
	if bv, bound := paramBindV[p]; bound && bv != nil {
		field := -1
		switch x := v.(type) {
		case *ssa.Field:
			field = x.Field
		case *ssa.FieldAddr:
			field = x.Field
		}
		if fv := structFieldValue(bv, field); fv != nil {
			return descD(fv, depth+1), true
		}
	}
	return fmt.Sprintf("arg#%d", h), true
}

// freshContainerHelper: a call to an unexported function of the module whose only result is, on every return, one
// map it made itself ("makemap"); "" otherwise. What the helper puts into the map is the caller rule's business
// (it reaches the writes through the helper, with the parameters bound).
func freshContainerHelper(c *ssa.Call) string {
	g := staticCallee(c)
	if g == nil || !inModuleFn(g) || g.Blocks == nil || g.Parent() != nil || g.Object() == nil || g.Object().Exported() || g.Signature.Results().Len() != 1 {
		return ""
	}
	if _, isMap := g.Signature.Results().At(0).Type().Underlying().(*types.Map); !isMap {
		return ""
	}
	var mk ssa.Value
	for _, r := range returnsOf(g) {
		m, ok := retValue(r, 0).(*ssa.MakeMap)
		if !ok || (mk != nil && mk != ssa.Value(m)) {
			return ""
		}
		mk = m
	}
	if mk == nil {
		return ""
	}
	return "makemap"
}

// boundMethod: a method value `x.m` (go/ssa: a closure over the synthetic wrapper m$bound capturing x) is the
// method m applied to x.
func boundMethod(mc *ssa.MakeClosure) (*ssa.Function, ssa.Value) {
	f, _ := mc.Fn.(*ssa.Function)
	if f == nil || !strings.HasPrefix(f.Synthetic, "bound method wrapper") || len(mc.Bindings) != 1 || f.Prog == nil {
		return nil, nil
	}
	obj, _ := f.Object().(*types.Func)
	if obj == nil {
		return nil, nil
	}
	m := f.Prog.FuncValue(obj)
	if m == nil {
		return nil, nil
	}
	if o := m.Origin(); o != nil {
		m = o
	}
	return m, mc.Bindings[0]
}

// devirtualised resolves an interface method call whose receiver is (bound to) a freshly boxed concrete value;
// it returns the concrete method and the concrete receiver value.
func devirtualised(cc *ssa.CallCommon) (*ssa.Function, ssa.Value) {
	v := cc.Value
	for k := 0; k < 6; k++ {
		switch x := v.(type) {
		case *ssa.Parameter:
			b, ok := paramBindV[x]
			if !ok || b == nil {
				return nil, nil
			}
			v = b
			continue
		case *ssa.ChangeInterface:
			v = x.X
			continue
		case *ssa.MakeInterface:
			fn := cc.Value.Parent()
			if fn == nil {
				if i, ok := cc.Value.(ssa.Instruction); ok {
					fn = i.Parent()
				}
			}
			if fn == nil || fn.Prog == nil || cc.Method == nil {
				return nil, nil
			}
			m := fn.Prog.LookupMethod(x.X.Type(), cc.Method.Pkg(), cc.Method.Name())
			if m == nil {
				return nil, nil
			}
			if o := m.Origin(); o != nil {
				m = o
			}
			return m, x.X
		}
		break
	}
	return nil, nil
}

// callArgs: the arguments of a call in the callee's parameter order (receiver first for methods), also for a
// devirtualised interface call (an unresolved interface call keeps its plain argument list).
func callArgs(c ssa.CallInstruction) []ssa.Value {
	args := callArgsRaw(c)
	if len(paramPerm) > 0 {
		if f := c.Common().StaticCallee(); f != nil {
			if o := f.Origin(); o != nil {
				f = o
			}
			if perm := paramPerm[f]; perm != nil {
				out := make([]ssa.Value, len(perm))
				ok := true
				for h, vp := range perm {
					if vp.cur >= len(args) {
						ok = false
						break
					}
					out[h] = args[vp.cur]
					if vp.field >= 0 {
						// a parameter object built at the call site: the value given to that field
						out[h] = structFieldValue(args[vp.cur], vp.field)
						if out[h] == nil {
							ok = false
							break
						}
					}
				}
				if ok {
					return out
				}
			}
		}
	}
	return args
}

func callArgsRaw(c ssa.CallInstruction) []ssa.Value {
	cc := c.Common()
	if p, ok := cc.Value.(*ssa.Parameter); ok && !cc.IsInvoke() {
		if mc, isMC := paramBindV[p].(*ssa.MakeClosure); isMC {
			if m, recv := boundMethod(mc); m != nil {
				return append([]ssa.Value{recv}, cc.Args...)
			}
		}
	}
	if cc.IsInvoke() {
		if f, recv := devirtualised(cc); f != nil {
			return append([]ssa.Value{recv}, cc.Args...)
		}
	}
	return cc.Args
}

// callees returns all possible callees (static or via the VTA call graph).
func (P *Program) callees(c ssa.CallInstruction) []*ssa.Function {
	if f := staticCallee(c); f != nil {
		return []*ssa.Function{f}
	}
	if fs := localFuncSliceCallees(c); fs != nil {
		return fs
	}
	out := append([]*ssa.Function(nil), P.calleesOf[c]...)
	sort.Slice(out, func(i, j int) bool { return FuncKey(out[i]) < FuncKey(out[j]) })
	return out
}

// localFuncSliceCallees refines the call graph for the "todo list" idiom: a call of an element of a
// local slice of functions (possibly captured by reference in a closure) whose only writes are
// `cell = append(cell, closure...)` in the declaring function. VTA models slice elements per type and
// would merge all such lists of the package. Returns nil when the idiom is not recognised.
func localFuncSliceCallees(c ssa.CallInstruction) []*ssa.Function {
	cc := c.Common()
	if cc.IsInvoke() {
		return nil
	}
	ld, ok := cc.Value.(*ssa.UnOp)
	if !ok || ld.Op != token.MUL {
		return nil
	}
	ia, ok := ld.X.(*ssa.IndexAddr)
	if !ok {
		return nil
	}
	sl, ok := ia.X.(*ssa.UnOp)
	if !ok || sl.Op != token.MUL {
		return nil
	}
	cell := resolveCell(sl.X)
	if cell == nil {
		return nil
	}
	var out []*ssa.Function
	okAll := true
	var checkUses func(v ssa.Value, fn *ssa.Function)
	checkUses = func(v ssa.Value, fn *ssa.Function) {
		for _, r := range referrersOf(v) {
			switch u := r.(type) {
			case *ssa.UnOp:
				if u.Op != token.MUL {
					okAll = false
				}
			case *ssa.Store:
				if u.Addr != v {
					okAll = false
					continue
				}
				if k, isK := u.Val.(*ssa.Const); isK && k.IsNil() {
					continue
				}
				ap, isCall := u.Val.(*ssa.Call)
				if !isCall || !isCallTo(ap, "builtin:append") {
					okAll = false
					continue
				}
				if b, isLd := callArgs(ap)[0].(*ssa.UnOp); !isLd || b.X != v {
					okAll = false
					continue
				}
				s, isS := callArgs(ap)[1].(*ssa.Slice)
				if !isS {
					okAll = false
					continue
				}
				arr, isA := s.X.(*ssa.Alloc)
				if !isA {
					okAll = false
					continue
				}
				for _, ar := range referrersOf(arr) {
					if ix, isIx := ar.(*ssa.IndexAddr); isIx {
						for _, sr := range referrersOf(ix) {
							if st, isSt := sr.(*ssa.Store); isSt {
								switch f := st.Val.(type) {
								case *ssa.MakeClosure:
									out = append(out, f.Fn.(*ssa.Function))
								case *ssa.Function:
									out = append(out, f)
								default:
									okAll = false
								}
							}
						}
					}
				}
			case *ssa.MakeClosure:
				cf := u.Fn.(*ssa.Function)
				for k, b := range u.Bindings {
					if b == v && k < len(cf.FreeVars) {
						checkUses(cf.FreeVars[k], cf)
					}
				}
			case *ssa.DebugRef:
			default:
				okAll = false
			}
		}
	}
	checkUses(cell, cell.Parent())
	if !okAll || len(out) == 0 {
		return nil
	}
	sort.Slice(out, func(i, j int) bool { return FuncKey(out[i]) < FuncKey(out[j]) })
	return out
}

// resolveCell follows a captured variable to the Alloc in the declaring function.
func resolveCell(v ssa.Value) *ssa.Alloc {
	for depth := 0; depth < 6; depth++ {
		switch x := v.(type) {
		case *ssa.Alloc:
			return x
		case *ssa.FreeVar:
			fn := x.Parent()
			par := fn.Parent()
			if par == nil {
				return nil
			}
			idx := -1
			for k, fv := range fn.FreeVars {
				if fv == x {
					idx = k
				}
			}
			var next ssa.Value
			n := 0
			allInstrs(par, func(i ssa.Instruction) {
				if mc, ok := i.(*ssa.MakeClosure); ok && mc.Fn == ssa.Value(fn) && idx >= 0 && idx < len(mc.Bindings) {
					next = mc.Bindings[idx]
					n++
				}
			})
			if n != 1 {
				return nil
			}
			v = next
		default:
			return nil
		}
	}
	return nil
}

// calleeName returns a printable name of the callee: module functions by FuncKey,
// others as "pkgpath.Name" or "(recv).Name"; interface invokes as "invoke:Iface.Method".
func calleeName(c ssa.CallInstruction) string {
	cc := c.Common()
	if cc.IsInvoke() {
		if f := staticCallee(c); f != nil {
			return extFuncName(f)
		}
		return "invoke:" + typeShort(cc.Value.Type()) + "." + cc.Method.Name()
	}
	if f := staticCallee(c); f != nil {
		return extFuncName(f)
	}
	if b, ok := cc.Value.(*ssa.Builtin); ok {
		return "builtin:" + b.Name()
	}
	return "dynamic"
}

func extFuncName(f *ssa.Function) string {
	var pk *types.Package
	if f.Pkg != nil {
		pk = f.Pkg.Pkg
	} else if f.Object() != nil {
		pk = f.Object().Pkg()
	}
	if inModule(pk) || f.Parent() != nil {
		return FuncKey(f)
	}
	if recv := f.Signature.Recv(); recv != nil {
		return "(" + typeShort(recv.Type()) + ")." + f.Name()
	}
	if pk != nil {
		return pk.Path() + "." + f.Name()
	}
	return f.Name()
}

// typeShort renders a type with short package names for module types.
func typeShort(t types.Type) string {
	return aliasTypeNames(types.TypeString(t, func(p *types.Package) string {
		if inModule(p) {
			return shortPkg(p.Path())
		}
		return p.Path()
	}))
}

// isCallTo reports whether instr is a call whose callee name (see calleeName) equals one of names.
func isCallTo(v any, names ...string) bool {
	c, ok := v.(ssa.CallInstruction)
	if !ok {
		return false
	}
	n := calleeName(c)
	for _, x := range names {
		if sameFn(n, x) {
			return true
		}
	}
	return false
}

// calleeIs: the call's callee has the given key (up to the shape of an unexported helper, see sameFn).
func calleeIs(c ssa.CallInstruction, key string) bool { return sameFn(calleeName(c), key) }

// bigMethod returns the method name if c is a call to a method of gabi/big.Int or math/big.Int, else "".
func bigMethod(c ssa.CallInstruction) string {
	f := staticCallee(c)
	if f == nil || f.Signature.Recv() == nil {
		return ""
	}
	t := f.Signature.Recv().Type()
	if p, ok := t.(*types.Pointer); ok {
		t = p.Elem()
	}
	n, ok := t.(*types.Named)
	if !ok || n.Obj().Name() != "Int" || n.Obj().Pkg() == nil {
		return ""
	}
	pp := n.Obj().Pkg().Path()
	if pp == modPath+"/big" || pp == "math/big" {
		return f.Name()
	}
	return ""
}

// isBigIntPtr reports whether t is *big.Int (gabi or math).
func isBigIntPtr(t types.Type) bool {
	p, ok := t.(*types.Pointer)
	if !ok {
		return false
	}
	n, ok := p.Elem().(*types.Named)
	if !ok || n.Obj().Name() != "Int" || n.Obj().Pkg() == nil {
		return false
	}
	pp := n.Obj().Pkg().Path()
	return pp == modPath+"/big" || pp == "math/big"
}

// bigMutators: methods that write their receiver and return it.
var bigMutators = map[string]bool{
	"Set": true, "SetInt64": true, "SetUint64": true, "SetBytes": true, "SetBit": true, "SetBits": true, "SetString": true,
	"Add": true, "Sub": true, "Mul": true, "Div": true, "Mod": true, "Quo": true, "Rem": true, "Neg": true, "Abs": true,
	"Lsh": true, "Rsh": true, "Exp": true, "ModInverse": true, "GCD": true, "Sqrt": true, "ModSqrt": true, "And": true, "Or": true, "Xor": true, "Not": true,
	"AndNot": true, "Rand": true, "MulRange": true, "Binomial": true, "DivMod": true, "QuoRem": true,
	"UnmarshalJSON": true, "UnmarshalXML": true, "UnmarshalBinary": true, "UnmarshalText": true,
}

// ---- value descriptors -------------------------------------------------------

func stripConv(v ssa.Value) ssa.Value {
	for {
		switch x := v.(type) {
		case *ssa.ChangeType:
			v = x.X
		case *ssa.Convert:
			v = x.X
		case *ssa.ChangeInterface:
			v = x.X
		case *ssa.MakeInterface:
			v = x.X
		default:
			return v
		}
	}
}

func namedOf(t types.Type) *types.Named {
	for {
		switch x := t.(type) {
		case *types.Pointer:
			t = x.Elem()
		case *types.Named:
			return canonNamed(x)
		default:
			return nil
		}
	}
}

var canonCache = map[*types.Named]*types.Named{}

// canonNamed maps an unexported struct type declared as `type t T` (same underlying struct as an exported
// type T of the same package - the repository's idiom for hiding interface methods) to T.
func canonNamed(n *types.Named) *types.Named {
	if c, ok := canonCache[n]; ok {
		return c
	}
	res := n
	if n.Obj().Pkg() != nil && !n.Obj().Exported() && inModule(n.Obj().Pkg()) && n.TypeParams().Len() == 0 {
		if _, isStruct := n.Underlying().(*types.Struct); isStruct {
			sc := n.Obj().Pkg().Scope()
			for _, name := range sc.Names() {
				tn, ok := sc.Lookup(name).(*types.TypeName)
				if !ok || !tn.Exported() || tn.IsAlias() {
					continue
				}
				m, ok := tn.Type().(*types.Named)
				if !ok || m == n || m.TypeParams().Len() != 0 {
					continue
				}
				nm := n.Obj().Name()
				if a, ok := typeNameAlias[shortPkg(n.Obj().Pkg().Path())+"."+nm]; ok {
					nm = a[strings.Index(a, ".")+1:] // (renamed: its reference name)
				}
				if types.Identical(m.Underlying(), n.Underlying()) && strings.EqualFold(m.Obj().Name(), nm) {
					res = m
				}
			}
		}
	}
	canonCache[n] = res
	return res
}

// descReroot: when set, access paths restart at every pointer to a named struct ("<T>.field"), so that
// facts established inside a method of T match uses through a containing object.
var descReroot = false

func rerootBase(x ssa.Value) (string, bool) {
	if !descReroot {
		return "", false
	}
	if _, isParam := x.(*ssa.Parameter); isParam {
		return "", false
	}
	pt, ok := x.Type().(*types.Pointer)
	if !ok {
		return "", false
	}
	n, ok := pt.Elem().(*types.Named)
	if !ok || n.Obj().Pkg() == nil || !inModule(n.Obj().Pkg()) {
		return "", false
	}
	if _, isStruct := n.Underlying().(*types.Struct); !isStruct {
		return "", false
	}
	if _, isAlloc := x.(*ssa.Alloc); isAlloc {
		return "", false
	}
	if _, isElem := x.(*ssa.IndexAddr); isElem {
		return "", false // an element of a slice of struct values: named like its range copy, through the slice
	}
	return "<" + typeShort(canonNamed(n)) + ">", true
}

func fieldName(t types.Type, idx int) string {
	for {
		switch x := t.(type) {
		case *types.Pointer:
			t = x.Elem()
			continue
		case *types.Named:
			t = x.Underlying()
			continue
		}
		break
	}
	if st, ok := t.(*types.Struct); ok && idx < st.NumFields() {
		return st.Field(idx).Name()
	}
	return fmt.Sprintf("#%d", idx)
}

// paramIndex returns the index of p among its function's params (receiver = 0 for methods).
func paramIndex(p *ssa.Parameter) int {
	for i, q := range p.Parent().Params {
		if q == p {
			if perm := paramPerm[p.Parent()]; perm != nil {
				for h, vp := range perm {
					if vp.cur == i && vp.field < 0 {
						return h
					}
				}
			}
			return i
		}
	}
	return -1
}

// desc renders a canonical access-path descriptor of a value. Roots of named struct
// types are rendered by type ("<gabi.ProofD>"), other parameters by position ("arg#2"),
// so that renaming locals or parameters does not change descriptors.
func desc(v ssa.Value) string { return descD(v, 0) }

func descD(v ssa.Value, depth int) string {
	if depth > 40 {
		return "…"
	}
	switch x := v.(type) {
	case nil:
		return "<nil>"
	case *ssa.Parameter:
		if n := namedOf(x.Type()); n != nil && !isBigIntPtr(x.Type()) {
			if _, ok := n.Underlying().(*types.Struct); ok {
				if b, ok := paramBind[x]; ok && bindStructParams && strings.HasPrefix(b, "call:") {
					return b // the object a call in the caller produced keeps that identity in a helper
				}
				if b, ok := paramBind[x]; ok && bindFreshObjects && strings.HasPrefix(b, "new:") && !strings.ContainsAny(b[4:], "[") && b == "new:"+typeShort(n) {
					return b // the object the caller is constructing keeps that identity in a helper it is handed to
				}
				return "<" + typeShort(n) + ">"
			}
		}
		if b, ok := paramBind[x]; ok {
			return b // only plain parameters are translated; objects of module struct types stay type-rooted
		}
		return fmt.Sprintf("arg#%d", paramIndex(x))
	case *ssa.FreeVar:
		// a captured object of a module struct type is the same object inside the closure: type-rooted like a parameter
		if pt, ok := x.Type().(*types.Pointer); ok {
			if n := namedOf(pt.Elem()); n != nil && !isBigIntPtr(pt.Elem()) {
				if _, ok := n.Underlying().(*types.Struct); ok {
					if _, isPtr := pt.Elem().(*types.Pointer); isPtr {
						return "<" + typeShort(n) + ">"
					}
				}
			}
		}
		return "free:" + x.Name()
	case *ssa.Const:
		if x.Value == nil {
			return "nil"
		}
		return x.Value.ExactString()
	case *ssa.Global:
		pk := ""
		if x.Pkg != nil {
			pk = shortPkg(x.Pkg.Pkg.Path())
		}
		return "global:" + pk + "." + globalName(x)
	case *ssa.FieldAddr:
		if d, ok := virtualParamDesc(x, depth); ok {
			return d
		}
		if fv := boundStructField(x); fv != nil {
			return descD(fv, depth+1)
		}
		if rec, key, ok := recordEntry(x); ok {
			return descD(rec, depth+1) + "[\"" + key + "\"]"
		}
		base, _, name := ownerFieldBase(x)
		if b, ok := rerootBase(base); ok {
			return b + "." + name
		}
		return descD(base, depth+1) + "." + name
	case *ssa.Field:
		if d, ok := virtualParamDesc(x, depth); ok {
			return d
		}
		if fv := boundStructField(x); fv != nil {
			return descD(fv, depth+1)
		}
		return descD(x.X, depth+1) + "." + refFieldName(typeKey(x.X.Type()), fieldName(x.X.Type(), x.Field))
	case *ssa.UnOp:
		switch x.Op {
		case token.MUL:
			// a load of a variable that lives in a heap cell only because a closure captures it, and that never
			// changes: the value itself (plain values only; objects keep their type-rooted names)
			if !isPointerLike(x.Type()) {
				switch c := x.X.(type) {
				case *ssa.Alloc:
					if v, ok := cellValueAt(c, x); ok {
						if _, isParam := v.(*ssa.Parameter); isParam {
							return descD(v, depth+1)
						}
					}
				case *ssa.FreeVar:
					if v, ok := capturedValue(c); ok {
						if _, isParam := v.(*ssa.Parameter); isParam {
							return descD(v, depth+1)
						}
					}
				}
			}
			return descD(x.X, depth+1)
		case token.NOT:
			return "!" + descD(x.X, depth+1)
		case token.SUB:
			return "-" + descD(x.X, depth+1)
		case token.ARROW:
			return "recv(" + descD(x.X, depth+1) + ")"
		}
		return x.Op.String() + descD(x.X, depth+1)
	case *ssa.IndexAddr:
		return descD(x.X, depth+1) + "[" + descD(x.Index, depth+1) + "]"
	case *ssa.Index:
		return descD(x.X, depth+1) + "[" + descD(x.Index, depth+1) + "]"
	case *ssa.Lookup:
		xd, id := descD(x.X, depth+1), descD(x.Index, depth+1)
		if id == "rangekey("+xd+")" {
			return xd + "[*]" // the map's value under its own range key is the range value
		}
		return xd + "[" + id + "]"
	case *ssa.Slice:
		s := descD(x.X, depth+1) + "["
		if x.Low != nil {
			s += descD(x.Low, depth+1)
		}
		s += ":"
		if x.High != nil {
			s += descD(x.High, depth+1)
		}
		return s + "]"
	case *ssa.Extract:
		if c, ok := x.Tuple.(*ssa.Call); ok {
			if d, ok := computedIntResult(c, x.Index, depth); ok {
				return d
			}
			if d, ok := forwardedResult(c, x.Index, depth); ok {
				return d
			}
		}
		if nx, ok := x.Tuple.(*ssa.Next); ok {
			if r, ok := nx.Iter.(*ssa.Range); ok {
				switch x.Index {
				case 0:
					return "rangeok(" + descD(r.X, depth+1) + ")"
				case 1:
					return "rangekey(" + descD(r.X, depth+1) + ")"
				default:
					return descD(r.X, depth+1) + "[*]"
				}
			}
		}
		if lk, ok := x.Tuple.(*ssa.Lookup); ok {
			if x.Index == 0 {
				return descD(lk, depth+1)
			}
			return "has(" + descD(lk, depth+1) + ")"
		}
		if ta, ok := x.Tuple.(*ssa.TypeAssert); ok {
			if x.Index == 0 {
				return descD(ta.X, depth+1)
			}
			return "isType(" + descD(ta.X, depth+1) + "," + typeShort(ta.AssertedType) + ")"
		}
		if c, ok := x.Tuple.(*ssa.Call); ok {
			return fmt.Sprintf("%s#%d", descD(x.Tuple, depth+1), refResultIndex(c, x.Index))
		}
		return fmt.Sprintf("%s#%d", descD(x.Tuple, depth+1), x.Index)
	case *ssa.Call:
		if m := bigMethod(x); m != "" && bigMutators[m] && len(callArgs(x)) > 0 {
			// returns its receiver
			return descD(callArgs(x)[0], depth+1)
		}
		name := calleeName(x)
		if name == "builtin:len" || name == "builtin:cap" {
			return "len(" + descD(callArgs(x)[0], depth+1) + ")"
		}
		if m := sortedKeysOf(x); m != nil {
			return "makeslice" // slices.Sorted(maps.Keys(m)): a locally built (sorted) list of m's keys
		}
		if k := freshContainerHelper(x); k != "" {
			return k // an unexported helper that builds and returns a new map: a map built in this call
		}
		if x.Call.Signature().Results().Len() == 1 {
			if d, ok := computedIntResult(x, 0, depth); ok {
				return d
			}
		}
		var args []string
		if x.Call.IsInvoke() && len(callArgs(x)) == len(x.Call.Args) {
			args = append(args, descD(x.Call.Value, depth+1))
		}
		for _, a := range callArgs(x) {
			args = append(args, descD(a, depth+1))
		}
		return "call:" + name + "(" + strings.Join(args, ",") + ")"
	case *ssa.Phi:
		if isInduction(x) {
			return inductionName(x.Block())
		}
		if c, ok := countedFrom(x); ok {
			return fmt.Sprintf("%s(from %d)", inductionName(x.Block()), c) // a walk that skips the first elements
		}
		// leaves through phis (and through append, which extends its first argument): stable under nesting
		leaves := map[string]bool{}
		seenV := map[ssa.Value]bool{}
		var walk func(v ssa.Value)
		walk = func(v ssa.Value) {
			if seenV[v] {
				return
			}
			seenV[v] = true
			switch y := v.(type) {
			case *ssa.Phi:
				if isInduction(y) {
					leaves[inductionName(y.Block())] = true
					return
				}
				for _, e := range y.Edges {
					walk(e)
				}
			case *ssa.Call:
				if isCallTo(y, "builtin:append") {
					walk(callArgs(y)[0])
					return
				}
				leaves[descD(y, depth+2)] = true
			default:
				leaves[descD(v, depth+2)] = true
			}
		}
		walk(x)
		es := sortedKeys(leaves)
		if len(es) == 1 {
			return es[0]
		}
		return "phi(" + strings.Join(es, "|") + ")"
	case *ssa.Alloc:
		// a local that merely holds a copy of a value (spilled parameter, range element copy): transparent
		if !x.Heap || true {
			var whole []ssa.Value
			for _, r := range referrersOf(x) {
				if st, ok := r.(*ssa.Store); ok && st.Addr == ssa.Value(x) {
					whole = append(whole, st.Val)
				}
			}
			if len(whole) == 1 {
				et := x.Type().(*types.Pointer).Elem()
				_, isStruct := et.Underlying().(*types.Struct)
				if pe, isPtr := et.(*types.Pointer); isPtr && !isBigIntPtr(et) {
					// the cell of a captured parameter holding a pointer to a module struct
					if n := namedOf(pe); n != nil {
						if _, ok := n.Underlying().(*types.Struct); ok {
							if _, isParam := whole[0].(*ssa.Parameter); isParam {
								isStruct = true
							}
						}
					}
				}
				if isStruct {
					switch w := whole[0].(type) {
					case *ssa.Parameter, *ssa.Extract, *ssa.Field, *ssa.Index, *ssa.Lookup:
						return descD(whole[0], depth+1)
					case *ssa.UnOp:
						// copy of a slice/array element (range value); a copy of *ptrParam stays a distinct object
						if _, isElem := w.X.(*ssa.IndexAddr); isElem {
							return descD(whole[0], depth+1)
						}
					}
				}
			}
		}
		// a nested struct literal (`Outer{inner: Inner{f: v}}`): go/ssa fills a local Inner and copies it once into
		// the outer object's field - the local's fields are that field's fields
		if dst := nestedLiteralDest(x); dst != nil {
			return descD(dst, depth+1)
		}
		et := x.Type().(*types.Pointer).Elem()
		if tp, ok := et.(*types.TypeParam); ok {
			if b, bound := typeParamBind[tp]; bound {
				et = b
			}
		}
		if n, ok := et.(*types.Named); ok {
			et = canonNamed(n)
		}
		return "new:" + typeShort(et)
	case *ssa.MakeInterface:
		return descD(x.X, depth+1)
	case *ssa.ChangeType:
		return descD(x.X, depth+1)
	case *ssa.ChangeInterface:
		return descD(x.X, depth+1)
	case *ssa.Convert:
		return descD(x.X, depth+1)
	case *ssa.BinOp:
		if ph, ok := x.X.(*ssa.Phi); ok && x.Op == token.ADD && ph.Comment == "rangeindex" && isInduction(ph) {
			if c, ok := constInt(x.Y); ok && c == 1 {
				return inductionName(ph.Block())
			}
		}
		return "(" + descD(x.X, depth+1) + x.Op.String() + descD(x.Y, depth+1) + ")"
	case *ssa.MakeMap:
		return "makemap"
	case *ssa.MakeSlice:
		return "makeslice"
	case *ssa.MakeChan:
		return "makechan"
	case *ssa.MakeClosure:
		return "closure:" + FuncKey(x.Fn.(*ssa.Function))
	case *ssa.Function:
		return "func:" + FuncKey(x)
	case *ssa.TypeAssert:
		return descD(x.X, depth+1)
	case *ssa.Next:
		return "next(" + descD(x.Iter, depth+1) + ")"
	case *ssa.Range:
		return "range(" + descD(x.X, depth+1) + ")"
	}
	return fmt.Sprintf("%T", v)
}

// nestedLiteralDest: x is a local struct filled field by field and read exactly once as a whole, that read being
// stored into a field address; returns that address.
func nestedLiteralDest(x *ssa.Alloc) ssa.Value {
	if x.Heap || x.Comment != "complit" {
		return nil
	}
	if _, ok := x.Type().(*types.Pointer).Elem().Underlying().(*types.Struct); !ok {
		return nil
	}
	var load *ssa.UnOp
	for _, r := range referrersOf(x) {
		switch u := r.(type) {
		case *ssa.FieldAddr:
		case *ssa.UnOp:
			if u.Op != token.MUL || load != nil {
				return nil
			}
			load = u
		case *ssa.DebugRef:
		default:
			return nil
		}
	}
	if load == nil {
		return nil
	}
	var dst ssa.Value
	for _, r := range referrersOf(load) {
		st, ok := r.(*ssa.Store)
		if !ok || st.Val != ssa.Value(load) || dst != nil {
			if _, isDbg := r.(*ssa.DebugRef); isDbg {
				continue
			}
			return nil
		}
		if _, isFA := st.Addr.(*ssa.FieldAddr); !isFA {
			return nil
		}
		dst = st.Addr
	}
	return dst
}

// constInt returns the int64 value of an integer constant.
func constInt(v ssa.Value) (int64, bool) {
	c, ok := stripConv(v).(*ssa.Const)
	if !ok || c.Value == nil || c.Value.Kind() != constant.Int {
		return 0, false
	}
	return c.Int64(), true
}

func isNilConst(v ssa.Value) bool {
	c, ok := v.(*ssa.Const)
	return ok && c.Value == nil
}

func boolConst(v ssa.Value) (bool, bool) {
	c, ok := v.(*ssa.Const)
	if !ok || c.Value == nil || c.Value.Kind() != constant.Bool {
		return false, false
	}
	return constant.BoolVal(c.Value), true
}

// ---- data dependence ---------------------------------------------------------

// DepOpts configures the backward data-dependence closure.
type DepOpts struct {
	P *Program
	// follow module-internal callees' return values back to their operands (bounded)
	Interproc bool
	Depth     int
}

// deps computes the backward data-dependence closure of v inside its function:
// operands through loads, fields, lookups, phis, arithmetic, conversions, calls
// (arguments), and - for pointers to mutable objects (big.Int, slices, maps, structs) -
// every value stored into / mutating call made on the same pointer (flow-insensitive,
// which over-approximates dependence).
func deps(P *Program, v ssa.Value) map[ssa.Value]bool {
	seen := map[ssa.Value]bool{}
	var work []ssa.Value
	push := func(x ssa.Value) {
		if x == nil || seen[x] {
			return
		}
		seen[x] = true
		work = append(work, x)
	}
	push(v)
	for len(work) > 0 {
		x := work[len(work)-1]
		work = work[:len(work)-1]
		// operands
		if ins, ok := x.(ssa.Instruction); ok {
			for _, op := range ins.Operands(nil) {
				if *op != nil {
					push(*op)
				}
			}
		}
		// writers through this pointer/aggregate: stores, mutating calls, appends, map updates
		if refs := referrersOf(x); refs != nil {
			for _, r := range refs {
				switch w := r.(type) {
				case *ssa.Store:
					if w.Addr == x {
						push(w.Val)
					}
				case *ssa.MapUpdate:
					if w.Map == x {
						push(w.Key)
						push(w.Value)
					}
				case *ssa.Call:
					if m := bigMethod(w); m != "" && bigMutators[m] && len(callArgs(w)) > 0 && callArgs(w)[0] == x {
						for _, a := range callArgs(w)[1:] {
							push(a)
						}
						push(w) // the result is the same object: `q.Mul(q, r).Mul(q, s)` goes on writing it
					}
					// copy(dst, src)
					if isCallTo(w, "builtin:copy") && callArgs(w)[0] == x {
						push(callArgs(w)[1])
					}
					// byte-order encoders write their value argument into the buffer: PutUint64(buf, v)
					if strings.Contains(calleeName(w), ".PutUint") {
						for _, a := range callArgs(w) {
							if a != x {
								push(a)
							}
						}
					}
					// out-parameter idiom of the zkproof lookups: bases.Exp(ret, name, exp, n)
					if w.Call.IsInvoke() && w.Call.Method.Name() == "Exp" && len(callArgs(w)) == 4 && callArgs(w)[0] == x {
						push(w.Call.Value)
						for _, a := range callArgs(w)[1:] {
							push(a)
						}
					}
					if f := staticCallee(w); f != nil && f.Name() == "Exp" && len(callArgs(w)) == 5 && callArgs(w)[1] == x && inModuleFn(f) {
						for i, a := range callArgs(w) {
							if i != 1 {
								push(a)
							}
						}
					}
				case *ssa.IndexAddr:
					// element addresses of a slice/array we depend on: what is stored there
					if w.X == x {
						for _, rr := range referrersOf(w) {
							if st, ok := rr.(*ssa.Store); ok && st.Addr == w {
								push(st.Val)
							}
						}
					}
				case *ssa.FieldAddr:
					if w.X == x {
						for _, rr := range referrersOf(w) {
							if st, ok := rr.(*ssa.Store); ok && st.Addr == w {
								push(st.Val)
							}
						}
					}
				case *ssa.Slice:
					// sub-slices alias the same backing store: copy(input[1:...], contributions)
					if w.X == x {
						for _, rr := range referrersOf(w) {
							if c, ok := rr.(*ssa.Call); ok && isCallTo(c, "builtin:copy") && callArgs(c)[0] == w {
								push(callArgs(c)[1])
							}
						}
					}
				}
			}
		}
	}
	return seen
}

func inModuleFn(f *ssa.Function) bool {
	if f == nil {
		return false
	}
	if f.Pkg != nil {
		return inModule(f.Pkg.Pkg)
	}
	if f.Object() != nil {
		return inModule(f.Object().Pkg())
	}
	if f.Parent() != nil {
		return inModuleFn(f.Parent())
	}
	return false
}

func referrersOf(v ssa.Value) []ssa.Instruction {
	if v == nil {
		return nil
	}
	r := v.Referrers()
	if r == nil {
		return nil
	}
	return *r
}

// depDescs returns the sorted set of descriptors of all leaves/nodes in the dependence closure of v.
func depDescs(P *Program, v ssa.Value) map[string]bool {
	out := map[string]bool{}
	for x := range deps(P, v) {
		switch x.(type) {
		case *ssa.Parameter, *ssa.FieldAddr, *ssa.Field, *ssa.Global, *ssa.Call, *ssa.Lookup, *ssa.Extract, *ssa.Const, *ssa.IndexAddr, *ssa.Index, *ssa.FreeVar:
			out[desc(x)] = true
		}
	}
	return out
}

// dependsOn reports whether the closure of v contains a value whose descriptor satisfies pred.
func dependsOn(P *Program, v ssa.Value, pred func(d string) bool) bool {
	for d := range depDescs(P, v) {
		if pred(d) {
			return true
		}
	}
	return false
}

// dependsOnDeep is dependsOn that also looks into the unexported helpers whose results v depends on: the helper's
// returned values are examined with its parameters bound to the call's arguments, so the descriptors read as if the
// helper's body were written at the call site (`digest(bts)` for `sha256.Sum256(bts)[:]`).
func dependsOnDeep(P *Program, v ssa.Value, depth int, pred func(d string) bool) bool {
	if dependsOn(P, v, pred) {
		return true
	}
	if depth <= 0 {
		return false
	}
	for x := range deps(P, v) {
		c, ok := x.(*ssa.Call)
		if !ok {
			continue
		}
		g := staticCallee(c)
		if g == nil || !inModuleFn(g) || g.Blocks == nil || g.Parent() != nil || (g.Object() != nil && g.Object().Exported()) {
			continue
		}
		found := false
		bindCall(c, g, func() {
			for _, r := range returnsOf(g) {
				for _, rv := range r.Results {
					if dependsOnDeep(P, rv, depth-1, pred) {
						found = true
					}
				}
			}
		})
		if found {
			return true
		}
	}
	return false
}

func hasPrefixAny(s string, pre ...string) bool {
	for _, p := range pre {
		if strings.HasPrefix(s, p) {
			return true
		}
	}
	return false
}

// allInstrs iterates over the instructions of f.
func allInstrs(f *ssa.Function, fn func(ssa.Instruction)) {
	for _, b := range f.Blocks {
		for _, i := range b.Instrs {
			fn(i)
		}
	}
}

// callsIn returns all call instructions in f (incl. go/defer) in block order.
func callsIn(f *ssa.Function) []ssa.CallInstruction {
	var out []ssa.CallInstruction
	allInstrs(f, func(i ssa.Instruction) {
		if c, ok := i.(ssa.CallInstruction); ok {
			out = append(out, c)
		}
	})
	return out
}

// reachableFuncs returns module-internal functions reachable from roots through the call graph.
func (P *Program) reachableFuncs(roots ...*ssa.Function) []*ssa.Function {
	seen := map[*ssa.Function]bool{}
	var out []*ssa.Function
	var visit func(f *ssa.Function)
	visit = func(f *ssa.Function) {
		if f == nil || seen[f] || !inModuleFn(f) || f.Blocks == nil {
			return
		}
		seen[f] = true
		out = append(out, f)
		for _, c := range callsIn(f) {
			for _, g := range P.callees(c) {
				visit(g)
			}
			// closures passed as values
			for _, a := range callArgs(c) {
				if mc, ok := a.(*ssa.MakeClosure); ok {
					visit(mc.Fn.(*ssa.Function))
				}
			}
		}
		for _, a := range f.AnonFuncs {
			visit(a)
		}
	}
	for _, r := range roots {
		visit(r)
	}
	sort.Slice(out, func(i, j int) bool { return FuncKey(out[i]) < FuncKey(out[j]) })
	return out
}

// inductionName names an induction variable by the nesting depth of its loop: #i, #j, #k.
func inductionName(header *ssa.BasicBlock) string {
	depth := 0
	for h := header; h != nil; h = h.Idom() {
		if l := findLoop(h); l != nil && l.Body[header] {
			depth++
		}
	}
	depth += loopDepthOffset[header.Parent()]
	switch {
	case depth <= 1:
		return "#i"
	case depth == 2:
		return "#j"
	}
	return "#k"
}

// ---- looking into a callee on behalf of a call site ----------------------------------------------------
//
// paramBind: while an analysis examines a module-internal callee in order to discharge an obligation of its
// caller (a block of checks that was extracted into a helper, a loop body that became a function), the
// callee's parameters are described as the caller's arguments. Descriptors of fields are type-rooted and
// need no translation; only plain parameters (`arg#k`) do.
var paramBind = map[*ssa.Parameter]string{}

// paramBindV: the argument values themselves (for following a value across the call boundary).
var paramBindV = map[*ssa.Parameter]ssa.Value{}

// paramBindA: integer arguments as affine expressions over system parameters and descriptors.
var paramBindA = map[*ssa.Parameter]Affine{}

// loopDepthOffset: a helper examined on behalf of a call inside a loop names its own loops one level deeper
// (the caller's `#i` stays the caller's).
var loopDepthOffset = map[*ssa.Function]int{}

func loopDepthOf(b *ssa.BasicBlock) int {
	depth := 0
	for h := b; h != nil; h = h.Idom() {
		if l := findLoop(h); l != nil && l.Body[b] {
			depth++
		}
	}
	return depth
}

// bindStructParams: while a helper's return term is inlined into its caller, an object that a call in the caller
// produced keeps that identity inside the helper (instead of the type-rooted name).
var bindStructParams bool

// bindFreshObjects: a helper that is handed the object its caller has just created (`k := new(Key); if !k.complete() {...}`)
// sees that object under the caller's name for it (new:pkg.T) instead of the type-rooted <pkg.T>. Switched on by the
// rules that follow a freshly decoded object through predicates (key loaders).
var bindFreshObjects bool

// bindCall runs f with g's parameters bound to the arguments of the call c (descriptors taken in the
// current context, so bindings compose along a call chain).
func bindCall(c ssa.CallInstruction, g *ssa.Function, f func()) {
	cc := c.Common()
	var args []ssa.Value
	if cc.IsInvoke() {
		args = append([]ssa.Value{cc.Value}, cc.Args...)
	} else {
		args = cc.Args
	}
	// closures: free variables are not rebound (their descriptors are `free:name`)
	type saved struct {
		p    *ssa.Parameter
		old  string
		had  bool
		oldV ssa.Value
		hadV bool
		oldA Affine
		hadA bool
	}
	var sv []saved
	descs := make([]string, len(args))
	for i, a := range args {
		descs[i] = desc(a)
	}
	for i, p := range g.Params {
		if i >= len(args) {
			break
		}
		old, had := paramBind[p]
		oldV, hadV := paramBindV[p]
		oldA, hadA := paramBindA[p]
		sv = append(sv, saved{p, old, had, oldV, hadV, oldA, hadA})
		paramBind[p] = descs[i]
		paramBindV[p] = args[i]
		delete(paramBindA, p)
		if isIntegerType(p.Type()) {
			if a, ok := affineOf(args[i]); ok {
				paramBindA[p] = a
			}
		}
	}
	// a generic helper: its type parameters stand for the instantiation's type arguments
	if inst := cc.StaticCallee(); inst != nil && inst.Origin() != nil && inst.Origin() == g {
		tps, targs := g.TypeParams(), inst.TypeArgs()
		for i := 0; i < tps.Len() && i < len(targs); i++ {
			tp := tps.At(i)
			oldT, hadT := typeParamBind[tp]
			typeParamBind[tp] = targs[i]
			defer func() {
				if hadT {
					typeParamBind[tp] = oldT
				} else {
					delete(typeParamBind, tp)
				}
			}()
		}
	}
	oldOff, hadOff := loopDepthOffset[g]
	if c.Block() != nil && c.Parent() != g {
		if off := loopDepthOf(c.Block()) + loopDepthOffset[c.Parent()]; off > 0 {
			loopDepthOffset[g] = off
		} else {
			delete(loopDepthOffset, g)
		}
	}
	defer func() {
		if hadOff {
			loopDepthOffset[g] = oldOff
		} else {
			delete(loopDepthOffset, g)
		}
		for _, x := range sv {
			if x.had {
				paramBind[x.p] = x.old
			} else {
				delete(paramBind, x.p)
			}
			if x.hadV {
				paramBindV[x.p] = x.oldV
			} else {
				delete(paramBindV, x.p)
			}
			if x.hadA {
				paramBindA[x.p] = x.oldA
			} else {
				delete(paramBindA, x.p)
			}
		}
	}()
	f()
}

// bindingSig: the current binding of fn's parameters (part of every cache key that depends on descriptors).
func bindingSig(fn *ssa.Function) string {
	if fn == nil || len(paramBind) == 0 {
		return ""
	}
	var sb strings.Builder
	if off := loopDepthOffset[fn]; off > 0 {
		fmt.Fprintf(&sb, "|depth+%d", off)
	}
	for _, p := range fn.Params {
		if b, ok := paramBind[p]; ok {
			sb.WriteString("|")
			sb.WriteString(p.Name())
			sb.WriteString("=")
			sb.WriteString(b)
			if a, ok := paramBindA[p]; ok {
				sb.WriteString("~")
				sb.WriteString(a.String())
			}
		}
	}
	return sb.String()
}

// origin follows a value backwards through conversions, single-assignment locals, bound parameters and
// module-internal helpers that return it, to the instruction that produced it.
func origin(v ssa.Value) ssa.Value { return originD(v, 0) }

func originD(v ssa.Value, depth int) ssa.Value {
	if depth > 12 || v == nil {
		return v
	}
	switch x := v.(type) {
	case *ssa.Parameter:
		if b, ok := paramBindV[x]; ok && b != nil {
			return originD(b, depth+1)
		}
	case *ssa.ChangeType:
		return originD(x.X, depth+1)
	case *ssa.UnOp:
		if x.Op == token.MUL {
			if fv, ok := freshFieldValue(x); ok {
				return originD(fv, depth+1)
			}
			if fv, ok := helperFieldValue(x, depth); ok {
				return originD(fv, depth+1)
			}
			if al, ok := x.X.(*ssa.Alloc); ok {
				var val ssa.Value
				n := 0
				for _, r := range referrersOf(al) {
					if st, ok := r.(*ssa.Store); ok && st.Addr == ssa.Value(al) {
						val = st.Val
						n++
					}
				}
				if n == 1 {
					return originD(val, depth+1)
				}
			}
		}
	case *ssa.Call:
		if g := staticCallee(x); g != nil && inModuleFn(g) && g.Blocks != nil && g.Signature.Results().Len() == 1 && bigMethod(x) == "" && !isBigWrapperFn(g) {
			var res ssa.Value
			n := 0
			bindCall(x, g, func() {
				dead := deadBlocks(g)
				for _, r := range returnsOf(g) {
					if dead[r.Block()] {
						continue
					}
					o := originD(retValue(r, 0), depth+1)
					if n == 0 || o == res {
						res = o
						if n == 0 {
							n = 1
						}
					} else {
						n = 2
					}
				}
			})
			if n == 1 && res != nil {
				return res
			}
		}
	case *ssa.Extract:
		// result k of an unexported helper: the one value all its returns that do not return nil there agree on
		if c, ok := x.Tuple.(*ssa.Call); ok {
			if g := staticCallee(c); g != nil && inModuleFn(g) && g.Blocks != nil && g.Object() != nil && !g.Object().Exported() && !isBigWrapperFn(g) {
				var res ssa.Value
				n := 0
				bindCall(c, g, func() {
					dead := deadBlocks(g)
					for _, r := range returnsOf(g) {
						if dead[r.Block()] || x.Index >= len(r.Results) || isNilConst(r.Results[x.Index]) {
							continue
						}
						o := originD(r.Results[x.Index], depth+1)
						if n == 0 || o == res {
							res = o
							if n == 0 {
								n = 1
							}
						} else {
							n = 2
						}
					}
				})
				if n == 1 && res != nil {
					return res
				}
			}
		}
	}
	return v
}

// computedIntResult: an integer computed by an unexported helper of the module is named by the expression the
// helper computes (with its parameters bound to the call's arguments), when all returns of the helper agree on it:
// `f, b = scaled(factor, bound)` names f as `(factor*4)`, as the inline code would.
var computedIntBusy = map[*ssa.Function]bool{}

func computedIntResult(c *ssa.Call, k, depth int) (string, bool) {
	g := c.Call.StaticCallee()
	if g == nil || g.Blocks == nil || depth > 20 || computedIntBusy[g] || len(computedIntBusy) > 2 {
		return "", false
	}
	res := g.Signature.Results()
	if k >= res.Len() || !isIntegerType(res.At(k).Type()) || !inModuleFn(g) {
		return "", false
	}
	if g.Object() == nil || g.Object().Exported() || g.Parent() != nil {
		return "", false
	}
	computedIntBusy[g] = true
	defer delete(computedIntBusy, g)
	out, n := "", 0
	bindCall(c, g, func() {
		for _, r := range returnsOf(g) {
			d := descD(retValue(r, k), depth+2)
			if n == 0 || d == out {
				out = d
				if n == 0 {
					n = 1
				}
			} else {
				n = 2
			}
		}
	})
	if n != 1 || out == "" || strings.Contains(out, "#i") || strings.Contains(out, "#j") || strings.Contains(out, "#k") || strings.Contains(out, "phi(") || strings.Contains(out, "new:") || strings.Contains(out, "*ssa.") {
		return "", false // (values that exist only inside the helper keep the call's name)
	}
	return out, true
}

// sortedKeysOf: c is slices.Sorted(maps.Keys(m)); returns m.
func sortedKeysOf(c *ssa.Call) ssa.Value {
	if calleeName(c) != "slices.Sorted" || len(callArgs(c)) != 1 {
		return nil
	}
	k, ok := callArgs(c)[0].(*ssa.Call)
	if !ok || calleeName(k) != "maps.Keys" || len(callArgs(k)) != 1 {
		return nil
	}
	return callArgs(k)[0]
}

// isPointerLike: pointers, maps, slices, channels, functions, interfaces (values with identity).
func isPointerLike(t types.Type) bool {
	switch t.Underlying().(type) {
	case *types.Pointer, *types.Map, *types.Slice, *types.Chan, *types.Signature, *types.Interface:
		return true
	}
	return false
}

// cellValue: the local variable cell `al` (a parameter or local that was moved to the heap because a closure
// captures it) holds one value for its whole life: exactly one store in the declaring function and none through
// any closure that captures it. Returns that value.
func cellValue(al *ssa.Alloc) (ssa.Value, bool) { return cellValueAt(al, nil) }

// cellValueAt: the value the cell holds when instruction `at` executes (nil: whenever; then there must be exactly
// one store): every store to the cell dominates `at`, the latest of them wins; no closure writes the cell.
func cellValueAt(al *ssa.Alloc, at ssa.Instruction) (ssa.Value, bool) {
	var stores []*ssa.Store
	for _, r := range referrersOf(al) {
		switch x := r.(type) {
		case *ssa.Store:
			if x.Addr == ssa.Value(al) {
				stores = append(stores, x)
			} else {
				return nil, false // the address itself is stored somewhere
			}
		case *ssa.MakeClosure:
			fn, _ := x.Fn.(*ssa.Function)
			if fn == nil {
				return nil, false
			}
			for i, b := range x.Bindings {
				if b != ssa.Value(al) || i >= len(fn.FreeVars) {
					continue
				}
				if !freeVarReadOnly(fn.FreeVars[i], 0) {
					return nil, false
				}
			}
		case *ssa.UnOp, *ssa.DebugRef:
		default:
			return nil, false
		}
	}
	if len(stores) == 0 {
		return nil, false
	}
	if at == nil {
		if len(stores) == 1 {
			return stores[0].Val, true
		}
		return nil, false
	}
	before := func(x, y ssa.Instruction) bool { // x executes before y on every path to y
		if x.Block() == y.Block() {
			for _, i := range x.Block().Instrs {
				if i == x {
					return true
				}
				if i == y {
					return false
				}
			}
			return false
		}
		return x.Block().Dominates(y.Block())
	}
	var last *ssa.Store
	for _, st := range stores {
		if !before(st, at) {
			if before(at, st) && innermostLoopOf(at.Block()) == nil {
				continue // a later store (the variable is reassigned after this read)
			}
			return nil, false
		}
		// a store inside a loop that also contains `at` could run again after `at`: only straight-line prefixes
		if l := innermostLoopOf(st.Block()); l != nil {
			return nil, false
		}
		if last == nil || before(last, st) {
			last = st
		}
	}
	if last == nil {
		return nil, false
	}
	return last.Val, true
}

func freeVarReadOnly(fv *ssa.FreeVar, depth int) bool {
	if depth > 3 {
		return false
	}
	for _, r := range referrersOf(fv) {
		switch x := r.(type) {
		case *ssa.UnOp, *ssa.DebugRef:
		case *ssa.MakeClosure:
			fn, _ := x.Fn.(*ssa.Function)
			if fn == nil {
				return false
			}
			for i, b := range x.Bindings {
				if b == ssa.Value(fv) && i < len(fn.FreeVars) && !freeVarReadOnly(fn.FreeVars[i], depth+1) {
					return false
				}
			}
		default:
			return false
		}
	}
	return true
}

// capturedValue: for a load `*fv` of a captured variable inside a closure, the single value the variable holds
// (see cellValue), when the closure is created in exactly one place.
func capturedValue(fv *ssa.FreeVar) (ssa.Value, bool) {
	fn := fv.Parent()
	if fn == nil || fn.Parent() == nil {
		return nil, false
	}
	idx := -1
	for i, f := range fn.FreeVars {
		if f == fv {
			idx = i
		}
	}
	if idx < 0 {
		return nil, false
	}
	var cell ssa.Value
	var site *ssa.MakeClosure
	nMC := 0
	allInstrs(fn.Parent(), func(i ssa.Instruction) {
		if mc, ok := i.(*ssa.MakeClosure); ok && mc.Fn == ssa.Value(fn) && idx < len(mc.Bindings) {
			cell = mc.Bindings[idx]
			site = mc
			nMC++
		}
	})
	if nMC != 1 {
		return nil, false
	}
	switch c := cell.(type) {
	case *ssa.Alloc:
		return cellValueAt(c, site)
	case *ssa.FreeVar:
		return capturedValue(c)
	}
	return nil, false
}

// descNN describes a value that is known (or required elsewhere) to be non-nil: for the result of a
// module-internal helper it is the descriptor all non-nil returns of the helper agree on, taken with the
// helper's parameters bound to the call's arguments (`x := p.lookup(); if x == nil {...}; use(x)`).
func descNN(v ssa.Value) string { return descNND(v, 0) }

func descNND(v ssa.Value, depth int) string {
	d := desc(v)
	for {
		switch x := v.(type) {
		case *ssa.MakeInterface:
			v = x.X
			continue
		case *ssa.ChangeType:
			v = x.X
			continue
		}
		break
	}
	k := 0
	c, ok := v.(*ssa.Call)
	if ex, isEx := v.(*ssa.Extract); isEx {
		c, ok = ex.Tuple.(*ssa.Call)
		k = ex.Index
	}
	if !ok || depth > 3 {
		return d
	}
	g := staticCallee(c)
	if g == nil || !inModuleFn(g) || g.Blocks == nil || k >= g.Signature.Results().Len() || bigMethod(c) != "" || isBigWrapperFn(g) {
		return d
	}
	if _, isEx := v.(*ssa.Extract); !isEx && g.Signature.Results().Len() != 1 {
		return d
	}
	if g.Object() != nil && g.Object().Exported() {
		return d // exported API keeps its own name in the rules
	}
	res, n := "", 0
	bindCall(c, g, func() {
		dead := deadBlocks(g)
		for _, r := range returnsOf(g) {
			if dead[r.Block()] || isNilConst(retValue(r, k)) {
				continue
			}
			o := descNND(retValue(r, k), depth+1)
			if n == 0 || o == res {
				res = o
				if n == 0 {
					n = 1
				}
			} else {
				n = 2
			}
		}
	})
	if n == 1 && res != "" {
		return res
	}
	return d
}

// bindPath runs f with the parameters of target bound along the (unique, static, same-package) call chain
// fn -> ... -> target of at most depth calls; it reports whether such a chain exists. With target == fn it
// just runs f.
func bindPath(fn, target *ssa.Function, depth int, f func()) bool {
	if fn == target {
		f()
		return true
	}
	if depth <= 0 || fn == nil || fn.Blocks == nil {
		return false
	}
	for _, c := range callsIn(fn) {
		h := staticCallee(c)
		if h == nil || h.Blocks == nil || h.Pkg != fn.Pkg || h == fn || isBigWrapperFn(h) {
			continue
		}
		done := false
		bindCall(c, h, func() { done = bindPath(h, target, depth-1, f) })
		if done {
			return true
		}
	}
	return false
}

// callsTo: the call sites in fn whose static callee is g.
func callsTo(fn, g *ssa.Function) []ssa.CallInstruction {
	var out []ssa.CallInstruction
	for _, c := range callsIn(fn) {
		if staticCallee(c) == g {
			out = append(out, c)
		}
	}
	return out
}

// deepVisit calls visit for fn and, with their parameters bound to the call's arguments, for the
// module-internal functions fn calls (the helpers a block of fn may have been extracted into).
func deepVisit(P *Program, fn *ssa.Function, depth int, visit func(g *ssa.Function)) {
	seen := map[string]bool{} // per function and binding: a helper called twice is visited for each call's arguments
	var walk func(g *ssa.Function, d int)
	walk = func(g *ssa.Function, d int) {
		if g == nil || g.Blocks == nil {
			return
		}
		k := fmt.Sprintf("%p", g) + bindingSig(g)
		if seen[k] || len(seen) > 200 {
			return
		}
		seen[k] = true
		visit(g)
		if d <= 0 {
			return
		}
		for _, c := range callsIn(g) {
			h := staticCallee(c)
			if h == nil || !inModuleFn(h) || h.Blocks == nil || h.Pkg != fn.Pkg || isBigWrapperFn(h) {
				continue
			}
			if h.Object() != nil && h.Object().Exported() && h.Parent() == nil {
				continue // exported functions are entry points of their own, not extracted blocks
			}
			bindCall(c, h, func() { walk(h, d-1) })
		}
	}
	walk(fn, depth)
}

// isBigWrapperFn: functions of the module's own big.Int wrapper package are primitives of the analysis.
func isBigWrapperFn(g *ssa.Function) bool {
	return g != nil && g.Pkg != nil && strings.HasSuffix(g.Pkg.Pkg.Path(), "/gabi/big")
}

func isStringType(t types.Type) bool {
	b, ok := t.Underlying().(*types.Basic)
	return ok && b.Info()&types.IsString != 0
}

// boundStructField: v reads a field of a by-value struct parameter (or of the local it is spilled to) while the
// function is examined on behalf of a call whose argument is a struct literal built at the call site
// (`r := primeRange{start: s, length: l}; r.lowerBound()`): the value the call site put into that field.
func boundStructField(v ssa.Value) ssa.Value {
	if len(paramBindV) == 0 {
		return nil
	}
	var p *ssa.Parameter
	field := -1
	switch x := v.(type) {
	case *ssa.Field:
		p, _ = x.X.(*ssa.Parameter)
		field = x.Field
	case *ssa.FieldAddr:
		al, ok := x.X.(*ssa.Alloc)
		if !ok {
			return nil
		}
		n := 0
		for _, r := range referrersOf(al) {
			switch u := r.(type) {
			case *ssa.Store:
				if u.Addr == ssa.Value(al) {
					n++
					p, _ = u.Val.(*ssa.Parameter)
				}
			case *ssa.FieldAddr:
				for _, rr := range referrersOf(u) {
					if st, isSt := rr.(*ssa.Store); isSt && st.Addr == ssa.Value(u) {
						return nil // the copy is modified
					}
				}
			}
		}
		if n != 1 {
			return nil
		}
		field = x.Field
	}
	if p == nil {
		return nil
	}
	if _, isStruct := p.Type().Underlying().(*types.Struct); !isStruct {
		return nil
	}
	bv, ok := paramBindV[p]
	if !ok || bv == nil {
		return nil
	}
	return structFieldValue(bv, field)
}

// preciseLeaves collects the descriptors of the inputs v is computed from: parameters (as bound), globals, fields,
// results of calls that cannot be looked into. An unexported helper of the module is looked into (its returned values,
// with its parameters bound to the call's arguments) instead of being taken to depend on all of its arguments.
func preciseLeaves(v ssa.Value, depth int, seen map[ssa.Value]bool, out map[string]bool) {
	if v == nil || seen[v] {
		return
	}
	seen[v] = true
	switch x := v.(type) {
	case *ssa.Const, *ssa.Function, *ssa.Builtin:
		return
	case *ssa.Parameter:
		if bv, ok := paramBindV[x]; ok && bv != nil {
			preciseLeaves(bv, depth, seen, out)
			return
		}
		out[desc(x)] = true
		return
	case *ssa.Field, *ssa.FieldAddr:
		if fv := boundStructField(v); fv != nil {
			preciseLeaves(fv, depth, seen, out)
			return
		}
		out[desc(v)] = true
		return
	case *ssa.UnOp:
		if x.Op == token.MUL {
			switch a := x.X.(type) {
			case *ssa.Alloc:
				n := 0
				for _, r := range referrersOf(a) {
					if st, ok := r.(*ssa.Store); ok && st.Addr == ssa.Value(a) {
						preciseLeaves(st.Val, depth, seen, out)
						n++
					}
				}
				if n == 0 {
					out[desc(v)] = true
				}
				return
			case *ssa.FieldAddr:
				if fv := boundStructField(a); fv != nil {
					preciseLeaves(fv, depth, seen, out)
					return
				}
				out[desc(v)] = true
				return
			case *ssa.IndexAddr:
				out[desc(v)] = true
				preciseLeaves(a.Index, depth, seen, out)
				return
			}
			out[desc(v)] = true
			return
		}
	case *ssa.Call:
		if g := staticCallee(x); g != nil && depth > 0 && inModuleFn(g) && g.Blocks != nil && g.Parent() == nil && g.Object() != nil && !g.Object().Exported() && bigMethod(x) == "" {
			bindCall(x, g, func() {
				for _, r := range returnsOf(g) {
					for _, rv := range r.Results {
						preciseLeaves(rv, depth-1, map[ssa.Value]bool{}, out)
					}
				}
			})
			return
		}
		for _, a := range callArgs(x) {
			preciseLeaves(a, depth, seen, out)
		}
		return
	case *ssa.Global, *ssa.Alloc, *ssa.MakeSlice, *ssa.MakeMap:
		out[desc(v)] = true
		return
	}
	if ins, ok := v.(ssa.Instruction); ok {
		for _, op := range ins.Operands(nil) {
			if *op != nil {
				preciseLeaves(*op, depth, seen, out)
			}
		}
		return
	}
	out[desc(v)] = true
}

// countedFrom: phi counts up by 1 from a constant other than the first index.
func countedFrom(phi *ssa.Phi) (int64, bool) {
	if len(phi.Edges) != 2 {
		return 0, false
	}
	var start int64
	haveStart, haveStep := false, false
	for _, e := range phi.Edges {
		if c, ok := constInt(e); ok {
			start, haveStart = c, true
			continue
		}
		if b, ok := e.(*ssa.BinOp); ok && b.Op == token.ADD && b.X == ssa.Value(phi) {
			if c, ok := constInt(b.Y); ok && c == 1 {
				haveStep = true
			}
		}
	}
	return start, haveStart && haveStep
}

func isBoolType(t types.Type) bool {
	b, ok := t.Underlying().(*types.Basic)
	return ok && b.Info()&types.IsBoolean != 0
}

// forwardedResult: result k of an unexported helper that only hands on what other calls gave it
// (`func (ic *Credential) indexAndBuilder() (int, *Builder, error) { i, err := ic.Index(); ...; b, err := ic.consume(); ...;
// return i, b, nil }`): when every successful return (error result nil) yields, for k, the result of one and the same
// call, the helper's result k is named like that call's result, as it would be with the calls written at the call site.
var forwardedBusy = map[*ssa.Function]bool{}

func forwardedResult(c *ssa.Call, k, depth int) (string, bool) {
	g := c.Call.StaticCallee()
	if g == nil || g.Blocks == nil || depth > 20 || forwardedBusy[g] || len(forwardedBusy) > 2 || !inModuleFn(g) {
		return "", false
	}
	if g.Object() == nil || g.Object().Exported() || g.Parent() != nil || isBigWrapperFn(g) || !newHelper(g) {
		return "", false
	}
	res := g.Signature.Results()
	if k >= res.Len() || res.Len() < 2 {
		return "", false
	}
	ei := -1
	for i := 0; i < res.Len(); i++ {
		if isErrorType(res.At(i).Type()) {
			ei = i
		}
	}
	if ei < 0 || ei == k {
		return "", false
	}
	forwardedBusy[g] = true
	defer delete(forwardedBusy, g)
	out, n := "", 0
	bindCall(c, g, func() {
		for _, r := range returnsOf(g) {
			if ei >= len(r.Results) {
				continue
			}
			if !isNilConst(r.Results[ei]) {
				// `return f(x)`: the pair of one call handed on as it is forwards that call's value
				ee, isE := r.Results[ei].(*ssa.Extract)
				ek, isK := r.Results[k].(*ssa.Extract)
				if !isE || !isK || ee.Tuple != ek.Tuple {
					continue // a failing return: the value that comes with it is not used by a caller that tests the error
				}
			}
			d := descD(r.Results[k], depth+2)
			if n == 0 || d == out {
				out = d
				if n == 0 {
					n = 1
				}
			} else {
				n = 2
			}
		}
	})
	if n != 1 || strings.Contains(out, "phi(") || strings.Contains(out, "arg#") {
		return "", false
	}
	// the result of one call, or a field of an object the helper was handed (`return pk.ECDSA, nil`): a type-rooted path
	if !strings.HasPrefix(out, "call:") && !(strings.HasPrefix(out, "<") && !strings.Contains(out, "call:") && !strings.Contains(out, "new:")) {
		return "", false
	}
	return out, true
}
