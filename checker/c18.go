package main

import (
	"go/token"
	"fmt"
	"go/constant"
	"go/types"
	"reflect"
	"sort"
	"strings"

	"golang.org/x/tools/go/ssa"
)

const (
	kBasesUnm   = "gabikeys.(*Bases).UnmarshalXML"
	kPubBytes   = "gabikeys.NewPublicKeyFromBytes"
	kPubFile    = "gabikeys.NewPublicKeyFromFile"
	kPrivXML    = "gabikeys.NewPrivateKeyFromXML"
	kPrivWrite  = "gabikeys.(*PrivateKey).WriteToFile"
	kIntUnmXML  = "big.(*Int).UnmarshalXML"
	kIntUnmJSON = "big.(*Int).UnmarshalJSON"
	kIntMarText = "big.(*Int).MarshalText"
)

func init() {
	register("C18",
		Rule{ID: "C18.a", Explain: "text decoders refuse negative integers: big.Int.UnmarshalXML and the numeric branch of UnmarshalJSON return nil only after Sign() < 0 was tested, MarshalText returns bytes only for non-negative values; Bases.UnmarshalXML accepts only if the count attribute equals the element count and every element parsed in base 10 and is non-negative, keeping document order.",
			Run: func(P *Program, R *Report) { integerCodecRule(P, R) }},
		Rule{ID: "C18.b", Explain: "key loaders: decoded mandatory elements (n, Z, S / p, q, pPrime, qPrime) are nil-checked before any use; unknown modulus lengths are refused; all public-key loaders funnel through the same checks; a non-demo private key is returned only after Validate() succeeded; derived fields (Params, N, Order, ECDSA) are recomputed by every loader.",
			Run: func(P *Program, R *Report) { keyLoaderRule(P, R) }},
		Rule{ID: "C18.c", Explain: "private key files: every file-creating call reachable from PrivateKey.WriteToFile has a constant mode without group/other bits; when the open flags lack O_EXCL (an existing file is reused) every path from the open to the first write passes f.Chmod with such a mode, and a Chmod failure prevents the write.",
			Run: func(P *Program, R *Report) { fileModeRule(P, R) }},
		Rule{ID: "C18.d", Explain: "restored fields: every non-serialised field of a message type that a verifier path reads is assigned earlier on that path - Proof.Nu/Challenge/alpha by SetExpected before ChallengeContributions and VerifyWithChallenge, MResponse before the range-proof checks (C12.b), SignedAccumulator.Accumulator only through UnmarshalVerify.",
			Run: func(P *Program, R *Report) { restoredFieldsRule(P, R) }},
		Rule{ID: "C18.e", Explain: "codec pairs: Marshal/Unmarshal (JSON and CBOR) of Update and EventList go through the same intermediate type via compress/uncompress, which carry the same field sets; ProofList.UnmarshalJSON discriminates on A then U and rejects anything else (C08.e).",
			Run: func(P *Program, R *Report) { codecPairsRule(P, R) }},
		Rule{ID: "C18.g", Explain: "written keys are accepted when read back: the key loaders refuse only for the specified reasons (decoder errors, missing mandatory elements, unknown modulus length, failed validation).",
			Run: func(P *Program, R *Report) { treeRejectionsRule(P, R, "C18.g", "loadkeys", "the key loading call tree") }},
		Rule{ID: "C18.h", Explain: "decoders do not write their input: in every Unmarshal*/Decode* method of the module the []byte (or string) it is given is never the target of a store, of copy(), or the destination argument of an encoding Decode/Read call - the same bytes are decoded again by the caller (ProofList.UnmarshalJSON tries two types on one raw message) and by json's own machinery.",
			Run: func(P *Program, R *Report) { decodersKeepInputRule(P, R) }},
		Rule{ID: "C18.i", Explain: "the product an event list computes while being decoded is the product of all decoded events, accumulated into a fresh integer (same rule as C10.k): a short or aliased product breaks the witness update that later uses it / the round trip of the first event.",
			Run: func(P *Program, R *Report) { decodedProductRule(P, R, "C18.i") }},
		Rule{ID: "C18.f", Explain: "XML tags of PublicKey/PrivateKey: no duplicate or empty element names; every field that is not serialised (xml:\"-\") is recomputed by the loaders.",
			Run: func(P *Program, R *Report) { xmlTagsRule(P, R) }},
		Rule{ID: "C18.k", Explain: "encoders fill what they size: in packages revocation, gabi and gabikeys every slice made with a computed length and filed in a struct field (compressedEventList.E, ...) has every element visited by a full walk from 0 by 1 over a collection of that length (same rule as C17.k); a walk that starts at 1 encodes a nil first element.",
			Run: func(P *Program, R *Report) {
				for _, pkg := range []string{"revocation", "gabi", "gabikeys"} {
					madeSlicesFilledRule(P, R, "C18.k", pkg, 0)
				}
			}},
		Rule{ID: "C18.m", Explain: "what is written can be read back: the text forms of revocation.Hash and of big.Int are written and read with the same base64 alphabet (the encoding objects referenced by String/MarshalJSON/MarshalText and by UnmarshalJSON/UnmarshalText of each type are the same set) - with the URL alphabet on one side only, three hashes in four cannot be read back.",
			Run: func(P *Program, R *Report) { base64AlphabetsRule(P, R, "C18.m") }},
		Rule{ID: "C18.j", Explain: "decoding into a value that was used before leaves nothing of its previous content: in Update.uncompress and EventList.uncompress every exported field of the receiver that the function assigns at all, and every field in which the type's Verify remembers its verdict (verified, validationErr), is assigned on every path to its return (a field that is only replaced when the message carries it keeps the events of the previous message; a remembered error makes the next, valid list fail).",
			Run: func(P *Program, R *Report) { decodersResetRule(P, R, "C18.j") }},
		Rule{ID: "C18.l", Explain: "no decoder or encoder drops a failure: in the Marshal*/Unmarshal*/compress/uncompress functions of the module and the key-file loaders and writers of gabikeys an error of a step is looked at (same rule as C08.g: the error a call returns has a use - a nil test or a return - before it is overwritten, shadowed or left behind).",
			Run: func(P *Program, R *Report) { errorResultsUsedRule(P, R, "C18.l", func(fn *ssa.Function) bool { n := fn.Name(); return strings.Contains(n, "arshal") || strings.Contains(n, "ompress") || inFiles(P, "gabikeys/marshaling.go", "gabikeys/keys.go", "signed/")(fn) }, nil, 15) }},
		Rule{ID: "C18.n", Explain: "decoders start from nothing: Update and EventList (JSON and CBOR) decode into a zero-valued intermediate value - no field of it is filled from the receiver beforehand. A SignedAccumulator handed to the decoder for reuse keeps the memo of the accumulator it verified last (not on the wire), so the next message decoded into the same Update is never signature-checked, and witnesses that alias the object see it overwritten.",
			Run: func(P *Program, R *Report) { freshDecodeTargetRule(P, R, "C18.n") }},
	)
}

func signTested(subject string) func(Atom) bool {
	return func(a Atom) bool {
		g, ok := parseGuard(a, nil)
		if ok && g.Kind == "big" && g.Subject == subject && g.Rel == ">=" && g.Bound.equal(tconst(0)) {
			return true
		}
		// the test written as a small predicate of the package: isNegative(x) is false
		if c, isCall := a.V.(*ssa.Call); isCall && a.Want == False && negativePredicate(staticCallee(c)) {
			args := c.Common().Args
			return len(args) == 1 && (desc(args[0]) == subject || desc(stripConv(args[0])) == subject)
		}
		return false
	}
}

// negativePredicate: h(x) is `return x.Sign() < 0` (or == -1) on every path.
func negativePredicate(h *ssa.Function) bool {
	if h == nil || h.Blocks == nil || !inModuleFn(h) || len(h.Params) != 1 || h.Signature.Results().Len() != 1 {
		return false
	}
	rets := returnsOf(h)
	if len(rets) == 0 {
		return false
	}
	for _, r := range rets {
		b, ok := retValue(r, 0).(*ssa.BinOp)
		if !ok {
			return false
		}
		c, isCall := stripConv(b.X).(*ssa.Call)
		if !isCall || bigMethod(c) != "Sign" || rootParamOf(callArgs(c)[0]) != ssa.Value(h.Params[0]) {
			return false
		}
		k, isK := constInt(b.Y)
		if !isK || !((b.Op == token.LSS && k == 0) || (b.Op == token.EQL && k == -1) || (b.Op == token.LEQ && k == -1)) {
			return false
		}
	}
	return true
}

// rootParamOf strips conversions and the Go() accessor of the module's big.Int from a value.
func rootParamOf(v ssa.Value) ssa.Value {
	for d := 0; d < 6; d++ {
		v = stripConv(v)
		c, ok := v.(*ssa.Call)
		if !ok {
			return v
		}
		if g := staticCallee(c); g != nil && g.Name() == "Go" && len(c.Common().Args) == 1 {
			v = c.Common().Args[0]
			continue
		}
		return v
	}
	return v
}

func integerCodecRule(P *Program, R *Report) {
	rule := "C18.a"
	if fn := mustFunc(P, R, rule, kIntUnmXML); fn != nil {
		mp(P, R, rule, kIntUnmXML+":non-negative", "nil => the decoded integer was tested non-negative", fn, AcceptNilErr(0), &MustPass{Match: signTested("arg#0")})
		mp(P, R, rule, kIntUnmXML+":base10", "nil => the text parsed as a base-10 integer", fn, AcceptNilErr(0), &MustPass{Match: func(a Atom) bool {
			c, idx := callAndResult(a.V)
			if c == nil || bigMethod(c) != "SetString" || idx != 1 || a.Want != True {
				return false
			}
			k, ok := constInt(callArgs(c)[2])
			return ok && k == 10
		}})
	}
	if fn := mustFunc(P, R, rule, kIntUnmJSON); fn != nil {
		// numeric branch: after json.Unmarshal into the underlying math/big.Int
		quoted := func(a Atom) bool {
			d := desc(a.V)
			return strings.HasPrefix(d, "(arg#1[0]") && ((strings.Contains(d, "!=34") && a.Want == False) || (strings.Contains(d, "==34") && a.Want == True))
		}
		mp(P, R, rule, kIntUnmJSON+":numeric-non-negative", "nil on the numeric (unquoted) branch => the decoded integer was tested non-negative", fn, AcceptNilErr(0), &MustPass{Exempt: quoted, Match: signTested("arg#0")})
		// quoted branch: SetBytes (unsigned by construction)
		ok := false
		for _, c := range callsIn(fn) {
			if cc, isC := c.(*ssa.Call); isC && bigMethod(cc) == "SetBytes" && desc(callArgs(cc)[0]) == "arg#0" {
				ok = true
			}
		}
		R.decide(rule, kIntUnmJSON+":quoted-unsigned", "the quoted (base64) branch decodes with SetBytes, i.e. as an unsigned magnitude", ok, "", P.Pos(fn.Pos()))
		// ... and in no other way: a quoted value has one reading (a second reading for "digits only" makes the base64
		// texts that happen to be all digits decode to another number)
		unquoted := func(a Atom) bool {
			d := desc(a.V)
			return strings.HasPrefix(d, "(arg#1[0]") && ((strings.Contains(d, "!=34") && a.Want == True) || (strings.Contains(d, "==34") && a.Want == False))
		}
		mp(P, R, rule, kIntUnmJSON+":quoted-one-reading", "nil on the quoted branch => the value was decoded by SetBytes of the base64 text (the only reading of a quoted value)", fn, AcceptNilErr(0), &MustPass{Exempt: unquoted, Instr: func(_ *ssa.Function, i ssa.Instruction) bool {
			c, isC := i.(*ssa.Call)
			return isC && bigMethod(c) == "SetBytes" && desc(callArgs(c)[0]) == "arg#0"
		}})
	}
	// the sign that is tested is the sign of what was decoded: after the test the receiver is not written again
	// (a decoder that tests the receiver first and fills it afterwards tests the previous value - zero for every
	// integer the json package allocates)
	for _, k := range []string{kIntUnmXML, kIntUnmJSON} {
		fn := P.Func(k)
		if fn == nil || fn.Blocks == nil {
			continue
		}
		writes := func(i ssa.Instruction) bool {
			c, ok := i.(ssa.CallInstruction)
			if !ok {
				return false
			}
			args := c.Common().Args
			if cc, isCall := i.(*ssa.Call); isCall {
				if m := bigMethod(cc); m != "" {
					return bigMutators[m] && len(args) > 0 && (desc(args[0]) == "arg#0" || desc(stripConv(args[0])) == "arg#0" || strings.HasSuffix(desc(args[0]), ".Go(arg#0)"))
				}
			}
			n := calleeName(c)
			if strings.Contains(n, "Unmarshal") || strings.Contains(n, "Decode") || strings.Contains(n, "Scan") || strings.Contains(n, "SetString") {
				for _, a := range args {
					if desc(a) == "arg#0" {
						return true
					}
				}
			}
			return false
		}
		nTests, late := 0, []string{}
		allInstrs(fn, func(i ssa.Instruction) {
			c, ok := i.(*ssa.Call)
			if !ok {
				return
			}
			direct := bigMethod(c) == "Sign" && desc(callArgs(c)[0]) == "arg#0"
			viaPredicate := negativePredicate(staticCallee(c)) && len(c.Common().Args) == 1 && (desc(c.Common().Args[0]) == "arg#0" || desc(stripConv(c.Common().Args[0])) == "arg#0")
			if !direct && !viaPredicate {
				return
			}
			nTests++
			seen := map[*ssa.BasicBlock]bool{}
			var work []*ssa.BasicBlock
			// the rest of the test's own block, then everything reachable from it
			after := false
			for _, j := range c.Block().Instrs {
				if j == ssa.Instruction(c) {
					after = true
					continue
				}
				if after && writes(j) {
					late = append(late, P.Pos(j.Pos()))
				}
			}
			work = append(work, c.Block().Succs...)
			for len(work) > 0 {
				b := work[0]
				work = work[1:]
				if seen[b] {
					continue
				}
				seen[b] = true
				for _, j := range b.Instrs {
					if writes(j) {
						late = append(late, P.Pos(j.Pos()))
					}
				}
				work = append(work, b.Succs...)
			}
		})
		R.decide(rule, k+":sign-of-decoded-value", "the receiver is not written after its sign was tested (the tested sign is the decoded value's)", nTests >= 1 && len(late) == 0, fmt.Sprintf("%d sign tests; written afterwards at: %s", nTests, strings.Join(late, ", ")), P.Pos(fn.Pos()))
	}
	if fn := mustFunc(P, R, rule, kIntMarText); fn != nil {
		mp(P, R, rule, kIntMarText+":refuses-negative", "text is produced only for a non-negative integer", fn, AcceptNilErr(1), &MustPass{Match: func(a Atom) bool {
			if signTested("arg#0")(a) {
				return true
			}
			g, ok := parseGuard(a, nil)
			if !ok || g.Kind != "big" || g.Subject != "arg#0" {
				return false
			}
			return (g.Rel == ">=" && g.Bound.equal(tconst(0))) || (g.Rel == "!=" && g.Bound.equal(tconst(0)) && false)
		}})
	}
	fn := mustFunc(P, R, rule, kBasesUnm)
	if fn == nil {
		return
	}
	acc := AcceptNilErr(0)
	mp(P, R, rule, kBasesUnm+":count", "nil => the num attribute equals the number of base elements", fn, acc, &MustPass{Match: func(a Atom) bool {
		g, ok := parseGuard(a, nil)
		if !ok || g.Kind != "int" || g.Rel != "==" {
			return false
		}
		x, y := "new:gabikeys.xmlBases.Num", "len(new:gabikeys.xmlBases.Bases)"
		return (g.Subject == x && g.BoundA.String() == y) || (g.Subject == y && g.BoundA.String() == x)
	}})
	elem := func(body func(a Atom) bool) forAllMemo {
		// (the loop walks the result list, which has Num slots, or the decoded element list, which has as many - tested above)
		fa := &ForAll{P: P, Spec: ForAllSpec{Coll: anyOfStr(is("makeslice"), is("new:gabikeys.xmlBases.Bases")), Body: func(f *ssa.Function, l *Loop) *MustPass {
			return &MustPass{Match: body}
		}}}
		return fa.inFn(fn, acc)
	}
	m1 := elem(func(a Atom) bool {
		c, idx := callAndResult(a.V)
		if c == nil || bigMethod(c) != "SetString" || idx != 1 || a.Want != True {
			return false
		}
		k, ok := constInt(callArgs(c)[2])
		return ok && k == 10 && desc(callArgs(c)[1]) == "new:gabikeys.xmlBases.Bases[#i].Bigint"
	})
	R.decide(rule, kBasesUnm+":each-base10", "nil => every element (in document order, element i into slot i) parsed as a base-10 integer", m1.holds, m1.detail, P.Pos(fn.Pos()))
	m2 := elem(func(a Atom) bool {
		g, ok := parseGuard(a, nil)
		return ok && g.Kind == "big" && g.Rel == ">=" && g.Bound.equal(tconst(0)) && (strings.Contains(g.Subject, "SetString(") || g.Subject == "new:big.Int#0")
	})
	R.decide(rule, kBasesUnm+":each-non-negative", "nil => every element was tested non-negative", m2.holds, m2.detail, P.Pos(fn.Pos()))
	// slot i gets element i; no reordering of the decoded elements
	okSlot := false
	for _, s := range sinksOf(fn) {
		if s.target == "makeslice[#i]" && dependsOn(P, s.val, func(d string) bool { return d == "new:gabikeys.xmlBases.Bases[#i].Bigint" }) {
			okSlot = true
		}
	}
	// ... or the list is grown by one element per document element, in document order
	for _, s := range sinksOf(fn) {
		if s.target != "arg#0" {
			continue
		}
		if seq, ok := seqOf(s.val); ok && len(seq) == 1 && seq[0].Kind == "star" && len(seq[0].Sub) == 1 && seq[0].Sub[0].V != nil {
			if dependsOn(P, seq[0].Sub[0].V, func(d string) bool { return d == "new:gabikeys.xmlBases.Bases[#i].Bigint" }) {
				okSlot = true
			}
		}
	}
	R.decide(rule, kBasesUnm+":slot-order", "base i of the key is element i of the document", okSlot, "", P.Pos(fn.Pos()))
	var reorder []string
	for _, c := range callsIn(fn) {
		n := calleeName(c)
		if strings.HasPrefix(n, "sort.") || strings.HasPrefix(n, "slices.Sort") || strings.HasPrefix(n, "slices.Reverse") {
			reorder = append(reorder, n)
		}
	}
	R.decide(rule, kBasesUnm+":no-reordering", "the decoded elements are not reordered", len(reorder) == 0, strings.Join(reorder, ","), P.Pos(fn.Pos()))
	okRes := false
	for _, s := range sinksOf(fn) {
		if s.target == "arg#0" && strings.HasPrefix(desc(s.val), "makeslice") {
			okRes = true
		}
	}
	R.decide(rule, kBasesUnm+":result", "the receiver becomes exactly that slice", okRes, "", P.Pos(fn.Pos()))
}

func keyLoaderRule(P *Program, R *Report) {
	rule := "C18.b"
	bindFreshObjects = true // presence tests may sit in a predicate method of the key being loaded
	defer func() { bindFreshObjects = false }()
	if fn := mustFunc(P, R, rule, kPubBytes); fn != nil {
		acc := AcceptNilErr(1)
		for _, f := range []string{"N", "Z", "S"} {
			f := f
			mp(P, R, rule, kPubBytes+":"+f+"-present", "a key is returned only if element "+f+" was present", fn, acc, &MustPass{Match: func(a Atom) bool {
				return desc(a.V) == "new:gabikeys.PublicKey."+f && a.Want == NonNil
			}})
		}
		mp(P, R, rule, kPubBytes+":known-length", "a key is returned only if DefaultSystemParameters has an entry for the modulus length", fn, acc, &MustPass{Match: func(a Atom) bool {
			d := desc(a.V)
			return strings.HasPrefix(d, "has(global:gabikeys.DefaultSystemParameters[call:big.(*Int).BitLen(new:gabikeys.PublicKey.N)])") && a.Want == True
		}})
		mp(P, R, rule, kPubBytes+":revocation-key", "a key is returned only if its ECDSA key parsed", fn, acc, ecdsaParsed("PublicKey", "signed.UnmarshalPublicKey"))
		okParams := false
		for _, s := range sinksOf(fn) {
			if s.target == "new:gabikeys.PublicKey.Params" && strings.HasPrefix(desc(s.val), "global:gabikeys.DefaultSystemParameters[") {
				okParams = true
			}
		}
		R.decide(rule, kPubBytes+":Params", "Params is derived from the modulus length", okParams, "", P.Pos(fn.Pos()))
		// no dereference of N before the nil test: the BitLen call is reached only after the test
		for _, c := range callsIn(fn) {
			if cc, ok := c.(*ssa.Call); ok && bigMethod(cc) != "" && desc(callArgs(cc)[0]) == "new:gabikeys.PublicKey.N" {
				r := (&MustPass{P: P, Match: func(a Atom) bool { return desc(a.V) == "new:gabikeys.PublicKey.N" && a.Want == NonNil }}).MustReach(fn, cc)
				R.decide(rule, kPubBytes+":N-checked-before-use", "n is used only after its nil test", r.Holds, r.Path, P.Pos(cc.Pos()))
			}
		}
	}
	// siblings: every other exported public-key loader returns the result of NewPublicKeyFromBytes
	for _, k := range []string{kPubFile, "gabikeys.NewPublicKeyFromXML"} {
		fn := mustFunc(P, R, rule, k)
		if fn == nil {
			continue
		}
		ok := true
		n := 0
		for _, ret := range returnsOf(fn) {
			if isNilConst(retValue(ret, 0)) {
				continue
			}
			n++
			c, _ := callAndResult(retValue(ret, 0))
			if c == nil || !calleeIs(c, kPubBytes) {
				ok = false
			}
		}
		R.decide(rule, k+":same-checks", "this loader returns only what NewPublicKeyFromBytes accepted (same checks for every way of reading a public key)", ok && n >= 1, "", P.Pos(fn.Pos()))
	}
	if fn := mustFunc(P, R, rule, kPrivXML); fn != nil {
		acc := AcceptNilErr(1)
		pk := "new:gabikeys.PrivateKey"
		for _, f := range []string{"P", "Q", "PPrime", "QPrime"} {
			f := f
			mp(P, R, rule, kPrivXML+":"+f+"-present", "a key is returned only if element "+f+" was present", fn, acc, &MustPass{Match: func(a Atom) bool {
				return desc(a.V) == pk+"."+f && a.Want == NonNil
			}})
		}
		mp(P, R, rule, kPrivXML+":validated", "outside demo mode a key is returned only if Validate() returned nil", fn, acc, &MustPass{Exempt: func(a Atom) bool { return desc(a.V) == "arg#1" && a.Want == True },
			Match: func(a Atom) bool {
				c, ok := callAtom(a, Nil, "gabikeys.(*PrivateKey).Validate")
				return ok && desc(callArgs(c)[0]) == pk
			}})
		// uses after the nil tests
		var val *ssa.Call
		for _, c := range callsIn(fn) {
			if isCallTo(c, "gabikeys.(*PrivateKey).Validate") {
				val = c.(*ssa.Call)
			}
		}
		if val != nil {
			r := (&MustPass{P: P, Match: func(a Atom) bool { return desc(a.V) == pk+".P" && a.Want == NonNil }}).MustReach(fn, val)
			R.decide(rule, kPrivXML+":checked-before-validate", "Validate (which dereferences the elements) runs only after the presence tests", r.Holds, r.Path, P.Pos(val.Pos()))
		}
		be := P.bigEval(fn)
		got := map[string]string{}
		for _, s := range sinksOf(fn) {
			if st, ok := s.ins.(*ssa.Store); ok && strings.HasPrefix(s.target, pk+".") {
				got[strings.TrimPrefix(s.target, pk+".")] = be.Use[st][st.Val].String()
			}
		}
		R.decide(rule, kPrivXML+":N", "N is recomputed as P*Q", got["N"] == tmul(tsym(pk+".P"), tsym(pk+".Q")).String(), got["N"], P.Pos(fn.Pos()))
		R.decide(rule, kPrivXML+":Order", "Order is recomputed as PPrime*QPrime", got["Order"] == tmul(tsym(pk+".PPrime"), tsym(pk+".QPrime")).String(), got["Order"], P.Pos(fn.Pos()))
		mp(P, R, rule, kPrivXML+":revocation-key", "a key is returned only if its ECDSA key parsed", fn, acc, ecdsaParsed("PrivateKey", "signed.UnmarshalPrivateKey"))
	}
	validateKeyRule(P, R, rule)
}

func fileModeRule(P *Program, R *Report) {
	rule := "C18.c"
	fn := mustFunc(P, R, rule, kPrivWrite)
	if fn == nil {
		return
	}
	var writeCall *ssa.Call
	for _, c := range callsIn(fn) {
		if isCallTo(c, "gabikeys.(*PrivateKey).WriteTo") {
			writeCall = c.(*ssa.Call)
		}
	}
	if writeCall == nil {
		R.bad(rule, kPrivWrite+":write", "the key is written through WriteTo", "no call", P.Pos(fn.Pos()))
		return
	}
	n := 0
	for _, g := range P.reachableFuncs(fn) {
		for _, c := range callsIn(g) {
			name := calleeName(c)
			var mode, flags ssa.Value
			switch name {
			case "os.OpenFile":
				flags, mode = callArgs(c)[1], callArgs(c)[2]
			case "os.Create", "os.WriteFile", "io/ioutil.WriteFile":
				n++
				R.bad(rule, FuncKey(g)+":"+name, "private key files are created with an explicit owner-only mode", name+" uses 0666 before umask", P.Pos(c.Pos()))
				continue
			default:
				continue
			}
			n++
			call := c.(*ssa.Call)
			m, okm := constInt(mode)
			key := fmt.Sprintf("%s:OpenFile#%d", FuncKey(g), n)
			R.decide(rule, key+":mode", "the creation mode is a constant without group/other bits", okm && m&0o077 == 0 && m != 0, fmt.Sprintf("mode %o const=%v", m, okm), P.Pos(c.Pos()))
			fl, okf := constInt(flags)
			const oEXCL, oCREATE = 0x80, 0x40
			if okf && fl&oCREATE == 0 {
				continue
			}
			if okf && fl&oEXCL != 0 {
				R.ok(rule, key+":fresh-file", "O_EXCL: the file is created by this call, so the mode applies")
				continue
			}
			// may reuse an existing file: chmod before write, failure => no write
			isChmod := func(a Atom) bool {
				cc, _ := callAndResult(a.V)
				if cc == nil || !calleeIs(cc, "(*os.File).Chmod") || a.Want != Nil {
					return false
				}
				if callArgs(cc)[0] != ssa.Value(call) && desc(callArgs(cc)[0]) != desc(call)+"#0" {
					return false
				}
				mm, ok := constInt(callArgs(cc)[1])
				return ok && mm&0o077 == 0
			}
			// every path to the write passes a successful chmod of this file, or went through the other (exclusive) open
			r := (&MustPass{P: P, Match: isChmod, Instr: func(_ *ssa.Function, i ssa.Instruction) bool {
				oc, ok := i.(*ssa.Call)
				return ok && oc != call && calleeIs(oc, "os.OpenFile")
			}}).MustReach(g, writeCall)
			R.decide(rule, key+":chmod-before-write", "an existing file may be reused (no O_EXCL): every path from this open to the write passes a successful f.Chmod(owner-only)", r.Holds, r.Path, P.Pos(c.Pos()))
		}
	}
	R.decide(rule, kPrivWrite+":opens", "the file-creating calls were found (2)", n == 2, fmt.Sprintf("%d", n), P.Pos(fn.Pos()))
}

func restoredFieldsRule(P *Program, R *Report) {
	rule := "C18.d"
	cc := mustFunc(P, R, rule, kProofDCC)
	if cc != nil {
		for _, c := range callsIn(cc) {
			if isCallTo(c, "revocation.(*Proof).ChallengeContributions") {
				r := (&MustPass{P: P, Match: func(a Atom) bool {
					_, ok := callAtom(a, Nil, kSetExpected)
					return ok
				}}).MustReach(cc, c)
				R.decide(rule, kProofDCC+":SetExpected-before-contributions", "Nu, Challenge and alpha (not serialised) are installed by SetExpected before the contributions are computed", r.Holds, r.Path, P.Pos(c.Pos()))
			}
		}
	}
	// VerifyWithChallenge of the nonrev proof is only reached after ChallengeContribution succeeded (composite entry points)
	for _, k := range []string{kProofDVerify} {
		fn := mustFunc(P, R, rule, k)
		if fn == nil {
			continue
		}
		// (in the entry point itself or in the unexported helper its body was moved into, seen with the proof bound)
		found := false
		deepVisit(P, fn, 2, func(g *ssa.Function) {
			for _, c := range callsIn(g) {
				if isCallTo(c, kProofDVWC) {
					found = true
					r := (&MustPass{P: P, Match: func(a Atom) bool {
						cc, idx := callAndResult(a.V)
						return cc != nil && isCallTo(cc, kProofDCC) && idx == 1 && a.Want == Nil
					}}).MustReach(g, c)
					R.decide(rule, k+":contribution-before-verify", "VerifyWithChallenge runs only after ChallengeContribution (which restores the derived fields) succeeded", r.Holds, r.Path, P.Pos(c.Pos()))
				}
			}
		})
		if !found {
			R.bad(rule, k+":contribution-before-verify", "VerifyWithChallenge runs only after ChallengeContribution (which restores the derived fields) succeeded", "no call of ProofD.VerifyWithChallenge found in Verify or its helpers", P.Pos(fn.Pos()))
		}
	}
	// the accumulator cache is written only by UnmarshalVerify and Sign; readers on verifier paths take UnmarshalVerify's result
	var writers []string
	for _, fn := range P.AllFuncs {
		for _, s := range sinksOf(fn) {
			if strings.HasSuffix(s.target, "revocation.SignedAccumulator.Accumulator") || s.target == saccD+".Accumulator" {
				writers = append(writers, FuncKey(ownerOf(P, fn)))
			}
		}
	}
	sort.Strings(writers)
	okW := true
	for _, w := range writers {
		if w != kSaccVerify && w != "revocation.(*Accumulator).Sign" {
			okW = false
		}
	}
	R.decide(rule, "revocation.SignedAccumulator.Accumulator:writers", "the non-serialised accumulator is set only by UnmarshalVerify (after verification) and by Sign (by the issuer)", okW && len(writers) >= 2, strings.Join(writers, ","), "")
	// MResponse: see C12.b (run here too)
	sub := newReport(R.Prop, R.Tier, P)
	bindingRule(P, sub)
	for _, o := range sub.Obls {
		o.Rule = rule
		R.add(o)
	}
	// json:"-" fields of message types exist as tabled (non-vacuity: the table matches the types)
	want := map[string][]string{"rangeproof.Proof": {"MResponse"}, "revocation.Proof": {"Nu", "Challenge"}, "revocation.SignedAccumulator": {"Accumulator"}}
	for tk, fields := range want {
		got := jsonDashFields(P, tk)
		sort.Strings(got)
		sort.Strings(fields)
		R.decide(rule, tk+":json-dash-fields", "the non-serialised exported fields of this message type are exactly the tabled ones (a new one needs a restoring assignment)", strings.Join(got, ",") == strings.Join(fields, ","), "got "+strings.Join(got, ","), "")
	}
}

func structOf(P *Program, tk string) *types.Struct {
	parts := strings.SplitN(tk, ".", 2)
	sp := P.PkgByName[parts[0]]
	if sp == nil {
		return nil
	}
	o := sp.Pkg.Scope().Lookup(parts[1])
	if o == nil {
		// the type under its current name (renamed unexported type, fieldalias.go)
		for cur, ref := range typeNameAlias {
			if ref == tk {
				o = sp.Pkg.Scope().Lookup(cur[strings.Index(cur, ".")+1:])
			}
		}
	}
	if o == nil {
		return nil
	}
	st, _ := o.Type().Underlying().(*types.Struct)
	return st
}

func jsonDashFields(P *Program, tk string) []string {
	st := structOf(P, tk)
	var out []string
	if st == nil {
		return out
	}
	for i := 0; i < st.NumFields(); i++ {
		tag := reflect.StructTag(st.Tag(i))
		if st.Field(i).Exported() && tag.Get("json") == "-" {
			out = append(out, st.Field(i).Name())
		}
	}
	return out
}

func codecPairsRule(P *Program, R *Report) {
	rule := "C18.e"
	for _, typ := range []struct{ t, inter string }{{"Update", "compressedUpdate"}, {"EventList", "compressedEventList"}} {
		recv := "revocation.(*" + typ.t + ")"
		for _, enc := range []struct{ m, u, mf, uf string }{
			{"MarshalJSON", "UnmarshalJSON", "encoding/json.Marshal", "encoding/json.Unmarshal"},
			{"MarshalCBOR", "UnmarshalCBOR", "github.com/fxamacker/cbor.Marshal", "github.com/fxamacker/cbor.Unmarshal"},
		} {
			mf := mustFunc(P, R, rule, recv+"."+enc.m)
			uf := mustFunc(P, R, rule, recv+"."+enc.u)
			if mf == nil || uf == nil {
				continue
			}
			okM, okU, okUn := false, false, false
			for _, c := range callsIn(mf) {
				if isCallTo(c, enc.mf) {
					okM = desc(callArgs(c)[0]) == "call:"+recv+".compress(<revocation."+typ.t+">)"
				}
			}
			// (in the decoder itself or in a helper shared by the JSON and CBOR decoders that is handed the library
			// decoder as a function value)
			deepVisit(P, uf, 1, func(g *ssa.Function) {
				for _, c := range callsIn(g) {
					if isCallTo(c, enc.uf) {
						okU = desc(callArgs(c)[1]) == "new:revocation."+typ.inter
					}
					if isCallTo(c, recv+".uncompress") {
						okUn = desc(callArgs(c)[1]) == "new:revocation."+typ.inter || typeStr(callArgs(c)[1].Type()) == "*revocation."+typ.inter
					}
				}
			})
			R.decide(rule, recv+"."+enc.m+"/"+enc.u, "both directions use the same intermediate type "+typ.inter+" through compress/uncompress", okM && okU && okUn, fmt.Sprintf("marshal=%v unmarshal=%v uncompress=%v", okM, okU, okUn), P.Pos(mf.Pos()))
			mp(P, R, rule, recv+"."+enc.u+":error", "a decoding error is returned, not swallowed", uf, AcceptNilErr(0), &MustPass{Match: func(a Atom) bool {
				c, _ := callAndResult(a.V)
				return c != nil && calleeIs(c, enc.uf) && a.Want == Nil
			}})
		}
		// field sets
		cf := mustFunc(P, R, rule, recv+".compress")
		uf := mustFunc(P, R, rule, recv+".uncompress")
		if cf == nil || uf == nil {
			continue
		}
		written := map[string]bool{}
		for _, s := range sinksOf(cf) {
			if strings.HasPrefix(s.target, "new:revocation."+typ.inter+".") {
				written[strings.TrimPrefix(s.target, "new:revocation."+typ.inter+".")] = true
			}
		}
		read := map[string]bool{}
		allInstrs(uf, func(i ssa.Instruction) {
			if fa, ok := i.(*ssa.FieldAddr); ok && faType(fa) == "revocation."+typ.inter {
				read[faName(fa)] = true
			}
		})
		st := structOf(P, "revocation."+typ.inter)
		var all []string
		if st != nil {
			for i := 0; i < st.NumFields(); i++ {
				all = append(all, st.Field(i).Name())
			}
		}
		okSet := len(all) > 0
		for _, f := range all {
			wk := f
			if !read[f] {
				okSet = false
			}
			// compress may set a field via its element (E[i]) or whole
			w := false
			for k := range written {
				if k == wk || strings.HasPrefix(k, wk+"[") {
					w = true
				}
			}
			if !w {
				okSet = false
			}
		}
		R.decide(rule, recv+":field-set", "compress writes and uncompress reads every field of "+typ.inter, okSet, fmt.Sprintf("fields %v written %v read %v", all, sortedKeys(written), sortedKeys(read)), P.Pos(cf.Pos()))
	}
	// ProofList
	sub := newReport(R.Prop, R.Tier, P)
	for _, r := range registry["C08"] {
		if r.ID == "C08.e" {
			r.Run(P, sub)
		}
	}
	for _, o := range sub.Obls {
		o.Rule = rule
		R.add(o)
	}
}

func xmlTagsRule(P *Program, R *Report) {
	rule := "C18.f"
	recomputed := map[string]map[string][]string{
		"gabikeys.PublicKey":  {"ECDSA": {kPubBytes}, "Params": {kPubBytes}, "Issuer": nil},
		"gabikeys.PrivateKey": {"N": {kPrivXML}, "ECDSA": {kPrivXML}, "Order": {kPrivXML}},
	}
	for tk, derived := range recomputed {
		st := structOf(P, tk)
		if st == nil {
			R.und(rule, tk, "type found", "", "")
			continue
		}
		names := map[string]int{}
		var dash []string
		okNames := true
		for i := 0; i < st.NumFields(); i++ {
			tag := reflect.StructTag(st.Tag(i)).Get("xml")
			f := st.Field(i).Name()
			if f == "XMLName" {
				continue
			}
			if tag == "-" {
				dash = append(dash, f)
				continue
			}
			name := strings.Split(tag, ",")[0]
			if name == "" {
				okNames = false
			}
			names[name]++
			if names[name] > 1 {
				okNames = false
			}
		}
		R.decide(rule, tk+":element-names", "every serialised field has its own non-empty XML element name", okNames && len(names) >= 4, fmt.Sprint(names), "")
		sort.Strings(dash)
		var want []string
		for f := range derived {
			want = append(want, f)
		}
		sort.Strings(want)
		R.decide(rule, tk+":derived-fields", "the non-serialised fields are exactly the tabled derived ones", strings.Join(dash, ",") == strings.Join(want, ","), "got "+strings.Join(dash, ","), "")
		for f, loaders := range derived {
			for _, lk := range loaders {
				fn := P.Func(lk)
				if fn == nil {
					continue
				}
				found := false
				for _, g := range P.reachableFuncs(fn) {
					for _, s := range sinksOf(g) {
						if strings.HasSuffix(s.target, "."+f) && (strings.Contains(s.target, strings.TrimPrefix(tk, "gabikeys.")) || strings.Contains(s.target, tk)) {
							found = true
						}
					}
				}
				R.decide(rule, lk+":recomputes:"+f, "the loader recomputes the derived field "+f, found, "", P.Pos(fn.Pos()))
			}
		}
	}
	_ = constant.MakeInt64
}

// decodersKeepInputRule (C18.h).
func decodersKeepInputRule(P *Program, R *Report) {
	rule := "C18.h"
	n := 0
	// destination-argument positions of library calls that write a byte slice they are given
	dstArg := map[string]int{
		"(*encoding/base64.Encoding).Decode": 1, "encoding/hex.Decode": 0, "builtin:copy": 0, "io.ReadFull": 1, "(*bytes.Reader).Read": 1,
		"(encoding/binary.bigEndian).PutUint64": 1, "(encoding/binary.bigEndian).PutUint32": 1, "(encoding/binary.littleEndian).PutUint64": 1,
	}
	for _, fn := range P.AllFuncs {
		if fn.Blocks == nil || fn.Signature.Recv() == nil {
			continue
		}
		name := fn.Name()
		if !strings.HasPrefix(name, "Unmarshal") && !strings.HasPrefix(name, "Decode") {
			continue
		}
		// the byte-slice parameters
		var inputs []*ssa.Parameter
		for _, p := range fn.Params[1:] {
			if sl, ok := p.Type().Underlying().(*types.Slice); ok {
				if b, ok := sl.Elem().Underlying().(*types.Basic); ok && b.Kind() == types.Byte {
					inputs = append(inputs, p)
				}
			}
		}
		if len(inputs) == 0 {
			continue
		}
		n++
		derived := func(v ssa.Value) bool {
			for _, r := range sliceRoots(v) {
				for _, p := range inputs {
					if r == ssa.Value(p) {
						return true
					}
				}
			}
			return false
		}
		ok := true
		var why []string
		allInstrs(fn, func(i ssa.Instruction) {
			switch x := i.(type) {
			case *ssa.Store:
				if ia, isIA := x.Addr.(*ssa.IndexAddr); isIA && derived(ia.X) {
					ok = false
					why = append(why, P.Pos(x.Pos())+": store into the input bytes")
				}
			case *ssa.Call:
				if k, has := dstArg[calleeName(x)]; has && k < len(callArgs(x)) && derived(callArgs(x)[k]) {
					ok = false
					why = append(why, P.Pos(x.Pos())+": "+calleeName(x)+" writes into the input bytes")
				}
			}
		})
		R.decide(rule, FuncKey(fn)+":input-preserved", "the decoder leaves the bytes it was given unchanged", ok, strings.Join(why, "\n"), P.Pos(fn.Pos()))
	}
	R.decide(rule, "decoders:count", "decoding methods with a byte-slice input were found (>= 8)", n >= 8, fmt.Sprintf("%d", n), "")
}

// ecdsaParsed: the obligation "the key's ECDSA part was parsed", stated on the exported decoder so that it does not
// depend on the name or shape of the unexported helper that calls it: on every accepting path the revocation key
// was already present, or revocation is not supported by this key (no ECDSA string), or signed.Unmarshal...Key
// returned without error.
func ecdsaParsed(typ, unmarshal string) *MustPass {
	obj := []string{"new:gabikeys." + typ, "<gabikeys." + typ + ">"}
	return &MustPass{
		Exempt: func(a Atom) bool {
			a = normAtom(a)
			d := desc(a.V)
			for _, o := range obj {
				if d == o+".ECDSA" && a.Want == NonNil {
					return true
				}
				if (d == "call:gabikeys.(*"+typ+").RevocationSupported("+o+")" && a.Want == False) || (d == "(len("+o+".ECDSAString)>0)" && a.Want == False) {
					return true
				}
			}
			return false
		},
		Match: func(a Atom) bool {
			c, idx := callAndResult(a.V)
			return c != nil && calleeIs(c, unmarshal) && idx == 1 && a.Want == Nil
		},
	}
}


func decodersResetRule(P *Program, R *Report, rule string) {
	n := 0
	for _, key := range []string{"revocation.(*Update).uncompress", "revocation.(*EventList).uncompress"} {
		fn := mustFunc(P, R, rule, key)
		if fn == nil || len(fn.Params) == 0 {
			continue
		}
		recv := desc(fn.Params[0])
		fields := map[string]bool{}
		allInstrs(fn, func(i ssa.Instruction) {
			st, ok := i.(*ssa.Store)
			if !ok {
				return
			}
			fa, ok := st.Addr.(*ssa.FieldAddr)
			if !ok || desc(fa.X) != recv {
				return
			}
			if f := faName(fa); f != "" && f[0] >= 'A' && f[0] <= 'Z' {
				fields[f] = true
			}
		})
		// what the type's Verify remembers about a value (its verdict, the error it found) describes the previous
		// content: the decoder has to reset every such field as well
		if vf := P.Func(strings.Replace(key, ".uncompress", ".Verify", 1)); vf != nil && vf.Blocks != nil {
			for _, st := range receiverStores(vf) {
				if fa, ok := st.Addr.(*ssa.FieldAddr); ok && fa.X == ssa.Value(vf.Params[0]) {
					fields[faName(fa)] = true
				}
			}
		}
		for _, f := range sortedKeys(fields) {
			f := f
			n++
			mp(P, R, rule, key+":"+f+":always", "the decoder assigns "+f+" on every path (nothing of a previous decode survives)", fn, AcceptAny(), &MustPass{Instr: func(_ *ssa.Function, i ssa.Instruction) bool {
				st, ok := i.(*ssa.Store)
				if !ok {
					return false
				}
				fa, ok := st.Addr.(*ssa.FieldAddr)
				return ok && desc(fa.X) == recv && faName(fa) == f
			}})
		}
	}
	R.decide(rule, "decoders:fields", "decoded fields of Update and EventList were found (>= 3)", n >= 3, fmt.Sprintf("%d", n), "")
}

// base64AlphabetsRule: a type's text encoder and decoder use the same base64 alphabet: the encoding objects
// (base64.StdEncoding, URLEncoding, ...) referenced by the writing functions and by the reading functions of each
// tabled pair are the same set.
func base64AlphabetsRule(P *Program, R *Report, rule string) {
	pairs := []struct {
		name           string
		write, read    []string
	}{
		{"revocation.Hash", []string{"revocation.(Hash).String", "revocation.(Hash).MarshalJSON"}, []string{"revocation.(*Hash).UnmarshalJSON"}},
		{"big.Int", []string{"big.(*Int).MarshalJSON", "big.(*Int).MarshalText"}, []string{"big.(*Int).UnmarshalJSON", "big.(*Int).UnmarshalText"}},
	}
	encs := func(keys []string) (map[string]bool, int) {
		out := map[string]bool{}
		found := 0
		for _, k := range keys {
			fn := P.Func(k)
			if fn == nil || fn.Blocks == nil {
				continue
			}
			found++
			seen := map[*ssa.Function]bool{}
			var walk func(g *ssa.Function, d int)
			walk = func(g *ssa.Function, d int) {
				if g == nil || g.Blocks == nil || seen[g] || d > 2 {
					return
				}
				seen[g] = true
				allInstrs(g, func(i ssa.Instruction) {
					for _, op := range i.Operands(nil) {
						if gl, ok := (*op).(*ssa.Global); ok && gl.Pkg != nil && gl.Pkg.Pkg.Path() == "encoding/base64" {
							out[gl.Name()] = true
						} else if ok && gl.Pkg != nil && inModule(gl.Pkg.Pkg) {
							// a package-level variable of the module that is initialised once with one of the encodings
							if init := gl.Pkg.Func("init"); init != nil {
								nStores := 0
								name := ""
								for _, f := range P.AllFuncs {
									if f.Blocks == nil {
										continue
									}
									allInstrs(f, func(j ssa.Instruction) {
										st, isSt := j.(*ssa.Store)
										if !isSt || st.Addr != ssa.Value(gl) {
											return
										}
										nStores++
										if ld, isLd := st.Val.(*ssa.UnOp); isLd && f == init {
											if bg, isG := ld.X.(*ssa.Global); isG && bg.Pkg != nil && bg.Pkg.Pkg.Path() == "encoding/base64" {
												name = bg.Name()
											}
										}
									})
								}
								if nStores == 1 && name != "" {
									out[name] = true
								}
							}
						}
					}
					if c, ok := i.(*ssa.Call); ok {
						if h := staticCallee(c); h != nil && inModuleFn(h) && h.Pkg == g.Pkg {
							walk(h, d+1)
						}
					}
				})
			}
			walk(fn, 0)
		}
		return out, found
	}
	for _, p := range pairs {
		w, nw := encs(p.write)
		r, nr := encs(p.read)
		if nw == 0 || nr == 0 {
			R.und(rule, p.name+":base64", "encoder and decoder functions exist", fmt.Sprintf("%d writers, %d readers found", nw, nr), "")
			continue
		}
		ws, rs := strings.Join(sortedKeys(w), ","), strings.Join(sortedKeys(r), ",")
		R.decide(rule, p.name+":base64", "the text form is written and read with the same base64 alphabet", ws == rs && ws != "", "written with "+ws+", read with "+rs, "")
	}
}

// freshDecodeTargetRule: the decoders of Update and EventList decode into a zero-valued intermediate value: nothing of
// the receiver is put into it beforehand (a SignedAccumulator handed over for reuse keeps its verified-accumulator
// memo - which the wire cannot set - so that the next message is never signature-checked; objects that witnesses
// alias are overwritten by the decode).
func freshDecodeTargetRule(P *Program, R *Report, rule string) {
	n := 0
	for _, key := range []string{"revocation.(*Update).UnmarshalJSON", "revocation.(*Update).UnmarshalCBOR", "revocation.(*EventList).UnmarshalJSON", "revocation.(*EventList).UnmarshalCBOR"} {
		fn := mustFunc(P, R, rule, key)
		if fn == nil {
			continue
		}
		var pre []string
		found := false
		scan := func(i ssa.Instruction) {
			al, ok := i.(*ssa.Alloc)
			if !ok {
				return
			}
			isTP := false
			if pt, isPtr := al.Type().(*types.Pointer); isPtr {
				_, isTP = pt.Elem().(*types.TypeParam) // `var c C` in a generic helper instantiated with the compressed type
			}
			if !ok || !(strings.Contains(typeStr(al.Type()), "compressed") || isTP) {
				return
			}
			found = true
			for _, r := range referrersOf(al) {
				switch u := r.(type) {
				case *ssa.FieldAddr:
					for _, rr := range referrersOf(u) {
						if st, isSt := rr.(*ssa.Store); isSt && st.Addr == ssa.Value(u) {
							if c, isC := st.Val.(*ssa.Const); isC && c.Value == nil {
								continue
							}
							pre = append(pre, faName(u)+" <- "+desc(st.Val))
						}
					}
				case *ssa.Store:
					if u.Addr == ssa.Value(al) {
						if ld, isLd := u.Val.(*ssa.UnOp); isLd {
							if src, isAl := ld.X.(*ssa.Alloc); isAl {
								// a composite literal copied in: its field stores count
								for _, r2 := range referrersOf(src) {
									if fa, isFA := r2.(*ssa.FieldAddr); isFA {
										for _, r3 := range referrersOf(fa) {
											if st, isSt := r3.(*ssa.Store); isSt && st.Addr == ssa.Value(fa) {
												pre = append(pre, faName(fa)+" <- "+desc(st.Val))
											}
										}
									}
								}
							}
						}
					}
				}
			}
		}
		// (in the decoder itself or in the unexported helper - possibly generic - that does the decoding for it)
		deepVisit(P, fn, 2, func(g *ssa.Function) { allInstrs(g, scan) })
		if !found {
			for _, ci := range callsIn(fn) {
				if g := staticCallee(ci); g != nil && g.Blocks != nil && (inModuleFn(g) || (g.Origin() != nil && inModuleFn(g.Origin()))) {
					allInstrs(g, scan) // (an instance of a generic helper has no package of its own)
				}
			}
		}
		n++
		R.decide(rule, key+":fresh-target", "the message is decoded into a zero-valued intermediate value (nothing of the receiver is handed to the decoder for reuse)", found && len(pre) == 0, strings.Join(pre, "; "), P.Pos(fn.Pos()))
	}
	R.decide(rule, "decoders:count", "the four decoders were found", n == 4, fmt.Sprintf("%d", n), "")
}
