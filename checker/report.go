package main

import (
	"encoding/json"
	"fmt"
	"io"
	"os"
	"path/filepath"
	"runtime/debug"
	"sort"
	"strconv"
	"strings"
	"time"
)

type Status string

const (
	Discharged Status = "discharged"
	Violated   Status = "violated"
	Undecided  Status = "undecided"
	Known      Status = "known-finding"
)

// Obligation is one decided rule instance, keyed by rule + construct (never by line).
type Obligation struct {
	ID        string   `json:"id"`        // rule + "/" + construct key
	Rule      string   `json:"rule"`      // e.g. C01.a
	Construct string   `json:"construct"` // e.g. gabi.(*ProofD).VerifyWithChallenge:C==challenge
	Status    Status   `json:"status"`
	What      string   `json:"what"`             // the statement decided
	Detail    string   `json:"detail,omitempty"` // path / counterexample / reason
	Pos       string   `json:"pos,omitempty"`
	Analysed  []string `json:"analysed,omitempty"` // functions / sites inspected
	nontriv   bool
}

type Report struct {
	Prop       string
	Tier       string
	P          *Program
	Obls       []*Obligation
	Notes      []string
	rulesRun   []string
	funcsSeen  map[string]bool
	onlyFilter map[string]bool
	curRule    string
	explain    []string
}

func newReport(prop, tier string, P *Program) *Report {
	return &Report{Prop: prop, Tier: tier, P: P, funcsSeen: map[string]bool{}}
}

func (R *Report) seen(fn string) { R.funcsSeen[fn] = true }

func (R *Report) add(o *Obligation) *Obligation {
	o.ID = o.Rule + "/" + o.Construct
	if R.onlyFilter != nil && !R.onlyFilter[o.ID] {
		return o
	}
	for _, x := range R.Obls {
		if x.ID == o.ID {
			// duplicate key: make unique deterministically
			o.ID = o.ID + "#" + strconv.Itoa(len(R.Obls))
		}
	}
	R.Obls = append(R.Obls, o)
	return o
}

// ok/bad/undecided helpers
func (R *Report) ok(rule, construct, what string, analysed ...string) *Obligation {
	return R.add(&Obligation{Rule: rule, Construct: construct, Status: Discharged, What: what, Analysed: analysed, nontriv: true})
}
func (R *Report) bad(rule, construct, what, detail, pos string) *Obligation {
	return R.add(&Obligation{Rule: rule, Construct: construct, Status: Violated, What: what, Detail: detail, Pos: pos, nontriv: true})
}
func (R *Report) und(rule, construct, what, detail, pos string) *Obligation {
	return R.add(&Obligation{Rule: rule, Construct: construct, Status: Undecided, What: what, Detail: detail, Pos: pos, nontriv: true})
}

// decide records an obligation from a boolean + detail.
func (R *Report) decide(rule, construct, what string, holds bool, detail, pos string) *Obligation {
	if holds {
		o := R.ok(rule, construct, what)
		o.Detail = detail
		o.Pos = pos
		return o
	}
	return R.bad(rule, construct, what, detail, pos)
}

type Rule struct {
	ID      string
	Explain string // what the rule decides and what it does not
	Run     func(P *Program, R *Report)
}

var registry = map[string][]Rule{}

func register(prop string, rules ...Rule) { registry[prop] = append(registry[prop], rules...) }

func runRules(P *Program, R *Report, rules []Rule) {
	for _, r := range rules {
		if sk := os.Getenv("GABILINT_SKIP"); sk != "" && strings.Contains(","+sk+",", ","+r.ID+",") {
			continue
		}
		R.curRule = r.ID
		R.rulesRun = append(R.rulesRun, r.ID)
		R.explain = append(R.explain, r.ID+": "+r.Explain)
		func() {
			defer func() {
				if e := recover(); e != nil {
					R.add(&Obligation{Rule: r.ID, Construct: "checker-panic", Status: Undecided,
						What: "rule evaluation completes", Detail: fmt.Sprintf("panic: %v\n%s", e, debug.Stack()), nontriv: true})
				}
			}()
			before := len(R.Obls)
			r.Run(P, R)
			if len(R.Obls) == before && R.onlyFilter == nil {
				R.add(&Obligation{Rule: r.ID, Construct: "vacuous", Status: Undecided,
					What: "rule matches at least one instance", Detail: "rule produced no obligations (vacuous pass is not accepted)", nontriv: true})
			}
		}()
	}
}

// ---- known findings -------------------------------------------------------

type Finding struct {
	Property  string `json:"property"`
	Rule      string `json:"rule"`
	Construct string `json:"construct"`
	WhatFails string `json:"what_fails"`
	Status    string `json:"status"` // open | fixed
	Commit    string `json:"commit,omitempty"`
}

type FindingsFile struct {
	Findings []Finding `json:"findings"`
	Fixed    []string  `json:"fixed_log,omitempty"`
}

func loadFindings(path string) (*FindingsFile, error) {
	ff := &FindingsFile{}
	if path == "" {
		return ff, nil
	}
	b, err := os.ReadFile(path)
	if err != nil {
		if os.IsNotExist(err) {
			return ff, nil
		}
		return nil, err
	}
	if err := json.Unmarshal(b, ff); err != nil {
		return nil, err
	}
	return ff, nil
}

func (R *Report) applyFindings(ff *FindingsFile) {
	for _, o := range R.Obls {
		if o.Status != Violated {
			continue
		}
		for _, f := range ff.Findings {
			if f.Status == "open" && f.Property == R.Prop && f.Rule == o.Rule && f.Construct == o.Construct {
				o.Status = Known
				o.Detail = f.WhatFails + " | " + o.Detail
			}
		}
	}
}

func loadOnly(path string) map[string]bool {
	if path == "" {
		return nil
	}
	b, err := os.ReadFile(path)
	if err != nil {
		return nil
	}
	var v struct {
		Violations []Obligation `json:"violations"`
	}
	if json.Unmarshal(b, &v) != nil {
		return nil
	}
	m := map[string]bool{}
	for _, o := range v.Violations {
		m[o.ID] = true
	}
	return m
}

func (R *Report) checkExpected(ids []string) (missing []string) {
	for _, want := range ids {
		want = strings.TrimSpace(want)
		if want == "" {
			continue
		}
		found := false
		for _, o := range R.Obls {
			if (o.Status == Violated || o.Status == Undecided) && (o.ID == want || o.Rule == want || strings.HasPrefix(o.ID, want)) {
				found = true
			}
		}
		if !found {
			missing = append(missing, want)
		}
	}
	return
}

func (R *Report) printViolations(w io.Writer) {
	for _, o := range R.Obls {
		if o.Status == Violated || o.Status == Undecided {
			fmt.Fprintf(w, "  %s %s at %s: %s\n    %s\n", strings.ToUpper(string(o.Status)), o.ID, o.Pos, o.What, strings.ReplaceAll(o.Detail, "\n", "\n    "))
		}
	}
}

// finish prints the verdict, writes evidence and the replay file. Returns true on violation.
func (R *Report) finish(evDir string, wall time.Duration) bool {
	sort.SliceStable(R.Obls, func(i, j int) bool { return R.Obls[i].ID < R.Obls[j].ID })
	var viol, known []*Obligation
	disc := 0
	for _, o := range R.Obls {
		switch o.Status {
		case Discharged:
			disc++
		case Known:
			known = append(known, o)
		default:
			viol = append(viol, o)
		}
	}
	fmt.Printf("property=%s tier=%s config=%s obligations=%d discharged=%d known=%d violated=%d rules=%s\n",
		R.Prop, R.Tier, R.P.Config, len(R.Obls), disc, len(known), len(viol), strings.Join(R.rulesRun, ","))
	for _, o := range known {
		fmt.Printf("KNOWN-FINDING: property=%s %s %s: %s\n", R.Prop, o.Rule, o.Construct, firstLine(o.Detail))
	}
	replay := ""
	if len(viol) > 0 {
		R.printViolations(os.Stdout)
		if evDir != "" {
			replay = replayPath(evDir, R.Prop)
			b, _ := json.MarshalIndent(map[string]any{"property": R.Prop, "violations": viol}, "", " ")
			_ = os.WriteFile(replay, b, 0o644)
		}
		fmt.Printf("VIOLATION property=%s replay=%s\n", R.Prop, replay)
	}
	if evDir != "" {
		if len(viol) == 0 {
			_ = os.Remove(replayPath(evDir, R.Prop))
		}
		R.writeEvidence(evDir, wall, disc, len(viol), known)
	}
	return len(viol) > 0
}

func firstLine(s string) string {
	if i := strings.IndexByte(s, '\n'); i >= 0 {
		return s[:i]
	}
	return s
}

func (R *Report) writeEvidence(evDir string, wall time.Duration, disc, nviol int, known []*Obligation) {
	_ = os.MkdirAll(evDir, 0o755)
	seed := 0
	if s := os.Getenv("VERIF_SEED"); s != "" {
		if n, err := strconv.Atoi(s); err == nil {
			seed = n
		}
	}
	funcs := make([]string, 0, len(R.funcsSeen))
	for f := range R.funcsSeen {
		funcs = append(funcs, f)
	}
	sort.Strings(funcs)
	perRule := map[string]int{}
	nontriv := map[string]bool{}
	for _, o := range R.Obls {
		perRule[o.Rule]++
		if o.nontriv {
			nontriv[o.ID] = true
		}
	}
	samples := []any{}
	for i, o := range R.Obls {
		if i%maxInt(1, len(R.Obls)/8) == 0 && len(samples) < 10 {
			samples = append(samples, map[string]any{"id": o.ID, "what": o.What, "status": o.Status, "detail": firstLine(o.Detail), "pos": o.Pos})
		}
	}
	all := []any{}
	for _, o := range R.Obls {
		all = append(all, map[string]any{"id": o.ID, "status": o.Status, "what": o.What, "pos": o.Pos, "detail": firstLine(o.Detail)})
	}
	kf := []string{}
	for _, o := range known {
		kf = append(kf, o.ID)
	}
	ev := map[string]any{
		"property_id": R.Prop,
		"tier":        R.Tier,
		"seed":        seed,
		"level":       "other",
		"wall_s":      wall.Seconds(),
		"violations":  nviol,
		"coverage": map[string]any{
			"explanation": "Static analysis of /repo's current source (type-checked program, go/ssa, VTA call graph); nothing is executed. " +
				"Decides the structural clauses listed below, which are necessary conditions of the property, on all paths of the anchored functions. " +
				"It does not decide the cryptographic/numeric behaviour itself (see DESIGN.md section 3 'Not decided'). Rules: " + strings.Join(R.explain, " || "),
			"obligations":          len(R.Obls),
			"discharged":           disc,
			"known_findings":       kf,
			"evaluations":          len(R.Obls),
			"distinct_nontrivial":  len(nontriv),
			"rule":                 "one evaluation per obligation (rule instance keyed by rule+construct); non-trivial = the obligation required a path search, term comparison or flow query over resolved SSA (all listed ones do); distinct by id",
			"samples":              samples,
			"obligation_list":      all,
			"instances_per_rule":   perRule,
			"functions_analysed":   funcs,
			"packages":             len(R.P.PkgByName),
			"module_functions":     len(R.P.AllFuncs),
			"callgraph_nodes":      len(R.P.CG.Nodes),
			"build_configuration":  R.P.Config,
			"checker_cmd":          "bin/gabilint -prop " + R.Prop + " -tier " + R.Tier,
			"trusted_base":         []string{"go/types", "go/ssa construction", "VTA call graph as over-approximation of module-internal dynamic calls", "oracle tables in /verif/checker (derived from DESIGN.md)"},
			"exhaustive":           false,
			"notes":                R.Notes,
		},
		"assumptions": []string{
			"Go type checker and go/ssa are correct",
			"standard-library and third-party functions behave as documented (bytes.Equal, ProbablyPrime, asn1.Marshal, sha256, cbor)",
			"objects of tabled types are not aliased through unsafe/reflection",
			"the oracle tables (DESIGN.md) are the specification",
		},
	}
	b, _ := json.MarshalIndent(ev, "", " ")
	_ = os.WriteFile(filepath.Join(evDir, R.Prop+".json"), b, 0o644)
}

func maxInt(a, b int) int {
	if a > b {
		return a
	}
	return b
}

// failAll is used when the program cannot even be loaded: that is a failure, never a pass.
func failAll(prop, tier, evDir, reason, detail string, start time.Time) {
	ids := []string{prop}
	if prop == "all" {
		ids = nil
		for id := range registry {
			ids = append(ids, id)
		}
		sort.Strings(ids)
	}
	for _, id := range ids {
		replay := ""
		if evDir != "" {
			_ = os.MkdirAll(evDir, 0o755)
			replay = replayPath(evDir, id)
			b, _ := json.MarshalIndent(map[string]any{"property": id, "reason": reason, "detail": detail}, "", " ")
			_ = os.WriteFile(replay, b, 0o644)
			ev := map[string]any{"property_id": id, "tier": tier, "seed": 0, "level": "other", "wall_s": time.Since(start).Seconds(), "violations": 1,
				"coverage": map[string]any{"explanation": "program could not be loaded/type-checked: " + reason + ": " + detail, "obligations": 0, "discharged": 0}}
			b, _ = json.MarshalIndent(ev, "", " ")
			_ = os.WriteFile(filepath.Join(evDir, id+".json"), b, 0o644)
		}
		fmt.Printf("%s: %s\n", reason, detail)
		fmt.Printf("VIOLATION property=%s replay=%s\n", id, replay)
	}
}

// replayPath: violations of the last failing run live beside (not inside) the evidence directory.
func replayPath(evDir, prop string) string {
	dir := filepath.Join(filepath.Dir(filepath.Clean(evDir)), "replay")
	_ = os.MkdirAll(dir, 0o755)
	return filepath.Join(dir, prop+".violations.json")
}

// sharedRule runs rule fromID of property fromProp and files those of its obligations whose construct passes keep
// (nil = all) under asID: the same decision, listed under another property whose statement covers it too. Known
// findings stay with the rule they are listed under (they are keyed by rule+construct), so obligations that are
// known findings of the source rule are not copied.
func sharedRule(P *Program, R *Report, fromProp, fromID, asID string, keep func(construct string) bool) {
	sub := newReport(R.Prop, R.Tier, P)
	for _, r := range registry[fromProp] {
		if r.ID == fromID {
			r.Run(P, sub)
		}
	}
	for f := range sub.funcsSeen {
		R.seen(f)
	}
	n := 0
	for _, o := range sub.Obls {
		if o.Rule != fromID || (keep != nil && !keep(o.Construct)) {
			continue
		}
		o.Rule = asID
		R.add(o)
		n++
	}
	if n == 0 {
		R.und(asID, "shared:"+fromID, "the shared rule has obligations", "no obligation of "+fromID+" matched", "")
	}
}
