package main

import (
	"fmt"
	"go/token"
	"go/types"
	"sort"
	"strings"

	"golang.org/x/tools/go/ssa"
)

// ---- A3: validated-before-use typestate for attacker-supplied structures ------------------------

// NilAn decides, for every dereference / indexing of a nullable value loaded from an untrusted
// structure in the functions reachable from the entry points, that a non-nil / in-range fact for the
// same access path is established on every path from an entry point to the use: by a nil or bounds test,
// by a successful call to a function that itself establishes it on all accepting paths (validators are
// computed, not declared), or by an assignment of a fresh value.
type NilAn struct {
	P         *Program
	Untrusted map[string]bool // type keys, e.g. "gabi.ProofD"
	Entries   []*ssa.Function
	reach     map[*ssa.Function]bool
	callers   map[*ssa.Function][]ssa.CallInstruction
	needMemo  map[string]int // 0 unknown, 1 needs, 2 no
	estMemo   map[string]*estResult
	faMemo    map[string]*ForAll
	lenBounds map[string]map[string]bool
	Sites     int
}

type estResult struct {
	ok    bool
	why   string
	chain []string
}

type derefSite struct {
	fn   *ssa.Function
	ins  ssa.Instruction
	v    ssa.Value
	d    string
	kind string // nil | index-lower | index-upper | len-eq
	aux  string // for index: the slice descriptor; for len-eq: other length
	how  string
}

func NewNilAn(P *Program, untrusted []string, entries []*ssa.Function) *NilAn {
	na := &NilAn{P: P, Untrusted: map[string]bool{}, Entries: entries, reach: map[*ssa.Function]bool{},
		callers: map[*ssa.Function][]ssa.CallInstruction{}, needMemo: map[string]int{}, estMemo: map[string]*estResult{}, faMemo: map[string]*ForAll{}}
	for _, u := range untrusted {
		na.Untrusted[u] = true
	}
	for _, f := range P.reachableFuncs(entries...) {
		na.reach[f] = true
	}
	for f := range na.reach {
		for _, c := range callsIn(f) {
			for _, g := range P.callees(c) {
				if na.reach[g] {
					na.callers[g] = append(na.callers[g], c)
				}
			}
		}
	}
	return na
}


// untrustedNullable: v is a nullable value read out of an untrusted structure (not the root object itself).
func (na *NilAn) untrustedNullable(v ssa.Value) (string, bool) {
	switch v.Type().Underlying().(type) {
	case *types.Pointer, *types.Map, *types.Slice:
	default:
		return "", false
	}
	switch x := v.(type) {
	case *ssa.UnOp:
		if x.Op != token.MUL {
			return "", false
		}
		switch x.X.(type) {
		case *ssa.FieldAddr, *ssa.IndexAddr:
		default:
			return "", false
		}
	case *ssa.Lookup, *ssa.Field, *ssa.Index:
	case *ssa.Extract:
		switch x.Tuple.(type) {
		case *ssa.Lookup, *ssa.Next:
		default:
			return "", false
		}
	case *ssa.Call:
		// result of a module function that hands out a nullable untrusted value (e.g. SecretKeyResponse)
		cs := na.P.callees(x)
		if len(cs) == 0 {
			return "", false
		}
		any := false
		for _, g := range cs {
			if inModuleFn(g) && na.returnsUntrusted(g) {
				any = true
			}
		}
		if !any {
			return "", false
		}
		return desc(v), true
	default:
		return "", false
	}
	d := desc(v)
	if !strings.HasPrefix(d, "<") {
		return "", false
	}
	end := strings.Index(d, ">")
	if end < 0 || end == len(d)-1 {
		return "", false
	}
	if !na.Untrusted[d[1:end]] {
		return "", false
	}
	rest := d[end+1:]
	// below a verified accumulator everything is trusted; the cached pointer itself is nil until verified
	if strings.Contains(rest, ".Accumulator.") || strings.Contains(rest, ".acc.") {
		return "", false
	}
	return d, true
}

// returnsUntrusted: some return of g is directly a nullable load from an untrusted structure.
func (na *NilAn) returnsUntrusted(g *ssa.Function) bool {
	if g.Blocks == nil || g.Signature.Results().Len() != 1 {
		return false
	}
	switch g.Name() {
	case "ProofResult", "Base", "Secret", "Randomizer":
		// name-indexed lookups of the zkproof interfaces: governed by the structure checks (C08.c) and
		// by the validated-before-call obligations, not by access-path facts
		return false
	}
	key := "ret|" + FuncKey(g)
	if m, ok := na.needMemo[key]; ok {
		return m == 1
	}
	na.needMemo[key] = 2
	for _, r := range returnsOf(g) {
		if _, isCall := retValue(r, 0).(*ssa.Call); isCall {
			continue
		}
		if _, ok := na.untrustedNullable(retValue(r, 0)); ok {
			na.needMemo[key] = 1
			return true
		}
	}
	return false
}

// paramNeeds: does function g dereference its k-th parameter (receiver = 0) without a dominating nil test?
func (na *NilAn) paramNeeds(g *ssa.Function, k int, depth int) bool {
	if g == nil || g.Blocks == nil || k >= len(g.Params) || depth > 8 {
		return false
	}
	key := fmt.Sprintf("%s#%d", FuncKey(g), k)
	switch na.needMemo[key] {
	case 1:
		return true
	case 2:
		return false
	case 3:
		return false // in progress
	}
	na.needMemo[key] = 3
	p := paramAt(g, k)
	res := false
	var visit func(v ssa.Value, seen map[ssa.Value]bool)
	visit = func(v ssa.Value, seen map[ssa.Value]bool) {
		if res || seen[v] {
			return
		}
		seen[v] = true
		for _, r := range referrersOf(v) {
			if res {
				return
			}
			guarded := func(b *ssa.BasicBlock) bool {
				for _, a := range controllingConds(b) {
					a = normAtom(a)
					if bo, ok := a.V.(*ssa.BinOp); ok && isNilConst(bo.Y) && (bo.X == v || bo.X == ssa.Value(p)) {
						if (bo.Op == token.NEQ && a.Want == True) || (bo.Op == token.EQL && a.Want == False) {
							return true
						}
					}
				}
				return false
			}
			switch u := r.(type) {
			case *ssa.FieldAddr:
				if u.X == v && !guarded(u.Block()) {
					res = true
				}
			case *ssa.UnOp:
				if u.Op == token.MUL && u.X == v && !guarded(u.Block()) {
					res = true
				}
			case *ssa.MapUpdate:
				if u.Map == v && !guarded(u.Block()) {
					res = true
				}
			case *ssa.ChangeType, *ssa.Phi:
				visit(u.(ssa.Value), seen)
			case *ssa.Call:
				if guarded(u.Block()) {
					continue
				}
				if bigMethod(u) != "" {
					for _, a := range callArgs(u) {
						if a == v {
							res = true
						}
					}
					continue
				}
				args := callArgs(u)
				off := 0
				if u.Call.IsInvoke() {
					off = 1
				}
				for j, a := range args {
					if a != v {
						continue
					}
					for _, h := range na.P.callees(u) {
						if inModuleFn(h) && na.paramNeeds(h, j+off, depth+1) {
							res = true
						}
					}
				}
			}
		}
	}
	visit(p, map[ssa.Value]bool{})
	if res {
		na.needMemo[key] = 1
	} else {
		na.needMemo[key] = 2
	}
	return res
}

// collectSites finds the dereference / indexing sites of untrusted nullable values in the reach.
func (na *NilAn) collectSites() []derefSite {
	var out []derefSite
	fns := make([]*ssa.Function, 0, len(na.reach))
	for f := range na.reach {
		fns = append(fns, f)
	}
	sort.Slice(fns, func(i, j int) bool { return FuncKey(fns[i]) < FuncKey(fns[j]) })
	for _, fn := range fns {
		add := func(ins ssa.Instruction, v ssa.Value, how string) {
			if d, ok := na.untrustedNullable(v); ok {
				out = append(out, derefSite{fn: fn, ins: ins, v: v, d: d, kind: "nil", how: how})
			}
		}
		allInstrs(fn, func(i ssa.Instruction) {
			switch x := i.(type) {
			case *ssa.FieldAddr:
				add(x, x.X, "field access")
			case *ssa.MapUpdate:
				add(x, x.Map, "map write")
			case *ssa.IndexAddr:
				na.indexSites(fn, x, x.X, x.Index, &out)
			case *ssa.Index:
				na.indexSites(fn, x, x.X, x.Index, &out)
			case *ssa.Call:
				if m := bigMethod(x); m != "" {
					for _, a := range callArgs(x) {
						if isBigIntPtr(a.Type()) {
							add(x, a, "big.Int."+m)
						}
					}
					return
				}
				off := 0
				if x.Call.IsInvoke() {
					off = 1
				}
				cs := na.P.callees(x)
				for j, a := range callArgs(x) {
					for _, g := range cs {
						if inModuleFn(g) && na.paramNeeds(g, j+off, 0) {
							add(x, a, "passed to "+FuncKey(g)+" which dereferences it")
							break
						}
					}
				}
			}
		})
	}
	// functions that compute on a proof without checking it themselves: every call must follow validation
	for _, fn := range fns {
		for _, c := range callsIn(fn) {
			if v, ok := requiresValidated[calleeName(c)]; ok {
				out = append(out, derefSite{fn: fn, ins: c, v: nil, d: v, kind: "validated", how: "call of " + calleeName(c) + " requires a prior successful " + v})
			}
		}
	}
	na.Sites = len(out)
	return out
}

// requiresValidated: callee -> structure check that must have succeeded on every path to the call.
var requiresValidated = map[string]string{
	"revocation.(*Proof).ChallengeContributions":           "revocation.verifyProofStructure",
	"rangeproof.(*ProofStructure).CommitmentsFromProof":    "rangeproof.(*ProofStructure).VerifyProofStructure",
	"revocation.commitmentsFromProof":    "revocation.verifyProofStructure",
}

func (na *NilAn) indexSites(fn *ssa.Function, ins ssa.Instruction, X, idx ssa.Value, out *[]derefSite) {
	if _, isSlice := X.Type().Underlying().(*types.Slice); !isSlice {
		return
	}
	xd := desc(X)
	id := desc(idx)
	if _, isConst := idx.(*ssa.Const); isConst && !strings.HasPrefix(xd, "<") {
		return
	}
	untrustedIdx := false
	for u := range na.Untrusted {
		if strings.Contains(id, "<"+u+">") {
			untrustedIdx = true
		}
	}
	_, untrustedSlice := na.untrustedNullable(X)
	switch {
	case untrustedIdx:
		// index decoded from an untrusted structure (map key, integer field): both bounds needed
		*out = append(*out, derefSite{fn: fn, ins: ins, v: idx, d: id, kind: "index-lower", aux: xd, how: "index into " + xd})
		*out = append(*out, derefSite{fn: fn, ins: ins, v: idx, d: id, kind: "index-upper", aux: xd, how: "index into " + xd})
	case untrustedSlice:
		// untrusted slice indexed by a loop variable of another collection, or a constant
		// an index captured by a closure (ic := i): the site moves to the closure's creation, where the
		// loop that bounds it is visible (slice lengths of the proof do not change in between)
		siteFn, siteIns := fn, ins
		if fv, isFV := idxRootFreeVar(idx); isFV {
			if mc, v := closureBindingValue(fv); mc != nil && v != nil {
				if vd := desc(v); vd == "#i" || vd == "#j" || vd == "#k" {
					id, siteFn, siteIns = vd, mc.Parent(), ssa.Instruction(mc)
					if st := singleStoreOf(mc, fv); st != nil {
						siteIns = st
					}
				}
			}
		}
		if id == "#i" || id == "#j" || id == "#k" {
			// loop bound
			bound := ""
			for _, a := range controllingConds(siteIns.Block()) {
				a = normAtom(a)
				if g, ok := parseGuard(a, nil); ok && g.Kind == "int" && g.Subject == id && g.Rel == "<" {
					bound = g.BoundA.String()
				}
			}
			if bound == "len("+xd+")" {
				return
			}
			if bound == "" {
				bound = "?"
			}
			*out = append(*out, derefSite{fn: siteFn, ins: siteIns, v: X, d: "len(" + xd + ")", kind: "len-eq", aux: bound, how: "index " + id + " (bounded by " + bound + ") into " + xd})
		} else {
			*out = append(*out, derefSite{fn: fn, ins: ins, v: idx, d: id, kind: "index-upper", aux: xd, how: "index into untrusted " + xd})
		}
	}
}

// idxRootFreeVar: idx is a load of a captured variable.
func idxRootFreeVar(idx ssa.Value) (*ssa.FreeVar, bool) {
	if u, ok := stripConv(idx).(*ssa.UnOp); ok && u.Op == token.MUL {
		if fv, ok := u.X.(*ssa.FreeVar); ok {
			return fv, true
		}
	}
	if fv, ok := idx.(*ssa.FreeVar); ok {
		return fv, true
	}
	return nil, false
}

// closureBindingValue: the unique MakeClosure binding the free variable, and the single value stored in
// the captured cell (nil when not unique).
func closureBindingValue(fv *ssa.FreeVar) (*ssa.MakeClosure, ssa.Value) {
	fn := fv.Parent()
	par := fn.Parent()
	if par == nil {
		return nil, nil
	}
	idx := -1
	for k, f := range fn.FreeVars {
		if f == fv {
			idx = k
		}
	}
	var mcs []*ssa.MakeClosure
	allInstrs(par, func(i ssa.Instruction) {
		if mc, ok := i.(*ssa.MakeClosure); ok && mc.Fn == ssa.Value(fn) {
			mcs = append(mcs, mc)
		}
	})
	if len(mcs) != 1 || idx < 0 || idx >= len(mcs[0].Bindings) {
		return nil, nil
	}
	b := mcs[0].Bindings[idx]
	al, ok := b.(*ssa.Alloc)
	if !ok {
		return mcs[0], b
	}
	var val ssa.Value
	n := 0
	for _, r := range referrersOf(al) {
		if st, ok := r.(*ssa.Store); ok && st.Addr == ssa.Value(al) {
			val = st.Val
			n++
		}
	}
	if n != 1 {
		return mcs[0], nil
	}
	return mcs[0], val
}

func singleStoreOf(mc *ssa.MakeClosure, fv *ssa.FreeVar) ssa.Instruction {
	fn := fv.Parent()
	for k, f := range fn.FreeVars {
		if f == fv && k < len(mc.Bindings) {
			if al, ok := mc.Bindings[k].(*ssa.Alloc); ok {
				for _, r := range referrersOf(al) {
					if st, ok := r.(*ssa.Store); ok && st.Addr == ssa.Value(al) {
						return st
					}
				}
			}
		}
	}
	return nil
}

// matcher for a fact on descriptor d.
func (na *NilAn) factMatch(kind, d, aux string) (func(Atom) bool, func(*ssa.Function, ssa.Instruction) bool) {
	direct, _ := na.factMatchRaw(kind, d, aux)
	instr := func(fn *ssa.Function, i ssa.Instruction) bool {
		if kind == "fresh" {
			// the field is (re)written in this invocation, whatever the value
			st, ok := i.(*ssa.Store)
			return ok && desc(st.Addr) == d
		}
		if kind != "nil" {
			return false
		}
		var target string
		var val ssa.Value
		switch x := i.(type) {
		case *ssa.Store:
			target, val = desc(x.Addr), x.Val
		case *ssa.MapUpdate:
			target, val = desc(x.Map)+"["+desc(x.Key)+"]", x.Value
		default:
			return false
		}
		if target != d {
			return false
		}
		if isNilConst(val) {
			return false
		}
		if _, unt := na.untrustedNullable(val); unt {
			return false
		}
		switch siteOf(val).(type) {
		case *ssa.Alloc, *ssa.MakeMap, *ssa.MakeSlice:
			return true
		}
		// values taken from trusted objects or parameters of the verifier (challenge etc.)
		return true
	}
	// element facts established by a validator that loops over the whole collection
	coll, elemKey := collectionOf(d)
	forall := func(a Atom) bool {
		if coll == "" {
			return false
		}
		c, _ := callAndResult(a.V)
		if c == nil {
			return false
		}
		cs := na.P.callees(c)
		if len(cs) == 0 {
			return false
		}
		for _, g := range cs {
			if !inModuleFn(g) || g.Blocks == nil {
				return false
			}
			ga, ok := accOfFn(g, a.Want)
			if !ok {
				return false
			}
			fa := na.forAllFor(kind, d, aux, coll, elemKey)
			// the validator loops over the collection itself, or hands it to a helper that does
			okV := false
			bindCall(c, g, func() { okV = fa.OnAccept(g, ga).Holds })
			if !okV {
				return false
			}
		}
		return true
	}
	// P["name"]: established by a validator that loops over a package-level name list containing "name"
	constKey := func(a Atom) bool { return false }
	if kind == "nil" && strings.HasSuffix(d, `"]`) {
		if i := strings.LastIndex(d, `["`); i > 0 {
			prefix, name := d[:i], d[i+2:len(d)-2]
			for g, names := range na.P.globalStringLists() {
				has := false
				for _, n := range names {
					if n == name {
						has = true
					}
				}
				if !has {
					continue
				}
				gd := g
				elemD := prefix + "[" + gd + "[#i]]"
				fa := &ForAll{P: na.P, Spec: ForAllSpec{Coll: is(gd), Body: func(fn *ssa.Function, l *Loop) *MustPass {
					return &MustPass{Match: func(a Atom) bool { return desc(a.V) == elemD && a.Want == NonNil }}
				}}}
				prev := constKey
				constKey = func(a Atom) bool {
					if prev(a) {
						return true
					}
					c, _ := callAndResult(a.V)
					if c == nil {
						return false
					}
					cs := na.P.callees(c)
					if len(cs) == 0 {
						return false
					}
					for _, h := range cs {
						if !inModuleFn(h) || h.Blocks == nil {
							return false
						}
						ha, ok := accOfFn(h, a.Want)
						if !ok {
							return false
						}
						// (the name list may reach the validator as an argument: seen with its parameters bound)
						held := false
						bindCall(c, h, func() { held = fa.OnAccept(h, ha).Holds })
						if !held {
							return false
						}
					}
					return true
				}
			}
		}
	}
	return anyOf(direct, forall, constKey), instr
}

// collectionOf: for element descriptors X[*], X[#i] and key descriptors rangekey(X) returns X.
func collectionOf(d string) (coll, elem string) {
	if strings.HasPrefix(d, "rangekey(") && strings.HasSuffix(d, ")") {
		return d[len("rangekey(") : len(d)-1], d
	}
	for _, suf := range []string{"[*]", "[#i]"} {
		if strings.HasSuffix(d, suf) {
			return strings.TrimSuffix(d, suf), d
		}
	}
	return "", ""
}

func (na *NilAn) forAllFor(kind, d, aux, coll, elem string) *ForAll {
	key := kind + "|" + d + "|" + aux
	if fa, ok := na.faMemo[key]; ok {
		return fa
	}
	alt := elem
	if strings.HasSuffix(elem, "[*]") {
		alt = strings.TrimSuffix(elem, "[*]") + "[#i]"
	} else if strings.HasSuffix(elem, "[#i]") {
		alt = strings.TrimSuffix(elem, "[#i]") + "[*]"
	}
	fa := &ForAll{P: na.P, Spec: ForAllSpec{Coll: is(coll), Body: func(fn *ssa.Function, l *Loop) *MustPass {
		m1, _ := na.factMatchRaw(kind, elem, aux)
		m2, _ := na.factMatchRaw(kind, alt, aux)
		return &MustPass{Match: anyOf(m1, m2)}
	}}}
	na.faMemo[key] = fa
	return fa
}

func (na *NilAn) factMatchRaw(kind, d, aux string) (func(Atom) bool, func(*ssa.Function, ssa.Instruction) bool) {
	return func(a Atom) bool {
		switch kind {
		case "nil":
			return desc(a.V) == d && a.Want == NonNil
		case "fresh":
			return false
		case "validated":
			_, ok := callAtom(a, True, d)
			return ok
		default:
			g, ok := parseGuard(a, nil)
			if !ok || g.Kind != "int" {
				return false
			}
			switch kind {
			case "index-lower":
				return g.Subject == d && g.BoundA.isConst() && ((g.Rel == ">=" && g.BoundA.C >= 0) || (g.Rel == ">" && g.BoundA.C >= -1) || (g.Rel == "==" && g.BoundA.C >= 0))
			case "index-upper":
				return (g.Subject == d && g.Rel == "<" && g.BoundA.String() == "len("+aux+")") || (g.Subject == "len("+aux+")" && g.Rel == ">" && g.BoundA.String() == d)
			case "len-eq":
				return g.Rel == "==" && ((g.Subject == d && g.BoundA.String() == aux) || (g.Subject == aux && g.BoundA.String() == d))
			}
		}
		return false
	}, nil
}

// established: on every path from an entry point to ins in fn the fact holds.
func (na *NilAn) established(fn *ssa.Function, ins ssa.Instruction, kind, d, aux string, depth int, stack map[*ssa.Function]bool) *estResult {
	key := fmt.Sprintf("%s|%p|%s|%s|%s", FuncKey(fn), ins, kind, d, aux)
	if r, ok := na.estMemo[key]; ok {
		return r
	}
	match, instr := na.factMatch(kind, d, aux)
	q := &MustPass{P: na.P, Match: match, Instr: instr}
	q.init()
	r := q.search(fn, AcceptAny(), 0, searchOpts{startAt: []*mpState{{b: ins.Block(), note: "use at " + na.P.Pos(ins.Pos())}}, startInstr: ins})
	if r.Holds {
		res := &estResult{ok: true, why: "guarded in " + FuncKey(fn)}
		na.estMemo[key] = res
		return res
	}
	// not established locally: every caller must establish it before the call
	isEntry := false
	for _, e := range na.Entries {
		if e == fn {
			isEntry = true
		}
	}
	if isEntry || depth > 8 {
		res := &estResult{ok: false, why: "reaches entry point " + FuncKey(fn) + " unguarded: " + r.Path}
		na.estMemo[key] = res
		return res
	}
	cs := na.callers[fn]
	if len(cs) == 0 {
		res := &estResult{ok: false, why: "no caller establishes it; local path: " + r.Path}
		na.estMemo[key] = res
		return res
	}
	if stack[fn] {
		return &estResult{ok: true, why: "recursion"}
	}
	stack[fn] = true
	defer delete(stack, fn)
	for _, c := range cs {
		cf := c.Parent()
		cd, caux := d, aux
		if strings.Contains(d, "arg#") || strings.Contains(aux, "arg#") {
			cd, caux = substArgs(d, c), substArgs(aux, c)
		}
		sub := na.established(cf, c, kind, cd, caux, depth+1, stack)
		if !sub.ok {
			res := &estResult{ok: false, why: "via call from " + FuncKey(cf) + " at " + na.P.Pos(c.Pos()) + ": " + sub.why}
			na.estMemo[key] = res
			return res
		}
	}
	res := &estResult{ok: true, why: "established by all callers"}
	na.estMemo[key] = res
	return res
}

// lengthBounds: the bounds E of all tests `len(X) == E` / `!=` on the length descriptor d in the reach.
func (na *NilAn) lengthBounds(d string) []string {
	if na.lenBounds == nil {
		na.lenBounds = map[string]map[string]bool{}
		for fn := range na.reach {
			allInstrs(fn, func(i ssa.Instruction) {
				bo, ok := i.(*ssa.BinOp)
				if !ok || (bo.Op != token.EQL && bo.Op != token.NEQ) {
					return
				}
				g, ok := parseGuard(Atom{V: bo, Want: True}, nil)
				if !ok || g.Kind != "int" || !strings.HasPrefix(g.Subject, "len(") {
					return
				}
				if na.lenBounds[g.Subject] == nil {
					na.lenBounds[g.Subject] = map[string]bool{}
				}
				na.lenBounds[g.Subject][g.BoundA.String()] = true
			})
		}
	}
	return sortedKeys(na.lenBounds[d])
}

// Run evaluates all sites and records one obligation per (function, fact).
func (na *NilAn) Run(R *Report, rule string) {
	descReroot = true
	defer func() { descReroot = false }()
	sites := na.collectSites()
	type agg struct {
		ok    bool
		why   []string
		pos   string
		how   string
		count int
	}
	res := map[string]*agg{}
	var order []string
	for _, s := range sites {
		R.seen(FuncKey(s.fn))
		key := fmt.Sprintf("%s:%s(%s)", FuncKey(s.fn), s.kind, s.d)
		if s.aux != "" && s.kind != "nil" {
			key += "@" + s.aux
		}
		a, ok := res[key]
		if !ok {
			a = &agg{ok: true, pos: na.P.Pos(s.ins.Pos()), how: s.how}
			res[key] = a
			order = append(order, key)
		}
		a.count++
		er := na.established(s.fn, s.ins, s.kind, s.d, s.aux, 0, map[*ssa.Function]bool{})
		if !er.ok && s.kind == "len-eq" && strings.HasPrefix(s.aux, "len(") {
			// both lengths were tested equal to one common bound E
			for _, e := range na.lengthBounds(s.d) {
				e1 := na.established(s.fn, s.ins, "len-eq", s.d, e, 0, map[*ssa.Function]bool{})
				e2 := na.established(s.fn, s.ins, "len-eq", s.aux, e, 0, map[*ssa.Function]bool{})
				if e1.ok && e2.ok {
					er = &estResult{ok: true, why: "both lengths equal " + e}
					break
				}
			}
		}
		if !er.ok {
			a.ok = false
			a.why = append(a.why, na.P.Pos(s.ins.Pos())+" ("+s.how+"): "+er.why)
		}
	}
	sort.Strings(order)
	for _, k := range order {
		a := res[k]
		what := "untrusted value is proven non-nil / in range on every path from a verification entry point before this use (" + a.how + ")"
		R.decide(rule, k, what, a.ok, strings.Join(a.why, "\n"), a.pos)
	}
}
