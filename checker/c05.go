package main

import (
	"go/token"
	"go/types"
	"fmt"
	"strings"

	"golang.org/x/tools/go/ssa"
)

const (
	kCLVerify    = "gabi.(*CLSignature).Verify"
	kCLRandomize = "gabi.(*CLSignature).Randomize"
	kCLSign      = "gabi.signMessageBlockAndCommitment"
	clsig        = "<gabi.CLSignature>"
	pkD          = "<gabikeys.PublicKey>"
)

// litFieldStores returns the stores into fields of a composite literal `&T{...}` allocated in fn.
func litFieldStores(fn *ssa.Function, allocDesc string) map[string]*ssa.Store {
	out := map[string]*ssa.Store{}
	allInstrs(fn, func(i ssa.Instruction) {
		if st, ok := i.(*ssa.Store); ok {
			if fa, ok := st.Addr.(*ssa.FieldAddr); ok && desc(fa.X) == allocDesc {
				out[faName(fa)] = st
			}
		}
	})
	return out
}

func termAtStore(P *Program, fn *ssa.Function, st *ssa.Store) Term {
	if st == nil {
		return termTop()
	}
	if t, ok := P.bigEval(fn).Use[st][st.Val]; ok {
		return t
	}
	return termTop()
}

// finalTermOfStored: the term the integer stored by st has when the function returns - the term at the store, or,
// if the object is completed in place afterwards (`x.f = new(big.Int).Mul(a, b); x.f.Add(x.f, c)`), the term after
// the last in-place operation on it that the store's block dominates.
func finalTermOfStored(P *Program, fn *ssa.Function, st *ssa.Store) Term {
	t := termAtStore(P, fn, st)
	if st == nil {
		return t
	}
	be := P.bigEval(fn)
	site := siteOf(st.Val)
	var last *ssa.Call
	allInstrs(fn, func(i ssa.Instruction) {
		c, ok := i.(*ssa.Call)
		if !ok || bigMethod(c) == "" || !bigMutators[bigMethod(c)] || len(callArgs(c)) == 0 {
			return
		}
		if rs := siteOf(callArgs(c)[0]); rs != site && !loadsStoredCell(rs, st) {
			return
		}
		after := false
		if c.Block() == st.Block() {
			for _, ins := range c.Block().Instrs {
				if ins == ssa.Instruction(st) {
					after = true
				}
				if ins == ssa.Instruction(c) {
					break
				}
			}
		} else if st.Block().Dominates(c.Block()) {
			after = true
		}
		if after && (last == nil || last.Block().Dominates(c.Block())) {
			last = c
		}
	})
	if last != nil {
		if rt, ok := be.Ret[last]; ok {
			return rt
		}
	}
	return t
}

// loadsStoredCell: v reads the cell st wrote (the same field of the same struct object).
func loadsStoredCell(v ssa.Value, st *ssa.Store) bool {
	u, ok := v.(*ssa.UnOp)
	if !ok || u.Op != token.MUL {
		return false
	}
	if u.X == st.Addr {
		return true
	}
	a, ok1 := u.X.(*ssa.FieldAddr)
	b, ok2 := st.Addr.(*ssa.FieldAddr)
	return ok1 && ok2 && a.Field == b.Field && a.X == b.X
}

func init() {
	register("C05",
		Rule{ID: "C05.m", Explain: "the derived lengths are the specified ones (the rule of C01.i): the interval the issuer draws e from and the one Verify accepts are both computed from Le = Lstatzk+Lh+Lm+5.",
			Run: func(P *Program, R *Report) { derivedParametersRule(P, R, "C05.m") }},
		Rule{ID: "C05.l", Explain: "shared state under signing and verification (the rules of C20.l and C20.n with this property's entry points): no package-level mutable value is used without a lock, and no object handed back to a sync.Pool is a function's result (the representation R that Verify compares would be overwritten by a concurrent signer).",
			Run: func(P *Program, R *Report) {
				packageStateRule(P, R, "C05.l", []string{kCLVerify, "gabi.SignMessageBlock", kCLSign, kCLRandomize}, 1)
				pooledAndCopiedRule(P, R, "C05.l")
			}},
		Rule{ID: "C05.a", Explain: "CLSignature.Verify: accept => E >= 2^(Le-1) and E <= 2^(Le-1)+2^(LePrime-1) were tested with exactly these symbolic bounds, and E.ProbablyPrime(k>=20) was true.",
			Run: func(P *Program, R *Report) {
				fn := mustFunc(P, R, "C05.a", kCLVerify)
				if fn == nil {
					return
				}
				lower := pow2("Le-1")
				upperExcl := tsum(pow2("Le-1"), pow2("LePrime-1"), tconst(1))
				guardRangeObl(P, R, "C05.a", kCLVerify+":E", "E", is(clsig+".E"), lower, upperExcl, []fnAcc{{fn, AcceptTrue(0)}})
				mp(P, R, "C05.a", kCLVerify+":E-prime", "accept => E.ProbablyPrime(k) with k >= 20 returned true", fn, AcceptTrue(0), &MustPass{Match: func(a Atom) bool {
					c, _ := callAndResult(a.V)
					if c == nil || a.Want != True || bigMethod(c) != "ProbablyPrime" || desc(callArgs(c)[0]) != clsig+".E" {
						return false
					}
					k, ok := constInt(callArgs(c)[1])
					return ok && k >= 20
				}})
			}},
		Rule{ID: "C05.b", Explain: "CLSignature.Verify: accept => pk.Z compared equal to a value data-dependent on A, E, V, pk.S, pk.N, the representation of the CALLER's message block in the key's bases (with Params.Lm), and KeyshareP when present.",
			Run: func(P *Program, R *Report) {
				fn := mustFunc(P, R, "C05.b", kCLVerify)
				if fn == nil {
					return
				}
				var other ssa.Value
				mp(P, R, "C05.b", kCLVerify+":Z==Q", "accept => pk.Z compared equal to the recomputed value", fn, AcceptTrue(0), &MustPass{Match: func(a Atom) bool {
					x, y, ok := parseEq(a)
					if !ok {
						return false
					}
					if desc(x) == pkD+".Z" {
						other = y
						return true
					}
					if desc(y) == pkD+".Z" {
						other = x
						return true
					}
					return false
				}})
				if other == nil {
					return
				}
				requireDeps(P, R, "C05.b", kCLVerify+":Q", fn, []ssa.Value{other}, 3, []depReq{
					{"A", is(clsig + ".A"), "signature element"},
					{"E", is(clsig + ".E"), "exponent"},
					{"V", is(clsig + ".V"), "blinding exponent"},
					{"KeyshareP", is(clsig + ".KeyshareP"), "keyshare contribution"},
					{"pk.S", is(pkD + ".S"), "S"},
					{"pk.N", is(pkD + ".N"), "modulus"},
					{"pk.R", is(pkD + ".R"), "bases"},
					{"ms", is("arg#2"), "the caller's message block"},
					{"Params.Lm", matches(`Params\.BaseParameters\.Lm$`), "message length for hashing"},
				})
				// KeyshareP is multiplied in exactly when it is non-nil
				found := false
				// (in Verify or in a worker it was split into)
				deepVisit(P, fn, 1, func(g *ssa.Function) {
				allInstrs(g, func(i ssa.Instruction) {
					c, ok := i.(*ssa.Call)
					if !ok || bigMethod(c) != "Mul" {
						return
					}
					uses := false
					for _, a := range callArgs(c)[1:] {
						if desc(a) == clsig+".KeyshareP" {
							uses = true
						}
					}
					if !uses {
						return
					}
					conds := controllingConds(c.Block())
					if len(conds) >= 1 {
						a := normAtom(conds[0]) // innermost controlling condition
						if b, ok := a.V.(*ssa.BinOp); ok && desc(b.X) == clsig+".KeyshareP" && isNilConst(b.Y) {
							found = (b.Op.String() == "!=" && a.Want == True) || (b.Op.String() == "==" && a.Want == False)
						}
					}
				})
				})
				R.decide("C05.b", kCLVerify+":KeyshareP-iff-present", "KeyshareP is multiplied into the representation exactly when it is non-nil", found, "", P.Pos(fn.Pos()))
				// RepresentToPublicKey passes the key's own bases, modulus and Lm
				if rp := mustFunc(P, R, "C05.b", "gabi.RepresentToPublicKey"); rp != nil {
					ok := false
					for _, c := range callsIn(rp) {
						if isCallTo(c, "common.RepresentToBases") {
							a := callArgs(c)
							lm, _ := affineOf(a[3])
							ok = desc(a[0]) == pkD+".R" && desc(a[1]) == "arg#1" && desc(a[2]) == pkD+".N" && lm.String() == "Lm"
						}
					}
					R.decide("C05.b", "gabi.RepresentToPublicKey:args", "RepresentToBases(pk.R, exps, pk.N, pk.Params.Lm)", ok, "", P.Pos(rp.Pos()))
				}
				representToBasesShape(P, R, "C05.b")
			}},
		Rule{ID: "C05.c", Explain: "the signer draws e from the same interval the verifier accepts: RandomPrimeInRange(_, Le-1, LePrime-1); RandomPrimeInRange returns 2^start + (an integer decoded from ceil(length/8) random bytes), tested with ProbablyPrime(k>=20) — symbolic term of the returned value.",
			Run: func(P *Program, R *Report) { signerIntervalRule(P, R) }},
		Rule{ID: "C05.d", Explain: "signer: v = 2^(Lv-1) + RandomBigInt(Lv-1); A = Q^(e^-1 mod Order) mod N with Q = Z * (S^v * R(ms) * U)^-1 mod N as a symbolic term; both inverses are checked before use.",
			Run: func(P *Program, R *Report) { signerTermsRule(P, R) }},
		Rule{ID: "C05.i", Explain: "verification is a pure check: the arithmetic helpers it uses (ModPow, ModInverse, RepresentToBases, ...) do not modify the integers they are given, so a signature that verified once verifies again (same rule as C19.k).",
			Run: func(P *Program, R *Report) { pureInputsRule(P, R, "C05.i") }},
		Rule{ID: "C05.e", Explain: "Randomize: A' = A*S^r mod N, V' = V - E*r, E' a copy of E, r = RandomBigInt(LRA) drawn in this call (symbolic terms).",
			Run: func(P *Program, R *Report) { randomizeRule(P, R) }},
		Rule{ID: "C05.g", Explain: "valid signatures verify: CLSignature.Verify rejects for the specified reasons only - e outside its interval, e not prime, an error from RepresentToPublicKey or ModPow, a nil component - and otherwise returns the outcome of the equation; any other rejecting branch (e.g. a size limit on v, which randomisation legitimately enlarges) is reported.",
			Run: func(P *Program, R *Report) { onlySpecifiedRejectionsRule(P, R) }},
		Rule{ID: "C05.h", Explain: "aliasing discipline: signing, verifying and randomising leave the signature and the keys they were given unchanged (Randomize returns a copy) - no function mutates in place a big.Int it reached through gabi.CLSignature / gabikeys.PublicKey / gabikeys.PrivateKey (math/big mutators write their receiver), except the tabled merge/refresh functions.",
			Run: func(P *Program, R *Report) { inPlaceDisciplineRule(P, R, "C05.h", "gabi.CLSignature", "gabikeys.PublicKey", "gabikeys.PrivateKey") }},
		Rule{ID: "C05.f", Explain: "RepresentToBases hashes oversized messages exactly like the prover and verifier (C01.f).",
			Run: func(P *Program, R *Report) { oversizedHashRuleAs(P, R, "C05.f") }},
		Rule{ID: "C05.j", Explain: "no failure is dropped while signing and verifying CL signatures (clsignature.go): a failed representation, inverse, prime draw or exponentiation ends the call (same rule as C08.g: the error a call returns has a use - a nil test or a return - before it is overwritten, shadowed or left behind).",
			Run: func(P *Program, R *Report) { errorResultsUsedRule(P, R, "C05.j", inFiles(P, "clsignature.go"), nil, 5) }},
		Rule{ID: "C05.k", Explain: "completing a signature does not change the issuer's message: ConstructCredential computes v = v'' + v' into a fresh integer (the in-place obligations of C06.j on IssueSignatureMessage, same rule) - written in place, the same honest signature is refused when the message is looked at again.",
			Run: func(P *Program, R *Report) {
				sharedRule(P, R, "C06", "C06.j", "C05.k", func(c string) bool { return strings.Contains(c, "ConstructCredential") || strings.Contains(c, "Signature") })
			}},
	)
}

// oversizedHashRuleAs runs the C01.f rule under another rule id.
func oversizedHashRuleAs(P *Program, R *Report, rule string) {
	sub := newReport(R.Prop, R.Tier, P)
	oversizedHashRule(P, sub)
	for _, o := range sub.Obls {
		o.Rule = rule
		R.add(o)
	}
	for f := range sub.funcsSeen {
		R.seen(f)
	}
}

// representToBasesShape: r = Π bases[i]^exp_i mod modulus over all i of exps.
func representToBasesShape(P *Program, R *Report, rule string) {
	fn := mustFunc(P, R, rule, "common.RepresentToBases")
	if fn == nil {
		return
	}
	var expCall *ssa.Call
	allInstrs(fn, func(i ssa.Instruction) {
		if c, ok := i.(*ssa.Call); ok && bigMethod(c) == "Exp" {
			expCall = c
		}
	})
	ok := expCall != nil && desc(callArgs(expCall)[1]) == "arg#0[#i]" && desc(callArgs(expCall)[3]) == "arg#2" &&
		strings.Contains(desc(callArgs(expCall)[2]), "arg#1[#i]")
	R.decide(rule, "common.RepresentToBases:term", "every exponent i is applied to base i modulo the modulus", ok, "", P.Pos(fn.Pos()))
	loops := rangeLoopsOver(fn, is("arg#1"))
	R.decide(rule, "common.RepresentToBases:all-exps", "the product ranges over all given exponents", len(loops) == 1 && expCall != nil && loops[0].Body[expCall.Block()], fmt.Sprintf("%d loops over exps", len(loops)), P.Pos(fn.Pos()))
	// the accumulator is multiplied by the power and returned
	roots := []ssa.Value{}
	for _, r := range returnsOf(fn) {
		roots = append(roots, retValue(r, 0))
	}
	if expCall != nil {
		ds := deps(P, roots[0])
		R.decide(rule, "common.RepresentToBases:accumulates", "the returned product depends on every power", ds[expCall] || ds[callArgs(expCall)[0]], "", P.Pos(fn.Pos()))
	}
}

func signerIntervalRule(P *Program, R *Report) {
	rule := "C05.c"
	fn := mustFunc(P, R, rule, kCLSign)
	if fn != nil {
		found := false
		for _, c := range callsIn(fn) {
			if isCallTo(c, "common.RandomPrimeInRange") {
				a := callArgs(c)
				s, _ := affineOf(a[1])
				l, _ := affineOf(a[2])
				found = true
				R.decide(rule, kCLSign+":e-interval", "e is drawn with start = Le-1 and length = LePrime-1 (the verifier's interval)", s.String() == "Le-1" && l.String() == "LePrime-1",
					fmt.Sprintf("start=%s length=%s", s, l), P.Pos(c.Pos()))
				R.decide(rule, kCLSign+":e-source", "e's randomness is crypto/rand.Reader", desc(a[0]) == "global:crypto/rand.Reader", desc(a[0]), P.Pos(c.Pos()))
			}
		}
		if !found {
			R.bad(rule, kCLSign+":e-interval", "e is drawn by RandomPrimeInRange", "no call found", P.Pos(fn.Pos()))
		}
	}
	randomPrimeInRangeRule(P, R, rule)
}

// randomPrimeInRangeRule: RandomPrimeInRange returns 2^start + offset with offset decoded from ceil(length/8)
// random bytes masked to `length` bits, only after ProbablyPrime(k >= 20) (shared by C05.c and C19.g).
func randomPrimeInRangeRule(P *Program, R *Report, rule string) {
	g := mustFunc(P, R, rule, "common.RandomPrimeInRange")
	if g == nil {
		return
	}
	be := P.bigEval(g)
	// successful returns: result 0 term
	var terms []string
	okTerm := true
	n := 0
	for _, r := range returnsOf(g) {
		if _, isMI := retValue(r, 1).(*ssa.MakeInterface); isMI {
			continue
		}
		if isNilConst(retValue(r, 0)) {
			continue
		}
		// named results: p is loaded from its alloc
		t, ok := be.Use[r][retValue(r, 0)]
		if !ok {
			continue
		}
		n++
		terms = append(terms, t.String())
		want := tsum(pow2("arg#1"), tsym("SetBytes(makeslice)"))
		if !t.equal(want) {
			okTerm = false
		}
	}
	R.decide(rule, "common.RandomPrimeInRange:result-term", "the returned candidate is exactly 2^start + offset, offset decoded from the random byte buffer", okTerm && n > 0, strings.Join(terms, " | "), P.Pos(g.Pos()))
	// buffer size and masking depend on length only
	sizeOK, sizeNote := false, ""
	allInstrs(g, func(i ssa.Instruction) {
		if ms, ok := i.(*ssa.MakeSlice); ok {
			if a, ok := affineOf(ms.Len); ok && a.String() == "(arg#2+7)/8" || a.String() == "(7+arg#2)/8" {
				sizeOK = true
			} else if d := strings.ReplaceAll(desc(ms.Len), "(7+arg#2)", "(arg#2+7)"); d == "((arg#2+7)/8)" {
				sizeOK = true // computed by a helper
			} else {
				sizeNote = d
			}
		}
	})
	R.decide(rule, "common.RandomPrimeInRange:buffer", "the offset buffer has ceil(length/8) bytes", sizeOK, sizeNote, P.Pos(g.Pos()))
	maskOK, maskNote := false, ""
	allInstrs(g, func(i ssa.Instruction) {
		st, ok := i.(*ssa.Store)
		if !ok {
			return
		}
		if desc(st.Addr) == "makeslice[0]" {
			if b, ok := st.Val.(*ssa.BinOp); ok && b.Op.String() == "&" {
				// (the mask is a function of `length` alone - not of `start`; helpers are looked into, not trusted by their arguments)
				leaves := map[string]bool{}
				preciseLeaves(b, 3, map[ssa.Value]bool{}, leaves)
				if dependsOn(P, b, func(d string) bool { return d == "arg#2" }) && leaves["arg#2"] && !leaves["arg#1"] {
					maskOK = true
				}
				maskNote = strings.Join(sortedKeys(leaves), ",")
			}
		}
	})
	R.decide(rule, "common.RandomPrimeInRange:mask", "the top byte of the offset is masked down to `length` bits", maskOK, "depends on "+maskNote, P.Pos(g.Pos()))
	mp(P, R, rule, "common.RandomPrimeInRange:prime-tested", "a value is returned only after ProbablyPrime(k>=20) succeeded on it", g, AcceptNilErr(1), &MustPass{Match: func(a Atom) bool {
		c, _ := callAndResult(a.V)
		if c == nil || a.Want != True || bigMethod(c) != "ProbablyPrime" {
			return false
		}
		k, ok := constInt(callArgs(c)[1])
		if !ok || k < 20 {
			return false
		}
		// the tested object is the returned one
		for _, r := range returnsOf(g) {
			if retCount(r) == 2 && !isNilConst(retValue(r, 0)) && siteOf(retValue(r, 0)) == siteOf(callArgs(c)[0]) {
				return true
			}
			if u, ok := retValue(r, 0).(*ssa.UnOp); ok {
				if u2, ok := callArgs(c)[0].(*ssa.UnOp); ok && u.X == u2.X {
					return true
				}
			}
		}
		return false
	}})
}

func signerTermsRule(P *Program, R *Report) {
	rule := "C05.d"
	fn := mustFunc(P, R, rule, kCLSign)
	if fn == nil {
		return
	}
	fs := litFieldStores(fn, "new:gabi.CLSignature")
	N, S, Z := tsym(pkD+".N"), tsym(pkD+".S"), tsym(pkD+".Z")
	vT := tsum(pow2("Lv-1"), tsym("call:common.RandomBigInt((<gabikeys.PublicKey>.Params.DerivedParameters.Lv-1))#0"))
	eT := tsym("call:common.RandomPrimeInRange(global:crypto/rand.Reader,(<gabikeys.PublicKey>.Params.DerivedParameters.Le-1),(<gabikeys.PublicKey>.Params.BaseParameters.LePrime-1))#0")
	Rrep := tsym("call:gabi.RepresentToPublicKey(<gabikeys.PublicKey>,arg#3)#0")
	num := termFn("Mod", tmul(tmul(termFn("Exp", S, vT, N), Rrep), tsym("arg#2")), N)
	Q := termFn("Mod", tmul(Z, termFn("ModInverse", num, N)), N)
	A := termFn("Exp", Q, termFn("ModInverse", eT, tsym("<gabikeys.PrivateKey>.Order")), N)
	for _, row := range []struct {
		f    string
		want Term
		what string
	}{{"V", vT, "v = 2^(Lv-1) + RandomBigInt(Lv-1)"}, {"E", eT, "e = RandomPrimeInRange(rand.Reader, Le-1, LePrime-1)"}, {"A", A, "A = (Z * (S^v * R(ms) * U)^-1)^(e^-1 mod Order) mod N"}} {
		got := termAtStore(P, fn, fs[row.f])
		R.decide(rule, kCLSign+":"+row.f, row.what, got.equal(row.want), "got "+got.String()+"\nwant "+row.want.String(), P.Pos(fn.Pos()))
	}
	n := 0
	for _, c := range callsIn(fn) {
		if isCallTo(c, "common.ModInverse") {
			call := c.(*ssa.Call)
			n++
			mp(P, R, rule, fmt.Sprintf("%s:inverse-checked#%d", kCLSign, n), "a signature is returned only if this modular inverse exists (ok tested)", fn, AcceptNonNil(0), &MustPass{Match: func(a Atom) bool {
				cc, idx := callAndResult(a.V)
				return cc == call && idx == 1 && a.Want == True
			}})
		}
	}
	R.decide(rule, kCLSign+":inverses", "both inversions (mod N and mod Order) go through the checked helper", n == 2, fmt.Sprintf("%d", n), P.Pos(fn.Pos()))
}

func randomizeRule(P *Program, R *Report) { randomizeRuleAs(P, R, "C05.e") }

func randomizeRuleAs(P *Program, R *Report, rule string) {
	fn := mustFunc(P, R, rule, kCLRandomize)
	if fn == nil {
		return
	}
	fs := litFieldStores(fn, "new:gabi.CLSignature")
	// r: the one uniform draw of LRA bits made in this call (RandomBigInt(LRA) or its body written out)
	var gen *ssa.Call
	nGen := 0
	for _, c := range callsIn(fn) {
		if cc, isCall := c.(*ssa.Call); isCall {
			if bits, ok := uniformDraw(P, cc); ok {
				nGen++
				if bits.String() == parseAffine("LRA").String() || bits.String() == "<gabikeys.PublicKey>.Params.DerivedParameters.LRA" {
					gen = cc
				}
			}
		}
	}
	R.decide(rule, kCLRandomize+":r-source", "r is one uniform draw of LRA bits made in this call", gen != nil && nGen == 1, fmt.Sprintf("%d draws", nGen), P.Pos(fn.Pos()))
	if gen == nil {
		return
	}
	r := tsym(desc(gen) + "#0")
	N, S := tsym(pkD+".N"), tsym(pkD+".S")
	A, E, V := tsym(clsig+".A"), tsym(clsig+".E"), tsym(clsig+".V")
	rows := []struct {
		f    string
		want Term
		what string
	}{
		{"A", termFn("Mod", tmul(A, termFn("Exp", S, r, N)), N), "A' = A * S^r mod N"},
		{"V", tsub(V, tmul(E, r)), "V' = V - E*r"},
		{"E", E, "E' = E"},
	}
	for _, row := range rows {
		got := termAtStore(P, fn, fs[row.f])
		R.decide(rule, kCLRandomize+":"+row.f, row.what, got.equal(row.want), "got "+got.String()+" want "+row.want.String(), P.Pos(fn.Pos()))
	}
	if st := fs["E"]; st != nil {
		_, fresh := siteOf(st.Val).(*ssa.Alloc)
		R.decide(rule, kCLRandomize+":E-copy", "E' is a fresh copy, not the same object as E", fresh, desc(st.Val), P.Pos(st.Pos()))
	}
	// the only other field (KeyshareP) is not set; r is drawn in this call
	for f := range fs {
		if f != "A" && f != "E" && f != "V" {
			R.bad(rule, kCLRandomize+":"+f, "only A, E, V are set on the randomised copy", "field "+f+" set", P.Pos(fn.Pos()))
		}
	}
	mp(P, R, rule, kCLRandomize+":r-error", "a randomised signature is returned only if drawing r succeeded", fn, AcceptNilErr(1), &MustPass{Match: func(a Atom) bool {
		c, idx := callAndResult(a.V)
		return c == gen && idx == 1 && a.Want == Nil
	}})
}

// onlySpecifiedRejectionsRule (C05.g): enumerate the branches that lead directly into a `return false` of
// CLSignature.Verify and classify their conditions.
func onlySpecifiedRejectionsRule(P *Program, R *Report) {
	rule := "C05.g"
	fn := mustFunc(P, R, rule, kCLVerify)
	if fn == nil {
		return
	}
	sig := "<gabi.CLSignature>"
	var reasons []rejReason
	collectRejections(P, fn, 0, map[string]bool{}, &reasons)
	seen := map[string]bool{}
	for _, r := range reasons {
		key := r.kind + ":" + r.text
		if seen[key] {
			continue
		}
		seen[key] = true
		ok := false
		switch r.kind {
		case "nil":
			ok = true
		case "err":
			ok = strings.Contains(r.text, "RepresentToPublicKey") || strings.Contains(r.text, "ModPow") || strings.Contains(r.text, "ModInverse")
		case "guard":
			ok = strings.HasPrefix(r.text, sig+".E|big|") || strings.HasPrefix(r.text, "<gabikeys.PublicKey>.Z|big|!=") || strings.HasSuffix(r.text, "|big|!=") && strings.Contains(r.text, "Z")
		case "call":
			ok = strings.Contains(r.text, "ProbablyPrime is false")
		}
		R.decide(rule, kCLVerify+":reject:"+key, "a rejecting branch of Verify (or of a helper it relies on) is one of the specified reasons: e outside its interval, e not prime, a callee's error, a missing component, the equation", ok, "in "+r.fn+": rejects on "+key+" "+r.shown, r.pos)
	}
	R.decide(rule, kCLVerify+":rejections", "the rejecting branches were enumerated (>= 4)", len(seen) >= 4, fmt.Sprintf("%d distinct reasons", len(seen)), P.Pos(fn.Pos()))
}

// enumerateRejections classifies every branch that leads directly into a `return false` of fn; one obligation
// per distinct reason. Returns the number of rejecting branches.
func enumerateRejections(P *Program, R *Report, rule, key string, fn *ssa.Function, classify func(Atom) (string, bool)) int {
	n := 0
	for _, ra := range rejectingAtoms(P, fn) {
		a := ra.a
		// a block of checks extracted into an unexported helper of the same receiver: its branches count
		if c, _ := callAndResult(a.V); c != nil && a.Want == False {
			if g := staticCallee(c); g != nil && g != fn && g.Blocks != nil && g.Pkg == fn.Pkg && g.Object() != nil && !g.Object().Exported() && sameReceiver(fn, g) {
				if rs := g.Signature.Results(); rs.Len() == 1 && rs.At(0).Type().String() == "bool" {
					var m int
					bindCall(c, g, func() { m = enumerateRejections(P, R, rule, key, g, classify) })
					if m > 0 {
						n += m
						continue
					}
				}
			}
		}
		n++
		what, ok2 := classify(a)
		R.decide(rule, fmt.Sprintf("%s:reject:%s", key, what), "a rejecting branch is one of the specified reasons", ok2, "rejects on: "+what+" ["+desc(a.V)+" is "+a.Want.String()+"]", ra.pos)
	}
	return n
}

type atomAt struct {
	a   Atom
	pos string
}

// rejectingAtoms: the conditions under which a function with a boolean verdict (result 0) answers false - the branch
// conditions that lead to a `return false`, the operands of a returned conjunction (`return a && f(x)` answers false
// when a is false or when f(x) is), and the operands of a condition that was first computed into a boolean
// (`ok := a && b; if !ok { return false }`): each operand with the polarity that makes the verdict false.
func rejectingAtoms(P *Program, fn *ssa.Function) []atomAt {
	var out []atomAt
	var record func(a Atom, pos string)
	var intoBlock func(b *ssa.BasicBlock, depth int, seen map[*ssa.BasicBlock]bool)
	record = func(a Atom, pos string) {
		a = normAtom(a)
		if phi, ok := a.V.(*ssa.Phi); ok && (a.Want == False || a.Want == True) {
			for i, e := range phi.Edges {
				if bc, isB := boolConst(e); isB {
					if bc == (a.Want == True) {
						p := phi.Block().Preds[i]
						if iff, ok := p.Instrs[len(p.Instrs)-1].(*ssa.If); ok {
							want := True
							if p.Succs[1] == phi.Block() {
								want = False
							}
							record(Atom{Fn: fn, V: iff.Cond, Want: want}, P.Pos(condPos(iff)))
						} else {
							intoBlock(p, 0, map[*ssa.BasicBlock]bool{})
						}
					}
					continue
				}
				record(Atom{Fn: fn, V: e, Want: a.Want}, pos)
			}
			return
		}
		out = append(out, atomAt{a, pos})
	}
	intoBlock = func(b *ssa.BasicBlock, depth int, seen map[*ssa.BasicBlock]bool) {
		if seen[b] || depth > 4 {
			return
		}
		seen[b] = true
		for _, p := range b.Preds {
			iff, ok := p.Instrs[len(p.Instrs)-1].(*ssa.If)
			if !ok {
				if len(p.Succs) == 1 && onlyJumpAndPure(p) {
					intoBlock(p, depth+1, seen)
				}
				continue
			}
			want := True
			if p.Succs[1] == b {
				want = False
			}
			record(Atom{Fn: fn, V: iff.Cond, Want: want}, P.Pos(condPos(iff)))
		}
	}
	for _, r := range returnsOf(fn) {
		v := retValue(r, 0)
		if bc, isB := boolConst(v); isB {
			if !bc {
				intoBlock(r.Block(), 0, map[*ssa.BasicBlock]bool{})
			}
			continue
		}
		if v.Type().String() == "bool" {
			record(Atom{Fn: fn, V: v, Want: False}, P.Pos(r.Pos()))
		}
	}
	return out
}

// sameReceiver: g works on fn's own receiver (a method of the same type, or a function handed that receiver).
func sameReceiver(fn, g *ssa.Function) bool {
	rg := g.Signature.Recv()
	rf := fn.Signature.Recv()
	if rg == nil {
		// a plain function counts when fn is one too, or when it is handed fn's receiver
		if rf == nil {
			return true
		}
		ps := g.Signature.Params()
		for i := 0; i < ps.Len(); i++ {
			if types.Identical(ps.At(i).Type(), rf.Type()) {
				return true
			}
		}
		return false
	}
	return rf != nil && types.Identical(rf.Type(), rg.Type())
}
