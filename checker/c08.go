package main

import (
	"go/token"
	"fmt"
	"sort"
	"strings"

	"golang.org/x/tools/go/ssa"
)

var c08Untrusted = []string{"gabi.ProofD", "gabi.ProofU", "revocation.Proof", "revocation.proof", "rangeproof.Proof", "rangeproof.proof", "revocation.SignedAccumulator"}

func c08Entries(P *Program) []*ssa.Function {
	var out []*ssa.Function
	// the composite entry points plus the exported halves of the Proof interface, which callers may (and
	// ProofList.Verify does) invoke separately on decoded proofs
	for _, k := range []string{kListVerify, kProofDVerify, kProofUVerify, kProofDVWC, kProofDCC, kProofUVWC, kProofUCC} {
		if f := P.Func(k); f != nil {
			out = append(out, f)
		}
	}
	return out
}

// allowedPanics: explicit panics that may be reachable from the verification entry points, with reason.
var allowedPanics = map[string]string{
	"common.HashCommit":         "asn1.Marshal of booleans and non-nil *big.Int cannot fail; the hashed values are computed by the verifier itself",
	"revocation.hash": "only for an unsupported hash algorithm constant",
	"zkproof.(*Group).Exp":     "call-graph imprecision: Group is placed in base lookups only by keyproof (checked under C17); revocation and range proofs build their lookups from the public key and the proof",
}

// panicReason recognises the tabled panics by what guards them, wherever the code sits: the error of
// encoding/asn1.Marshal (cannot fail for booleans and non-nil integers), and the error of hashing with the
// package's constant algorithm (multihash fails only for an unsupported algorithm).
func panicReason(p *ssa.Panic) (string, bool) {
	for _, a := range controllingConds(p.Block()) {
		a = normAtom(a)
		bo, ok := a.V.(*ssa.BinOp)
		if !ok || !isNilConst(bo.Y) || !((bo.Op.String() == "!=" && a.Want == True) || (bo.Op.String() == "==" && a.Want == False)) {
			continue
		}
		c, idx := callAndResult(bo.X)
		if c == nil || !isErrorType(bo.X.Type()) {
			continue
		}
		_ = idx
		switch n := calleeName(c); {
		case n == "encoding/asn1.Marshal" || n == "asn1.Marshal":
			return allowedPanics["common.HashCommit"], true
		case n == "revocation.hashUsingAlg" || n == "revocation.checkHashAlg" || strings.HasSuffix(n, "go-multihash.Sum"):
			for _, arg := range callArgs(c) {
				if _, isConst := arg.(*ssa.Const); isConst && isIntegerType(arg.Type()) && arg.Type().String() != "int" {
					return allowedPanics["revocation.hash"], true
				}
			}
		}
	}
	return "", false
}

func init() {
	register("C08",
		Rule{ID: "C08.a", Explain: "nil safety (validated-before-use typestate): every dereference of a nullable value loaded from ProofD, ProofU, revocation.Proof, rangeproof.Proof or SignedAccumulator in the functions reachable from ProofList.Verify / ProofD.Verify / ProofU.Verify is preceded, on every path from the entry point, by a nil test of the same access path, a successful validator call (validators are computed), or an assignment of a trusted value. Also covers C08.b: indices decoded from the proof are bounded below and above before indexing, and untrusted slices indexed by another collection's loop have a length-equality test.",
			Run: func(P *Program, R *Report) {
				ents := c08Entries(P)
				if len(ents) < 3 {
					R.und("C08.a", "entries", "the three verification entry points exist", fmt.Sprintf("found %d", len(ents)), "")
					return
				}
				na := NewNilAn(P, c08Untrusted, ents)
				na.Run(R, "C08.a")
				R.decide("C08.a", "sites:count", "dereference/index sites of untrusted values were found (>= 40)", na.Sites >= 40, fmt.Sprintf("%d sites in %d reachable functions", na.Sites, len(na.reach)), "")
			}},
		Rule{ID: "C08.c", Explain: "lookups: the secret names used by the revocation proof structure are a subset of the names whose responses the structure check guarantees non-nil; the range-proof structure check guarantees length and non-nil entries for every name its structure requests.",
			Run: func(P *Program, R *Report) { lookupNamesRule(P, R) }},
		Rule{ID: "C08.d", Explain: "explicit panics reachable from the verification entry points are only the tabled ones (with reason).",
			Run: func(P *Program, R *Report) {
				ents := c08Entries(P)
				fns := P.reachableFuncs(ents...)
				n := 0
				for _, fn := range fns {
					allInstrs(fn, func(i ssa.Instruction) {
						if p, ok := i.(*ssa.Panic); ok {
							n++
							k := FuncKey(fn)
							reason, ok := allowedPanics[k]
							if !ok {
								reason, ok = panicReason(p)
							}
							R.decide("C08.d", k+":panic", "an explicit panic on the verification path is a tabled, unreachable-for-decoded-input one", ok, "untabled panic reachable from a verification entry point"+reason, P.Pos(p.Pos()))
						}
					})
				}
				R.decide("C08.d", "reach:count", "the verification call tree was explored (>= 40 functions)", len(fns) >= 40, fmt.Sprintf("%d functions, %d panics", len(fns), n), "")
			}},
		Rule{ID: "C08.f", Explain: "arithmetic that can fail: in the functions reachable from the verification entry points the result of (*big.Int).ModInverse / ModSqrt - nil when no inverse or root exists, which a prover can arrange (A = 0 makes the known part of Z non-invertible) - is used only after a nil test of that very result on every path; a call whose result is discarded and whose receiver is read afterwards is a finding of the group-element rules (C11.k, C12.m), not of this one.",
			Run: func(P *Program, R *Report) { nilArithmeticRule(P, R, "C08.f") }},
		Rule{ID: "C08.g", Explain: "no verification step's failure is dropped: in the functions reachable from the verification entry points the error a call returns has a use (a nil test, a return) - an error that is assigned and then overwritten (`err := check(); err = other()`) or shadowed lets the verifier go on with values that are not valid (nil after a failed inverse or decoder), which is where the panics and the wrong accepts come from. The two tabled exceptions are calls that cannot fail.",
			Run: func(P *Program, R *Report) {
				reach := map[*ssa.Function]bool{}
				for _, f := range P.reachableFuncs(c08Entries(P)...) {
					reach[f] = true
				}
				errorResultsUsedRule(P, R, "C08.g", func(fn *ssa.Function) bool { return reach[fn] }, nil, 20)
			}},
		Rule{ID: "C08.e", Explain: "ProofList.UnmarshalJSON yields only non-nil *ProofD / *ProofU elements or an error (discriminated on A then U).",
			Run: func(P *Program, R *Report) {
				fn := mustFunc(P, R, "C08.e", "gabi.(*ProofList).UnmarshalJSON")
				if fn == nil {
					return
				}
				// every append to the result appends a fresh &ProofD{} / &ProofU{} under the corresponding non-nil test,
				// directly or as the result of a helper that classifies one element
				n := 0
				ok := true
				var notes []string
				guardedBy := func(b *ssa.BasicBlock, want string) bool {
					for _, a := range controllingConds(b) {
						a = normAtom(a)
						if bo, isB := a.V.(*ssa.BinOp); isB && desc(bo.X) == want && isNilConst(bo.Y) {
							if (bo.Op.String() == "!=" && a.Want == True) || (bo.Op.String() == "==" && a.Want == False) {
								return true
							}
						}
					}
					return false
				}
				// classified: v is a fresh proof object whose discriminating field is known non-nil at block b
				classified := func(v ssa.Value, b *ssa.BasicBlock) (string, bool) {
					if mi, isMI := v.(*ssa.MakeInterface); isMI {
						v = mi.X
					}
					d := desc(v)
					var want string
					switch d {
					case "new:gabi.ProofD":
						want = "new:gabi.ProofD.A"
					case "new:gabi.ProofU":
						want = "new:gabi.ProofU.U"
					default:
						return "appends " + d, false
					}
					if !guardedBy(b, want) {
						return "append of " + d + " not guarded by " + want + " != nil", false
					}
					return d, true
				}
				kinds := map[string]bool{}
				allInstrs(fn, func(i ssa.Instruction) {
					c, isC := i.(*ssa.Call)
					if !isC || !isCallTo(c, "builtin:append") {
						return
					}
					tail, okT := seqTail(callArgs(c)[1], 0, map[ssa.Value]bool{})
					if !okT || len(tail) != 1 {
						return
					}
					n++
					if ex, isEx := tail[0].V.(*ssa.Extract); isEx && ex.Index == 0 {
						// proof, err := helper(raw): the append needs err == nil, and every return of the helper either
						// fails or yields a classified object
						hc, _ := ex.Tuple.(*ssa.Call)
						var g *ssa.Function
						if hc != nil {
							g = hc.Call.StaticCallee()
						}
						if g == nil || g.Blocks == nil || g.Pkg != fn.Pkg || g.Signature.Results().Len() != 2 {
							ok = false
							notes = append(notes, "appends "+tail[0].D)
							return
						}
						errOK := false
						for _, a := range controllingConds(c.Block()) {
							a = normAtom(a)
							if bo, isB := a.V.(*ssa.BinOp); isB && isNilConst(bo.Y) {
								if e2, isE := bo.X.(*ssa.Extract); isE && e2.Tuple == ex.Tuple && e2.Index == 1 {
									if (bo.Op.String() == "==" && a.Want == True) || (bo.Op.String() == "!=" && a.Want == False) {
										errOK = true
									}
								}
							}
						}
						if !errOK {
							ok = false
							notes = append(notes, "result of "+FuncKey(g)+" appended without checking its error")
						}
						for _, b := range g.Blocks {
							ret, isR := b.Instrs[len(b.Instrs)-1].(*ssa.Return)
							if !isR {
								continue
							}
							if e := retValue(ret, 1); !isNilConst(e) {
								// a failing return (the caller checks the error), if the error is known to be one
								nonNil := false
								switch e.(type) {
								case *ssa.Call, *ssa.MakeInterface:
									nonNil = true
								}
								for _, a := range controllingConds(b) {
									a = normAtom(a)
									if bo, isB := a.V.(*ssa.BinOp); isB && bo.X == e && isNilConst(bo.Y) {
										if (bo.Op.String() == "!=" && a.Want == True) || (bo.Op.String() == "==" && a.Want == False) {
											nonNil = true
										}
									}
								}
								if nonNil {
									continue
								}
							}
							k, good := classified(retValue(ret, 0), b)
							if !good {
								ok = false
								notes = append(notes, FuncKey(g)+": "+k)
							} else {
								kinds[k] = true
							}
						}
						return
					}
					k, good := classified(tail[0].V, c.Block())
					if !good {
						ok = false
						notes = append(notes, k)
					} else {
						kinds[k] = true
					}
					// one object per element: the object is made in the iteration that appends it (an object made before the loop
					// is decoded into again and again, and every list entry is the same pointer)
					ov := tail[0].V
					if mi, isMI := ov.(*ssa.MakeInterface); isMI {
						ov = mi.X
					}
					if al, isAl := ov.(*ssa.Alloc); isAl {
						if l := innermostLoopOf(c.Block()); l != nil && !l.Body[al.Block()] {
							ok = false
							notes = append(notes, "the appended "+desc(al)+" is made outside the loop over the elements")
						}
					} else if _, isPhi := ov.(*ssa.Phi); isPhi {
						// a decode target carried from one iteration to the next (replaced only when it was handed out): an
						// element decodes into what an earlier element left behind
						ok = false
						notes = append(notes, "the appended "+desc(ov)+" may be an object that an earlier element was decoded into")
					}
				})
				// the whole list is decoded: the loop over the raw elements is left only at its end or with an error - a nil
				// error is never returned from inside an iteration (`break` after the first proof of a kind drops the rest unseen)
				wholeOK, wholeWhy := false, "no loop over the decoded raw elements found"
				for _, b := range fn.Blocks {
					l := findLoop(b)
					if l == nil || len(l.Latch) == 0 {
						continue
					}
					if kind, _ := loopTrip(l); kind != "coll" {
						continue
					}
					q := &MustPass{P: P, NoInterproc: true, Match: func(a Atom) bool { return false }}
					q.init()
					walls := map[*ssa.BasicBlock]bool{l.Header: true}
					inside := false
					for bb := range l.Body {
						if bb == l.Header {
							continue
						}
						if path := forwardToAccept(q, fn, bb, walls, AcceptNilErr(0)); path != "" {
							inside = true
						}
					}
					wholeOK, wholeWhy = !inside, ""
					if inside {
						wholeWhy = "a nil error can be returned from inside an iteration (the rest of the list is not looked at)"
					}
				}
				R.decide("C08.e", FuncKey(fn)+":whole-list", "a nil error is returned only after the loop over the raw elements ran to its end", wholeOK, wholeWhy, P.Pos(fn.Pos()))
				ok = ok && n >= 1 && kinds["new:gabi.ProofD"] && kinds["new:gabi.ProofU"]
				R.decide("C08.e", FuncKey(fn)+":elements", "each decoded element is a fresh proof object appended only when its discriminating field is present", ok, strings.Join(notes, "; ")+fmt.Sprintf(" (%d appends)", n), P.Pos(fn.Pos()))
				mp(P, R, "C08.e", FuncKey(fn)+":unknown-rejected", "a nil error is returned only after every element was classified (unknown => error)", fn, AcceptNilErr(0), &MustPass{Instr: func(f *ssa.Function, i ssa.Instruction) bool {
						st, isSt := i.(*ssa.Store)
						return isSt && desc(st.Addr) == "arg#0"
					}})
			}},
		Rule{ID: "C08.h", Explain: "ModPow reports a missing inverse as an error: its callers on the verification paths test only the error, so a nil result without an error (big.Int.Exp on a non-invertible base with a negative exponent) is dereferenced (the obligations of C19.b, same rule).",
			Run: func(P *Program, R *Report) { sharedRule(P, R, "C19", "C19.b", "C08.h", nil) }},
		Rule{ID: "C08.k", Explain: "no negative numbers reach the verifier: the integer decoders test the sign of the value they decoded (the obligations of C18.a on big.Int.UnmarshalJSON / UnmarshalXML, same rule) - a negative challenge or response makes Exp on a non-invertible base return nil, which the verification arithmetic dereferences.",
			Run: func(P *Program, R *Report) {
				sharedRule(P, R, "C18", "C18.a", "C08.k", func(c string) bool { return strings.HasPrefix(c, "big.(*Int).Unmarshal") })
			}},
		Rule{ID: "C08.j", Explain: "values remembered for a later comparison are present: in the functions reachable from the verification entry points a *big.Int taken from a proof (the result of an interface method such as SecretKeyResponse, or a field) that is stored in a local map is nil-tested before the store on every path - the value is dereferenced when a later proof is compared with it, so a nil remembered from the first proof panics on the second.",
			Run: func(P *Program, R *Report) { rememberedValuesRule(P, R, "C08.j") }},
		Rule{ID: "C08.i", Explain: "optional key material: a well-formed public key that does not support revocation has no ECDSA key (the field is nil). In the functions reachable from the verification entry points the issuer's ECDSA key is handed to a call (the signature check dereferences it) only after a nil test of that field on every path from the entry point.",
			Run: func(P *Program, R *Report) { optionalKeyMaterialRule(P, R, "C08.i") }},
	)
}

// optionalKeyMaterialRule: see C08.i.
func optionalKeyMaterialRule(P *Program, R *Report, rule string) {
	const fd = "<gabikeys.PublicKey>.ECDSA"
	n := 0
	for _, fn := range P.reachableFuncs(c08Entries(P)...) {
		if fn.Blocks == nil {
			continue
		}
		for _, ci := range callsIn(fn) {
			for k, a := range ci.Common().Args {
				if typeShort(a.Type()) != "*crypto/ecdsa.PublicKey" || desc(a) != fd {
					continue
				}
				n++
				// RevocationSupported() is accepted as well: every constructor of a public key parses the ECDSA key
				// whenever it reports true (parseRevocationKey), so for well-formed keys it implies the field is set
				q := &MustPass{P: P, Match: func(at Atom) bool {
					return (desc(at.V) == fd && at.Want == NonNil) || (isCallTo(at.V, "gabikeys.(*PublicKey).RevocationSupported") && at.Want == True)
				}}
				r := q.MustReach(fn, ci)
				holds, why := r.Holds, r.Path
				if !holds {
					// or the callee tests what it is handed before it dereferences it
					if g := staticCallee(ci); g != nil && g.Blocks != nil && k < len(g.Params) {
						if ok, w := paramNilGuarded(P, g, g.Params[k], 0); ok {
							holds = true
						} else {
							why += "\nand the callee does not test it either: " + w
						}
					}
				}
				R.seen(FuncKey(fn))
				R.decide(rule, fmt.Sprintf("%s:ECDSA-as-arg#%d-of:%s", FuncKey(fn), k, calleeName(ci)), "the public key's ECDSA key (nil when the key does not support revocation) is nil-tested before it is handed to the call", holds, why, P.Pos(ci.Pos()))
			}
		}
	}
	R.decide(rule, "sites:count", "calls receiving the public key's ECDSA key on the verification paths were found (>= 1)", n >= 1, fmt.Sprintf("%d", n), "")
}

func stringConstsIn(fn *ssa.Function, fieldSuffix string) []string {
	var out []string
	allInstrs(fn, func(i ssa.Instruction) {
		st, ok := i.(*ssa.Store)
		if !ok {
			return
		}
		fa, ok := st.Addr.(*ssa.FieldAddr)
		if !ok || faName(fa) != fieldSuffix {
			return
		}
		if c, ok := st.Val.(*ssa.Const); ok && c.Value != nil {
			out = append(out, strings.Trim(c.Value.ExactString(), `"`))
		}
	})
	sort.Strings(out)
	return out
}

func lookupNamesRule(P *Program, R *Report) {
	rule := "C08.c"
	// revocation: Secret names of the package-level proof structure vs secretNames
	ini := P.Func("revocation.init")
	if ini == nil {
		R.und(rule, "revocation.init", "package initialiser found", "", "")
		return
	}
	secrets := map[string]bool{}
	for _, s := range stringConstsIn(ini, "Secret") {
		secrets[s] = true
	}
	// secretNames literal: stores of string constants into the array backing `secretNames`
	names := map[string]bool{}
	allInstrs(ini, func(i ssa.Instruction) {
		st, ok := i.(*ssa.Store)
		if !ok {
			return
		}
		if g, isG := st.Addr.(*ssa.Global); isG && globalName(g) == "secretNames" {
			if seq, ok := seqOf(st.Val); ok {
				for _, e := range seq {
					names[strings.Trim(e.D, `"`)] = true
				}
			}
		}
	})
	var missing []string
	for s := range secrets {
		if !names[s] {
			missing = append(missing, s)
		}
	}
	sort.Strings(missing)
	R.decide(rule, "revocation.proofstructure:secret-names", "every secret name used by the revocation proof structure is one whose response the structure check tests", len(missing) == 0 && len(secrets) >= 5 && len(names) >= 5,
		fmt.Sprintf("structure uses %v, checked names %v, missing %v", sortedKeys(secrets), sortedKeys(names), missing), P.Pos(ini.Pos()))
	if vs := mustFunc(P, R, rule, "revocation.verifyProofStructure"); vs != nil {
		fa := &ForAll{P: P, Spec: ForAllSpec{Coll: is("global:revocation.secretNames"), Body: func(f *ssa.Function, l *Loop) *MustPass {
			return &MustPass{Match: func(a Atom) bool {
				return desc(a.V) == "<revocation.Proof>.Responses[global:revocation.secretNames[#i]]" && a.Want == NonNil
			}}
		}}}
		// (as written, or - if the name list reached it as an argument - for every call of it, with the parameters bound)
		m := fa.inFn(vs, AcceptTrue(0))
		if !m.holds {
			nCalls, allHold := 0, true
			detail := m.detail
			for _, g := range P.AllFuncs {
				for _, c := range callsTo(g, vs) {
					nCalls++
					var mc forAllMemo
					bindCall(c, vs, func() { mc = fa.inFn(vs, AcceptTrue(0)) })
					if !mc.holds {
						allHold = false
						detail = "called from " + FuncKey(g) + ": " + mc.detail
					}
				}
			}
			m.holds, m.detail = nCalls > 0 && allHold, detail
		}
		R.decide(rule, FuncKey(vs)+":all-names", "the structure check accepts only if the response of every name in secretNames is non-nil", m.holds, m.detail, P.Pos(vs.Pos()))
		for _, f := range []string{"Cr", "Cu", "Nu", "Challenge"} {
			f := f
			mp(P, R, rule, FuncKey(vs)+":"+f, "the structure check accepts only if "+f+" is non-nil", vs, AcceptTrue(0), &MustPass{Match: func(a Atom) bool {
				return desc(a.V) == "<revocation.Proof>."+f && a.Want == NonNil
			}})
		}
	}
	// the revocation verifier runs the structure check before the contributions are computed from the proof
	if vwc := mustFunc(P, R, rule, "revocation.(*Proof).VerifyWithChallenge"); vwc != nil {
		mp(P, R, rule, FuncKey(vwc)+":structure-first", "accept => the structure check passed", vwc, AcceptTrue(0), &MustPass{Match: func(a Atom) bool {
			_, ok := callAtom(a, True, "revocation.verifyProofStructure")
			return ok
		}})
	}
	// range proofs: lengths and entries
	if vs := mustFunc(P, R, rule, "rangeproof.(*ProofStructure).VerifyProofStructure"); vs != nil {
		for _, f := range []string{"Cs", "DResponses", "VResponses"} {
			f := f
			mp(P, R, rule, FuncKey(vs)+":len("+f+")", "accept => len("+f+") equals the number of squares of the structure", vs, AcceptTrue(0), &MustPass{Match: func(a Atom) bool {
				g, ok := parseGuard(a, nil)
				if !ok || g.Kind != "int" || g.Rel != "==" {
					return false
				}
				x, y := "len(<rangeproof.Proof>."+f+")", "len(<rangeproof.ProofStructure>.cRep)"
				return (g.Subject == x && g.BoundA.String() == y) || (g.Subject == y && g.BoundA.String() == x)
			}})
			fa := &ForAll{P: P, Spec: ForAllSpec{Coll: is("<rangeproof.ProofStructure>.cRep"), Body: func(fn *ssa.Function, l *Loop) *MustPass {
				return &MustPass{Match: func(a Atom) bool { return desc(a.V) == "<rangeproof.Proof>."+f+"[#i]" && a.Want == NonNil }}
			}}}
			m := fa.inFn(vs, AcceptTrue(0))
			R.decide(rule, FuncKey(vs)+":"+f+"[i]!=nil", "accept => every entry of "+f+" is non-nil", m.holds, m.detail, P.Pos(vs.Pos()))
		}
		for _, f := range []string{"V5Response", "MResponse"} {
			f := f
			mp(P, R, rule, FuncKey(vs)+":"+f, "accept => "+f+" is non-nil", vs, AcceptTrue(0), &MustPass{Match: func(a Atom) bool {
				return desc(a.V) == "<rangeproof.Proof>."+f && a.Want == NonNil
			}})
		}
	}
}

// nilArithmeticRule: see C08.f.
func nilArithmeticRule(P *Program, R *Report, rule string) {
	fns := P.reachableFuncs(c08Entries(P)...)
	n := 0
	for _, fn := range fns {
		if fn.Blocks == nil || isBigWrapperFn(fn) {
			continue
		}
		for _, ci := range callsIn(fn) {
			c, ok := ci.(*ssa.Call)
			if !ok {
				continue
			}
			m := bigMethod(c)
			if m != "ModInverse" && m != "ModSqrt" {
				continue
			}
			var uses []ssa.Instruction
			for _, r := range referrersOf(c) {
				switch u := r.(type) {
				case *ssa.DebugRef:
				case *ssa.BinOp:
					if (u.Op == token.EQL || u.Op == token.NEQ) && (isNilConst(u.X) || isNilConst(u.Y)) {
						continue // the nil test itself
					}
					uses = append(uses, u)
				default:
					uses = append(uses, r)
				}
			}
			if len(uses) == 0 {
				continue // result discarded (in-place form)
			}
			n++
			ok = true
			var why []string
			for _, u := range uses {
				q := &MustPass{P: P, NoInterproc: true, Match: func(a Atom) bool { return a.V == ssa.Value(c) && a.Want == NonNil }}
				if r := q.MustReach(fn, u); !r.Holds {
					ok = false
					why = append(why, "used at "+P.Pos(u.Pos())+" without a nil test: "+r.Path)
				}
			}
			R.seen(FuncKey(fn))
			R.decide(rule, fmt.Sprintf("%s:%s-result#%d", FuncKey(fn), m, n), "the result of "+m+" (nil if there is none) is nil-tested before it is used", ok, strings.Join(why, "\n"), P.Pos(c.Pos()))
		}
	}
	R.decide(rule, "sites:count", "uses of ModInverse/ModSqrt results on the verification paths were found (>= 1)", n >= 1, fmt.Sprintf("%d", n), "")
}

// errorResultsUsedRule: in the functions selected by scope, the error a call returns is looked at: the error
// result is extracted and has a use (a nil test, a return, an argument) - an error that is assigned and then
// overwritten or left behind is dropped, and the values that came with it are used although they are not valid
// (nil integers after a failed generator or decoder). Explicitly blank results (`x, _ := f()`) are tabled.
var errBlankOK = map[string]string{
	"common.Close:invoke:io.Closer.Close":        "closing a reader after its content was read; nothing depends on the outcome",
	"common.IntHashSha256:invoke:hash.Hash.Write": "hash.Hash.Write never returns an error (documented)",
}

// inFiles: scope by the file a function is written in (path suffixes relative to the module root).
func inFiles(P *Program, suffixes ...string) func(fn *ssa.Function) bool {
	return func(fn *ssa.Function) bool {
		pos := P.Pos(fn.Pos())
		if i := strings.LastIndex(pos, ":"); i >= 0 {
			pos = pos[:i]
		}
		for _, s := range suffixes {
			if pos == s || (strings.HasSuffix(s, "/") && strings.HasPrefix(pos, s)) {
				return true
			}
		}
		return false
	}
}

func errorResultsUsedRule(P *Program, R *Report, rule string, scope func(fn *ssa.Function) bool, callee func(name string) bool, floor int) {
	blankOK := errBlankOK
	n := 0
	for _, fn := range P.AllFuncs {
		if fn.Blocks == nil || !inModuleFn(fn) || strings.HasSuffix(P.Pos(fn.Pos()), "_test.go") || !scope(fn) {
			continue
		}
		k := 0
		for _, ci := range callsIn(fn) {
			c, ok := ci.(*ssa.Call)
			if !ok {
				continue
			}
			res := c.Call.Signature().Results()
			ei := -1
			for i := 0; i < res.Len(); i++ {
				if isErrorType(res.At(i).Type()) {
					ei = i
				}
			}
			if ei < 0 || (callee != nil && !callee(calleeName(c))) {
				continue
			}
			n++
			used, extracted := false, false
			_ = extracted
			if res.Len() == 1 {
				extracted = true
				for _, r := range referrersOf(c) {
					if _, dbg := r.(*ssa.DebugRef); !dbg {
						used = true
					}
				}
			} else {
				for _, r := range referrersOf(c) {
					if ex, isEx := r.(*ssa.Extract); isEx && ex.Index == ei {
						extracted = true
						for _, rr := range referrersOf(ex) {
							if _, dbg := rr.(*ssa.DebugRef); !dbg {
								used = true
							}
						}
					}
				}
			}
			if used {
				continue
			}
			k++
			key := fmt.Sprintf("%s:error-of(%s)#%d", FuncKey(ownerOf(P, fn)), calleeName(c), k)
			{
				if why, ok := blankOK[FuncKey(ownerOf(P, fn))+":"+calleeName(c)]; ok {
					R.ok(rule, key, "the error is deliberately not looked at: "+why)
					continue
				}
			}
			R.seen(FuncKey(fn))
			R.bad(rule, key, "the error returned by the call is looked at before it is overwritten or left behind", "error result of "+calleeName(c)+" has no use", P.Pos(c.Pos()))
		}
	}
	R.decide(rule, "sites:count", fmt.Sprintf("calls with an error result were found (>= %d)", floor), n >= floor, fmt.Sprintf("%d", n), "")
}

// paramNilGuarded: every dereference of the pointer parameter p of g - a field access, a call outside the
// module that receives it - comes after a nil test of p; calls inside the module are followed (depth 3).
func paramNilGuarded(P *Program, g *ssa.Function, p *ssa.Parameter, depth int) (bool, string) {
	if depth > 3 {
		return false, "call chain too deep at " + FuncKey(g)
	}
	guarded := func(at ssa.Instruction) (bool, string) {
		q := &MustPass{P: P, NoInterproc: true, Match: func(a Atom) bool { return a.V == ssa.Value(p) && a.Want == NonNil }}
		r := q.MustReach(g, at)
		return r.Holds, r.Path
	}
	n := 0
	for _, u := range referrersOf(p) {
		switch u := u.(type) {
		case *ssa.DebugRef:
		case *ssa.BinOp:
			if (u.Op == token.EQL || u.Op == token.NEQ) && (isNilConst(u.X) || isNilConst(u.Y)) {
				continue
			}
			return false, "used at " + P.Pos(u.Pos())
		case ssa.CallInstruction:
			n++
			if h := staticCallee(u); h != nil && h.Blocks != nil && inModuleFn(h) {
				for k, a := range u.Common().Args {
					if a == ssa.Value(p) && k < len(h.Params) {
						if ok, _ := guarded(u); ok {
							continue
						}
						if ok, w := paramNilGuarded(P, h, h.Params[k], depth+1); !ok {
							return false, w
						}
					}
				}
				continue
			}
			if ok, w := guarded(u); !ok {
				return false, "handed to " + calleeName(u) + " at " + P.Pos(u.Pos()) + " without a nil test: " + w
			}
		case *ssa.FieldAddr, *ssa.UnOp:
			n++
			if ok, w := guarded(u); !ok {
				return false, "dereferenced at " + P.Pos(u.Pos()) + " without a nil test: " + w
			}
		default:
			return false, "used at " + P.Pos(u.Pos()) + " in a way that is not followed"
		}
	}
	return true, ""
}

// rememberedValuesRule: see C08.j.
func rememberedValuesRule(P *Program, R *Report, rule string) {
	n := 0
	for _, fn := range P.reachableFuncs(c08Entries(P)...) {
		if fn.Blocks == nil || !inModuleFn(fn) {
			continue
		}
		allInstrs(fn, func(i ssa.Instruction) {
			mu, ok := i.(*ssa.MapUpdate)
			if !ok || !isBigIntPtr(mu.Value.Type()) {
				return
			}
			if _, local := mu.Map.(*ssa.MakeMap); !local {
				return
			}
			// values the function made itself are not nil
			switch v := mu.Value.(type) {
			case *ssa.Alloc:
				return
			case *ssa.Call:
				if bigMethod(v) != "" || isCallTo(v, "math/big.NewInt", "big.NewInt") {
					return
				}
			}
			n++
			q := &MustPass{P: P, NoInterproc: true, Match: func(a Atom) bool { return a.V == mu.Value && a.Want == NonNil }}
			r := q.MustReach(fn, mu)
			R.seen(FuncKey(fn))
			R.decide(rule, fmt.Sprintf("%s:remembered(%s)", FuncKey(fn), desc(mu.Value)), "the value stored in the local map was nil-tested before", r.Holds, r.Path, P.Pos(mu.Pos()))
		})
	}
	R.decide(rule, "sites:count", "stores of proof values into local maps were counted", n >= 0, fmt.Sprintf("%d", n), "")
}
