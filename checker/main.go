package main

import (
	"flag"
	"fmt"
	"os"
	"sort"
	"strings"
	"time"

	"golang.org/x/tools/go/ssa"
)

func main() {
	var (
		repo     = flag.String("repo", "/repo", "directory of the gabi working tree to analyse")
		prop     = flag.String("prop", "", "property id (C01..C20) or 'all'")
		tier     = flag.String("tier", "quick", "quick|thorough")
		evDir    = flag.String("evidence", "/verif/evidence", "evidence output directory ('' = none)")
		findings = flag.String("findings", "/verif/known_findings.json", "known findings file")
		dump     = flag.String("dump", "", "debug: funcs | ssa:<funckey>")
		only     = flag.String("only", "", "replay: path to a violations file; re-evaluate only those obligations")
		expect   = flag.String("expect", "", "self-test: comma list of obligation ids expected to be violated (exit 0 iff all are)")
		goos     = flag.String("goos", "", "GOOS override")
		goarch   = flag.String("goarch", "", "GOARCH override")
	)
	flag.Parse()
	start := time.Now()
	// go/packages shells out to `go`; /repo/go.mod needs go >= 1.26.4, the default go is older.
	if _, err := os.Stat("/opt/veriftools/go1.26.8/bin/go"); err == nil {
		os.Setenv("PATH", "/opt/veriftools/go1.26.8/bin:"+os.Getenv("PATH"))
	}

	switch *goarch {
	case "386", "arm", "mips", "mipsle", "wasm":
		analysedIntSize = 32
	}
	P, err := Load(*repo, *goos, *goarch)
	if err != nil {
		if *prop != "" && *dump == "" {
			failAll(*prop, *tier, *evDir, "load-failure", err.Error(), start)
			os.Exit(1)
		}
		fmt.Fprintln(os.Stderr, "load:", err)
		os.Exit(2)
	}

	if *dump != "" {
		doDump(P, *dump)
		return
	}
	if *prop == "" {
		fmt.Fprintln(os.Stderr, "need -prop")
		os.Exit(2)
	}
	props := []string{*prop}
	if *prop == "all" {
		props = nil
		for id := range registry {
			props = append(props, id)
		}
		sort.Strings(props)
	}
	kf, err := loadFindings(*findings)
	if err != nil {
		fmt.Fprintln(os.Stderr, "findings:", err)
		os.Exit(2)
	}
	exit := 0
	for _, id := range props {
		rules, ok := registry[id]
		if !ok {
			fmt.Fprintf(os.Stderr, "unknown property %s\n", id)
			os.Exit(2)
		}
		t0 := time.Now()
		R := newReport(id, *tier, P)
		R.onlyFilter = loadOnly(*only)
		runRules(P, R, rules)
		R.applyFindings(kf)
		if *expect != "" {
			// self-test mode: do not write evidence; succeed iff expected obligations are violated
			missing := R.checkExpected(strings.Split(*expect, ","))
			if len(missing) > 0 {
				fmt.Printf("SELFTEST-MISS property=%s missing=%s\n", id, strings.Join(missing, ","))
				exit = 1
			} else {
				fmt.Printf("SELFTEST-OK property=%s caught=%s\n", id, *expect)
			}
			R.printViolations(os.Stdout)
			continue
		}
		if R.finish(*evDir, time.Since(t0)+time.Duration(0)) {
			exit = 1
		}
	}
	os.Exit(exit)
}

func doDump(P *Program, what string) {
	switch {
	case what == "funcs":
		keys := make([]string, 0, len(P.Funcs))
		for k := range P.Funcs {
			keys = append(keys, k)
		}
		sort.Strings(keys)
		for _, k := range keys {
			fmt.Println(k, P.Pos(P.Funcs[k].Pos()))
		}
		fmt.Println(len(keys), "functions;", len(P.AllFuncs), "incl. anonymous")
	case strings.HasPrefix(what, "terms:"):
		f := P.Func(strings.TrimPrefix(what, "terms:"))
		if f == nil {
			fmt.Println("no such function")
			return
		}
		be := P.bigEval(f)
		for _, c := range callsIn(f) {
			call, ok := c.(*ssa.Call)
			if !ok {
				continue
			}
			if ts, ok := be.At[call]; ok {
				var ss []string
				for _, t := range ts {
					ss = append(ss, t.String())
				}
				fmt.Printf("%s %s(%s)", P.Pos(call.Pos()), calleeName(call), strings.Join(ss, " ; "))
				if r, ok := be.Ret[call]; ok {
					fmt.Printf(" => %s", r.String())
				}
				fmt.Println()
			}
		}
		for _, r := range returnsOf(f) {
			for v, t := range be.Use[r] {
				fmt.Printf("return@%s %s = %s\n", P.Pos(r.Pos()), desc(v), t.String())
			}
		}
	case what == "inplace":
		// debug: in-place big.Int mutations whose receiver is not created in the same function
		for _, fn := range P.AllFuncs {
			if fn.Blocks == nil {
				continue
			}
			allInstrs(fn, func(i ssa.Instruction) {
				c, ok := i.(*ssa.Call)
				if !ok {
					return
				}
				m := bigMethod(c)
				if m == "" || !bigMutators[m] || len(callArgs(c)) == 0 {
					return
				}
				site := siteOf(callArgs(c)[0])
				switch x := site.(type) {
				case *ssa.Alloc:
					return
				case *ssa.Call:
					if isCallTo(x, "big.NewInt") || bigMethod(x) != "" {
						return
					}
				}
				fmt.Printf("%-60s %s.%s   [%T] @%s\n", FuncKey(fn), desc(callArgs(c)[0]), m, site, P.Pos(c.Pos()))
			})
		}
	case what == "headfields":
		dumpHeadFields(P)
	case what == "headparams":
		dumpHeadParams(P)
	case what == "headglobals":
		dumpHeadGlobals(P)
	case what == "headtypes":
		dumpHeadTypes(P)
	case what == "headfuncs":
		dumpHeadFuncs(P)
	case what == "rejtable":
		// prints the reasons of all verification trees in the format of rejections_table.txt (for review, not used at run time)
		var names []string
		for n := range rejTrees {
			names = append(names, n)
		}
		sort.Strings(names)
		for _, n := range names {
			reasons, missing := treeReasons(P, n)
			for _, m := range missing {
				fmt.Fprintln(os.Stderr, "missing root", m)
			}
			seen := map[string]bool{}
			fmt.Printf("# tree %s: roots %s\n", n, strings.Join(rejTrees[n], ", "))
			for _, r := range reasons {
				k := r.kind + "\t" + r.text
				if seen[k] {
					continue
				}
				seen[k] = true
				fmt.Printf("%s\t%s\t%s\n", n, r.kind, r.text)
			}
		}
	case strings.HasPrefix(what, "rejects:"):
		// debug: list the rejecting branches of a function (bool verdict at result 0, or error at the last result)
		f := P.Func(strings.TrimPrefix(what, "rejects:"))
		if f == nil {
			fmt.Println("no such function")
			return
		}
		var reasons []rejReason
		collectRejections(P, f, 0, map[string]bool{}, &reasons)
		for _, r := range reasons {
			fmt.Printf("%-55s %-6s %s   @%s\n", r.fn, r.kind, r.text, r.pos)
		}
	case strings.HasPrefix(what, "ssa:"):
		f := P.Func(strings.TrimPrefix(what, "ssa:"))
		if f == nil {
			fmt.Println("no such function")
			return
		}
		f.WriteTo(os.Stdout)
		for _, a := range f.AnonFuncs {
			a.WriteTo(os.Stdout)
		}
	}
}
